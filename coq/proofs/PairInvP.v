(* proofs/PairInvP.v — C04, part 3: the invariant of the two-endpoint system (Pair.v) and one scheduled
   action.

   Ghost state: for each side the list of frames it has queued so far (as they go on the wire) and
   the number of the peer's frames it has consumed.  Stream invariant, per direction: the bytes held by
   the reader's codec, then the bytes in flight, then the bytes still in the writer's out_buffer are
   exactly the encoding of the frames not yet consumed. *)
From TungModel Require Import Base Coding Mask Header Frame Utf8 World Message Codec Protocol Pair.
From TungModel.proofs Require Import HeaderP MaskP CodecReadP WritePathP CloseP PairCodecP PairStepP.
From Coq Require Import Arith Lia ZifyBool ZifyNat ZifyN.

Arguments N.add : simpl never.
Arguments N.mul : simpl never.
Arguments N.sub : simpl never.
Arguments N.div : simpl never.
Arguments N.modulo : simpl never.
Arguments N.ltb : simpl never.
Arguments N.leb : simpl never.
Arguments N.eqb : simpl never.
Arguments N.min : simpl never.
Arguments N.of_nat : simpl never.
Arguments N.to_nat : simpl never.

(* ------------------------------------------------------------------------------------------ *)
(** * 1. lists *)

Lemma firstn_add {A} (k j : nat) (l : list A) : firstn (k + j) l = firstn k l ++ firstn j (skipn k l).
Proof.
  revert l. induction k as [|k IH]; intros l; [reflexivity|].
  destruct l as [|a l]; [cbn; destruct j; reflexivity|]. cbn [Nat.add firstn skipn app]. rewrite IH. reflexivity.
Qed.

Lemma skipn_add {A} (k j : nat) (l : list A) : skipn (k + j) l = skipn j (skipn k l).
Proof.
  revert l. induction k as [|k IH]; intros l; [reflexivity|].
  destruct l as [|a l]; [cbn; destruct j; reflexivity|]. cbn [Nat.add skipn]. apply IH.
Qed.

Lemma skipn_nil_len {A} (k : nat) (l : list A) : skipn k l = [] -> (length l <= k)%nat.
Proof.
  revert l. induction k as [|k IH]; intros l H; [cbn in H; subst; cbn; lia|].
  destruct l as [|a l]; [cbn; lia|]. cbn in H. apply IH in H. cbn. lia.
Qed.

Lemma firstn_app_le {A} (k : nat) (l m : list A) : (k <= length l)%nat -> firstn k (l ++ m) = firstn k l.
Proof.
  intros H. rewrite firstn_app. replace (k - length l)%nat with 0%nat by lia. cbn. apply app_nil_r.
Qed.

Lemma skipn_app_le {A} (k : nat) (l m : list A) : (k <= length l)%nat -> skipn k (l ++ m) = skipn k l ++ m.
Proof.
  intros H. rewrite skipn_app. replace (k - length l)%nat with 0%nat by lia. reflexivity.
Qed.

Lemma existsb_firstn_mono {A} (f : A -> bool) (k j : nat) (l : list A) :
  existsb f (firstn k l) = true -> existsb f (firstn (k + j) l) = true.
Proof. intros H. rewrite firstn_add, existsb_app, H. reflexivity. Qed.

(* ------------------------------------------------------------------------------------------ *)
(** * 2. the Close frame is the last one *)

Lemma isclose_opc f : isclose f = true <-> opc f = OCtl Close.
Proof.
  unfold isclose, opc. destruct (h_opcode (f_hdr f)) as [d|[| | |i]]; split; intros H; try discriminate H; reflexivity.
Qed.

Lemma noclose_existsb q : noclose q -> existsb isclose q = false.
Proof.
  induction 1 as [|f q Hf _ IH]; [reflexivity|]. cbn [existsb]. rewrite IH.
  destruct (isclose f) eqn:E; [|reflexivity]. apply isclose_opc in E. contradiction.
Qed.

Lemma noclose_firstn k q : noclose q -> noclose (firstn k q).
Proof. intros H. rewrite <- (firstn_skipn k q) in H. apply noclose_app in H. tauto. Qed.

Lemma endclose_existsb q : endclose q -> existsb isclose q = true.
Proof.
  intros [pre [c [-> [Hc _]]]]. rewrite existsb_app. cbn [existsb].
  apply isclose_opc in Hc. rewrite Hc. rewrite Bool.orb_true_r. reflexivity.
Qed.

(* once the Close of a queue has been consumed, nothing is left *)
Lemma close_consumed_all s a h k :
  QP s a h -> existsb isclose (firstn k h) = true -> skipn k h = [].
Proof.
  intros HQ He. destruct (QP_shape _ _ _ HQ) as [Hn|[pre [c [-> [Hc Hn]]]]].
  - rewrite (noclose_existsb _ (noclose_firstn k _ Hn)) in He. discriminate He.
  - destruct (Nat.le_gt_cases k (length pre)) as [Hk|Hk].
    + rewrite firstn_app_le in He by exact Hk.
      rewrite (noclose_existsb _ (noclose_firstn k _ Hn)) in He. discriminate He.
    + apply skipn_all2. rewrite app_length. cbn [length]. lia.
Qed.

(* nothing is queued after a Close *)
Lemma close_final s a h nf :
  existsb isclose h = true -> QP s a (h ++ nf) -> nf = [].
Proof.
  intros He HQ. destruct nf as [|f nf]; [reflexivity|]. exfalso.
  destruct (QP_shape _ _ _ HQ) as [Hn|[pre [c [E [Hc Hn]]]]].
  - apply noclose_app in Hn. rewrite (noclose_existsb _ (proj1 Hn)) in He. discriminate He.
  - assert (Hh : exists more, pre = h ++ more).
    { destruct (f :: nf) as [|g l] eqn:El using rev_ind; [discriminate El|]. clear IHl.
      rewrite app_assoc in E. apply app_inj_tail in E. destruct E as [E _]. eauto. }
    destruct Hh as [more ->]. apply noclose_app in Hn. rewrite (noclose_existsb _ (proj1 Hn)) in He.
    discriminate He.
Qed.

(* ------------------------------------------------------------------------------------------ *)
(** * 3. the scheduler's read oracle *)

Lemma takeN_pos_cons {A} (n : N) (b : A) (l : list A) : 0 < n -> exists t, takeN n (b :: l) = b :: t.
Proof.
  intros H. unfold takeN. destruct (N.to_nat n) eqn:E; [lia|]. cbn. eauto.
Qed.

Lemma chunks_of_spec sizes : forall inbox data rest,
  chunks_of inbox sizes = (data, rest) ->
  grds data /\ ~ In RdEof data /\ rdata data ++ rest = inbox.
Proof.
  induction sizes as [|n r IH]; intros inbox data rest H; cbn [chunks_of] in H.
  - inv H. cbn. auto.
  - destruct inbox as [|b l]; [inv H; cbn; auto|].
    destruct (n =? 0) eqn:E0; [apply IH; exact H|].
    set (n' := N.min n (blen (b :: l))) in *.
    destruct (chunks_of (dropN n' (b :: l)) r) as [cs rest0] eqn:EC. inv H.
    apply IH in EC. destruct EC as [Hg [Hn Hd]].
    assert (Hpos : 0 < n') by (unfold n'; rewrite HeaderP.blen_cons; lia).
    destruct (takeN_pos_cons n' b l Hpos) as [t Ht]. rewrite Ht. cbn [grds rdata]. splits.
    + exact Hg.
    + intros [X|X]; [discriminate X|exact (Hn X)].
    + rewrite <- Ht, <- app_assoc, Hd. apply WritePathP.takeN_dropN.
Qed.

Lemma grds_app_tail data tail :
  grds data -> ~ In RdEof data -> tail = [] \/ tail = [RdEof] -> grds (data ++ tail).
Proof.
  intros Hg Hn Ht. induction data as [|o r IH].
  - destruct Ht as [-> | ->]; exact I.
  - destruct o as [[|b bs]| |k]; cbn [grds] in Hg; try contradiction.
    + cbn [app grds]. apply IH; [exact Hg|]. intros X. apply Hn. right. exact X.
    + exfalso. apply Hn. left. reflexivity.
Qed.

Lemma rd_total_rdata rds : rd_total rds = blen (rdata rds).
Proof.
  induction rds as [|o r IH]; [reflexivity|]. destruct o; cbn [rd_total rdata]; rewrite IH; try reflexivity.
  rewrite HeaderP.blen_app. reflexivity.
Qed.

Lemma consumed_drop p rds' rest :
  dropN (rd_total (p ++ rds') - rd_total rds') (rdata (p ++ rds') ++ rest) = rdata rds' ++ rest.
Proof.
  rewrite !rd_total_rdata, rdata_app, HeaderP.blen_app, <- app_assoc.
  replace (blen (rdata p) + blen (rdata rds') - blen (rdata rds')) with (blen (rdata p)) by lia.
  apply WritePathP.dropN_app_blen.
Qed.

Lemma in_eof_app data tail : ~ In RdEof data -> In RdEof (data ++ tail) -> In RdEof tail.
Proof. intros Hn H. apply in_app_or in H. destruct H; [contradiction|assumption]. Qed.

(* ------------------------------------------------------------------------------------------ *)
(** * 4. the invariant of one endpoint (symmetric part) *)

Definition opp (r : role) : role := match r with Server => Client | Client => Server end.

Lemma sender_opp r : sender_of r = opp r.
Proof. destruct r; reflexivity. Qed.

Definition cx (e : endpoint) : ctx := e_ctx e.
Definition outb (e : endpoint) : bytes := c_out (x_codec (e_ctx e)).

Record EPI (r : role) (me pe : endpoint) (hme hpe : list frame) (k : nat) : Prop := mkEPI {
  epi_ei : EI r (cx me);
  epi_qp : QP (x_state (cx me)) (x_additional (cx me)) hme;
  epi_pend : x_state (cx me) = Terminated -> existsb isclose (firstn k hpe) = true ->
             Pend (x_additional (cx me)) hme;
  epi_crs : crs (x_state (cx me)) (existsb isclose (firstn k hpe));
  epi_k : (k <= length hpe)%nat;
  epi_at : e_dropped me = false ->
           codec_at (x_codec (cx me)) (e_inbox me ++ outb pe) (skipn k hpe);
  epi_frames : Forall okc hme /\ Forall (mask_ok r) hme;
  epi_told : e_told me = true -> x_state (cx me) = Terminated;
  epi_term : x_state (cx me) = Terminated -> e_told me = true }.

(* what one scheduled call on [me] establishes *)
Definition fair_oracle (wrs : list wr_out) (fls : list fl_out) : Prop :=
  wrs = accept_all /\ fls = [FlOk; FlOk].

Lemma fair_oracle_fairw wrs fls rds keys : fair_oracle wrs fls -> fairw (mkWorld rds wrs fls keys []).
Proof.
  intros [-> ->]. unfold fairw, wgood, accept_all. cbn [w_wrs w_fls repeat length].
  splits; try lia; repeat constructor; cbn; unfold u64_max; lia.
Qed.

Record step_out (r : role) (me pe : endpoint) (hme hpe : list frame) (kme : nat) (o : op) (chunks : list N)
                (wrs : list wr_out) (fls : list fl_out)
                (res : op_result) (me' pe' : endpoint) (nf : list frame) (j : nat) : Prop := mkStepOut {
  so_dropped : e_dropped me' = false /\ e_dropped pe' = e_dropped pe;
  so_told : e_told me' = e_told me || is_cc res /\ e_told pe' = e_told pe;
  so_pe : e_ctx pe' = e_ctx pe /\ e_keys pe' = e_keys pe;
  so_clean : res_clean o res /\ res_total res;
  so_dres : dres res = concat (map fdata (firstn j (skipn kme hpe)));
  so_acc : accepted o res = concat (map fdata nf);
  so_gotc : gotc res = existsb isclose (firstn j (skipn kme hpe));
  so_j : (j <= 1)%nat;
  so_cc : is_cc res = true ->
          closing_done (x_state (cx me)) = true /\
          (r = Server -> outb me' = [] /\ x_additional (cx me') = None) /\
          (r = Client -> e_dropped pe = true /\ skipn (kme + j) hpe = []);
  so_idle : x_state (cx me) = Terminated -> x_additional (cx me) = None ->
            nf = [] /\ x_additional (cx me') = None /\ (outb me = [] -> outb me' = []);
  so_flush : (o = OpFlush \/ exists c, o = OpClose c) -> res = ResUnit (ROk tt) -> outb me' = [];
  so_state : x_state (cx me) <> Active -> x_state (cx me') <> Active;
  so_read : o = OpRead ->
            (exists m, res = ResMsg (ROk m) /\ j = 1%nat) \/
            (j = 0%nat /\ (res = ResMsg (RErr wb) \/ res = ResMsg (RErr EConnectionClosed) \/
                           (res = ResMsg (RErr EAlreadyClosed) /\ x_state (cx me) = Terminated)));
  so_block : res = ResMsg (RErr wb) ->
             x_state (cx me') = x_state (cx me) /\
             ((r = Server /\ closing_done (x_state (cx me)) = true) \/
              (exists data, chunks_of (e_inbox me) chunks = (data, e_inbox me') /\
                            (e_dropped pe = true -> e_inbox me' <> []) /\
                            (skipn kme hpe = [] \/ e_inbox me' ++ outb pe <> [])));
  so_inbox : (length (e_inbox me') <= length (e_inbox me))%nat;
  so_count : o = OpRead \/ o = OpFlush ->
             (length nf + bsome (x_additional (cx me')) <= bsome (x_additional (cx me)) + j)%nat;
  so_fair_flush : fair_oracle wrs fls -> o = OpFlush ->
                  outb me' = [] /\
                  (outb me = [] ->
                   x_additional (cx me') = None /\
                   (r = Server -> closing_done (x_state (cx me)) = true -> is_cc res = true));
  so_fair_read : fair_oracle wrs fls -> o = OpRead -> outb me = [] -> x_state (cx me) <> Terminated ->
                 outb me' = [] /\ (j = 0%nat -> x_additional (cx me') = None) /\
                 (r = Server -> closing_done (x_state (cx me)) = true -> is_cc res = true) /\
                 (forall f, x_additional (cx me) = Some f ->
                            exists f1 rest, nf = f1 :: rest /\ isclose f1 = isclose f) }.

Lemma is_closed_res_cc r : is_closed_res r = is_cc r.
Proof. destruct r as [[m|e|p|]|[u|e|p|]|b]; reflexivity. Qed.

Lemma rdata_tail (b : bool) (rest : bytes) :
  rdata (match rest with [] => if b then [RdEof] else [] | _ => [] end) = [].
Proof. destruct rest; [destruct b|]; reflexivity. Qed.

Lemma crs_closed s : crs s true -> closing_done s = true \/ s = Terminated.
Proof. destruct s; cbn; intros H; try discriminate H; auto. Qed.

Lemma crs_can_read s cr : crs s cr -> s <> Terminated -> can_read s = false -> cr = true.
Proof. destruct s; cbn; intros H Hn Hc; try discriminate Hc; auto; contradiction. Qed.

Theorem do_on_inv r me pe hme hpe kme kpe o chunks wrs fls res me' pe' lg :
  EPI r me pe hme hpe kme -> EPI (opp r) pe me hpe hme kpe ->
  e_dropped me = false ->
  (e_dropped pe = true -> r = Client /\ outb pe = [] /\ existsb isclose hpe = true) ->
  uop_ok o -> Forall soft_wr wrs -> Forall soft_fl fls ->
  do_on me pe o chunks wrs fls = (res, me', pe', lg) ->
  exists nf j,
    EPI r me' pe' (hme ++ nf) hpe (kme + j) /\ EPI (opp r) pe' me' hpe (hme ++ nf) kpe /\
    step_out r me pe hme hpe kme o chunks wrs fls res me' pe' nf j.
Proof.
  intros Hme Hpe Hnd Hdp Hu Hwrs Hfls. unfold do_on.
  destruct (chunks_of (e_inbox me) chunks) as [data rest] eqn:EC.
  pose proof EC as EC0.
  apply chunks_of_spec in EC. destruct EC as [Hgd [Hnd_eof Hdata]].
  set (tail := match rest with [] => if e_dropped pe then [RdEof] else [] | _ => [] end).
  assert (Htail : tail = [] \/ tail = [RdEof]).
  { unfold tail. destruct rest; [destruct (e_dropped pe)|]; auto. }
  assert (Hteof : In RdEof tail -> rest = [] /\ e_dropped pe = true).
  { unfold tail. destruct rest; [destruct (e_dropped pe)|]; cbn; intros X; try contradiction; auto. }
  set (w := mkWorld (data ++ tail) wrs fls (e_keys me) []).
  destruct (run_op (e_ctx me) o w) as [[res0 x'] w'] eqn:ER.
  intros H. injection H as <- <- <- <-. rename res0 into res.
  set (rem := skipn kme hpe).
  assert (Hokp : Forall okc hpe /\ Forall (mask_ok (opp r)) hpe) by exact (epi_frames _ _ _ _ _ _ Hpe).
  apply (op_step r (e_ctx me) o w (rest ++ outb pe) rem) in ER; auto.
  - destruct ER as [nf [j [Hos [HEI' [[evs [El [Hq Hbal]]] [HQP [Hcrs [HPend [Hgcd Hmono]]]]]]]]].
    change (w_log w) with (@nil event) in El. cbn [app] in El. subst evs.
    exists nf, j.
    destruct (os_rds _ _ _ _ _ _ _ _ _ _ _ Hos) as [[p Hp] [Hg' He']]. change (w_rds w) with (data ++ tail) in Hp.
    assert (Hinbox : dropN (rd_total (data ++ tail) - rd_total (w_rds w')) (e_inbox me) = rdata (w_rds w') ++ rest).
    { rewrite <- Hdata. replace (rdata data) with (rdata (data ++ tail)).
      - rewrite Hp. apply consumed_drop.
      - rewrite rdata_app. unfold tail. rewrite rdata_tail. apply app_nil_r. }
    assert (Hjlen : (kme + j <= length hpe)%nat).
    { destruct (os_j _ _ _ _ _ _ _ _ _ _ _ Hos) as [_ Hj]. unfold rem in Hj. rewrite skipn_length in Hj.
      pose proof (epi_k _ _ _ _ _ _ Hme). lia. }
    assert (Hcr' : existsb isclose (firstn (kme + j) hpe) = existsb isclose (firstn kme hpe) || gotc res).
    { rewrite firstn_add, existsb_app. f_equal. symmetry. exact (os_gotc _ _ _ _ _ _ _ _ _ _ _ Hos). }
    assert (Hpe_ctx : e_ctx (if e_dropped pe then pe
                             else mkEndpoint (e_ctx pe) (e_inbox pe ++ wire (w_log w')) (e_dropped pe) (e_told pe) (e_keys pe))
                      = e_ctx pe) by (destruct (e_dropped pe); reflexivity).
    split; [|split].
    + (* me *)
      constructor; unfold cx, outb; cbn [e_ctx e_inbox e_dropped e_told]; try rewrite Hpe_ctx.
      * exact HEI'.
      * apply HQP. exact (epi_qp _ _ _ _ _ _ Hme).
      * intros Ht Hc. rewrite Hcr' in Hc. destruct (gotc res) eqn:Eg.
        { specialize (Hgcd eq_refl). rewrite Ht in Hgcd. discriminate Hgcd. }
        rewrite Bool.orb_false_r in Hc.
        pose proof (epi_crs _ _ _ _ _ _ Hme) as Hc0. rewrite Hc in Hc0.
        apply HPend.
        -- intros E. unfold cx in Hc0. rewrite E in Hc0. discriminate Hc0.
        -- pose proof (epi_qp _ _ _ _ _ _ Hme) as HQ. unfold cx in *.
           destruct (x_state (e_ctx me)) eqn:Es; cbn in Hc0; try discriminate Hc0; try exact HQ.
           apply (epi_pend _ _ _ _ _ _ Hme); [exact Es|exact Hc].
      * rewrite Hcr'. apply Hcrs. exact (epi_crs _ _ _ _ _ _ Hme).
      * exact Hjlen.
      * intros _. rewrite Hinbox, <- app_assoc, skipn_add. exact (os_at _ _ _ _ _ _ _ _ _ _ _ Hos).
      * destruct (epi_frames _ _ _ _ _ _ Hme) as [A B]. destruct (os_nf _ _ _ _ _ _ _ _ _ _ _ Hos) as [C D].
        split; apply Forall_app; split; assumption.
      * rewrite is_closed_res_cc. intros Ht. apply Bool.orb_true_iff in Ht. destruct Ht as [Ht|Ht].
        -- apply (os_tkeep _ _ _ _ _ _ _ _ _ _ _ Hos). exact (epi_told _ _ _ _ _ _ Hme Ht).
        -- apply (os_cc _ _ _ _ _ _ _ _ _ _ _ Hos Ht).
      * rewrite is_closed_res_cc. intros Ht. apply Bool.orb_true_iff.
        destruct (os_term _ _ _ _ _ _ _ _ _ _ _ Hos Ht) as [X|X]; [left|right; exact X].
        exact (epi_term _ _ _ _ _ _ Hme X).
    + (* the peer *)
      pose proof (epi_k _ _ _ _ _ _ Hpe) as Hk.
      constructor; unfold cx, outb; cbn [e_ctx e_inbox e_dropped e_told]; try rewrite Hpe_ctx;
        try rewrite (firstn_app_le kpe hme nf Hk).
      * exact (epi_ei _ _ _ _ _ _ Hpe).
      * exact (epi_qp _ _ _ _ _ _ Hpe).
      * exact (epi_pend _ _ _ _ _ _ Hpe).
      * exact (epi_crs _ _ _ _ _ _ Hpe).
      * rewrite app_length. lia.
      * destruct (e_dropped pe) eqn:Ed; [intros X; rewrite Ed in X; discriminate X|].
        cbn [e_dropped e_inbox]. intros _.
        rewrite (skipn_app_le kpe hme nf Hk), <- app_assoc, <- Hbal, app_assoc.
        apply codec_at_app. apply (epi_at _ _ _ _ _ _ Hpe Ed).
      * exact Hokp.
      * destruct (e_dropped pe); exact (epi_told _ _ _ _ _ _ Hpe).
      * destruct (e_dropped pe); exact (epi_term _ _ _ _ _ _ Hpe).
    + (* the step *)
      constructor; unfold cx, outb; cbn [e_ctx e_inbox e_dropped e_told e_keys].
      * split; [exact Hnd|destruct (e_dropped pe) eqn:Ed; [exact Ed|reflexivity]].
      * rewrite is_closed_res_cc. split; [reflexivity|destruct (e_dropped pe); reflexivity].
      * destruct (e_dropped pe); split; reflexivity.
      * exact (os_clean _ _ _ _ _ _ _ _ _ _ _ Hos).
      * exact (os_dres _ _ _ _ _ _ _ _ _ _ _ Hos).
      * exact (os_acc _ _ _ _ _ _ _ _ _ _ _ Hos).
      * exact (os_gotc _ _ _ _ _ _ _ _ _ _ _ Hos).
      * apply (os_j _ _ _ _ _ _ _ _ _ _ _ Hos).
      * intros Hc. destruct (os_cc _ _ _ _ _ _ _ _ _ _ _ Hos Hc) as [A [B [C D]]]. splits; auto.
        intros E. destruct (D E) as [D1 D2]. change (w_rds w) with (data ++ tail) in D1.
        apply in_eof_app in D1; [|exact Hnd_eof]. destruct (Hteof D1) as [_ Hdp']. split; [exact Hdp'|].
        rewrite skipn_add. exact D2.
      * intros Ht Ha. destruct (os_idle _ _ _ _ _ _ _ _ _ _ _ Hos Ha (or_intror Ht)) as [-> Ha'].
        splits; auto. intros Ho. rewrite Ho in Hbal. cbn [enc map concat app] in Hbal.
        symmetry in Hbal. apply app_eq_nil in Hbal. tauto.
      * intros Ho Hr. apply (os_ok _ _ _ _ _ _ _ _ _ _ _ Hos Hr Ho).
      * exact Hmono.
      * exact (os_read _ _ _ _ _ _ _ _ _ _ _ Hos).
      * intros Hr. destruct (os_block _ _ _ _ _ _ _ _ _ _ _ Hos Hr) as [A [B|[B [Hne C]]]].
        -- split; [exact A|left; exact B].
        -- split; [exact A|right]. exists data. rewrite Hinbox, B. cbn [rdata app].
           split; [exact EC0|]. split; [|exact C].
           intros Hd Hr0. apply Hne. change (w_rds w) with (data ++ tail). apply in_or_app. right.
           unfold tail. rewrite Hr0, Hd. left. reflexivity.
      * rewrite Hinbox, <- Hdata. replace (rdata data) with (rdata (data ++ tail)).
        -- rewrite Hp, rdata_app, !app_length. lia.
        -- rewrite rdata_app. unfold tail. rewrite rdata_tail. apply app_nil_r.
      * exact (os_count _ _ _ _ _ _ _ _ _ _ _ Hos).
      * intros Hf. apply (os_fair_flush _ _ _ _ _ _ _ _ _ _ _ Hos). apply fair_oracle_fairw. exact Hf.
      * intros Hf. apply (os_fair_read _ _ _ _ _ _ _ _ _ _ _ Hos). apply fair_oracle_fairw. exact Hf.
  - exact (epi_ei _ _ _ _ _ _ Hme).
  - split; assumption.
  - change (w_rds w) with (data ++ tail). apply grds_app_tail; assumption.
  - change (w_rds w) with (data ++ tail). rewrite rdata_app. unfold tail. rewrite rdata_tail, app_nil_r, app_assoc, Hdata.
    exact (epi_at _ _ _ _ _ _ Hme Hnd).
  - unfold rem. apply Forall_skipn. apply Hokp.
  - unfold rem. rewrite sender_opp. apply Forall_skipn. apply Hokp.
  - change (w_rds w) with (data ++ tail). intros X. apply in_eof_app in X; [|exact Hnd_eof].
    destruct (Hteof X) as [-> Hd]. destruct (Hdp Hd) as [A [B C]].
    split; [exact A|split; [rewrite B; reflexivity|]].
    intros Hrem. unfold rem in Hrem. apply skipn_nil_len in Hrem.
    pose proof (epi_k _ _ _ _ _ _ Hme) as Hk.
    pose proof (epi_crs _ _ _ _ _ _ Hme) as Hc.
    replace (firstn kme hpe) with hpe in Hc by (symmetry; apply firstn_all2; lia).
    rewrite C in Hc. apply crs_closed. exact Hc.
  - intros Hnt Hrem.
    destruct (can_read (x_state (e_ctx me))) eqn:Ecr; [reflexivity|]. exfalso. apply Hrem.
    pose proof (crs_can_read _ _ (epi_crs _ _ _ _ _ _ Hme) Hnt Ecr) as Hc.
    eapply close_consumed_all; [exact (epi_qp _ _ _ _ _ _ Hpe)|exact Hc].
Qed.

(* ------------------------------------------------------------------------------------------ *)
(** * 5. the invariant of the pair *)

Record GI (p : pair) (hc hs : list frame) (kc ks : nat) : Prop := mkGI {
  gi_c : EPI Client (p_client p) (p_server p) hc hs kc;
  gi_s : EPI Server (p_server p) (p_client p) hs hc ks;
  (* the server drops only after it was told; when told it has received the client's Close, sent
     everything (its own Close included) and holds nothing back *)
  gi_ds : e_dropped (p_server p) = true -> e_told (p_server p) = true;
  gi_ts : e_told (p_server p) = true ->
          outb (p_server p) = [] /\ x_additional (cx (p_server p)) = None /\
          existsb isclose (firstn ks hc) = true;
  (* the client is told only after the server dropped the transport *)
  gi_tc : e_told (p_client p) = true -> e_dropped (p_server p) = true;
  gi_dc : e_dropped (p_client p) = true -> e_told (p_client p) = true }.

Lemma gi_server_close p hc hs kc ks :
  GI p hc hs kc ks -> e_told (p_server p) = true -> existsb isclose hs = true.
Proof.
  intros G Ht. destruct (gi_ts _ _ _ _ _ G Ht) as [_ [Ha Hc]].
  pose proof (epi_told _ _ _ _ _ _ (gi_s _ _ _ _ _ G) Ht) as Hs.
  pose proof (epi_pend _ _ _ _ _ _ (gi_s _ _ _ _ _ G) Hs Hc) as HP.
  rewrite Ha in HP. cbn in HP. apply endclose_existsb. exact HP.
Qed.

(* EPI only looks at these parts of the two endpoints *)
Lemma EPI_ext r me pe me' pe' hme hpe k :
  EPI r me pe hme hpe k ->
  e_ctx me' = e_ctx me -> e_inbox me' = e_inbox me -> e_told me' = e_told me ->
  (e_dropped me' = false -> e_dropped me = false) -> e_ctx pe' = e_ctx pe ->
  EPI r me' pe' hme hpe k.
Proof.
  intros [A B C D E F G H I0] Hc Hi Ht Hd Hp.
  constructor; unfold cx, outb in *; rewrite ?Hc, ?Hi, ?Ht, ?Hp; auto.
Qed.

(* the schedules: user operations within the documented contract, a transport whose write side is
   soft (accepts at least a byte or answers WouldBlock; flush succeeds or answers WouldBlock) *)
Definition act_ok (a : paction) : Prop :=
  match a with
  | PDo _ o _ wrs fls => uop_ok o /\ Forall soft_wr wrs /\ Forall soft_fl fls
  | PDrop _ => True
  end.

(* what an item of the trace says *)
Definition fd (h : list frame) : list message := concat (map fdata h).
Definition it_acc (sd : role) (it : pres_item) : list message :=
  match it with PRes sd' o r => if role_eqb sd sd' then accepted o r else [] | _ => [] end.
Definition it_del (sd : role) (it : pres_item) : list message :=
  match it with PRes sd' o r => if role_eqb sd sd' then dres r else [] | _ => [] end.
Definition it_cc (sd : role) (it : pres_item) : bool :=
  match it with PRes sd' o r => role_eqb sd sd' && is_cc r | _ => false end.
Definition it_gotc (sd : role) (it : pres_item) : bool :=
  match it with PRes sd' o r => role_eqb sd sd' && gotc r | _ => false end.
Definition it_drop (sd : role) (it : pres_item) : bool :=
  match it with PDropped sd' => role_eqb sd sd' | _ => false end.
Definition it_clean (it : pres_item) : Prop :=
  match it with PRes _ o r => res_clean o r /\ res_total r | _ => True end.

Lemma fd_app a b : fd (a ++ b) = fd a ++ fd b.
Proof. unfold fd. rewrite map_app, concat_app. reflexivity. Qed.

Lemma fd_firstn_add k j h : fd (firstn (k + j) h) = fd (firstn k h) ++ fd (firstn j (skipn k h)).
Proof. rewrite firstn_add. apply fd_app. Qed.

(* role-indexed access *)
Definition ep (p : pair) (sd : role) : endpoint := match sd with Client => p_client p | Server => p_server p end.
Definition hof (sd : role) (hc hs : list frame) : list frame := match sd with Client => hc | Server => hs end.
Definition kof (sd : role) (kc ks : nat) : nat := match sd with Client => kc | Server => ks end.

Lemma GI_epi sd p hc hs kc ks : GI p hc hs kc ks ->
  EPI sd (ep p sd) (ep p (opp sd)) (hof sd hc hs) (hof (opp sd) hc hs) (kof sd kc ks).
Proof. intros G. destruct sd; [exact (gi_s _ _ _ _ _ G)|exact (gi_c _ _ _ _ _ G)]. Qed.

(* one action: the invariant is kept; the item emitted accounts for the frames queued / consumed *)
Record pstep_out (p : pair) (hc hs : list frame) (kc ks : nat) (a : paction) (it : pres_item) (p' : pair)
                 (hc' hs' : list frame) (kc' ks' : nat) : Prop := mkPstepOut {
  po_step : forall sd o r, it = PRes sd o r ->
            exists ch wrs fls nf j,
              a = PDo sd o ch wrs fls /\
              step_out sd (ep p sd) (ep p (opp sd)) (hof sd hc hs) (hof (opp sd) hc hs) (kof sd kc ks)
                       o ch wrs fls r (ep p' sd) (ep p' (opp sd)) nf j /\
              hof sd hc' hs' = hof sd hc hs ++ nf /\ kof sd kc' ks' = (kof sd kc ks + j)%nat /\
              hof (opp sd) hc' hs' = hof (opp sd) hc hs /\ kof (opp sd) kc' ks' = kof (opp sd) kc ks;
  po_gi : GI p' hc' hs' kc' ks';
  po_hc : exists nf, hc' = hc ++ nf /\ fd nf = it_acc Client it;
  po_hs : exists nf, hs' = hs ++ nf /\ fd nf = it_acc Server it;
  po_kc : exists j, kc' = (kc + j)%nat /\ fd (firstn j (skipn kc hs)) = it_del Client it /\
                    existsb isclose (firstn j (skipn kc hs)) = it_gotc Client it /\ (kc' <= length hs)%nat;
  po_ks : exists j, ks' = (ks + j)%nat /\ fd (firstn j (skipn ks hc)) = it_del Server it /\
                    existsb isclose (firstn j (skipn ks hc)) = it_gotc Server it /\ (ks' <= length hc)%nat;
  po_clean : it_clean it;
  po_told_c : e_told (p_client p') = e_told (p_client p) || it_cc Client it;
  po_told_s : e_told (p_server p') = e_told (p_server p) || it_cc Server it;
  po_drop_c : e_dropped (p_client p') = e_dropped (p_client p) || it_drop Client it;
  po_drop_s : e_dropped (p_server p') = e_dropped (p_server p) || it_drop Server it;
  po_active_c : x_state (cx (p_client p)) <> Active -> x_state (cx (p_client p')) <> Active;
  po_active_s : x_state (cx (p_server p)) <> Active -> x_state (cx (p_server p')) <> Active }.

Lemma pstep_out_same p hc hs kc ks a it :
  GI p hc hs kc ks ->
  (forall sd, it_acc sd it = [] /\ it_del sd it = [] /\ it_cc sd it = false /\ it_gotc sd it = false /\ it_drop sd it = false) ->
  it_clean it -> (forall sd o r, it <> PRes sd o r) -> pstep_out p hc hs kc ks a it p hc hs kc ks.
Proof.
  intros G Hit Hc Hnr.
  destruct (Hit Client) as [A1 [A2 [A3 [A4 A5]]]]. destruct (Hit Server) as [B1 [B2 [B3 [B4 B5]]]].
  constructor; auto; rewrite ?A3, ?B3, ?A5, ?B5, ?Bool.orb_false_r; auto.
  - intros sd o r E. exfalso. exact (Hnr _ _ _ E).
  - exists []. rewrite app_nil_r, A1. split; reflexivity.
  - exists []. rewrite app_nil_r, B1. split; reflexivity.
  - exists 0%nat. rewrite Nat.add_0_r, A2, A4. splits; try reflexivity. exact (epi_k _ _ _ _ _ _ (gi_c _ _ _ _ _ G)).
  - exists 0%nat. rewrite Nat.add_0_r, B2, B4. splits; try reflexivity. exact (epi_k _ _ _ _ _ _ (gi_s _ _ _ _ _ G)).
Qed.

Lemma role_eqb_refl r : role_eqb r r = true.
Proof. destruct r; reflexivity. Qed.

Lemma crs_done_true s cr : crs s cr -> closing_done s = true -> cr = true.
Proof. destruct s; cbn; intros H Hc; try discriminate Hc; exact H. Qed.

Theorem pstep_inv p hc hs kc ks a it p' :
  GI p hc hs kc ks -> act_ok a -> Pair.pstep p a = (it, p') ->
  exists hc' hs' kc' ks', pstep_out p hc hs kc ks a it p' hc' hs' kc' ks'.
Proof.
  intros G Ha H.
  assert (Hsame : forall it0, (it0 = PSkipped Client \/ it0 = PSkipped Server) ->
            exists hc' hs' kc' ks', pstep_out p hc hs kc ks a it0 p hc' hs' kc' ks').
  { intros it0 Hit. exists hc, hs, kc, ks.
    apply pstep_out_same; [exact G| |destruct Hit as [-> | ->]; exact I|].
    - intros sd. destruct Hit as [-> | ->]; cbn; auto.
    - intros sd o r. destruct Hit as [-> | ->]; discriminate. }
  destruct a as [sd o ch wrs fls|sd]; cbn [Pair.pstep act_ok] in *.
  - destruct Ha as [Hu [Hw Hf]]. destruct sd.
    + (* the server acts *)
      destruct (e_dropped (p_server p)) eqn:Eds.
      { injection H as <- <-. apply Hsame. auto. }
      destruct (do_on (p_server p) (p_client p) o ch wrs fls) as [[[r me] pe] lg] eqn:ED.
      injection H as <- <-.
      apply (do_on_inv Server _ _ hs hc ks kc) in ED; auto.
      2:{ exact (gi_s _ _ _ _ _ G). }
      2:{ exact (gi_c _ _ _ _ _ G). }
      2:{ intros Hdc. pose proof (gi_tc _ _ _ _ _ G (gi_dc _ _ _ _ _ G Hdc)) as X. rewrite Eds in X. discriminate X. }
      destruct ED as [nf [j [Hme [Hpe Hso]]]].
      destruct (so_dropped _ _ _ _ _ _ _ _ _ _ _ _ _ _ _ Hso) as [D1 D2].
      destruct (so_told _ _ _ _ _ _ _ _ _ _ _ _ _ _ _ Hso) as [T1 T2].
      destruct (so_pe _ _ _ _ _ _ _ _ _ _ _ _ _ _ _ Hso) as [P1 _].
      exists hc, (hs ++ nf), kc, (ks + j)%nat.
      constructor; cbn [p_client p_server it_acc it_del it_cc it_gotc it_drop it_clean role_eqb andb];
        rewrite ?Bool.orb_false_r; auto.
      * intros sd o0 r0 E. injection E as <- <- <-. exists ch, wrs, fls, nf, j.
        cbn [ep hof kof opp p_client p_server]. splits; auto.
      * constructor; cbn [p_client p_server]; auto.
        -- rewrite D1. intros X. discriminate X.
        -- rewrite T1. intros Ht. apply Bool.orb_true_iff in Ht.
           pose proof (epi_k _ _ _ _ _ _ (gi_s _ _ _ _ _ G)) as Hk.
           destruct Ht as [Ht|Ht].
           ++ destruct (gi_ts _ _ _ _ _ G Ht) as [A [B C]].
              pose proof (epi_told _ _ _ _ _ _ (gi_s _ _ _ _ _ G) Ht) as Hterm.
              destruct (so_idle _ _ _ _ _ _ _ _ _ _ _ _ _ _ _ Hso Hterm B) as [_ [B' A']].
              splits; auto. apply existsb_firstn_mono. exact C.
           ++ destruct (so_cc _ _ _ _ _ _ _ _ _ _ _ _ _ _ _ Hso Ht) as [Hcd [Hsv _]].
              destruct (Hsv eq_refl) as [A B]. splits; auto.
              apply existsb_firstn_mono.
              exact (crs_done_true _ _ (epi_crs _ _ _ _ _ _ (gi_s _ _ _ _ _ G)) Hcd).
        -- rewrite T2, D1. intros Ht. apply (gi_tc _ _ _ _ _ G) in Ht. rewrite Eds in Ht. discriminate Ht.
        -- rewrite D2, T2. exact (gi_dc _ _ _ _ _ G).
      * exists []. rewrite app_nil_r. split; reflexivity.
      * exists nf. split; [reflexivity|]. symmetry. exact (so_acc _ _ _ _ _ _ _ _ _ _ _ _ _ _ _ Hso).
      * exists 0%nat. rewrite Nat.add_0_r. splits; try reflexivity. exact (epi_k _ _ _ _ _ _ (gi_c _ _ _ _ _ G)).
      * exists j. splits; auto.
        -- symmetry. exact (so_dres _ _ _ _ _ _ _ _ _ _ _ _ _ _ _ Hso).
        -- symmetry. exact (so_gotc _ _ _ _ _ _ _ _ _ _ _ _ _ _ _ Hso).
        -- exact (epi_k _ _ _ _ _ _ Hme).
      * exact (so_clean _ _ _ _ _ _ _ _ _ _ _ _ _ _ _ Hso).
      * rewrite D1, Eds. reflexivity.
      * unfold cx. rewrite P1. exact (fun X => X).
      * exact (so_state _ _ _ _ _ _ _ _ _ _ _ _ _ _ _ Hso).
    + (* the client acts *)
      destruct (e_dropped (p_client p)) eqn:Edc.
      { injection H as <- <-. apply Hsame. auto. }
      destruct (do_on (p_client p) (p_server p) o ch wrs fls) as [[[r me] pe] lg] eqn:ED.
      injection H as <- <-.
      apply (do_on_inv Client _ _ hc hs kc ks) in ED; auto.
      2:{ exact (gi_c _ _ _ _ _ G). }
      2:{ exact (gi_s _ _ _ _ _ G). }
      2:{ intros Hds. pose proof (gi_ds _ _ _ _ _ G Hds) as Ht.
          destruct (gi_ts _ _ _ _ _ G Ht) as [A _]. splits; auto. eapply gi_server_close; eassumption. }
      destruct ED as [nf [j [Hme [Hpe Hso]]]].
      destruct (so_dropped _ _ _ _ _ _ _ _ _ _ _ _ _ _ _ Hso) as [D1 D2].
      destruct (so_told _ _ _ _ _ _ _ _ _ _ _ _ _ _ _ Hso) as [T1 T2].
      destruct (so_pe _ _ _ _ _ _ _ _ _ _ _ _ _ _ _ Hso) as [P1 _].
      exists (hc ++ nf), hs, (kc + j)%nat, ks.
      constructor; cbn [p_client p_server it_acc it_del it_cc it_gotc it_drop it_clean role_eqb andb];
        rewrite ?Bool.orb_false_r; auto.
      * intros sd o0 r0 E. injection E as <- <- <-. exists ch, wrs, fls, nf, j.
        cbn [ep hof kof opp p_client p_server]. splits; auto.
      * constructor; cbn [p_client p_server]; auto.
        -- rewrite D2, T2. exact (gi_ds _ _ _ _ _ G).
        -- rewrite T2. intros Ht. destruct (gi_ts _ _ _ _ _ G Ht) as [A [B C]].
           unfold outb, cx in *. rewrite P1. splits; auto.
           rewrite firstn_app_le; [exact C|]. exact (epi_k _ _ _ _ _ _ (gi_s _ _ _ _ _ G)).
        -- rewrite T1, D2. intros Ht. apply Bool.orb_true_iff in Ht. destruct Ht as [Ht|Ht].
           ++ exact (gi_tc _ _ _ _ _ G Ht).
           ++ destruct (so_cc _ _ _ _ _ _ _ _ _ _ _ _ _ _ _ Hso Ht) as [_ [_ Hcl]]. apply (Hcl eq_refl).
        -- rewrite D1. intros X. discriminate X.
      * exists nf. split; [reflexivity|]. symmetry. exact (so_acc _ _ _ _ _ _ _ _ _ _ _ _ _ _ _ Hso).
      * exists []. rewrite app_nil_r. split; reflexivity.
      * exists j. splits; auto.
        -- symmetry. exact (so_dres _ _ _ _ _ _ _ _ _ _ _ _ _ _ _ Hso).
        -- symmetry. exact (so_gotc _ _ _ _ _ _ _ _ _ _ _ _ _ _ _ Hso).
        -- exact (epi_k _ _ _ _ _ _ Hme).
      * exists 0%nat. rewrite Nat.add_0_r. splits; try reflexivity. exact (epi_k _ _ _ _ _ _ (gi_s _ _ _ _ _ G)).
      * exact (so_clean _ _ _ _ _ _ _ _ _ _ _ _ _ _ _ Hso).
      * rewrite D1, Edc. reflexivity.
      * exact (so_state _ _ _ _ _ _ _ _ _ _ _ _ _ _ _ Hso).
      * unfold cx. rewrite P1. exact (fun X => X).
  - destruct sd.
    + destruct (e_told (p_server p)) eqn:Et.
      2:{ injection H as <- <-. apply Hsame. auto. }
      injection H as <- <-. exists hc, hs, kc, ks.
      constructor; cbn [p_client p_server e_told e_dropped it_acc it_del it_cc it_gotc it_drop it_clean role_eqb andb];
        rewrite ?Bool.orb_false_r, ?Bool.orb_true_r; auto.
      * intros sd o0 r0 E. discriminate E.
      * constructor; cbn [p_client p_server e_told e_dropped]; auto.
        -- eapply EPI_ext; [exact (gi_c _ _ _ _ _ G)|..]; auto.
        -- eapply EPI_ext; [exact (gi_s _ _ _ _ _ G)|..]; auto. cbn. intros X. discriminate X.
        -- intros _. exact (gi_ts _ _ _ _ _ G Et).
        -- exact (gi_dc _ _ _ _ _ G).
      * exists []. rewrite app_nil_r. split; reflexivity.
      * exists []. rewrite app_nil_r. split; reflexivity.
      * exists 0%nat. rewrite Nat.add_0_r. splits; try reflexivity. exact (epi_k _ _ _ _ _ _ (gi_c _ _ _ _ _ G)).
      * exists 0%nat. rewrite Nat.add_0_r. splits; try reflexivity. exact (epi_k _ _ _ _ _ _ (gi_s _ _ _ _ _ G)).
    + destruct (e_told (p_client p)) eqn:Et.
      2:{ injection H as <- <-. apply Hsame. auto. }
      injection H as <- <-. exists hc, hs, kc, ks.
      constructor; cbn [p_client p_server e_told e_dropped it_acc it_del it_cc it_gotc it_drop it_clean role_eqb andb];
        rewrite ?Bool.orb_false_r, ?Bool.orb_true_r; auto.
      * intros sd o0 r0 E. discriminate E.
      * constructor; cbn [p_client p_server e_told e_dropped]; auto.
        -- eapply EPI_ext; [exact (gi_c _ _ _ _ _ G)|..]; auto. cbn. intros X. discriminate X.
        -- eapply EPI_ext; [exact (gi_s _ _ _ _ _ G)|..]; auto.
        -- exact (gi_ds _ _ _ _ _ G).
        -- exact (gi_ts _ _ _ _ _ G).
        -- intros _. exact (gi_tc _ _ _ _ _ G Et).
      * exists []. rewrite app_nil_r. split; reflexivity.
      * exists []. rewrite app_nil_r. split; reflexivity.
      * exists 0%nat. rewrite Nat.add_0_r. splits; try reflexivity. exact (epi_k _ _ _ _ _ _ (gi_c _ _ _ _ _ G)).
      * exists 0%nat. rewrite Nat.add_0_r. splits; try reflexivity. exact (epi_k _ _ _ _ _ _ (gi_s _ _ _ _ _ G)).
Qed.
