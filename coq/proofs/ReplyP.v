(* proofs/ReplyP.v — automatic replies of WebSocketContext: the Close reply (C12) and the pong (C11).
   Everything is stated about the frames this endpoint hands to its FrameCodec (`queued`, the ghost
   EvQueue events) together with the frame parked in `additional_send`. *)
From TungModel Require Import Base Coding Mask Header Frame Utf8 World Message Codec Protocol.
From TungModel.proofs Require Import CodingP.
From Coq Require Import ZArith Lia ZifyBool ZifyNat ZifyN.

Arguments N.add : simpl never.
Arguments N.mul : simpl never.
Arguments N.sub : simpl never.
Arguments N.div : simpl never.
Arguments N.modulo : simpl never.
Arguments N.ltb : simpl never.
Arguments N.leb : simpl never.
Arguments N.eqb : simpl never.
Arguments N.min : simpl never.

(* ------------------------------------------------------------------------------------------ *)
(* 1. log projections                                                                          *)
(* ------------------------------------------------------------------------------------------ *)

Lemma queued_app (a b : list event) : queued (a ++ b) = queued a ++ queued b.
Proof.
  induction a as [|e a IH]; [reflexivity|].
  destruct e; cbn [app queued]; rewrite IH; reflexivity.
Qed.

Lemma wire_app (a b : list event) : wire (a ++ b) = wire a ++ wire b.
Proof.
  induction a as [|e a IH]; [reflexivity|].
  destruct e; cbn [app wire]; rewrite IH; try reflexivity. apply app_assoc.
Qed.

(* a log extension: w_log w' = w_log w ++ l *)
Definition ext (w w' : world) (l : list event) : Prop := w_log w' = w_log w ++ l.

Lemma ext_refl w : ext w w [].
Proof. unfold ext. rewrite app_nil_r. reflexivity. Qed.

Lemma ext_trans w1 w2 w3 l1 l2 : ext w1 w2 l1 -> ext w2 w3 l2 -> ext w1 w3 (l1 ++ l2).
Proof. unfold ext. intros H1 H2. rewrite H2, H1, app_assoc. reflexivity. Qed.

(* ------------------------------------------------------------------------------------------ *)
(* 2. the codec's write side                                                                   *)
(* ------------------------------------------------------------------------------------------ *)

(* events of write_out_loop: only EvWrite / EvWriteErr *)
Definition wr_event (e : event) : Prop :=
  match e with EvWrite _ _ | EvWriteErr _ _ => True | _ => False end.

Lemma queued_wr_events l : Forall wr_event l -> queued l = [].
Proof.
  induction 1 as [|e l He _ IH]; [reflexivity|].
  destruct e; cbn in He; try contradiction; cbn [queued]; exact IH.
Qed.

Lemma write_out_loop_spec wrs : forall out log r out' wrs' log',
  write_out_loop wrs out log = (r, out', wrs', log') ->
  exists l, log' = log ++ l /\ Forall wr_event l /\
    ((r = ROk tt /\ out' = [] /\ wire l = out) \/
     (exists k, r = RErr (EIo k) /\ wire l ++ out' = out)).
Proof.
  induction wrs as [|o wrs IH]; intros out log r out' wrs' log' H.
  - destruct out as [|b out]; cbn [write_out_loop] in H; inversion H; subst; clear H.
    + exists []. rewrite app_nil_r. repeat split; [constructor|]. left. repeat split.
    + eexists. split; [reflexivity|]. split; [repeat constructor|].
      right. exists WouldBlock. split; reflexivity.
  - destruct out as [|b out].
    + cbn [write_out_loop] in H. inversion H; subst; clear H.
      exists []. rewrite app_nil_r. repeat split; [constructor|]. left. repeat split.
    + cbn [write_out_loop] in H. destruct o as [n|k].
      * destruct (N.min n (blen (b :: out)) =? 0) eqn:E0.
        -- inversion H; subst; clear H. eexists. split; [reflexivity|]. split; [repeat constructor|].
           right. exists ConnReset. split; reflexivity.
        -- apply IH in H. destruct H as [l [Hl [Hf Hr]]].
           exists ([EvWrite (blen (b :: out)) (takeN (N.min n (blen (b :: out))) (b :: out))] ++ l).
           split; [rewrite Hl, app_assoc; reflexivity|].
           split; [constructor; [exact I|exact Hf]|].
           rewrite wire_app. cbn [wire]. rewrite app_nil_r.
           destruct Hr as [[Hr [Ho Hw]]|[k [Hr Hw]]].
           ++ left. repeat split; try assumption. rewrite Hw. apply firstn_skipn.
           ++ right. exists k. split; [assumption|]. rewrite <- app_assoc, Hw. apply firstn_skipn.
      * inversion H; subst; clear H. eexists. split; [reflexivity|]. split; [repeat constructor|].
        right. exists k. split; reflexivity.
Qed.

Definition not_full {A} (r : res A) : Prop := forall g, r <> RErr (EWriteBufferFull g).

Lemma write_out_buffer_spec c w r c' w' :
  write_out_buffer c w = (r, c', w') ->
  exists l, ext w w' l /\ Forall wr_event l /\
    c_in c' = c_in c /\ c_max_out c' = c_max_out c /\ c_write_len c' = c_write_len c /\ c_hdr c' = c_hdr c /\
    w_rds w' = w_rds w /\ w_fls w' = w_fls w /\ w_keys w' = w_keys w /\
    ((r = ROk tt /\ c_out c' = [] /\ wire l = c_out c) \/
     (exists k, r = RErr (EIo k) /\ wire l ++ c_out c' = c_out c)).
Proof.
  unfold write_out_buffer. destruct (write_out_loop _ _ _) as [[[r0 out'] wrs'] log'] eqn:E.
  intros H. inversion H; subst; clear H.
  apply write_out_loop_spec in E. destruct E as [l [Hl [Hf Hr]]].
  exists l. unfold ext. cbn. repeat split; assumption.
Qed.

Lemma write_out_buffer_not_full c w r c' w' : write_out_buffer c w = (r, c', w') -> not_full r.
Proof.
  intros H. apply write_out_buffer_spec in H.
  destruct H as [l [_ [_ [_ [_ [_ [_ [_ [_ [_ [[-> _]|[k [-> _]]]]]]]]]]]]]; intros g; discriminate.
Qed.

Lemma write_out_buffer_queued c w r c' w' :
  write_out_buffer c w = (r, c', w') -> queued (w_log w') = queued (w_log w).
Proof.
  intros H. apply write_out_buffer_spec in H. destruct H as [l [Hl [Hf _]]].
  rewrite Hl, queued_app, (queued_wr_events _ Hf), app_nil_r. reflexivity.
Qed.

(* FrameCodec::buffer_frame either refuses the frame (nothing happens) or appends exactly it *)
Lemma codec_buffer_frame_spec c f w r c' w' :
  codec_buffer_frame c f w = (r, c', w') ->
  (r = RErr (EWriteBufferFull f) /\ c' = c /\ w' = w /\ (c_max_out c <? frame_len f + blen (c_out c)) = true) \/
  (not_full r /\ queued (w_log w') = queued (w_log w) ++ [f] /\
   (c_max_out c <? frame_len f + blen (c_out c)) = false).
Proof.
  unfold codec_buffer_frame. destruct (c_max_out c <? frame_len f + blen (c_out c)) eqn:Efull.
  - intros H. inversion H; subst. left. repeat split.
  - destruct (c_write_len c <? _) eqn:Ew; intros H.
    + right. split; [eapply write_out_buffer_not_full; exact H|].
      apply write_out_buffer_queued in H. rewrite H. unfold w_emit. cbn [w_log].
      rewrite queued_app. split; reflexivity.
    + inversion H; subst; clear H. right. split; [intros g; discriminate|].
      unfold w_emit. cbn [w_log]. rewrite queued_app. split; reflexivity.
Qed.

(* ------------------------------------------------------------------------------------------ *)
(* 3. frames modulo the client's mask; the output sequence                                     *)
(* ------------------------------------------------------------------------------------------ *)

(* a frame with its mask key forgotten (the client role sets a fresh key each time a frame is buffered) *)
Definition unmask (f : frame) : frame :=
  mkFrame (mkHeader (h_fin (f_hdr f)) (h_rsv1 (f_hdr f)) (h_rsv2 (f_hdr f)) (h_rsv3 (f_hdr f))
                    (h_opcode (f_hdr f)) None) (f_payload f).
Definition uq (l : list frame) : list frame := map unmask l.
Definition olist {A} (o : option A) : list A := match o with Some a => [a] | None => [] end.

Definition is_close (f : frame) : bool := opcode_eqb (h_opcode (f_hdr f)) (OCtl Close).
Definition is_pong (f : frame) : bool := opcode_eqb (h_opcode (f_hdr f)) (OCtl Pong).

Lemma unmask_idem f : unmask (unmask f) = unmask f.
Proof. reflexivity. Qed.
Lemma unmask_close cl : unmask (frame_close cl) = frame_close cl.
Proof. reflexivity. Qed.
Lemma unmask_pong p : unmask (frame_pong p) = frame_pong p.
Proof. reflexivity. Qed.
Lemma is_close_unmask f : is_close (unmask f) = is_close f.
Proof. reflexivity. Qed.
Lemma is_pong_unmask f : is_pong (unmask f) = is_pong f.
Proof. reflexivity. Qed.
Lemma payload_unmask f : f_payload (unmask f) = f_payload f.
Proof. reflexivity. Qed.
Lemma uq_app a b : uq (a ++ b) = uq a ++ uq b.
Proof. apply map_app. Qed.

Lemma opcode_eqb_eq a b : opcode_eqb a b = true <-> a = b.
Proof.
  destruct a as [[| | |i]|[| | |i]], b as [[| | |j]|[| | |j]]; cbn; split; intros H;
    try reflexivity; try discriminate; try (apply N.eqb_eq in H; subst; reflexivity);
    try (inversion H; subst; apply N.eqb_refl).
Qed.

Lemma is_close_pong_excl f : is_close f = true -> is_pong f = false.
Proof.
  unfold is_close, is_pong. intros H. apply opcode_eqb_eq in H. rewrite H. reflexivity.
Qed.

(* unmasked view of the context and the world *)
Definition QQ (w : world) : list frame := uq (queued (w_log w)).
Definition PP (x : ctx) : option frame := option_map unmask (x_additional x).
(* everything this endpoint has put or will put on its output, in order *)
Definition oseq (x : ctx) (w : world) : list frame := QQ w ++ olist (PP x).

(* the pending frame stays, or moves to the end of the queue *)
Definition Moves (q : list frame) (p : option frame) (q' : list frame) (p' : option frame) : Prop :=
  (q' = q /\ p' = p) \/ (q' = q ++ olist p /\ p' = None).

Lemma Moves_refl q p : Moves q p q p.
Proof. left. split; reflexivity. Qed.

Lemma Moves_trans q p q1 p1 q2 p2 : Moves q p q1 p1 -> Moves q1 p1 q2 p2 -> Moves q p q2 p2.
Proof.
  intros [[-> ->]|[-> ->]] [[-> ->]|[-> ->]].
  - left. split; reflexivity.
  - right. split; reflexivity.
  - right. split; reflexivity.
  - right. cbn [olist]. rewrite app_nil_r. split; reflexivity.
Qed.

Lemma Moves_seq q p q' p' : Moves q p q' p' -> q' ++ olist p' = q ++ olist p.
Proof. intros [[-> ->]|[-> ->]]; [reflexivity|]. cbn [olist]. apply app_nil_r. Qed.

(* set_additional on the pending slot *)
Definition pend_set (p : option frame) (g : frame) : option frame :=
  match p with
  | None => Some g
  | Some f => if is_pong f then Some g else Some f
  end.

Lemma set_additional_pend x g : x_additional (set_additional x g) = pend_set (x_additional x) g.
Proof.
  unfold set_additional, pend_set, is_pong. destruct (x_additional x) as [f|] eqn:E; [|reflexivity].
  destruct (opcode_eqb _ _); [reflexivity|exact E].
Qed.

Lemma pend_set_unmask p g : option_map unmask (pend_set p g) = pend_set (option_map unmask p) (unmask g).
Proof.
  destruct p as [f|]; [|reflexivity]. cbn [pend_set option_map]. rewrite is_pong_unmask.
  destruct (is_pong f); reflexivity.
Qed.

Lemma set_additional_fields x g :
  x_role (set_additional x g) = x_role x /\ x_codec (set_additional x g) = x_codec x /\
  x_state (set_additional x g) = x_state x /\ x_incomplete (set_additional x g) = x_incomplete x /\
  x_unflushed (set_additional x g) = x_unflushed x /\ x_cfg (set_additional x g) = x_cfg x.
Proof.
  unfold set_additional. destruct (x_additional x) as [f|]; [destruct (opcode_eqb _ _)|]; repeat split.
Qed.

(* the state either stays or becomes Terminated *)
Definition st_step (s s' : ws_state) : Prop := s' = s \/ s' = Terminated.
Lemma st_step_refl s : st_step s s. Proof. left. reflexivity. Qed.
Lemma st_step_trans a b c : st_step a b -> st_step b c -> st_step a c.
Proof. intros [->| ->] [->| ->]; unfold st_step; auto. Qed.

Lemma ccr_spec {A} (r : res A) s r' s' :
  check_connection_reset r s = (r', s') ->
  st_step s s' /\ (not_full r -> not_full r') /\ (forall g, r = RErr (EWriteBufferFull g) -> r' = r /\ s' = s) /\
  (forall a, r = ROk a -> r' = r /\ s' = s) /\ (forall a, r' = ROk a -> r = r' /\ s' = s).
Proof.
  unfold check_connection_reset. intros H.
  assert (Hsame : (r', s') = (r, s) -> st_step s s' /\ (not_full r -> not_full r') /\
     (forall g, r = RErr (EWriteBufferFull g) -> r' = r /\ s' = s) /\
     (forall a, r = ROk a -> r' = r /\ s' = s) /\ (forall a, r' = ROk a -> r = r' /\ s' = s)).
  { intros E. inversion E; subst. repeat split; auto using st_step_refl. }
  destruct r as [a|e|n|]; try (apply Hsame; symmetry; exact H).
  destruct e as [| |k| | | |]; try (apply Hsame; symmetry; exact H).
  destruct k; try (apply Hsame; symmetry; exact H).
  destruct (closing_done s); [|apply Hsame; symmetry; exact H].
  inversion H; subst; clear H Hsame.
  split; [right; reflexivity|].
  split; [intros _ g; discriminate|].
  split; [intros g Hg; discriminate|].
  split; intros a Ha; discriminate.
Qed.

(* the frame as handed to the codec: masked with the oracle's next key in the client role *)
Definition keyed (f : frame) (k : key) : frame :=
  mkFrame (mkHeader (h_fin (f_hdr f)) (h_rsv1 (f_hdr f)) (h_rsv2 (f_hdr f)) (h_rsv3 (f_hdr f))
                    (h_opcode (f_hdr f)) (Some k)) (f_payload f).
Definition out_frame (x : ctx) (w : world) (f : frame) : frame :=
  match x_role x with Server => f | Client => keyed f (fst (w_next_key w)) end.

Lemma unmask_out_frame x w f : unmask (out_frame x w f) = unmask f.
Proof. unfold out_frame. destruct (x_role x); reflexivity. Qed.

Lemma w_next_key_log w : w_log (snd (w_next_key w)) = w_log w.
Proof. unfold w_next_key. destruct (w_keys w); reflexivity. Qed.

(* WebSocketContext::buffer_frame *)
Lemma buffer_frame_spec x f w r x' w' :
  buffer_frame x f w = (r, x', w') ->
  x_role x' = x_role x /\ x_additional x' = x_additional x /\ x_unflushed x' = x_unflushed x /\
  x_cfg x' = x_cfg x /\ x_incomplete x' = x_incomplete x /\
  st_step (x_state x) (x_state x') /\
  ((r = RErr (EWriteBufferFull (out_frame x w f)) /\ QQ w' = QQ w /\ x_state x' = x_state x) \/
   (not_full r /\ queued (w_log w') = queued (w_log w) ++ [out_frame x w f])).
Proof.
  unfold buffer_frame, out_frame. intros H.
  destruct (x_role x) eqn:Er.
  - destruct (codec_buffer_frame (x_codec x) f w) as [[r0 c'] w2] eqn:E.
    destruct (check_connection_reset r0 (x_state x)) as [r1 s1] eqn:Ec.
    inversion H; subst; clear H. cbn.
    apply ccr_spec in Ec. destruct Ec as [Hs [Hnf [Hf _]]].
    repeat split; try assumption.
    apply codec_buffer_frame_spec in E. destruct E as [[-> [-> [-> _]]]|[Hn [Hq _]]].
    + left. destruct (Hf f eq_refl) as [-> ->]. repeat split.
    + right. split; [apply Hnf; exact Hn|exact Hq].
  - destruct (w_next_key w) as [k wk] eqn:Ek.
    destruct (codec_buffer_frame (x_codec x) _ wk) as [[r0 c'] w2] eqn:E.
    destruct (check_connection_reset r0 (x_state x)) as [r1 s1] eqn:Ec.
    inversion H; subst; clear H. cbn.
    apply ccr_spec in Ec. destruct Ec as [Hs [Hnf [Hf _]]].
    repeat split; try assumption.
    assert (Hlog : w_log wk = w_log w) by (rewrite <- (w_next_key_log w), Ek; reflexivity).
    apply codec_buffer_frame_spec in E. destruct E as [[-> [-> [-> _]]]|[Hn [Hq _]]].
    + left. destruct (Hf _ eq_refl) as [-> ->]. unfold QQ. rewrite Hlog. repeat split.
    + right. split; [apply Hnf; exact Hn|]. rewrite Hq, Hlog. reflexivity.
Qed.

(* ------------------------------------------------------------------------------------------ *)
(* 4. _write, flush, close, write                                                              *)
(* ------------------------------------------------------------------------------------------ *)

Lemma QQ_snoc w w' f : queued (w_log w') = queued (w_log w) ++ [f] -> QQ w' = QQ w ++ [unmask f].
Proof. unfold QQ. intros ->. rewrite uq_app. reflexivity. Qed.

Lemma QQ_same w w' : queued (w_log w') = queued (w_log w) -> QQ w' = QQ w.
Proof. unfold QQ. intros ->. reflexivity. Qed.

(* the part of _write that sends additional_send *)
Definition write_add (x0 : ctx) (w0 : world) : res bool * ctx * world :=
  match x_additional x0 with
  | Some msg =>
      let xa := set_additional_raw x0 None in
      let '(rb, xb, wb) := buffer_frame xa msg w0 in
      match rb with
      | RErr (EWriteBufferFull f') => (ROk false, set_additional xb f', wb)
      | RErr e => (RErr e, xb, wb)
      | RPanic s => (RPanic s, xb, wb)
      | ROutOfFuel => (ROutOfFuel, xb, wb)
      | ROk _ => (ROk true, xb, wb)
      end
  | None => (ROk (x_unflushed x0), x0, w0)
  end.

(* the tail of _write: a server that has seen the peer's Close and has nothing pending drains and terminates *)
Definition write_tail (r1 : res bool) (x1 : ctx) (w1 : world) : res bool * ctx * world :=
  match r1 with
  | ROk should_flush =>
      if role_eqb (x_role x1) Server && closing_done (x_state x1)
         && (match x_additional x1 with None => true | Some _ => false end) then
        let '(rw, c', w2) := write_out_buffer (x_codec x1) w1 in
        match rw with
        | ROk _ => (RErr EConnectionClosed, set_state (set_codec x1 c') Terminated, w2)
        | RErr e => (RErr e, set_codec x1 c', w2)
        | RPanic s => (RPanic s, set_codec x1 c', w2)
        | ROutOfFuel => (ROutOfFuel, set_codec x1 c', w2)
        end
      else (ROk should_flush, x1, w1)
  | _ => (r1, x1, w1)
  end.

Lemma write_unfold x data w :
  write_ x data w =
  let '(r0, x0, w0) := match data with Some f => buffer_frame x f w | None => (ROk tt, x, w) end in
  match r0 with
  | RErr e => (RErr e, x0, w0)
  | RPanic s => (RPanic s, x0, w0)
  | ROutOfFuel => (ROutOfFuel, x0, w0)
  | ROk _ => let '(r1, x1, w1) := write_add x0 w0 in write_tail r1 x1 w1
  end.
Proof.
  unfold write_, write_add, write_tail.
  destruct (match data with Some f => buffer_frame x f w | None => (ROk tt, x, w) end) as [[r0 x0] w0].
  destruct r0; reflexivity.
Qed.

Lemma write_add_spec x0 w0 r1 x1 w1 :
  write_add x0 w0 = (r1, x1, w1) ->
  x_role x1 = x_role x0 /\ st_step (x_state x0) (x_state x1) /\ x_cfg x1 = x_cfg x0 /\
  x_incomplete x1 = x_incomplete x0 /\
  Moves (QQ w0) (PP x0) (QQ w1) (PP x1) /\
  (x_additional x0 = None -> x1 = x0 /\ w1 = w0 /\ r1 = ROk (x_unflushed x0)).
Proof.
  unfold write_add. destruct (x_additional x0) as [msg|] eqn:Ea.
  - destruct (buffer_frame (set_additional_raw x0 None) msg w0) as [[rb xb] wb] eqn:Eb.
    apply buffer_frame_spec in Eb. cbn [x_role x_additional x_unflushed x_cfg x_incomplete x_state set_additional_raw] in Eb.
    destruct Eb as [Hr [Ha [Hu [Hc [Hi [Hs Hq]]]]]].
    assert (HP : PP x0 = Some (unmask msg)) by (unfold PP; rewrite Ea; reflexivity).
    intros H. destruct Hq as [[-> [Hq Hst]]|[Hn Hq]].
    + inversion H; subst; clear H.
      destruct (set_additional_fields xb (out_frame (set_additional_raw x0 None) w0 msg)) as [F1 [F2 [F3 [F4 [F5 F6]]]]].
      rewrite F1, F3, F4, F6. repeat split; try assumption; try discriminate.
      left. split; [exact Hq|]. unfold PP. rewrite set_additional_pend, Ha. cbn [pend_set option_map].
      rewrite unmask_out_frame. symmetry. exact HP.
    + assert (HM : Moves (QQ w0) (PP x0) (QQ wb) (PP xb)).
      { right. rewrite HP. cbn [olist]. split; [|unfold PP; rewrite Ha; reflexivity].
        rewrite (QQ_snoc _ _ _ Hq), unmask_out_frame. reflexivity. }
      destruct rb as [u|e|s|].
      * inversion H; subst; clear H. repeat split; try assumption; discriminate.
      * destruct e; try (inversion H; subst; clear H; repeat split; try assumption; discriminate).
        exfalso. eapply Hn. reflexivity.
      * inversion H; subst; clear H. repeat split; try assumption; discriminate.
      * inversion H; subst; clear H. repeat split; try assumption; discriminate.
  - intros H. inversion H; subst; clear H. repeat split; try apply st_step_refl. apply Moves_refl.
Qed.

Lemma write_tail_spec r1 x1 w1 r x' w' :
  write_tail r1 x1 w1 = (r, x', w') ->
  x_role x' = x_role x1 /\ st_step (x_state x1) (x_state x') /\ x_cfg x' = x_cfg x1 /\
  x_incomplete x' = x_incomplete x1 /\
  x_additional x' = x_additional x1 /\ x_unflushed x' = x_unflushed x1 /\ QQ w' = QQ w1 /\
  (forall b, r = ROk b -> r1 = ROk b /\ x' = x1 /\ w' = w1).
Proof.
  unfold write_tail. intros H.
  destruct r1 as [sf|e|s|]; try (inversion H; subst; clear H; repeat split; try apply st_step_refl; discriminate).
  destruct (role_eqb (x_role x1) Server && closing_done (x_state x1) && _).
  - destruct (write_out_buffer (x_codec x1) w1) as [[rw c'] w2] eqn:Ew.
    apply write_out_buffer_queued, QQ_same in Ew.
    destruct rw; inversion H; subst; clear H; cbn; repeat split; try apply st_step_refl; try assumption;
      try discriminate. right. reflexivity.
  - inversion H; subst; clear H. repeat split; try apply st_step_refl; assumption.
Qed.

Lemma write_spec x data w r x' w' :
  write_ x data w = (r, x', w') ->
  x_role x' = x_role x /\ st_step (x_state x) (x_state x') /\ x_cfg x' = x_cfg x /\
  x_incomplete x' = x_incomplete x /\
  exists ins, (ins = [] \/ exists d, data = Some d /\ ins = [unmask d]) /\
              Moves (QQ w ++ ins) (PP x) (QQ w') (PP x').
Proof.
  rewrite write_unfold.
  destruct (match data with Some f => buffer_frame x f w | None => (ROk tt, x, w) end) as [[r0 x0] w0] eqn:E0.
  assert (H0 : x_role x0 = x_role x /\ x_additional x0 = x_additional x /\ st_step (x_state x) (x_state x0) /\
               x_cfg x0 = x_cfg x /\ x_incomplete x0 = x_incomplete x /\
               exists ins, (ins = [] \/ exists d, data = Some d /\ ins = [unmask d]) /\ QQ w0 = QQ w ++ ins).
  { destruct data as [d|].
    - apply buffer_frame_spec in E0. destruct E0 as [Hr [Ha [_ [Hc [Hi [Hs Hq]]]]]]. repeat split; try assumption.
      destruct Hq as [[_ [Hq _]]|[_ Hq]].
      + exists []. split; [left; reflexivity|]. rewrite app_nil_r. exact Hq.
      + exists [unmask d]. split; [right; exists d; split; reflexivity|].
        rewrite (QQ_snoc _ _ _ Hq), unmask_out_frame. reflexivity.
    - inversion E0; subst. repeat split; try apply st_step_refl. exists []. split; [left; reflexivity|].
      rewrite app_nil_r. reflexivity. }
  destruct H0 as [Hr0 [Ha0 [Hs0 [Hc0 [Hi0 [ins [Hins Hq0]]]]]]].
  assert (HP0 : PP x0 = PP x) by (unfold PP; rewrite Ha0; reflexivity).
  assert (Hstop : (r, x', w') = (r, x0, w0) -> x_role x' = x_role x /\ st_step (x_state x) (x_state x') /\
     x_cfg x' = x_cfg x /\ x_incomplete x' = x_incomplete x /\
     exists ins, (ins = [] \/ exists d, data = Some d /\ ins = [unmask d]) /\
              Moves (QQ w ++ ins) (PP x) (QQ w') (PP x')).
  { intros E. inversion E; subst. repeat split; try assumption. exists ins. split; [exact Hins|].
    rewrite Hq0, HP0. apply Moves_refl. }
  destruct r0 as [u|e|s|]; intros H; try (apply Hstop; inversion H; reflexivity).
  destruct (write_add x0 w0) as [[r1 x1] w1] eqn:E1.
  apply write_add_spec in E1. destruct E1 as [Hr1 [Hs1 [Hc1 [Hi1 [HM1 _]]]]].
  apply write_tail_spec in H. destruct H as [Hr2 [Hs2 [Hc2 [Hi2 [Ha2 [_ [Hq2 _]]]]]]].
  split; [congruence|]. split; [eauto using st_step_trans|]. split; [congruence|]. split; [congruence|].
  exists ins. split; [exact Hins|].
  rewrite <- Hq0, <- HP0, Hq2. unfold PP at 2. rewrite Ha2. exact HM1.
Qed.

Lemma w_flush_spec w r w' :
  w_flush w = (r, w') ->
  exists e, ext w w' [EvFlush e] /\ (r = ROk tt <-> e = FlOk) /\ w_rds w' = w_rds w /\ w_wrs w' = w_wrs w.
Proof.
  unfold w_flush, ext. destruct (w_fls w) as [|[|k] fl]; intros H; inversion H; subst; clear H; cbn.
  - exists (FlErr WouldBlock). repeat split; discriminate.
  - exists FlOk. repeat split.
  - exists (FlErr k). repeat split; discriminate.
Qed.

Lemma w_flush_queued w r w' : w_flush w = (r, w') -> queued (w_log w') = queued (w_log w).
Proof.
  intros H. apply w_flush_spec in H. destruct H as [e [He _]]. rewrite He, queued_app. cbn. apply app_nil_r.
Qed.

(* what flush, and everything built from _write(None), does to the output sequence *)
Definition Keeps (x : ctx) (w : world) (x' : ctx) (w' : world) : Prop :=
  x_role x' = x_role x /\ st_step (x_state x) (x_state x') /\ x_cfg x' = x_cfg x /\
  x_incomplete x' = x_incomplete x /\ Moves (QQ w) (PP x) (QQ w') (PP x').

Lemma Keeps_refl x w : Keeps x w x w.
Proof. repeat split; try apply st_step_refl. apply Moves_refl. Qed.

Lemma Keeps_trans x w x1 w1 x2 w2 : Keeps x w x1 w1 -> Keeps x1 w1 x2 w2 -> Keeps x w x2 w2.
Proof.
  intros [A1 [A2 [A3 [A4 A5]]]] [B1 [B2 [B3 [B4 B5]]]].
  repeat split; try congruence; eauto using st_step_trans, Moves_trans.
Qed.

Lemma write_none_keeps x w r x' w' : write_ x None w = (r, x', w') -> Keeps x w x' w'.
Proof.
  intros H. apply write_spec in H. destruct H as [Hr [Hs [Hc [Hi [ins [[->|[d [Hd _]]] HM]]]]]]; [|discriminate].
  rewrite app_nil_r in HM. repeat split; assumption.
Qed.

Lemma flush_keeps x w r x' w' : flush x w = (r, x', w') -> Keeps x w x' w'.
Proof.
  unfold flush. destruct (write_ x None w) as [[r0 x0] w0] eqn:E0.
  apply write_none_keeps in E0.
  destruct r0 as [u|e|s|]; intros H; try (inversion H; subst; exact E0).
  destruct (write_out_buffer (x_codec x0) w0) as [[r1 c1] w1] eqn:E1.
  apply write_out_buffer_queued, QQ_same in E1.
  assert (K1 : Keeps x0 w0 (set_codec x0 c1) w1).
  { repeat split; try apply st_step_refl. rewrite E1. apply Moves_refl. }
  destruct r1 as [u1|e|s|]; try (inversion H; subst; eapply Keeps_trans; eassumption).
  destruct (w_flush w1) as [r2 w2] eqn:E2. apply w_flush_queued, QQ_same in E2.
  assert (K2 : Keeps (set_codec x0 c1) w1 (set_codec x0 c1) w2).
  { repeat split; try apply st_step_refl. rewrite E2. apply Moves_refl. }
  assert (K3 : Keeps (set_codec x0 c1) w1 (set_unflushed (set_codec x0 c1) false) w2).
  { repeat split; try apply st_step_refl. rewrite E2. apply Moves_refl. }
  destruct r2; inversion H; subst; eauto using Keeps_trans.
Qed.

(* close() in state Active parks the Close frame (a pending pong is dropped) and then flushes *)
Lemma close_spec x code w r x' w' :
  close x code w = (r, x', w') ->
  x_role x' = x_role x /\ x_cfg x' = x_cfg x /\ x_incomplete x' = x_incomplete x /\
  ((x_state x = Active /\ st_step ClosedByUs (x_state x') /\
    Moves (QQ w) (Some (frame_close code)) (QQ w') (PP x')) \/
   (x_state x <> Active /\ st_step (x_state x) (x_state x') /\ Moves (QQ w) (PP x) (QQ w') (PP x'))).
Proof.
  unfold close. intros H.
  destruct (x_state x) eqn:Es;
    try (apply flush_keeps in H; destruct H as [A1 [A2 [A3 [A4 A5]]]]; rewrite Es in A2;
         repeat split; try assumption; right; repeat split; try assumption; discriminate).
  apply flush_keeps in H. destruct H as [A1 [A2 [A3 [A4 A5]]]]. cbn in A1, A2, A3, A4.
  repeat split; try assumption. left. repeat split; assumption.
Qed.

(* the frame a data-carrying Message is sent as *)
Definition msg_frame (m : message) : option frame :=
  match m with
  | MText d => Some (frame_message d (OData Text) true)
  | MBinary d => Some (frame_message d (OData Binary) true)
  | MPing d => Some (frame_ping d)
  | MFrame f => Some f
  | MPong _ | MClose _ => None
  end.

Lemma write_data_spec x f w r x' w' :
  (let '(r, x1, w1) := write_ x (Some f) w in
    match r with
    | ROk true => flush x1 w1
    | ROk false => (ROk tt, x1, w1)
    | RErr e => (RErr e, x1, w1)
    | RPanic s => (RPanic s, x1, w1)
    | ROutOfFuel => (ROutOfFuel, x1, w1)
    end) = (r, x', w') ->
  x_role x' = x_role x /\ st_step (x_state x) (x_state x') /\ x_cfg x' = x_cfg x /\
  x_incomplete x' = x_incomplete x /\
  exists ins, (ins = [] \/ ins = [unmask f]) /\ Moves (QQ w ++ ins) (PP x) (QQ w') (PP x').
Proof.
  destruct (write_ x (Some f) w) as [[r1 x1] w1] eqn:E1. apply write_spec in E1.
  destruct E1 as [Hr [Hs [Hc [Hi [ins [Hins HM]]]]]].
  assert (Hins' : ins = [] \/ ins = [unmask f]).
  { destruct Hins as [->|[d [Hd ->]]]; [left; reflexivity|]. inversion Hd. right. reflexivity. }
  assert (Hstop : (r, x', w') = (r, x1, w1) ->
    x_role x' = x_role x /\ st_step (x_state x) (x_state x') /\ x_cfg x' = x_cfg x /\
    x_incomplete x' = x_incomplete x /\
    exists ins, (ins = [] \/ ins = [unmask f]) /\ Moves (QQ w ++ ins) (PP x) (QQ w') (PP x')).
  { intros E. inversion E; subst. repeat split; try assumption. exists ins. split; assumption. }
  destruct r1 as [[|]|e|s|]; intros H; try (apply Hstop; inversion H; reflexivity).
  apply flush_keeps in H. destruct H as [A1 [A2 [A3 [A4 A5]]]].
  repeat split; try congruence; eauto using st_step_trans.
  exists ins. split; [exact Hins'|]. eauto using Moves_trans.
Qed.

Lemma write_msg_spec x m w r x' w' :
  write x m w = (r, x', w') ->
  x_role x' = x_role x /\ x_cfg x' = x_cfg x /\ x_incomplete x' = x_incomplete x /\
  ((x_state x <> Active /\ x' = x /\ w' = w) \/
   (x_state x = Active /\
    match m with
    | MClose c => st_step ClosedByUs (x_state x') /\ Moves (QQ w) (Some (frame_close c)) (QQ w') (PP x')
    | MPong d => st_step Active (x_state x') /\
                 Moves (QQ w) (pend_set (PP x) (frame_pong d)) (QQ w') (PP x')
    | _ => st_step Active (x_state x') /\
           exists ins, (ins = [] \/ ins = map unmask (olist (msg_frame m))) /\
                       Moves (QQ w ++ ins) (PP x) (QQ w') (PP x')
    end)).
Proof.
  unfold write. destruct (x_state x) eqn:Es; cbn [is_terminated is_active negb];
    try (intros H; inversion H; subst; split; [reflexivity|split; [reflexivity|split; [reflexivity|
         left; repeat split; discriminate]]]).
  intros H. destruct m as [d|d|d|d|c|f]; cbn [msg_frame olist map].
  1,2,3,6: apply write_data_spec in H; destruct H as [A1 [A2 [A3 [A4 A5]]]]; rewrite Es in A2;
    repeat split; try assumption; right; repeat split; assumption.
  - destruct (write_ (set_additional x (frame_pong d)) None w) as [[r1 x1] w1] eqn:E1.
    apply write_none_keeps in E1. destruct E1 as [A1 [A2 [A3 [A4 A5]]]].
    destruct (set_additional_fields x (frame_pong d)) as [F1 [F2 [F3 [F4 [F5 F6]]]]].
    rewrite F1 in A1. rewrite F3, Es in A2. rewrite F6 in A3. rewrite F4 in A4.
    unfold PP at 1 in A5. rewrite set_additional_pend, pend_set_unmask, unmask_pong in A5.
    destruct r1; inversion H; subst; repeat split; try assumption; right; repeat split; assumption.
  - apply close_spec in H. destruct H as [A1 [A2 [A3 [[B1 [B2 B3]]|[B1 _]]]]]; [|congruence].
    repeat split; try assumption. right. repeat split; assumption.
Qed.

(* ------------------------------------------------------------------------------------------ *)
(* 5. the read side                                                                            *)
(* ------------------------------------------------------------------------------------------ *)

Definition rd_event (e : event) : Prop :=
  match e with EvReserve _ | EvRead _ => True | _ => False end.

Lemma queued_rd_events l : Forall rd_event l -> queued l = [].
Proof.
  induction 1 as [|e l He _ IH]; [reflexivity|].
  destruct e; cbn in He; try contradiction; cbn [queued]; exact IH.
Qed.

Lemma wire_rd_events l : Forall rd_event l -> wire l = [].
Proof.
  induction 1 as [|e l He _ IH]; [reflexivity|].
  destruct e; cbn in He; try contradiction; cbn [wire]; exact IH.
Qed.

Lemma read_frame_loop_spec ms rds : forall c log r c' rds' log',
  read_frame_loop ms rds c log = (r, c', rds', log') ->
  exists l, log' = log ++ l /\ Forall rd_event l.
Proof.
  induction rds as [|o rds IH]; intros c log r c' rds' log' H.
  - cbn [read_frame_loop] in H. destruct (try_take ms c); inversion H; subst; clear H;
      try (exists []; rewrite app_nil_r; split; [reflexivity|constructor]).
    eexists. rewrite <- app_assoc. split; [reflexivity|]. repeat constructor.
  - cbn [read_frame_loop] in H. destruct (try_take ms c) as [h len p c0|n c0|e c0|s];
      try (inversion H; subst; clear H; exists []; rewrite app_nil_r; split; [reflexivity|constructor]).
    destruct o as [bs| |k].
    + destruct bs as [|b bs].
      * inversion H; subst; clear H. eexists. rewrite <- app_assoc. split; [reflexivity|]. repeat constructor.
      * apply IH in H. destruct H as [l [-> Hl]]. eexists. rewrite <- !app_assoc. split; [reflexivity|].
        repeat constructor. exact Hl.
    + inversion H; subst; clear H. eexists. rewrite <- app_assoc. split; [reflexivity|]. repeat constructor.
    + inversion H; subst; clear H. eexists. rewrite <- app_assoc. split; [reflexivity|]. repeat constructor.
Qed.

Lemma read_frame_spec ms um au c w r c' w' :
  read_frame ms um au c w = (r, c', w') -> exists l, ext w w' l /\ Forall rd_event l.
Proof.
  unfold read_frame. destruct (read_frame_loop _ _ _ _) as [[[r0 c0] rds0] log0] eqn:E.
  apply read_frame_loop_spec in E. destruct E as [l [-> Hl]].
  intros H. exists l. split; [|exact Hl]. unfold ext.
  destruct r0 as [[[[h len] p]|]|e|s|]; try (inversion H; subst; reflexivity).
  destruct (negb (blen p =? len)); [inversion H; subst; reflexivity|].
  destruct um; [|inversion H; subst; reflexivity].
  destruct (h_mask h); [inversion H; subst; reflexivity|].
  destruct au; inversion H; subst; reflexivity.
Qed.

Definition pv_reason : bytes :=
  [80; 114; 111; 116; 111; 99; 111; 108; 32; 118; 105; 111; 108; 97; 116; 105; 111; 110].

(* what do_close answers to a peer's Close received while Active *)
Definition close_reply (cl : option close_frame) : option close_frame :=
  match cl with
  | Some (code, reason) => if close_allowed code then Some (code, reason) else Some (CProtocol, pv_reason)
  | None => None
  end.

Lemma do_close_spec x cl r x' :
  do_close x cl = (r, x') ->
  x_role x' = x_role x /\ x_cfg x' = x_cfg x /\ x_unflushed x' = x_unflushed x /\
  x_incomplete x' = x_incomplete x /\ x_codec x' = x_codec x /\
  match r with
  | ROk (Some c) =>
      (x_state x = Active /\ x_state x' = ClosedByPeer /\ c = close_reply cl /\
       x_additional x' = pend_set (x_additional x) (frame_close c)) \/
      (x_state x = ClosedByUs /\ x_state x' = CloseAcknowledged /\ c = cl /\ x_additional x' = x_additional x)
  | ROk None => x' = x
  | RPanic _ => x' = x
  | _ => False
  end.
Proof.
  unfold do_close. destruct (x_state x) eqn:Es; intros H; inversion H; subst; clear H;
    try (repeat split; fail).
  - match goal with |- context [set_additional ?a ?b] =>
      destruct (set_additional_fields a b) as [F1 [F2 [F3 [F4 [F5 F6]]]]]; rewrite F1, F2, F4, F5, F6 end.
    repeat split. left. rewrite F3, set_additional_pend. repeat split.
  - repeat split. right. repeat split.
Qed.

(* read_message_frame: only a Close or a Ping read while Active touches additional_send *)
Lemma rmf_spec x w r x' w' :
  read_message_frame x w = (r, x', w') ->
  x_role x' = x_role x /\ x_cfg x' = x_cfg x /\ x_unflushed x' = x_unflushed x /\
  (exists l, ext w w' l /\ Forall rd_event l) /\
  match r with
  | ROk (Some (MClose cl)) =>
      (x_state x = Active /\ x_state x' = ClosedByPeer /\
       (exists cl0 pl, frame_into_close pl = ROk cl0 /\ cl = close_reply cl0) /\
       x_additional x' = pend_set (x_additional x) (frame_close cl)) \/
      (x_state x = ClosedByUs /\ x_state x' = CloseAcknowledged /\ x_additional x' = x_additional x)
  | ROk (Some (MPing p)) =>
      (x_state x = Active /\ x_state x' = Active /\
       x_additional x' = pend_set (x_additional x) (frame_pong p)) \/
      (x_state x <> Active /\ x_state x' = x_state x /\ x_additional x' = x_additional x)
  | ROk _ => x_state x' = x_state x /\ x_additional x' = x_additional x
  | _ => st_step (x_state x) (x_state x') /\ x_additional x' = x_additional x
  end.
Proof.
  unfold read_message_frame.
  destruct (read_frame _ _ _ _ _) as [[r0 c1] w1] eqn:Erf. apply read_frame_spec in Erf.
  destruct (check_connection_reset r0 (x_state x)) as [r0' s1] eqn:Ec.
  apply ccr_spec in Ec. destruct Ec as [Hs1 [_ [_ [_ Hok]]]].
  set (x1 := set_state (set_codec x c1) s1).
  assert (X1 : x_role x1 = x_role x /\ x_cfg x1 = x_cfg x /\ x_unflushed x1 = x_unflushed x /\
               x_additional x1 = x_additional x /\ st_step (x_state x) (x_state x1) /\
               (forall a, r0' = ROk a -> x_state x1 = x_state x)).
  { repeat split; try assumption. intros a Ha. apply (Hok a Ha). }
  destruct X1 as [Xr [Xc [Xu [Xa [Xst Xs]]]]]. clearbody x1. clear Hs1 Hok.
  Ltac rmf_fin H :=
    match type of H with (pair (pair _ _) _) = _ => idtac end;
    inversion H; subst; clear H; cbv beta iota;
    cbn [x_role x_cfg x_unflushed x_additional x_state x_incomplete x_codec set_incomplete set_state set_codec];
    repeat split; try assumption; try (right; reflexivity).
  destruct r0' as [[f|]|e|s|]; intros H; try (rmf_fin H).
  2:{ destruct (x_state x1); rmf_fin H. }
  specialize (Xs _ eq_refl). clear Xst.
  destruct (negb (can_read (x_state x1))); [rmf_fin H; left; assumption|].
  destruct (h_rsv1 (f_hdr f) || h_rsv2 (f_hdr f) || h_rsv3 (f_hdr f)); [rmf_fin H; left; assumption|].
  destruct (role_eqb (x_role x1) Client && _); [rmf_fin H; left; assumption|].
  destruct (h_opcode (f_hdr f)) as [d|ctl].
  - (* data frames: additional_send and the state are not touched *)
    destruct d as [| | |i].
    + destruct (x_incomplete x1) as [msg|]; [|rmf_fin H; left; assumption].
      destruct (incmsg_extend msg (f_payload f) (cfg_max_message_size (x_cfg x1))) as [re msg'].
      destruct re as [u|e|s|]; try (rmf_fin H; left; assumption).
      destruct (h_fin (f_hdr f)); [|rmf_fin H].
      destruct (incmsg_complete msg') as [m|e|s|] eqn:Ecm; try (rmf_fin H; left; assumption).
      destruct msg' as [col|v]; cbn in Ecm.
      * destruct (collector_into_string col); inversion Ecm; subst. rmf_fin H.
      * inversion Ecm; subst. rmf_fin H.
    + destruct (x_incomplete x1) as [msg|]; [rmf_fin H; left; assumption|].
      destruct (h_fin (f_hdr f)).
      * destruct (check_max_size _ _); try (rmf_fin H; left; assumption).
        destruct (is_utf8 (f_payload f)); rmf_fin H. left; assumption.
      * destruct (incmsg_extend _ _ _) as [re inc1].
        destruct re as [u|e|s|]; rmf_fin H; left; assumption.
    + destruct (x_incomplete x1) as [msg|]; [rmf_fin H; left; assumption|].
      destruct (h_fin (f_hdr f)).
      * destruct (check_max_size _ _); rmf_fin H; left; assumption.
      * destruct (incmsg_extend _ _ _) as [re inc1].
        destruct re as [u|e|s|]; rmf_fin H; left; assumption.
    + destruct (x_incomplete x1) as [msg|]; rmf_fin H; left; assumption.
  - destruct (negb (h_fin (f_hdr f))); [rmf_fin H; left; assumption|].
    destruct (125 <? blen (f_payload f)); [rmf_fin H; left; assumption|].
    destruct ctl as [| | |i].
    + (* Close *)
      destruct (frame_into_close (f_payload f)) as [cl|e|s|] eqn:Eic; try (rmf_fin H; left; assumption).
      destruct (do_close x1 cl) as [rd x2] eqn:Ed. apply do_close_spec in Ed.
      destruct Ed as [D1 [D2 [D3 [D4 [D5 D6]]]]].
      destruct rd as [[c|]|e|s|]; try contradiction.
      * inversion H; subst; clear H. cbv beta iota.
        split; [congruence|]. split; [congruence|]. split; [congruence|]. split; [assumption|].
        destruct D6 as [[E1 [E2 [E3 E4]]]|[E1 [E2 [E3 E4]]]].
        -- left. rewrite <- Xs, <- Xa. repeat split; try assumption. exists cl, (f_payload f). split; assumption.
        -- right. rewrite <- Xs, <- Xa. repeat split; assumption.
      * subst x2. rmf_fin H.
      * subst x2. rmf_fin H. left; assumption.
    + (* Ping *)
      inversion H; subst; clear H. cbv beta iota.
      destruct (x_state x1) eqn:Es1; cbn [is_active].
      1:{ destruct (set_additional_fields x1 (frame_pong (f_payload f))) as [F1 [F2 [F3 [F4 [F5 F6]]]]].
          rewrite F1, F5, F6, F3, set_additional_pend.
          repeat split; try assumption. left. rewrite <- Xs, <- Xa. repeat split; assumption. }
      all: repeat split; try assumption; right; rewrite <- Xs; repeat split; try assumption; discriminate.
    + rmf_fin H.
    + rmf_fin H. left; assumption.
Qed.

(* ------------------------------------------------------------------------------------------ *)
(* 6. read                                                                                      *)
(* ------------------------------------------------------------------------------------------ *)

(* what read() does before it tries to read a frame *)
Definition read_pre (x : ctx) (w : world) : res unit * ctx * world :=
  if (match x_additional x with Some _ => true | None => false end) || x_unflushed x then
    let '(r, x', w') := flush x w in
    match r with
    | ROk _ => (ROk tt, x', w')
    | RErr (EIo WouldBlock) => (ROk tt, set_unflushed x' true, w')
    | _ => (r, x', w')
    end
  else if role_eqb (x_role x) Server && negb (can_read (x_state x)) then
    let '(rw, c', w') := write_out_buffer (x_codec x) w in
    match rw with
    | ROk _ => (RErr EConnectionClosed, set_state (set_codec x c') Terminated, w')
    | _ => (rw, set_codec x c', w')
    end
  else (ROk tt, x, w).

Lemma read_loop_unfold n x w :
  read_loop (S n) x w =
  let '(r0, x0, w0) := read_pre x w in
  match r0 with
  | ROk _ =>
      let '(r1, x1, w1) := read_message_frame x0 w0 in
      match r1 with
      | ROk (Some m) => (ROk m, x1, w1)
      | ROk None => read_loop n x1 w1
      | RErr e => (RErr e, x1, w1)
      | RPanic s => (RPanic s, x1, w1)
      | ROutOfFuel => (ROutOfFuel, x1, w1)
      end
  | RErr e => (RErr e, x0, w0)
  | RPanic s => (RPanic s, x0, w0)
  | ROutOfFuel => (ROutOfFuel, x0, w0)
  end.
Proof. reflexivity. Qed.

Lemma read_pre_keeps x w r0 x0 w0 : read_pre x w = (r0, x0, w0) -> Keeps x w x0 w0.
Proof.
  unfold read_pre.
  destruct ((match x_additional x with Some _ => true | None => false end) || x_unflushed x).
  - destruct (flush x w) as [[r x1] w1] eqn:Ef. apply flush_keeps in Ef.
    assert (K : Keeps x1 w1 (set_unflushed x1 true) w1).
    { repeat split; try apply st_step_refl. apply Moves_refl. }
    intros H. destruct r as [u|e|s|]; try (inversion H; subst; exact Ef).
    destruct e as [| |k| | | |]; try (inversion H; subst; exact Ef).
    destruct k; inversion H; subst; exact Ef.
  - destruct (role_eqb (x_role x) Server && negb (can_read (x_state x))).
    + destruct (write_out_buffer (x_codec x) w) as [[rw c'] w1] eqn:Ew.
      apply write_out_buffer_queued, QQ_same in Ew.
      intros H. destruct rw; inversion H; subst; clear H; repeat split; cbn;
        try apply st_step_refl; try (right; reflexivity); rewrite Ew; apply Moves_refl.
    + intros H. inversion H; subst. apply Keeps_refl.
Qed.

(* the outcome of read, relative to the output sequence *)
Definition ReadSpec (x : ctx) (w : world) (r : res message) (x' : ctx) (w' : world) : Prop :=
  x_role x' = x_role x /\ x_cfg x' = x_cfg x /\
  match r with
  | ROk (MClose cl) =>
      (x_state x = Active /\ x_state x' = ClosedByPeer /\
       (exists cl0 pl, frame_into_close pl = ROk cl0 /\ cl = close_reply cl0) /\
       exists a, Moves (QQ w) (PP x) (QQ w') (option_map unmask a) /\
                 x_additional x' = pend_set a (frame_close cl)) \/
      (x_state x = ClosedByUs /\ x_state x' = CloseAcknowledged /\ Moves (QQ w) (PP x) (QQ w') (PP x'))
  | ROk (MPing p0) =>
      (x_state x = Active /\ x_state x' = Active /\
       exists a, Moves (QQ w) (PP x) (QQ w') (option_map unmask a) /\
                 x_additional x' = pend_set a (frame_pong p0)) \/
      (x_state x' <> Active /\ st_step (x_state x) (x_state x') /\ Moves (QQ w) (PP x) (QQ w') (PP x'))
  | _ => st_step (x_state x) (x_state x') /\ Moves (QQ w) (PP x) (QQ w') (PP x')
  end.

Lemma st_step_inv s s1 : st_step s s1 -> s1 <> Terminated -> s = s1.
Proof. intros [->| ->] H; [reflexivity|contradiction]. Qed.

Lemma ReadSpec_pre x w x1 w1 r x' w' :
  x_role x1 = x_role x -> st_step (x_state x) (x_state x1) -> x_cfg x1 = x_cfg x ->
  Moves (QQ w) (PP x) (QQ w1) (PP x1) ->
  ReadSpec x1 w1 r x' w' -> ReadSpec x w r x' w'.
Proof.
  intros K1 K2 K3 K5 [R1 [R2 R3]].
  split; [congruence|]. split; [congruence|].
  destruct r as [m|e|s|]; try (destruct R3 as [A B]; split; eauto using st_step_trans, Moves_trans).
  destruct m as [b|b|b|b|cl|f]; try (destruct R3 as [A B]; split; eauto using st_step_trans, Moves_trans).
  - destruct R3 as [[A [B [a [C D]]]]|[A [B C]]].
    + left. split; [rewrite <- A; apply (st_step_inv _ _ K2); rewrite A; discriminate|]. split; [exact B|].
      exists a. split; [eauto using Moves_trans|exact D].
    + right. split; [exact A|]. split; eauto using st_step_trans, Moves_trans.
  - destruct R3 as [[A [B [C [a [D E]]]]]|[A [B C]]].
    + left. split; [rewrite <- A; apply (st_step_inv _ _ K2); rewrite A; discriminate|]. split; [exact B|].
      split; [exact C|]. exists a. split; [eauto using Moves_trans|exact E].
    + right. split; [rewrite <- A; apply (st_step_inv _ _ K2); rewrite A; discriminate|]. split; [exact B|].
      eauto using Moves_trans.
Qed.

Lemma QQ_ext_rd w w' l : ext w w' l -> Forall rd_event l -> QQ w' = QQ w.
Proof. unfold QQ. intros -> Hl. rewrite queued_app, (queued_rd_events _ Hl), app_nil_r. reflexivity. Qed.

Lemma read_loop_spec n : forall x w r x' w', read_loop n x w = (r, x', w') -> ReadSpec x w r x' w'.
Proof.
  induction n as [|n IH]; intros x w r x' w' H.
  - cbn [read_loop] in H. inversion H; subst. repeat split; try apply st_step_refl. apply Moves_refl.
  - rewrite read_loop_unfold in H.
    destruct (read_pre x w) as [[r0 x0] w0] eqn:Ep. apply read_pre_keeps in Ep.
    assert (Hstop : forall r, (match r with ROk _ => False | _ => True end) -> ReadSpec x w r x0 w0).
    { intros r1 Hr1. destruct Ep as [K1 [K2 [K3 [K4 K5]]]]. split; [exact K1|]. split; [exact K3|].
      destruct r1; try contradiction; split; assumption. }
    destruct r0 as [u|e|s|]; try (inversion H; subst; apply Hstop; exact I).
    clear Hstop. destruct Ep as [K1 [K2 [K3 [_ K5]]]].
    apply (ReadSpec_pre _ _ _ _ _ _ _ K1 K2 K3 K5). clear K1 K2 K3 K5.
    destruct (read_message_frame x0 w0) as [[r1 x1] w1] eqn:Em. apply rmf_spec in Em.
    destruct Em as [M1 [M2 [M3 [[l [Hl Hrd]] M4]]]].
    pose proof (QQ_ext_rd _ _ _ Hl Hrd) as HQ.
    assert (HP : x_additional x1 = x_additional x0 -> Moves (QQ w0) (PP x0) (QQ w1) (PP x1)).
    { intros Ha. unfold PP. rewrite Ha, HQ. apply Moves_refl. }
    destruct r1 as [[m|]|e|s|].
    + inversion H; subst; clear H. split; [exact M1|]. split; [exact M2|].
      destruct m as [b|b|b|b|cl|f]; try (destruct M4 as [A B]; split; [rewrite A; apply st_step_refl|auto]).
      * destruct M4 as [[A [B C]]|[A [B C]]].
        -- left. split; [exact A|]. split; [exact B|]. exists (x_additional x0).
           split; [rewrite HQ; apply Moves_refl|exact C].
        -- right. split; [congruence|]. split; [rewrite B; apply st_step_refl|auto].
      * destruct M4 as [[A [B [C D]]]|[A [B C]]].
        -- left. split; [exact A|]. split; [exact B|]. split; [exact C|]. exists (x_additional x0).
           split; [rewrite HQ; apply Moves_refl|exact D].
        -- right. split; [exact A|]. split; [exact B|]. auto.
    + destruct M4 as [A B]. apply IH in H.
      refine (ReadSpec_pre _ _ _ _ _ _ _ M1 _ M2 (HP B) H). rewrite A. apply st_step_refl.
    + inversion H; subst; clear H. split; [exact M1|]. split; [exact M2|]. destruct M4; split; auto.
    + inversion H; subst; clear H. split; [exact M1|]. split; [exact M2|]. destruct M4; split; auto.
    + inversion H; subst; clear H. split; [exact M1|]. split; [exact M2|]. destruct M4; split; auto.
Qed.

Lemma read_spec x w r x' w' : read x w = (r, x', w') -> ReadSpec x w r x' w'.
Proof.
  unfold read. destruct (is_terminated (x_state x)).
  - intros H. inversion H; subst. repeat split; try apply st_step_refl. apply Moves_refl.
  - apply read_loop_spec.
Qed.

(* ------------------------------------------------------------------------------------------ *)
(* 7. C12, function level: the Close payload round trip and the reply                           *)
(* ------------------------------------------------------------------------------------------ *)

Ltac Zify.zify_post_hook ::= Z.div_mod_to_equations.

Lemma to_be_2 c : c < 65536 -> to_be 2 c = [c / 256; c mod 256].
Proof.
  intros Hc. cbn [to_be app]. f_equal. lia.
Qed.

Lemma from_be_2 a b : from_be [a; b] = a * 256 + b.
Proof. unfold from_be. cbn [fold_left]. lia. Qed.

Lemma from_to_be_2 c : c < 65536 -> from_be (to_be 2 c) = c.
Proof. intros Hc. rewrite (to_be_2 c Hc), from_be_2. lia. Qed.

(* decoding the payload of a Close frame with a 16-bit status code *)
Lemma frame_into_close_code c reason :
  c < 65536 ->
  frame_into_close (to_be 2 c ++ reason) =
  if is_utf8 reason then ROk (Some (close_of_u16 c, reason)) else RErr EUtf8.
Proof.
  intros Hc. pose proof (from_to_be_2 c Hc) as Hf. rewrite (to_be_2 c Hc) in *.
  cbn [app frame_into_close]. rewrite Hf. reflexivity.
Qed.

(* a CloseFrame that survives Frame::close followed by Frame::into_close *)
Definition wf_close (x : option close_frame) : Prop :=
  match x with
  | None => True
  | Some (code, reason) =>
      is_utf8 reason = true /\ close_to_u16 code < 65536 /\ close_of_u16 (close_to_u16 code) = code
  end.

Lemma close_payload_roundtrip x : wf_close x -> frame_into_close (f_payload (frame_close x)) = ROk x.
Proof.
  destruct x as [[code reason]|]; [|reflexivity].
  intros [Hu [Hc Hr]]. cbn [frame_close f_payload].
  rewrite (frame_into_close_code _ reason Hc), Hu, Hr. reflexivity.
Qed.

Lemma pv_reason_utf8 : is_utf8 pv_reason = true.
Proof. vm_compute. reflexivity. Qed.

Lemma close_to_u16_of_lt c : c < 65536 -> close_to_u16 (close_of_u16 c) < 65536.
Proof. intros H. rewrite close_to_of. exact H. Qed.

(* whatever into_close decodes is 16-bit, valid UTF-8 and in the image of CloseCode::from *)
Lemma from_be_2_lt a b : a < 256 -> b < 256 -> from_be [a; b] < 65536.
Proof. intros Ha Hb. rewrite from_be_2. lia. Qed.

Lemma frame_into_close_wf pl cl :
  Forall (fun b => b < 256) pl -> frame_into_close pl = ROk cl -> wf_close cl.
Proof.
  intros Hpl. destruct pl as [|a [|b reason]]; cbn [frame_into_close].
  - intros H. inversion H. exact I.
  - discriminate.
  - destruct (is_utf8 reason) eqn:Eu; [|discriminate]. intros H. inversion H; subst; clear H.
    inversion Hpl as [|? ? Ha Hpl']; subst. inversion Hpl' as [|? ? Hb _]; subst.
    cbn [wf_close]. split; [exact Eu|]. rewrite close_to_of. split; [|reflexivity].
    apply from_be_2_lt; assumption.
Qed.

Lemma close_reply_wf cl : wf_close cl -> wf_close (close_reply cl).
Proof.
  destruct cl as [[code reason]|]; [|exact (fun H => H)].
  cbn [close_reply]. destruct (close_allowed code); [exact (fun H => H)|].
  intros _. cbn [wf_close]. split; [exact pv_reason_utf8|]. split; [cbn; lia|reflexivity].
Qed.

(* the status codes that may appear on the wire (RFC 6455 7.4), as a boolean on u16 *)
Definition wire_allowed (c : N) : bool :=
  ((1000 <=? c) && (c <=? 1003)) || ((1007 <=? c) && (c <=? 1013)) || ((3000 <=? c) && (c <=? 4999)).

Lemma wire_allowed_spec c : wire_allowed c = close_allowed (close_of_u16 c).
Proof.
  pose proof (close_allowed_iff c) as H. unfold allowed_range in H. unfold wire_allowed.
  destruct (close_allowed (close_of_u16 c)).
  - destruct H as [H _]. specialize (H eq_refl). lia.
  - destruct (((1000 <=? c) && (c <=? 1003)) || ((1007 <=? c) && (c <=? 1013)) || ((3000 <=? c) && (c <=? 4999))) eqn:E;
      [|reflexivity].
    destruct H as [_ H]. symmetry. apply H. lia.
Qed.

(* a well-formed Close frame as delivered by read_frame to an endpoint of role r *)
Definition close_frame_ok (r : role) (f : frame) : Prop :=
  h_opcode (f_hdr f) = OCtl Close /\ h_fin (f_hdr f) = true /\
  h_rsv1 (f_hdr f) = false /\ h_rsv2 (f_hdr f) = false /\ h_rsv3 (f_hdr f) = false /\
  (r = Client -> h_mask (f_hdr f) = None) /\ blen (f_payload f) <= 125.

Definition ctl_frame_ok (r : role) (f : frame) : Prop :=
  h_fin (f_hdr f) = true /\
  h_rsv1 (f_hdr f) = false /\ h_rsv2 (f_hdr f) = false /\ h_rsv3 (f_hdr f) = false /\
  (r = Client -> h_mask (f_hdr f) = None) /\ blen (f_payload f) <= 125.

Definition the_read_frame (x : ctx) (w : world) : res (option frame) * codec * world :=
  read_frame (cfg_max_frame_size (x_cfg x)) (role_eqb (x_role x) Server)
             (cfg_accept_unmasked (x_cfg x)) (x_codec x) w.

Lemma rmf_ctl_prefix x w f c1 w1 :
  the_read_frame x w = (ROk (Some f), c1, w1) ->
  can_read (x_state x) = true -> ctl_frame_ok (x_role x) f ->
  forall ctl, h_opcode (f_hdr f) = OCtl ctl ->
  read_message_frame x w =
  let x1 := set_codec x c1 in
  match ctl with
  | Close =>
      match frame_into_close (f_payload f) with
      | ROk cl =>
          let '(r, x2) := do_close x1 cl in
          match r with
          | ROk (Some c) => (ROk (Some (MClose c)), x2, w1)
          | ROk None => (ROk None, x2, w1)
          | RErr e => (RErr e, x2, w1)
          | RPanic s => (RPanic s, x2, w1)
          | ROutOfFuel => (ROutOfFuel, x2, w1)
          end
      | RErr e => (RErr e, x1, w1)
      | RPanic s => (RPanic s, x1, w1)
      | ROutOfFuel => (ROutOfFuel, x1, w1)
      end
  | CReserved i => (RErr (EProtocol (UnknownControlFrameType i)), x1, w1)
  | Ping =>
      let x2 := if is_active (x_state x1) then set_additional x1 (frame_pong (f_payload f)) else x1 in
      (ROk (Some (MPing (f_payload f))), x2, w1)
  | Pong => (ROk (Some (MPong (f_payload f))), x1, w1)
  end.
Proof.
  unfold the_read_frame, read_message_frame. intros Erf Hcr [Hfin [H1 [H2 [H3 [Hm Hlen]]]]] ctl Hop.
  rewrite Erf. cbn [check_connection_reset].
  assert (E1 : set_state (set_codec x c1) (x_state x) = set_codec x c1) by (destruct x; reflexivity).
  rewrite E1. cbn [x_state set_codec x_role]. rewrite Hcr, H1, H2, H3, Hop, Hfin. cbn [negb orb].
  replace (role_eqb (x_role x) Client && match h_mask (f_hdr f) with Some _ => true | None => false end)
    with false.
  2:{ destruct (x_role x) eqn:Er; [reflexivity|]. rewrite (Hm eq_refl). reflexivity. }
  replace (125 <? blen (f_payload f)) with false by lia.
  reflexivity.
Qed.

(* C12_reply, function level *)
Lemma rmf_close_active x w f c1 w1 cl :
  x_state x = Active ->
  the_read_frame x w = (ROk (Some f), c1, w1) ->
  close_frame_ok (x_role x) f ->
  frame_into_close (f_payload f) = ROk cl ->
  read_message_frame x w =
    (ROk (Some (MClose (close_reply cl))),
     set_additional (set_state (set_codec x c1) ClosedByPeer) (frame_close (close_reply cl)), w1).
Proof.
  intros Hs Erf [Hop Hok] Hic.
  rewrite (rmf_ctl_prefix x w f c1 w1 Erf) with (ctl := Close); try assumption.
  2:{ rewrite Hs. reflexivity. }
  cbv zeta. rewrite Hic. unfold do_close. cbn [x_state set_codec]. rewrite Hs.
  destruct cl as [[code reason]|]; cbn [close_reply]; [destruct (close_allowed code)|]; reflexivity.
Qed.

(* C12_ack, function level *)
Lemma rmf_close_ack x w f c1 w1 cl :
  x_state x = ClosedByUs ->
  the_read_frame x w = (ROk (Some f), c1, w1) ->
  close_frame_ok (x_role x) f ->
  frame_into_close (f_payload f) = ROk cl ->
  read_message_frame x w = (ROk (Some (MClose cl)), set_state (set_codec x c1) CloseAcknowledged, w1).
Proof.
  intros Hs Erf [Hop Hok] Hic.
  rewrite (rmf_ctl_prefix x w f c1 w1 Erf) with (ctl := Close); try assumption.
  2:{ rewrite Hs. reflexivity. }
  cbv zeta. rewrite Hic. unfold do_close. cbn [x_state set_codec]. rewrite Hs. reflexivity.
Qed.

(* the peer's Close payload: empty, or a 16-bit code followed by a reason *)
Definition peer_close_payload (p : option (N * bytes)) : bytes :=
  match p with None => [] | Some (c, reason) => to_be 2 c ++ reason end.
Definition peer_close_ok (p : option (N * bytes)) : Prop :=
  match p with None => True | Some (c, reason) => c < 65536 /\ is_utf8 reason = true end.
(* what the endpoint reports and answers *)
Definition expected_reply (p : option (N * bytes)) : option close_frame :=
  match p with
  | None => None
  | Some (c, reason) => if wire_allowed c then Some (close_of_u16 c, reason) else Some (CProtocol, pv_reason)
  end.
Definition decoded_close (p : option (N * bytes)) : option close_frame :=
  match p with None => None | Some (c, reason) => Some (close_of_u16 c, reason) end.

Lemma peer_close_decodes p :
  peer_close_ok p -> frame_into_close (peer_close_payload p) = ROk (decoded_close p).
Proof.
  destruct p as [[c reason]|]; [|reflexivity]. intros [Hc Hu].
  cbn [peer_close_payload decoded_close]. rewrite (frame_into_close_code c reason Hc), Hu. reflexivity.
Qed.

Lemma expected_reply_spec p : expected_reply p = close_reply (decoded_close p).
Proof.
  destruct p as [[c reason]|]; [|reflexivity]. cbn [expected_reply decoded_close close_reply].
  rewrite wire_allowed_spec. reflexivity.
Qed.

Lemma expected_reply_wf p : peer_close_ok p -> wf_close (expected_reply p).
Proof.
  intros Hp. rewrite expected_reply_spec. apply close_reply_wf.
  destruct p as [[c reason]|]; [|exact I]. destruct Hp as [Hc Hu].
  cbn [decoded_close wf_close]. rewrite close_to_of. repeat split; assumption.
Qed.

Definition pend_free (a : option frame) : Prop :=
  a = None \/ exists g, a = Some g /\ is_pong g = true.

Lemma pend_set_free a g : pend_free a -> pend_set a g = Some g.
Proof. intros [->|[f [-> Hf]]]; cbn [pend_set]; [|rewrite Hf]; reflexivity. Qed.

Lemma reply_full x w f c1 w1 p :
  x_state x = Active ->
  pend_free (x_additional x) ->
  the_read_frame x w = (ROk (Some f), c1, w1) ->
  close_frame_ok (x_role x) f ->
  f_payload f = peer_close_payload p -> peer_close_ok p ->
  exists x',
    read_message_frame x w = (ROk (Some (MClose (expected_reply p))), x', w1) /\
    x_state x' = ClosedByPeer /\
    x_additional x' = Some (frame_close (expected_reply p)) /\
    frame_into_close (f_payload (frame_close (expected_reply p))) = ROk (expected_reply p).
Proof.
  intros Hs Hfree Erf Hok Hpl Hp.
  pose proof (peer_close_decodes p Hp) as Hdec. rewrite <- Hpl in Hdec.
  eexists. split; [|split; [|split]].
  - rewrite expected_reply_spec. exact (rmf_close_active x w f c1 w1 _ Hs Erf Hok Hdec).
  - match goal with |- context [set_additional ?a ?b] =>
      destruct (set_additional_fields a b) as [_ [_ [F3 _]]]; rewrite F3 end. reflexivity.
  - rewrite set_additional_pend. cbn [x_additional set_state set_codec].
    rewrite (pend_set_free _ _ Hfree), expected_reply_spec. reflexivity.
  - apply close_payload_roundtrip, expected_reply_wf, Hp.
Qed.

(* C12_not_displaced: set_additional never replaces a Close frame; a pong (or nothing) gives way *)
Lemma set_additional_keeps_close x f g :
  x_additional x = Some f -> is_close f = true -> set_additional x g = x.
Proof.
  intros Ha Hc. unfold set_additional. rewrite Ha.
  apply is_close_pong_excl in Hc. unfold is_pong in Hc. rewrite Hc. reflexivity.
Qed.

Lemma set_additional_replaces x g :
  pend_free (x_additional x) -> x_additional (set_additional x g) = Some g.
Proof. intros H. rewrite set_additional_pend. apply pend_set_free, H. Qed.

Lemma reply_wf pl cl0 : frame_into_close pl = ROk cl0 -> wf_close (close_reply cl0).
Proof.
  destruct pl as [|a [|b reason]]; cbn [frame_into_close].
  - intros H. inversion H. exact I.
  - discriminate.
  - destruct (is_utf8 reason) eqn:Eu; [|discriminate]. intros H. inversion H; subst; clear H.
    cbn [close_reply]. destruct (close_allowed (close_of_u16 (from_be [a; b]))) eqn:Ea.
    + apply close_allowed_iff in Ea. unfold allowed_range in Ea.
      cbn [wf_close]. rewrite close_to_of. split; [exact Eu|]. split; [lia|reflexivity].
    + cbn [wf_close]. split; [exact pv_reason_utf8|]. split; [cbn; lia|reflexivity].
Qed.

(* ------------------------------------------------------------------------------------------ *)
(* 8. C12, run level: at most one Close frame, carrying what was reported                       *)
(* ------------------------------------------------------------------------------------------ *)

Definition cpl (l : list frame) : list bytes := map f_payload (filter is_close l).

Lemma cpl_app a b : cpl (a ++ b) = cpl a ++ cpl b.
Proof. unfold cpl. rewrite filter_app, map_app. reflexivity. Qed.

Lemma cpl_uq l : cpl (uq l) = cpl l.
Proof.
  induction l as [|f l IH]; [reflexivity|]. unfold cpl, uq in *. cbn [map filter].
  rewrite is_close_unmask. destruct (is_close f); cbn [map]; rewrite IH; reflexivity.
Qed.

(* payloads of the Close frames queued or parked, in order *)
Definition closes (x : ctx) (w : world) : list bytes := cpl (oseq x w).

Lemma closes_raw x w : closes x w = cpl (queued (w_log w) ++ olist (x_additional x)).
Proof.
  unfold closes, oseq, QQ, PP. rewrite !cpl_app, cpl_uq. f_equal.
  destruct (x_additional x) as [f|]; [|reflexivity]. exact (cpl_uq [f]).
Qed.

(* the parked frame is a pong, or a Close parked after the state left Active *)
Definition pend_inv (p : option frame) (s : ws_state) : Prop :=
  match p with
  | None => True
  | Some f => is_pong f = true \/ (is_close f = true /\ s <> Active)
  end.
Definition PInv (x : ctx) : Prop := pend_inv (PP x) (x_state x).

Lemma PInv_raw x : PInv x <-> pend_inv (x_additional x) (x_state x).
Proof. unfold PInv, PP. destruct (x_additional x); reflexivity. Qed.

Lemma pend_inv_keep p s p' s' :
  pend_inv p s -> (p' = p \/ p' = None) -> (s' = Active -> s = Active) -> pend_inv p' s'.
Proof.
  intros H [->| ->] Hs; [|exact I]. destruct p as [f|]; [|exact I].
  destruct H as [H|[H1 H2]]; [left; exact H|right; split; [exact H1|auto]].
Qed.

Lemma Moves_pend q p q' p' : Moves q p q' p' -> p' = p \/ p' = None.
Proof. intros [[_ ->]|[_ ->]]; auto. Qed.

Lemma st_step_active s s' : st_step s s' -> s' = Active -> s = Active.
Proof. intros [->| ->]; [auto|discriminate]. Qed.

Lemma pend_inv_active_free p : pend_inv p Active -> p = None \/ exists g, p = Some g /\ is_pong g = true.
Proof.
  destruct p as [f|]; [|left; reflexivity]. intros [H|[_ H]]; [right; exists f; split; [reflexivity|exact H]|].
  contradiction.
Qed.

Definition CInv (x : ctx) (w : world) : Prop := PInv x /\ (x_state x = Active -> closes x w = []).

(* a step that only moves the parked frame and inserts non-Close user frames *)
Lemma CInv_keep x w x' w' ins :
  CInv x w -> Moves (QQ w ++ ins) (PP x) (QQ w') (PP x') -> cpl ins = [] ->
  (x_state x' = Active -> x_state x = Active) ->
  CInv x' w' /\ closes x' w' = closes x w.
Proof.
  intros [HP HC] HM Hins Hs.
  assert (Hcl : closes x' w' = closes x w).
  { unfold closes, oseq. rewrite (Moves_seq _ _ _ _ HM), !cpl_app, Hins, app_nil_r. reflexivity. }
  split; [|exact Hcl]. split.
  - eapply pend_inv_keep; [exact HP|exact (Moves_pend _ _ _ _ HM)|exact Hs].
  - intros Ha. rewrite Hcl. auto.
Qed.

(* a step that parks a Close while leaving Active *)
Lemma CInv_commit x w x' w' c :
  CInv x w -> x_state x = Active -> x_state x' <> Active ->
  Moves (QQ w) (Some (frame_close c)) (QQ w') (PP x') ->
  CInv x' w' /\ closes x' w' = [f_payload (frame_close c)].
Proof.
  intros [HP HC] Ha Hna HM. specialize (HC Ha).
  unfold closes, oseq in HC. rewrite cpl_app in HC. apply app_eq_nil in HC. destruct HC as [HC _].
  split; [split|].
  - destruct HM as [[_ HM]|[_ HM]]; unfold PInv; rewrite HM; [|exact I].
    right. split; [reflexivity|exact Hna].
  - intros E. contradiction.
  - unfold closes, oseq. rewrite (Moves_seq _ _ _ _ HM), cpl_app, HC. reflexivity.
Qed.

Definition no_raw_ctl (o : op) : Prop :=
  match o with OpWrite (MFrame f) => is_control (h_opcode (f_hdr f)) = false | _ => True end.

Lemma not_ctl_not_close f : is_control (h_opcode (f_hdr f)) = false -> is_close f = false.
Proof. unfold is_close. destruct (h_opcode (f_hdr f)); [reflexivity|discriminate]. Qed.
Lemma not_ctl_not_pong f : is_control (h_opcode (f_hdr f)) = false -> is_pong f = false.
Proof. unfold is_pong. destruct (h_opcode (f_hdr f)); [reflexivity|discriminate]. Qed.

Lemma msg_frame_not_close m : no_raw_ctl (OpWrite m) -> cpl (map unmask (olist (msg_frame m))) = [].
Proof.
  destruct m as [d|d|d|d|c|f]; try reflexivity. cbn [no_raw_ctl msg_frame olist map].
  intros H. unfold cpl. cbn [filter]. rewrite is_close_unmask, (not_ctl_not_close f H). reflexivity.
Qed.

Definition close_origin (o : op) (res : op_result) (c : option close_frame) : Prop :=
  o = OpClose c \/ o = OpWrite (MClose c) \/ (o = OpRead /\ res = ResMsg (ROk (MClose c))).

Definition is_close_op (o : op) : Prop :=
  match o with OpClose _ | OpWrite (MClose _) => True | _ => False end.

Definition CloseStep (x : ctx) (w : world) (o : op) (res : op_result) (x' : ctx) (w' : world) : Prop :=
  CInv x' w' /\ (x_state x' = Active -> x_state x = Active) /\
  (x_state x' = ClosedByUs -> x_state x = ClosedByUs \/ is_close_op o) /\
  ((closes x' w' = closes x w /\
    (forall c, res = ResMsg (ROk (MClose c)) -> x_state x = ClosedByUs /\ x_state x' = CloseAcknowledged)) \/
   (x_state x = Active /\ x_state x' <> Active /\
    exists c, closes x' w' = [f_payload (frame_close c)] /\ close_origin o res c /\
              (res = ResMsg (ROk (MClose c)) -> x_state x' = ClosedByPeer /\ wf_close c))).

Lemma st_step_cbu s s' : st_step s s' -> s' = ClosedByUs -> s = ClosedByUs.
Proof. intros [->| ->]; [auto|discriminate]. Qed.

Lemma close_step_keep x w o res x' w' ins :
  CInv x w -> Moves (QQ w ++ ins) (PP x) (QQ w') (PP x') -> cpl ins = [] ->
  st_step (x_state x) (x_state x') ->
  (forall c, res <> ResMsg (ROk (MClose c))) ->
  CloseStep x w o res x' w'.
Proof.
  intros HI HM Hins Hs Hres.
  destruct (CInv_keep x w x' w' ins HI HM Hins (st_step_active _ _ Hs)) as [HI' Hcl].
  split; [exact HI'|]. split; [exact (st_step_active _ _ Hs)|].
  split; [intros E; left; exact (st_step_cbu _ _ Hs E)|].
  left. split; [exact Hcl|]. intros c E. exfalso. exact (Hres c E).
Qed.

Lemma close_step x o w res x' w' :
  run_op x o w = (res, x', w') -> no_raw_ctl o -> CInv x w -> CloseStep x w o res x' w'.
Proof.
  intros H Hraw HI. destruct o as [|m| |c| | |wbs mx]; cbn [run_op] in H.
  - (* read *)
    destruct (read x w) as [[r x1] w1] eqn:E. inversion H; subst; clear H.
    apply read_spec in E. destruct E as [_ [_ E]].
    assert (Hdef : st_step (x_state x) (x_state x') /\ Moves (QQ w) (PP x) (QQ w') (PP x') ->
                   (forall c, ResMsg r <> ResMsg (ROk (MClose c))) ->
                   CloseStep x w OpRead (ResMsg r) x' w').
    { intros [A B] Hr. eapply close_step_keep with (ins := []); try eassumption; [|reflexivity].
      rewrite app_nil_r. exact B. }
    destruct r as [m|e|s|]; try (apply Hdef; [exact E|intros c; discriminate]).
    destruct m as [b|b|b|b|cl|f]; try (apply Hdef; [exact E|intros c; discriminate]).
    + (* Ping *)
      destruct E as [[A [B [a [C D]]]]|[A [B C]]].
      2:{ apply Hdef; [split; assumption|intros c; discriminate]. }
      destruct HI as [HP HC0]. pose proof (HC0 A) as HC. unfold PInv in HP. rewrite A in HP.
      unfold closes, oseq in HC.
      pose proof (Moves_seq _ _ _ _ C) as Hseq. rewrite <- Hseq, cpl_app in HC.
      apply app_eq_nil in HC. destruct HC as [HC1 HC2].
      assert (Hfree : pend_free (option_map unmask a)).
      { destruct (Moves_pend _ _ _ _ C) as [->| ->]; [apply pend_inv_active_free; exact HP|left; reflexivity]. }
      assert (HPP : PP x' = Some (frame_pong b)).
      { unfold PP. rewrite D, pend_set_unmask, (pend_set_free _ _ Hfree). reflexivity. }
      split; [split|].
      * unfold PInv. rewrite HPP. left. reflexivity.
      * intros _. unfold closes, oseq. rewrite cpl_app, HC1, HPP. reflexivity.
      * split; [intros _; exact A|]. split; [intros E; congruence|].
        left. split; [|intros c; discriminate].
        rewrite (HC0 A). unfold closes, oseq. rewrite cpl_app, HC1, HPP. reflexivity.
    + (* Close *)
      destruct E as [[A [B [[cl0 [pl [Hic Hcl]]] [a [C D]]]]]|[A [B C]]].
      * assert (Hfree : pend_free (option_map unmask a)).
        { destruct HI as [HP _]. unfold PInv in HP. rewrite A in HP.
          destruct (Moves_pend _ _ _ _ C) as [->| ->]; [apply pend_inv_active_free; exact HP|left; reflexivity]. }
        assert (HPP : PP x' = Some (frame_close cl)).
        { unfold PP. rewrite D, pend_set_unmask, (pend_set_free _ _ Hfree). reflexivity. }
        destruct HI as [HP HC]. specialize (HC A). unfold closes, oseq in HC.
        pose proof (Moves_seq _ _ _ _ C) as Hseq. rewrite <- Hseq, cpl_app in HC.
        apply app_eq_nil in HC. destruct HC as [HC1 HC2].
        assert (Hcl' : closes x' w' = [f_payload (frame_close cl)]).
        { unfold closes, oseq. rewrite cpl_app, HC1, HPP. reflexivity. }
        split; [split|].
        -- unfold PInv. rewrite HPP. right. split; [reflexivity|]. rewrite B. discriminate.
        -- intros E. rewrite B in E. discriminate.
        -- split; [intros E; congruence|]. split; [intros E; congruence|].
           right. split; [exact A|]. split; [rewrite B; discriminate|].
           exists cl. split; [exact Hcl'|]. split; [right; right; split; reflexivity|].
           intros _. split; [exact B|]. subst cl. eapply reply_wf; exact Hic.
      * assert (Hs : x_state x' = Active -> x_state x = Active) by (rewrite A, B; discriminate).
        assert (HM : Moves (QQ w ++ []) (PP x) (QQ w') (PP x')) by (rewrite app_nil_r; exact C).
        destruct (CInv_keep x w x' w' [] HI HM eq_refl Hs) as [HI' Hcl].
        split; [exact HI'|]. split; [exact Hs|]. split; [intros E; congruence|].
        left. split; [exact Hcl|]. intros c _. split; assumption.
  - (* write *)
    destruct (write x m w) as [[r x1] w1] eqn:E. inversion H; subst; clear H.
    apply write_msg_spec in E. destruct E as [_ [_ [_ [[A [-> ->]]|[A E]]]]].
    { eapply close_step_keep with (ins := []); try reflexivity; try assumption;
        [rewrite app_nil_r; apply Moves_refl|apply st_step_refl|intros c; discriminate]. }
    assert (Hdata : forall (E' : st_step Active (x_state x') /\
           exists ins, (ins = [] \/ ins = map unmask (olist (msg_frame m))) /\
                       Moves (QQ w ++ ins) (PP x) (QQ w') (PP x')),
           CloseStep x w (OpWrite m) (ResUnit r) x' w').
    { intros [B [ins [Hins HM]]]. eapply close_step_keep with (ins := ins); try eassumption.
      - destruct Hins as [->| ->]; [reflexivity|apply msg_frame_not_close; exact Hraw].
      - rewrite A. exact B.
      - intros c; discriminate. }
    destruct m as [d|d|d|d|c|f]; try (apply Hdata; exact E).
    + (* user pong *)
      destruct E as [B C].
      destruct HI as [HP HC]. pose proof (HC A) as HC0. unfold PInv in HP. rewrite A in HP.
      apply pend_inv_active_free in HP.
      rewrite (pend_set_free _ _ HP) in C.
      unfold closes, oseq in HC0. rewrite cpl_app in HC0. apply app_eq_nil in HC0. destruct HC0 as [HC1 HC2].
      assert (Hcl : closes x' w' = []).
      { unfold closes, oseq. rewrite (Moves_seq _ _ _ _ C), cpl_app, HC1. reflexivity. }
      split; [split|].
      * unfold PInv. destruct (Moves_pend _ _ _ _ C) as [->| ->]; [left; reflexivity|exact I].
      * intros _. exact Hcl.
      * split; [intros _; exact A|]. split; [intros E; exfalso; destruct B as [B|B]; rewrite B in E; discriminate|].
        left. split; [rewrite Hcl, (HC A); reflexivity|intros c; discriminate].
    + (* user close *)
      destruct E as [B C].
      assert (Hna : x_state x' <> Active) by (destruct B as [->| ->]; discriminate).
      destruct (CInv_commit x w x' w' c HI A Hna C) as [HI' Hcl].
      split; [exact HI'|]. split; [intros E; contradiction|]. split; [intros _; right; exact I|].
      right. split; [exact A|]. split; [exact Hna|]. exists c. split; [exact Hcl|].
      split; [right; left; reflexivity|discriminate].
  - (* flush *)
    destruct (flush x w) as [[r x1] w1] eqn:E. inversion H; subst; clear H.
    apply flush_keeps in E. destruct E as [_ [A [_ [_ B]]]].
    eapply close_step_keep with (ins := []); try reflexivity; try assumption;
      [rewrite app_nil_r; exact B|intros c0; discriminate].
  - (* close *)
    destruct (close x c w) as [[r x1] w1] eqn:E. inversion H; subst; clear H.
    apply close_spec in E. destruct E as [_ [_ [_ [[A [B C]]|[A [B C]]]]]].
    + assert (Hna : x_state x' <> Active) by (destruct B as [->| ->]; discriminate).
      destruct (CInv_commit x w x' w' c HI A Hna C) as [HI' Hcl].
      split; [exact HI'|]. split; [intros E; contradiction|]. split; [intros _; right; exact I|].
      right. split; [exact A|]. split; [exact Hna|]. exists c. split; [exact Hcl|].
      split; [left; reflexivity|discriminate].
    + eapply close_step_keep with (ins := []); try reflexivity; try assumption;
        [rewrite app_nil_r; exact C|intros c0; discriminate].
  - inversion H; subst; clear H.
    eapply close_step_keep with (ins := []); try reflexivity; try assumption;
      [rewrite app_nil_r; apply Moves_refl|apply st_step_refl|intros c0; discriminate].
  - inversion H; subst; clear H.
    eapply close_step_keep with (ins := []); try reflexivity; try assumption;
      [rewrite app_nil_r; apply Moves_refl|apply st_step_refl|intros c0; discriminate].
  - destruct (config_valid _); inversion H; subst; clear H;
      (eapply close_step_keep with (ins := []); try reflexivity; try assumption;
        [rewrite app_nil_r; apply Moves_refl|apply st_step_refl|intros c0; discriminate]).
Qed.

Lemma run_ops_cons x o ops w :
  run_ops x (o :: ops) w =
  let '(res1, x1, w1) := run_op x o w in
  let '(rs, x2, w2) := run_ops x1 ops w1 in
  ((res1, blen (w_log w1)) :: rs, x2, w2).
Proof. reflexivity. Qed.

(* over a whole run: the Close payloads are unchanged, or there is exactly one and it has an origin *)
Lemma closes_run ops : forall x w rs x' w',
  run_ops x ops w = (rs, x', w') -> Forall no_raw_ctl ops -> CInv x w ->
  CInv x' w' /\ (x_state x' = Active -> x_state x = Active) /\
  (closes x' w' = closes x w \/
   (x_state x = Active /\ x_state x' <> Active /\
    exists c, closes x' w' = [f_payload (frame_close c)] /\
              exists o res n, In o ops /\ In (res, n) rs /\ close_origin o res c)).
Proof.
  induction ops as [|o ops IH]; intros x w rs x' w' H Hraw HI.
  - cbn [run_ops] in H. inversion H; subst. split; [exact HI|]. split; [auto|]. left. reflexivity.
  - rewrite run_ops_cons in H.
    destruct (run_op x o w) as [[res1 x1] w1] eqn:E1.
    destruct (run_ops x1 ops w1) as [[rs2 x2] w2] eqn:E2.
    inversion H; subst; clear H.
    inversion Hraw as [|? ? Hraw1 Hraw2]; subst.
    apply close_step in E1; [|exact Hraw1|exact HI].
    destruct E1 as [HI1 [Hact [_ Hd]]].
    destruct (IH _ _ _ _ _ E2 Hraw2 HI1) as [HI2 [Hact2 Hd2]].
    split; [exact HI2|]. split; [auto|].
    destruct Hd as [[Hcl _]|[A [Hna [c [Hcl [Ho _]]]]]].
    + destruct Hd2 as [Hcl2|[A2 [Hna2 [c [Hcl2 [o2 [res2 [n2 [Hin1 [Hin2 Ho2]]]]]]]]]].
      * left. congruence.
      * right. split; [auto|]. split; [exact Hna2|]. exists c. split; [exact Hcl2|].
        exists o2, res2, n2. split; [right; exact Hin1|]. split; [right; exact Hin2|exact Ho2].
    + assert (Hna' : x_state x' <> Active) by (intros E; apply Hna; auto).
      destruct Hd2 as [Hcl2|[A2 _]]; [|contradiction].
      right. split; [exact A|]. split; [exact Hna'|]. exists c. split; [congruence|].
      exists o, res1, (blen (w_log w1)). split; [left; reflexivity|]. split; [left; reflexivity|exact Ho].
Qed.

(* if the user never closes, the one Close frame carries exactly what read reported *)
Lemma reported_run ops : forall x w rs x' w',
  run_ops x ops w = (rs, x', w') -> Forall no_raw_ctl ops -> Forall (fun o => ~ is_close_op o) ops ->
  CInv x w -> x_state x <> ClosedByUs ->
  forall c n, In (ResMsg (ROk (MClose c)), n) rs ->
  closes x' w' = [f_payload (frame_close c)] /\ wf_close c.
Proof.
  induction ops as [|o ops IH]; intros x w rs x' w' H Hraw Hnc HI Hs c n Hin.
  - cbn [run_ops] in H. inversion H; subst. contradiction.
  - rewrite run_ops_cons in H.
    destruct (run_op x o w) as [[res1 x1] w1] eqn:E1.
    destruct (run_ops x1 ops w1) as [[rs2 x2] w2] eqn:E2.
    inversion H; subst; clear H.
    inversion Hraw as [|? ? Hraw1 Hraw2]; subst. inversion Hnc as [|? ? Hnc1 Hnc2]; subst.
    apply close_step in E1; [|exact Hraw1|exact HI].
    destruct E1 as [HI1 [Hact [Hcbu Hd]]].
    assert (Hs1 : x_state x1 <> ClosedByUs).
    { intros E. destruct (Hcbu E) as [E'|E']; contradiction. }
    destruct Hin as [Hin|Hin].
    + inversion Hin; subst; clear Hin.
      destruct Hd as [[_ Hack]|[A [Hna [c' [Hcl [Ho Hwf]]]]]].
      * destruct (Hack c eq_refl) as [E _]. contradiction.
      * destruct Ho as [->|[->|[_ Ho]]]; try (exfalso; apply Hnc1; exact I).
        inversion Ho; subst c'. destruct (Hwf eq_refl) as [_ Hwf'].
        destruct (closes_run _ _ _ _ _ _ E2 Hraw2 HI1) as [_ [_ [Hcl2|[A2 _]]]]; [|contradiction].
        split; [congruence|exact Hwf'].
    + exact (IH _ _ _ _ _ E2 Hraw2 Hnc2 HI1 Hs1 c n Hin).
Qed.

Lemma ctx_new_fields r part cfg x0 :
  ctx_new r part cfg = Some x0 ->
  x_role x0 = r /\ x_state x0 = Active /\ x_additional x0 = None /\ x_unflushed x0 = false /\ x_cfg x0 = cfg.
Proof.
  unfold ctx_new. destruct (config_valid cfg); [|discriminate]. intros H. inversion H. repeat split.
Qed.

Lemma CInv_init r part cfg x0 w0 :
  ctx_new r part cfg = Some x0 -> filter is_close (queued (w_log w0)) = [] -> CInv x0 w0.
Proof.
  intros H Hq. apply ctx_new_fields in H. destruct H as [_ [Hs [Ha _]]]. split.
  - apply PInv_raw. rewrite Ha. exact I.
  - intros _. rewrite closes_raw, Ha. cbn [olist]. rewrite app_nil_r. unfold cpl. rewrite Hq. reflexivity.
Qed.

(* the Close frames this endpoint has queued or still holds in additional_send *)
Definition close_frames (x : ctx) (w : world) : list frame :=
  filter is_close (queued (w_log w) ++ olist (x_additional x)).

Lemma closes_frames x w : closes x w = map f_payload (close_frames x w).
Proof. rewrite closes_raw. reflexivity. Qed.

(* C12_once *)
Lemma close_once r part cfg x0 w0 ops rs x' w' :
  ctx_new r part cfg = Some x0 -> filter is_close (queued (w_log w0)) = [] ->
  Forall no_raw_ctl ops ->
  run_ops x0 ops w0 = (rs, x', w') ->
  (length (close_frames x' w') <= 1)%nat.
Proof.
  intros Hn Hq Hraw H. pose proof (CInv_init _ _ _ _ _ Hn Hq) as HI.
  destruct (closes_run _ _ _ _ _ _ H Hraw HI) as [_ [_ Hd]].
  assert (Hlen : length (close_frames x' w') = length (closes x' w'))
    by (rewrite closes_frames, map_length; reflexivity).
  rewrite Hlen. destruct Hd as [Hcl|[_ [_ [c [Hcl _]]]]]; rewrite Hcl.
  - destruct HI as [_ HC]. apply ctx_new_fields in Hn. rewrite HC by apply Hn. cbn. lia.
  - cbn. lia.
Qed.

(* every Close frame of the run comes from a user close or from a reported Close *)
Lemma close_has_origin r part cfg x0 w0 ops rs x' w' :
  ctx_new r part cfg = Some x0 -> filter is_close (queued (w_log w0)) = [] ->
  Forall no_raw_ctl ops ->
  run_ops x0 ops w0 = (rs, x', w') ->
  close_frames x' w' = [] \/
  exists f c, close_frames x' w' = [f] /\ f_payload f = f_payload (frame_close c) /\
    (In (OpClose c) ops \/ In (OpWrite (MClose c)) ops \/ exists n, In (ResMsg (ROk (MClose c)), n) rs).
Proof.
  intros Hn Hq Hraw H. pose proof (CInv_init _ _ _ _ _ Hn Hq) as HI.
  destruct (closes_run _ _ _ _ _ _ H Hraw HI) as [_ [_ Hd]].
  rewrite !closes_frames in Hd.
  destruct Hd as [Hcl|[_ [_ [c [Hcl [o [res [n [Hin1 [Hin2 Ho]]]]]]]]]].
  - left. destruct HI as [_ HC]. apply ctx_new_fields in Hn. rewrite closes_frames in HC.
    rewrite HC in Hcl by apply Hn. destruct (close_frames x' w'); [reflexivity|discriminate].
  - right. destruct (close_frames x' w') as [|f [|g l]]; try discriminate.
    exists f, c. split; [reflexivity|]. split; [cbn [map] in Hcl; congruence|].
    destruct Ho as [->|[->|[-> ->]]]; [left; exact Hin1|right; left; exact Hin1|right; right; exists n; exact Hin2].
Qed.

(* C12 over runs: the reply on the output equals what read reported *)
Lemma reply_matches_report r part cfg x0 w0 ops rs x' w' c n :
  ctx_new r part cfg = Some x0 -> filter is_close (queued (w_log w0)) = [] ->
  Forall no_raw_ctl ops -> Forall (fun o => ~ is_close_op o) ops ->
  run_ops x0 ops w0 = (rs, x', w') ->
  In (ResMsg (ROk (MClose c)), n) rs ->
  exists f, close_frames x' w' = [f] /\ frame_into_close (f_payload f) = ROk c.
Proof.
  intros Hn Hq Hraw Hnc H Hin. pose proof (CInv_init _ _ _ _ _ Hn Hq) as HI.
  assert (Hs : x_state x0 <> ClosedByUs).
  { apply ctx_new_fields in Hn. destruct Hn as [_ [-> _]]. discriminate. }
  destruct (reported_run _ _ _ _ _ _ H Hraw Hnc HI Hs c n Hin) as [Hcl Hwf].
  rewrite closes_frames in Hcl.
  destruct (close_frames x' w') as [|f [|g l]]; try discriminate.
  exists f. split; [reflexivity|]. assert (Hp : f_payload f = f_payload (frame_close c)) by (cbn [map] in Hcl; congruence). rewrite Hp.
  apply close_payload_roundtrip, Hwf.
Qed.

(* C12_ack with the payload spelled out *)
Lemma ack_full x w f c1 w1 p :
  x_state x = ClosedByUs ->
  the_read_frame x w = (ROk (Some f), c1, w1) ->
  close_frame_ok (x_role x) f ->
  f_payload f = peer_close_payload p -> peer_close_ok p ->
  exists x',
    read_message_frame x w = (ROk (Some (MClose (decoded_close p))), x', w1) /\
    x_state x' = CloseAcknowledged /\ x_additional x' = x_additional x.
Proof.
  intros Hs Erf Hok Hpl Hp.
  pose proof (peer_close_decodes p Hp) as Hdec. rewrite <- Hpl in Hdec.
  eexists. split; [exact (rmf_close_ack x w f c1 w1 _ Hs Erf Hok Hdec)|]. split; reflexivity.
Qed.
