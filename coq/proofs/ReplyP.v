(* proofs/ReplyP.v — automatic replies of WebSocketContext: the Close reply (C12) and the pong (C11).
   Everything is stated about the frames this endpoint hands to its FrameCodec (`queued`, the ghost
   EvQueue events) together with the frame parked in `additional_send`. *)
From TungModel Require Import Base Coding Mask Header Frame Utf8 World Message Codec Protocol.
From TungModel.proofs Require Import CodingP.
From Coq Require Import ZArith Lia ZifyBool ZifyNat ZifyN.

Arguments N.add : simpl never.
Arguments N.mul : simpl never.
Arguments N.sub : simpl never.
Arguments N.div : simpl never.
Arguments N.modulo : simpl never.
Arguments N.ltb : simpl never.
Arguments N.leb : simpl never.
Arguments N.eqb : simpl never.
Arguments N.min : simpl never.

(* ------------------------------------------------------------------------------------------ *)
(* 1. log projections                                                                          *)
(* ------------------------------------------------------------------------------------------ *)

Lemma queued_app (a b : list event) : queued (a ++ b) = queued a ++ queued b.
Proof.
  induction a as [|e a IH]; [reflexivity|].
  destruct e; cbn [app queued]; rewrite IH; reflexivity.
Qed.

Lemma wire_app (a b : list event) : wire (a ++ b) = wire a ++ wire b.
Proof.
  induction a as [|e a IH]; [reflexivity|].
  destruct e; cbn [app wire]; rewrite IH; try reflexivity. apply app_assoc.
Qed.

(* a log extension: w_log w' = w_log w ++ l *)
Definition ext (w w' : world) (l : list event) : Prop := w_log w' = w_log w ++ l.

Lemma ext_refl w : ext w w [].
Proof. unfold ext. rewrite app_nil_r. reflexivity. Qed.

Lemma ext_trans w1 w2 w3 l1 l2 : ext w1 w2 l1 -> ext w2 w3 l2 -> ext w1 w3 (l1 ++ l2).
Proof. unfold ext. intros H1 H2. rewrite H2, H1, app_assoc. reflexivity. Qed.

(* ------------------------------------------------------------------------------------------ *)
(* 2. the codec's write side                                                                   *)
(* ------------------------------------------------------------------------------------------ *)

(* events of write_out_loop: only EvWrite / EvWriteErr *)
Definition wr_event (e : event) : Prop :=
  match e with EvWrite _ _ | EvWriteErr _ _ => True | _ => False end.

Lemma queued_wr_events l : Forall wr_event l -> queued l = [].
Proof.
  induction 1 as [|e l He _ IH]; [reflexivity|].
  destruct e; cbn in He; try contradiction; cbn [queued]; exact IH.
Qed.

Lemma write_out_loop_spec wrs : forall out log r out' wrs' log',
  write_out_loop wrs out log = (r, out', wrs', log') ->
  exists l, log' = log ++ l /\ Forall wr_event l /\
    ((r = ROk tt /\ out' = [] /\ wire l = out) \/
     (exists k, r = RErr (EIo k) /\ wire l ++ out' = out)).
Proof.
  induction wrs as [|o wrs IH]; intros out log r out' wrs' log' H.
  - destruct out as [|b out]; cbn [write_out_loop] in H; inversion H; subst; clear H.
    + exists []. rewrite app_nil_r. repeat split; [constructor|]. left. repeat split.
    + eexists. split; [reflexivity|]. split; [repeat constructor|].
      right. exists WouldBlock. split; reflexivity.
  - destruct out as [|b out].
    + cbn [write_out_loop] in H. inversion H; subst; clear H.
      exists []. rewrite app_nil_r. repeat split; [constructor|]. left. repeat split.
    + cbn [write_out_loop] in H. destruct o as [n|k].
      * destruct (N.min n (blen (b :: out)) =? 0) eqn:E0.
        -- inversion H; subst; clear H. eexists. split; [reflexivity|]. split; [repeat constructor|].
           right. exists ConnReset. split; reflexivity.
        -- apply IH in H. destruct H as [l [Hl [Hf Hr]]].
           exists ([EvWrite (blen (b :: out)) (takeN (N.min n (blen (b :: out))) (b :: out))] ++ l).
           split; [rewrite Hl, app_assoc; reflexivity|].
           split; [constructor; [exact I|exact Hf]|].
           rewrite wire_app. cbn [wire]. rewrite app_nil_r.
           destruct Hr as [[Hr [Ho Hw]]|[k [Hr Hw]]].
           ++ left. repeat split; try assumption. rewrite Hw. apply firstn_skipn.
           ++ right. exists k. split; [assumption|]. rewrite <- app_assoc, Hw. apply firstn_skipn.
      * inversion H; subst; clear H. eexists. split; [reflexivity|]. split; [repeat constructor|].
        right. exists k. split; reflexivity.
Qed.

Definition not_full {A} (r : res A) : Prop := forall g, r <> RErr (EWriteBufferFull g).

Lemma write_out_buffer_spec c w r c' w' :
  write_out_buffer c w = (r, c', w') ->
  exists l, ext w w' l /\ Forall wr_event l /\
    c_in c' = c_in c /\ c_max_out c' = c_max_out c /\ c_write_len c' = c_write_len c /\ c_hdr c' = c_hdr c /\
    w_rds w' = w_rds w /\ w_fls w' = w_fls w /\ w_keys w' = w_keys w /\
    ((r = ROk tt /\ c_out c' = [] /\ wire l = c_out c) \/
     (exists k, r = RErr (EIo k) /\ wire l ++ c_out c' = c_out c)).
Proof.
  unfold write_out_buffer. destruct (write_out_loop _ _ _) as [[[r0 out'] wrs'] log'] eqn:E.
  intros H. inversion H; subst; clear H.
  apply write_out_loop_spec in E. destruct E as [l [Hl [Hf Hr]]].
  exists l. unfold ext. cbn. repeat split; assumption.
Qed.

Lemma write_out_buffer_not_full c w r c' w' : write_out_buffer c w = (r, c', w') -> not_full r.
Proof.
  intros H. apply write_out_buffer_spec in H.
  destruct H as [l [_ [_ [_ [_ [_ [_ [_ [_ [_ [[-> _]|[k [-> _]]]]]]]]]]]]]; intros g; discriminate.
Qed.

Lemma write_out_buffer_queued c w r c' w' :
  write_out_buffer c w = (r, c', w') -> queued (w_log w') = queued (w_log w).
Proof.
  intros H. apply write_out_buffer_spec in H. destruct H as [l [Hl [Hf _]]].
  rewrite Hl, queued_app, (queued_wr_events _ Hf), app_nil_r. reflexivity.
Qed.

(* FrameCodec::buffer_frame either refuses the frame (nothing happens) or appends exactly it *)
Lemma codec_buffer_frame_spec c f w r c' w' :
  codec_buffer_frame c f w = (r, c', w') ->
  (r = RErr (EWriteBufferFull f) /\ c' = c /\ w' = w /\ (c_max_out c <? frame_len f + blen (c_out c)) = true) \/
  (not_full r /\ queued (w_log w') = queued (w_log w) ++ [f] /\
   (c_max_out c <? frame_len f + blen (c_out c)) = false).
Proof.
  unfold codec_buffer_frame. destruct (c_max_out c <? frame_len f + blen (c_out c)) eqn:Efull.
  - intros H. inversion H; subst. left. repeat split.
  - destruct (c_write_len c <? _) eqn:Ew; intros H.
    + right. split; [eapply write_out_buffer_not_full; exact H|].
      apply write_out_buffer_queued in H. rewrite H. unfold w_emit. cbn [w_log].
      rewrite queued_app. split; reflexivity.
    + inversion H; subst; clear H. right. split; [intros g; discriminate|].
      unfold w_emit. cbn [w_log]. rewrite queued_app. split; reflexivity.
Qed.

(* ------------------------------------------------------------------------------------------ *)
(* 3. frames modulo the client's mask; the output sequence                                     *)
(* ------------------------------------------------------------------------------------------ *)

(* a frame with its mask key forgotten (the client role sets a fresh key each time a frame is buffered) *)
Definition unmask (f : frame) : frame :=
  mkFrame (mkHeader (h_fin (f_hdr f)) (h_rsv1 (f_hdr f)) (h_rsv2 (f_hdr f)) (h_rsv3 (f_hdr f))
                    (h_opcode (f_hdr f)) None) (f_payload f).
Definition uq (l : list frame) : list frame := map unmask l.
Definition olist {A} (o : option A) : list A := match o with Some a => [a] | None => [] end.

Definition is_close (f : frame) : bool := opcode_eqb (h_opcode (f_hdr f)) (OCtl Close).
Definition is_pong (f : frame) : bool := opcode_eqb (h_opcode (f_hdr f)) (OCtl Pong).

Lemma unmask_idem f : unmask (unmask f) = unmask f.
Proof. reflexivity. Qed.
Lemma unmask_close cl : unmask (frame_close cl) = frame_close cl.
Proof. reflexivity. Qed.
Lemma unmask_pong p : unmask (frame_pong p) = frame_pong p.
Proof. reflexivity. Qed.
Lemma is_close_unmask f : is_close (unmask f) = is_close f.
Proof. reflexivity. Qed.
Lemma is_pong_unmask f : is_pong (unmask f) = is_pong f.
Proof. reflexivity. Qed.
Lemma payload_unmask f : f_payload (unmask f) = f_payload f.
Proof. reflexivity. Qed.
Lemma uq_app a b : uq (a ++ b) = uq a ++ uq b.
Proof. apply map_app. Qed.

Lemma opcode_eqb_eq a b : opcode_eqb a b = true <-> a = b.
Proof.
  destruct a as [[| | |i]|[| | |i]], b as [[| | |j]|[| | |j]]; cbn; split; intros H;
    try reflexivity; try discriminate; try (apply N.eqb_eq in H; subst; reflexivity);
    try (inversion H; subst; apply N.eqb_refl).
Qed.

Lemma is_close_pong_excl f : is_close f = true -> is_pong f = false.
Proof.
  unfold is_close, is_pong. intros H. apply opcode_eqb_eq in H. rewrite H. reflexivity.
Qed.

(* unmasked view of the context and the world *)
Definition QQ (w : world) : list frame := uq (queued (w_log w)).
Definition PP (x : ctx) : option frame := option_map unmask (x_additional x).
(* everything this endpoint has put or will put on its output, in order *)
Definition oseq (x : ctx) (w : world) : list frame := QQ w ++ olist (PP x).

(* the pending frame stays, or moves to the end of the queue *)
Definition Moves (q : list frame) (p : option frame) (q' : list frame) (p' : option frame) : Prop :=
  (q' = q /\ p' = p) \/ (q' = q ++ olist p /\ p' = None).

Lemma Moves_refl q p : Moves q p q p.
Proof. left. split; reflexivity. Qed.

Lemma Moves_trans q p q1 p1 q2 p2 : Moves q p q1 p1 -> Moves q1 p1 q2 p2 -> Moves q p q2 p2.
Proof.
  intros [[-> ->]|[-> ->]] [[-> ->]|[-> ->]].
  - left. split; reflexivity.
  - right. split; reflexivity.
  - right. split; reflexivity.
  - right. cbn [olist]. rewrite app_nil_r. split; reflexivity.
Qed.

Lemma Moves_seq q p q' p' : Moves q p q' p' -> q' ++ olist p' = q ++ olist p.
Proof. intros [[-> ->]|[-> ->]]; [reflexivity|]. cbn [olist]. apply app_nil_r. Qed.

(* set_additional on the pending slot *)
Definition pend_set (p : option frame) (g : frame) : option frame :=
  match p with
  | None => Some g
  | Some f => if is_pong f then Some g else Some f
  end.

Lemma set_additional_pend x g : x_additional (set_additional x g) = pend_set (x_additional x) g.
Proof.
  unfold set_additional, pend_set, is_pong. destruct (x_additional x) as [f|] eqn:E; [|reflexivity].
  destruct (opcode_eqb _ _); [reflexivity|exact E].
Qed.

Lemma pend_set_unmask p g : option_map unmask (pend_set p g) = pend_set (option_map unmask p) (unmask g).
Proof.
  destruct p as [f|]; [|reflexivity]. cbn [pend_set option_map]. rewrite is_pong_unmask.
  destruct (is_pong f); reflexivity.
Qed.

Lemma set_additional_fields x g :
  x_role (set_additional x g) = x_role x /\ x_codec (set_additional x g) = x_codec x /\
  x_state (set_additional x g) = x_state x /\ x_incomplete (set_additional x g) = x_incomplete x /\
  x_unflushed (set_additional x g) = x_unflushed x /\ x_cfg (set_additional x g) = x_cfg x.
Proof.
  unfold set_additional. destruct (x_additional x) as [f|]; [destruct (opcode_eqb _ _)|]; repeat split.
Qed.

(* the state either stays or becomes Terminated *)
Definition st_step (s s' : ws_state) : Prop := s' = s \/ s' = Terminated.
Lemma st_step_refl s : st_step s s. Proof. left. reflexivity. Qed.
Lemma st_step_trans a b c : st_step a b -> st_step b c -> st_step a c.
Proof. intros [->| ->] [->| ->]; unfold st_step; auto. Qed.

Lemma ccr_spec {A} (r : res A) s r' s' :
  check_connection_reset r s = (r', s') ->
  st_step s s' /\ (not_full r -> not_full r') /\ (forall g, r = RErr (EWriteBufferFull g) -> r' = r /\ s' = s) /\
  (forall a, r = ROk a -> r' = r /\ s' = s) /\ (forall a, r' = ROk a -> r = r' /\ s' = s).
Proof.
  unfold check_connection_reset. intros H.
  assert (Hsame : (r', s') = (r, s) -> st_step s s' /\ (not_full r -> not_full r') /\
     (forall g, r = RErr (EWriteBufferFull g) -> r' = r /\ s' = s) /\
     (forall a, r = ROk a -> r' = r /\ s' = s) /\ (forall a, r' = ROk a -> r = r' /\ s' = s)).
  { intros E. inversion E; subst. repeat split; auto using st_step_refl. }
  destruct r as [a|e|n|]; try (apply Hsame; symmetry; exact H).
  destruct e as [| |k| | | |]; try (apply Hsame; symmetry; exact H).
  destruct k; try (apply Hsame; symmetry; exact H).
  destruct (closing_done s); [|apply Hsame; symmetry; exact H].
  inversion H; subst; clear H Hsame.
  split; [right; reflexivity|].
  split; [intros _ g; discriminate|].
  split; [intros g Hg; discriminate|].
  split; intros a Ha; discriminate.
Qed.

(* the frame as handed to the codec: masked with the oracle's next key in the client role *)
Definition keyed (f : frame) (k : key) : frame :=
  mkFrame (mkHeader (h_fin (f_hdr f)) (h_rsv1 (f_hdr f)) (h_rsv2 (f_hdr f)) (h_rsv3 (f_hdr f))
                    (h_opcode (f_hdr f)) (Some k)) (f_payload f).
Definition out_frame (x : ctx) (w : world) (f : frame) : frame :=
  match x_role x with Server => f | Client => keyed f (fst (w_next_key w)) end.

Lemma unmask_out_frame x w f : unmask (out_frame x w f) = unmask f.
Proof. unfold out_frame. destruct (x_role x); reflexivity. Qed.

Lemma w_next_key_log w : w_log (snd (w_next_key w)) = w_log w.
Proof. unfold w_next_key. destruct (w_keys w); reflexivity. Qed.

(* WebSocketContext::buffer_frame *)
Lemma buffer_frame_spec x f w r x' w' :
  buffer_frame x f w = (r, x', w') ->
  x_role x' = x_role x /\ x_additional x' = x_additional x /\ x_unflushed x' = x_unflushed x /\
  x_cfg x' = x_cfg x /\ x_incomplete x' = x_incomplete x /\
  st_step (x_state x) (x_state x') /\
  ((r = RErr (EWriteBufferFull (out_frame x w f)) /\ QQ w' = QQ w /\ x_state x' = x_state x) \/
   (not_full r /\ queued (w_log w') = queued (w_log w) ++ [out_frame x w f])).
Proof.
  unfold buffer_frame, out_frame. intros H.
  destruct (x_role x) eqn:Er.
  - destruct (codec_buffer_frame (x_codec x) f w) as [[r0 c'] w2] eqn:E.
    destruct (check_connection_reset r0 (x_state x)) as [r1 s1] eqn:Ec.
    inversion H; subst; clear H. cbn.
    apply ccr_spec in Ec. destruct Ec as [Hs [Hnf [Hf _]]].
    repeat split; try assumption.
    apply codec_buffer_frame_spec in E. destruct E as [[-> [-> [-> _]]]|[Hn [Hq _]]].
    + left. destruct (Hf f eq_refl) as [-> ->]. repeat split.
    + right. split; [apply Hnf; exact Hn|exact Hq].
  - destruct (w_next_key w) as [k wk] eqn:Ek.
    destruct (codec_buffer_frame (x_codec x) _ wk) as [[r0 c'] w2] eqn:E.
    destruct (check_connection_reset r0 (x_state x)) as [r1 s1] eqn:Ec.
    inversion H; subst; clear H. cbn.
    apply ccr_spec in Ec. destruct Ec as [Hs [Hnf [Hf _]]].
    repeat split; try assumption.
    assert (Hlog : w_log wk = w_log w) by (rewrite <- (w_next_key_log w), Ek; reflexivity).
    apply codec_buffer_frame_spec in E. destruct E as [[-> [-> [-> _]]]|[Hn [Hq _]]].
    + left. destruct (Hf _ eq_refl) as [-> ->]. unfold QQ. rewrite Hlog. repeat split.
    + right. split; [apply Hnf; exact Hn|]. rewrite Hq, Hlog. reflexivity.
Qed.

(* ------------------------------------------------------------------------------------------ *)
(* 4. _write, flush, close, write                                                              *)
(* ------------------------------------------------------------------------------------------ *)

Lemma QQ_snoc w w' f : queued (w_log w') = queued (w_log w) ++ [f] -> QQ w' = QQ w ++ [unmask f].
Proof. unfold QQ. intros ->. rewrite uq_app. reflexivity. Qed.

Lemma QQ_same w w' : queued (w_log w') = queued (w_log w) -> QQ w' = QQ w.
Proof. unfold QQ. intros ->. reflexivity. Qed.

(* the part of _write that sends additional_send *)
Definition write_add (x0 : ctx) (w0 : world) : res bool * ctx * world :=
  match x_additional x0 with
  | Some msg =>
      let xa := set_additional_raw x0 None in
      let '(rb, xb, wb) := buffer_frame xa msg w0 in
      match rb with
      | RErr (EWriteBufferFull f') => (ROk false, set_additional xb f', wb)
      | RErr e => (RErr e, set_unflushed xb true, wb)
      | RPanic s => (RPanic s, xb, wb)
      | ROutOfFuel => (ROutOfFuel, xb, wb)
      | ROk _ => (ROk true, set_unflushed xb true, wb)
      end
  | None => (ROk (x_unflushed x0), x0, w0)
  end.

(* the tail of _write: a server that has seen the peer's Close and has nothing pending drains and terminates *)
Definition write_tail (r1 : res bool) (x1 : ctx) (w1 : world) : res bool * ctx * world :=
  match r1 with
  | ROk should_flush =>
      if role_eqb (x_role x1) Server && closing_done (x_state x1)
         && (match x_additional x1 with None => true | Some _ => false end) then
        let '(rw, c', w2) := write_out_buffer (x_codec x1) w1 in
        match rw with
        | ROk _ => (RErr EConnectionClosed, set_state (set_codec x1 c') Terminated, w2)
        | RErr e => (RErr e, set_codec x1 c', w2)
        | RPanic s => (RPanic s, set_codec x1 c', w2)
        | ROutOfFuel => (ROutOfFuel, set_codec x1 c', w2)
        end
      else (ROk should_flush, x1, w1)
  | _ => (r1, x1, w1)
  end.

Lemma write_unfold x data w :
  write_ x data w =
  let '(r0, x0, w0) := match data with Some f => buffer_frame x f w | None => (ROk tt, x, w) end in
  match r0 with
  | RErr e => (RErr e, x0, w0)
  | RPanic s => (RPanic s, x0, w0)
  | ROutOfFuel => (ROutOfFuel, x0, w0)
  | ROk _ => let '(r1, x1, w1) := write_add x0 w0 in write_tail r1 x1 w1
  end.
Proof.
  unfold write_, write_add, write_tail.
  destruct (match data with Some f => buffer_frame x f w | None => (ROk tt, x, w) end) as [[r0 x0] w0].
  destruct r0; reflexivity.
Qed.

Lemma write_add_spec x0 w0 r1 x1 w1 :
  write_add x0 w0 = (r1, x1, w1) ->
  x_role x1 = x_role x0 /\ st_step (x_state x0) (x_state x1) /\ x_cfg x1 = x_cfg x0 /\
  x_incomplete x1 = x_incomplete x0 /\
  Moves (QQ w0) (PP x0) (QQ w1) (PP x1) /\
  (x_additional x0 = None -> x1 = x0 /\ w1 = w0 /\ r1 = ROk (x_unflushed x0)).
Proof.
  unfold write_add. destruct (x_additional x0) as [msg|] eqn:Ea.
  - destruct (buffer_frame (set_additional_raw x0 None) msg w0) as [[rb xb] wb] eqn:Eb.
    apply buffer_frame_spec in Eb. cbn [x_role x_additional x_unflushed x_cfg x_incomplete x_state set_additional_raw] in Eb.
    destruct Eb as [Hr [Ha [Hu [Hc [Hi [Hs Hq]]]]]].
    assert (HP : PP x0 = Some (unmask msg)) by (unfold PP; rewrite Ea; reflexivity).
    intros H. destruct Hq as [[-> [Hq Hst]]|[Hn Hq]].
    + inversion H; subst; clear H.
      destruct (set_additional_fields xb (out_frame (set_additional_raw x0 None) w0 msg)) as [F1 [F2 [F3 [F4 [F5 F6]]]]].
      rewrite F1, F3, F4, F6. repeat split; try assumption; try discriminate.
      left. split; [exact Hq|]. unfold PP. rewrite set_additional_pend, Ha. cbn [pend_set option_map].
      rewrite unmask_out_frame. symmetry. exact HP.
    + assert (HM : Moves (QQ w0) (PP x0) (QQ wb) (PP xb)).
      { right. rewrite HP. cbn [olist]. split; [|unfold PP; rewrite Ha; reflexivity].
        rewrite (QQ_snoc _ _ _ Hq), unmask_out_frame. reflexivity. }
      destruct rb as [u|e|s|].
      * inversion H; subst; clear H. repeat split; try assumption; discriminate.
      * destruct e; try (inversion H; subst; clear H; repeat split; try assumption; discriminate).
        exfalso. eapply Hn. reflexivity.
      * inversion H; subst; clear H. repeat split; try assumption; discriminate.
      * inversion H; subst; clear H. repeat split; try assumption; discriminate.
  - intros H. inversion H; subst; clear H. repeat split; try apply st_step_refl. apply Moves_refl.
Qed.

(* (fix 50d46f1) whenever _write moves the parked frame into the codec's buffer -- it answers Ok(true) or a
   non-WriteBufferFull error -- unflushed_additional is set, so the next read()/flush() retries the flush *)
Lemma write_add_unflushed x0 w0 r1 x1 w1 :
  write_add x0 w0 = (r1, x1, w1) -> x_additional x0 <> None ->
  (r1 = ROk true \/ exists e, r1 = RErr e) -> x_unflushed x1 = true.
Proof.
  unfold write_add. destruct (x_additional x0) as [msg|]; [|intros _ Hn; exfalso; apply Hn; reflexivity].
  destruct (buffer_frame (set_additional_raw x0 None) msg w0) as [[rb xb] wb].
  intros H _ Hr. destruct rb as [u|e|s|]; [| destruct e | |];
    inversion H; subst; clear H; try reflexivity;
    destruct Hr as [Hr|[e' Hr]]; discriminate.
Qed.

Lemma write_tail_spec r1 x1 w1 r x' w' :
  write_tail r1 x1 w1 = (r, x', w') ->
  x_role x' = x_role x1 /\ st_step (x_state x1) (x_state x') /\ x_cfg x' = x_cfg x1 /\
  x_incomplete x' = x_incomplete x1 /\
  x_additional x' = x_additional x1 /\ x_unflushed x' = x_unflushed x1 /\ QQ w' = QQ w1 /\
  (forall b, r = ROk b -> r1 = ROk b /\ x' = x1 /\ w' = w1).
Proof.
  unfold write_tail. intros H.
  destruct r1 as [sf|e|s|]; try (inversion H; subst; clear H; repeat split; try apply st_step_refl; discriminate).
  destruct (role_eqb (x_role x1) Server && closing_done (x_state x1) && _).
  - destruct (write_out_buffer (x_codec x1) w1) as [[rw c'] w2] eqn:Ew.
    apply write_out_buffer_queued, QQ_same in Ew.
    destruct rw; inversion H; subst; clear H; cbn; repeat split; try apply st_step_refl; try assumption;
      try discriminate. right. reflexivity.
  - inversion H; subst; clear H. repeat split; try apply st_step_refl; assumption.
Qed.

Lemma write_spec x data w r x' w' :
  write_ x data w = (r, x', w') ->
  x_role x' = x_role x /\ st_step (x_state x) (x_state x') /\ x_cfg x' = x_cfg x /\
  x_incomplete x' = x_incomplete x /\
  exists ins, (ins = [] \/ exists d, data = Some d /\ ins = [unmask d]) /\
              Moves (QQ w ++ ins) (PP x) (QQ w') (PP x').
Proof.
  rewrite write_unfold.
  destruct (match data with Some f => buffer_frame x f w | None => (ROk tt, x, w) end) as [[r0 x0] w0] eqn:E0.
  assert (H0 : x_role x0 = x_role x /\ x_additional x0 = x_additional x /\ st_step (x_state x) (x_state x0) /\
               x_cfg x0 = x_cfg x /\ x_incomplete x0 = x_incomplete x /\
               exists ins, (ins = [] \/ exists d, data = Some d /\ ins = [unmask d]) /\ QQ w0 = QQ w ++ ins).
  { destruct data as [d|].
    - apply buffer_frame_spec in E0. destruct E0 as [Hr [Ha [_ [Hc [Hi [Hs Hq]]]]]]. repeat split; try assumption.
      destruct Hq as [[_ [Hq _]]|[_ Hq]].
      + exists []. split; [left; reflexivity|]. rewrite app_nil_r. exact Hq.
      + exists [unmask d]. split; [right; exists d; split; reflexivity|].
        rewrite (QQ_snoc _ _ _ Hq), unmask_out_frame. reflexivity.
    - inversion E0; subst. repeat split; try apply st_step_refl. exists []. split; [left; reflexivity|].
      rewrite app_nil_r. reflexivity. }
  destruct H0 as [Hr0 [Ha0 [Hs0 [Hc0 [Hi0 [ins [Hins Hq0]]]]]]].
  assert (HP0 : PP x0 = PP x) by (unfold PP; rewrite Ha0; reflexivity).
  assert (Hstop : (r, x', w') = (r, x0, w0) -> x_role x' = x_role x /\ st_step (x_state x) (x_state x') /\
     x_cfg x' = x_cfg x /\ x_incomplete x' = x_incomplete x /\
     exists ins, (ins = [] \/ exists d, data = Some d /\ ins = [unmask d]) /\
              Moves (QQ w ++ ins) (PP x) (QQ w') (PP x')).
  { intros E. inversion E; subst. repeat split; try assumption. exists ins. split; [exact Hins|].
    rewrite Hq0, HP0. apply Moves_refl. }
  destruct r0 as [u|e|s|]; intros H; try (apply Hstop; inversion H; reflexivity).
  destruct (write_add x0 w0) as [[r1 x1] w1] eqn:E1.
  apply write_add_spec in E1. destruct E1 as [Hr1 [Hs1 [Hc1 [Hi1 [HM1 _]]]]].
  apply write_tail_spec in H. destruct H as [Hr2 [Hs2 [Hc2 [Hi2 [Ha2 [_ [Hq2 _]]]]]]].
  split; [congruence|]. split; [eauto using st_step_trans|]. split; [congruence|]. split; [congruence|].
  exists ins. split; [exact Hins|].
  rewrite <- Hq0, <- HP0, Hq2. unfold PP at 2. rewrite Ha2. exact HM1.
Qed.

Lemma w_flush_spec w r w' :
  w_flush w = (r, w') ->
  exists e, ext w w' [EvFlush e] /\ (r = ROk tt <-> e = FlOk) /\ w_rds w' = w_rds w /\ w_wrs w' = w_wrs w.
Proof.
  unfold w_flush, ext. destruct (w_fls w) as [|[|k] fl]; intros H; inversion H; subst; clear H; cbn.
  - exists (FlErr WouldBlock). repeat split; discriminate.
  - exists FlOk. repeat split.
  - exists (FlErr k). repeat split; discriminate.
Qed.

Lemma w_flush_queued w r w' : w_flush w = (r, w') -> queued (w_log w') = queued (w_log w).
Proof.
  intros H. apply w_flush_spec in H. destruct H as [e [He _]]. rewrite He, queued_app. cbn. apply app_nil_r.
Qed.

(* what flush, and everything built from _write(None), does to the output sequence *)
Definition Keeps (x : ctx) (w : world) (x' : ctx) (w' : world) : Prop :=
  x_role x' = x_role x /\ st_step (x_state x) (x_state x') /\ x_cfg x' = x_cfg x /\
  x_incomplete x' = x_incomplete x /\ Moves (QQ w) (PP x) (QQ w') (PP x').

Lemma Keeps_refl x w : Keeps x w x w.
Proof. repeat split; try apply st_step_refl. apply Moves_refl. Qed.

Lemma Keeps_trans x w x1 w1 x2 w2 : Keeps x w x1 w1 -> Keeps x1 w1 x2 w2 -> Keeps x w x2 w2.
Proof.
  intros [A1 [A2 [A3 [A4 A5]]]] [B1 [B2 [B3 [B4 B5]]]].
  repeat split; try congruence; eauto using st_step_trans, Moves_trans.
Qed.

Lemma write_none_keeps x w r x' w' : write_ x None w = (r, x', w') -> Keeps x w x' w'.
Proof.
  intros H. apply write_spec in H. destruct H as [Hr [Hs [Hc [Hi [ins [[->|[d [Hd _]]] HM]]]]]]; [|discriminate].
  rewrite app_nil_r in HM. repeat split; assumption.
Qed.

Lemma flush_keeps x w r x' w' : flush x w = (r, x', w') -> Keeps x w x' w'.
Proof.
  unfold flush. destruct (write_ x None w) as [[r0 x0] w0] eqn:E0.
  apply write_none_keeps in E0.
  destruct r0 as [u|e|s|]; intros H; try (inversion H; subst; exact E0).
  destruct (write_out_buffer (x_codec x0) w0) as [[r1 c1] w1] eqn:E1.
  apply write_out_buffer_queued, QQ_same in E1.
  assert (K1 : Keeps x0 w0 (set_codec x0 c1) w1).
  { repeat split; try apply st_step_refl. rewrite E1. apply Moves_refl. }
  destruct r1 as [u1|e|s|]; try (inversion H; subst; eapply Keeps_trans; eassumption).
  destruct (w_flush w1) as [r2 w2] eqn:E2. apply w_flush_queued, QQ_same in E2.
  assert (K2 : Keeps (set_codec x0 c1) w1 (set_codec x0 c1) w2).
  { repeat split; try apply st_step_refl. rewrite E2. apply Moves_refl. }
  assert (K3 : Keeps (set_codec x0 c1) w1 (set_unflushed (set_codec x0 c1) false) w2).
  { repeat split; try apply st_step_refl. rewrite E2. apply Moves_refl. }
  destruct r2; inversion H; subst; eauto using Keeps_trans.
Qed.

(* close() in state Active parks the Close frame (a pending pong is dropped) and then flushes *)
Lemma close_spec x code w r x' w' :
  close x code w = (r, x', w') ->
  x_role x' = x_role x /\ x_cfg x' = x_cfg x /\ x_incomplete x' = x_incomplete x /\
  ((x_state x = Active /\ st_step ClosedByUs (x_state x') /\
    Moves (QQ w) (Some (frame_close code)) (QQ w') (PP x')) \/
   (x_state x <> Active /\ st_step (x_state x) (x_state x') /\ Moves (QQ w) (PP x) (QQ w') (PP x'))).
Proof.
  unfold close. intros H.
  destruct (x_state x) eqn:Es;
    try (apply flush_keeps in H; destruct H as [A1 [A2 [A3 [A4 A5]]]]; rewrite Es in A2;
         repeat split; try assumption; right; repeat split; try assumption; discriminate).
  apply flush_keeps in H. destruct H as [A1 [A2 [A3 [A4 A5]]]]. cbn in A1, A2, A3, A4.
  repeat split; try assumption. left. repeat split; assumption.
Qed.

(* the frame a data-carrying Message is sent as *)
Definition msg_frame (m : message) : option frame :=
  match m with
  | MText d => Some (frame_message d (OData Text) true)
  | MBinary d => Some (frame_message d (OData Binary) true)
  | MPing d => Some (frame_ping d)
  | MFrame f => Some f
  | MPong _ | MClose _ => None
  end.

Lemma write_data_spec x f w r x' w' :
  (let '(r, x1, w1) := write_ x (Some f) w in
    match r with
    | ROk true => flush x1 w1
    | ROk false => (ROk tt, x1, w1)
    | RErr e => (RErr e, x1, w1)
    | RPanic s => (RPanic s, x1, w1)
    | ROutOfFuel => (ROutOfFuel, x1, w1)
    end) = (r, x', w') ->
  x_role x' = x_role x /\ st_step (x_state x) (x_state x') /\ x_cfg x' = x_cfg x /\
  x_incomplete x' = x_incomplete x /\
  exists ins, (ins = [] \/ ins = [unmask f]) /\ Moves (QQ w ++ ins) (PP x) (QQ w') (PP x').
Proof.
  destruct (write_ x (Some f) w) as [[r1 x1] w1] eqn:E1. apply write_spec in E1.
  destruct E1 as [Hr [Hs [Hc [Hi [ins [Hins HM]]]]]].
  assert (Hins' : ins = [] \/ ins = [unmask f]).
  { destruct Hins as [->|[d [Hd ->]]]; [left; reflexivity|]. inversion Hd. right. reflexivity. }
  assert (Hstop : (r, x', w') = (r, x1, w1) ->
    x_role x' = x_role x /\ st_step (x_state x) (x_state x') /\ x_cfg x' = x_cfg x /\
    x_incomplete x' = x_incomplete x /\
    exists ins, (ins = [] \/ ins = [unmask f]) /\ Moves (QQ w ++ ins) (PP x) (QQ w') (PP x')).
  { intros E. inversion E; subst. repeat split; try assumption. exists ins. split; assumption. }
  destruct r1 as [[|]|e|s|]; intros H; try (apply Hstop; inversion H; reflexivity).
  apply flush_keeps in H. destruct H as [A1 [A2 [A3 [A4 A5]]]].
  repeat split; try congruence; eauto using st_step_trans.
  exists ins. split; [exact Hins'|]. eauto using Moves_trans.
Qed.

Lemma write_msg_spec x m w r x' w' :
  write x m w = (r, x', w') ->
  x_role x' = x_role x /\ x_cfg x' = x_cfg x /\ x_incomplete x' = x_incomplete x /\
  ((x_state x <> Active /\ x' = x /\ w' = w) \/
   (x_state x = Active /\
    match m with
    | MClose c => st_step ClosedByUs (x_state x') /\ Moves (QQ w) (Some (frame_close c)) (QQ w') (PP x')
    | MPong d => st_step Active (x_state x') /\
                 Moves (QQ w) (pend_set (PP x) (frame_pong d)) (QQ w') (PP x')
    | _ => st_step Active (x_state x') /\
           exists ins, (ins = [] \/ ins = map unmask (olist (msg_frame m))) /\
                       Moves (QQ w ++ ins) (PP x) (QQ w') (PP x')
    end)).
Proof.
  unfold write. destruct (x_state x) eqn:Es; cbn [is_terminated is_active negb];
    try (intros H; inversion H; subst; split; [reflexivity|split; [reflexivity|split; [reflexivity|
         left; repeat split; discriminate]]]).
  intros H. destruct m as [d|d|d|d|c|f]; cbn [msg_frame olist map].
  1,2,3,6: apply write_data_spec in H; destruct H as [A1 [A2 [A3 [A4 A5]]]]; rewrite Es in A2;
    repeat split; try assumption; right; repeat split; assumption.
  - destruct (write_ (set_additional x (frame_pong d)) None w) as [[r1 x1] w1] eqn:E1.
    apply write_none_keeps in E1. destruct E1 as [A1 [A2 [A3 [A4 A5]]]].
    destruct (set_additional_fields x (frame_pong d)) as [F1 [F2 [F3 [F4 [F5 F6]]]]].
    rewrite F1 in A1. rewrite F3, Es in A2. rewrite F6 in A3. rewrite F4 in A4.
    unfold PP at 1 in A5. rewrite set_additional_pend, pend_set_unmask, unmask_pong in A5.
    destruct r1; inversion H; subst; repeat split; try assumption; right; repeat split; assumption.
  - apply close_spec in H. destruct H as [A1 [A2 [A3 [[B1 [B2 B3]]|[B1 _]]]]]; [|congruence].
    repeat split; try assumption. right. repeat split; assumption.
Qed.

(* ------------------------------------------------------------------------------------------ *)
(* 5. the read side                                                                            *)
(* ------------------------------------------------------------------------------------------ *)

Definition rd_event (e : event) : Prop :=
  match e with EvReserve _ | EvRead _ => True | _ => False end.

Lemma queued_rd_events l : Forall rd_event l -> queued l = [].
Proof.
  induction 1 as [|e l He _ IH]; [reflexivity|].
  destruct e; cbn in He; try contradiction; cbn [queued]; exact IH.
Qed.

Lemma wire_rd_events l : Forall rd_event l -> wire l = [].
Proof.
  induction 1 as [|e l He _ IH]; [reflexivity|].
  destruct e; cbn in He; try contradiction; cbn [wire]; exact IH.
Qed.

Lemma read_frame_loop_spec ms rds : forall c log r c' rds' log',
  read_frame_loop ms rds c log = (r, c', rds', log') ->
  exists l, log' = log ++ l /\ Forall rd_event l.
Proof.
  induction rds as [|o rds IH]; intros c log r c' rds' log' H.
  - cbn [read_frame_loop] in H. destruct (try_take ms c); inversion H; subst; clear H;
      try (exists []; rewrite app_nil_r; split; [reflexivity|constructor]).
    eexists. rewrite <- app_assoc. split; [reflexivity|]. repeat constructor.
  - cbn [read_frame_loop] in H. destruct (try_take ms c) as [h len p c0|n c0|e c0|s];
      try (inversion H; subst; clear H; exists []; rewrite app_nil_r; split; [reflexivity|constructor]).
    destruct o as [bs| |k].
    + destruct bs as [|b bs].
      * inversion H; subst; clear H. eexists. rewrite <- app_assoc. split; [reflexivity|]. repeat constructor.
      * apply IH in H. destruct H as [l [-> Hl]]. eexists. rewrite <- !app_assoc. split; [reflexivity|].
        repeat constructor. exact Hl.
    + inversion H; subst; clear H. eexists. rewrite <- app_assoc. split; [reflexivity|]. repeat constructor.
    + inversion H; subst; clear H. eexists. rewrite <- app_assoc. split; [reflexivity|]. repeat constructor.
Qed.

Lemma read_frame_spec ms um au c w r c' w' :
  read_frame ms um au c w = (r, c', w') -> exists l, ext w w' l /\ Forall rd_event l.
Proof.
  unfold read_frame. destruct (read_frame_loop _ _ _ _) as [[[r0 c0] rds0] log0] eqn:E.
  apply read_frame_loop_spec in E. destruct E as [l [-> Hl]].
  intros H. exists l. split; [|exact Hl]. unfold ext.
  destruct r0 as [[[[h len] p]|]|e|s|]; try (inversion H; subst; reflexivity).
  destruct (negb (blen p =? len)); [inversion H; subst; reflexivity|].
  destruct um; [|inversion H; subst; reflexivity].
  destruct (h_mask h); [inversion H; subst; reflexivity|].
  destruct au; inversion H; subst; reflexivity.
Qed.

Definition pv_reason : bytes :=
  [80; 114; 111; 116; 111; 99; 111; 108; 32; 118; 105; 111; 108; 97; 116; 105; 111; 110].

(* what do_close answers to a peer's Close received while Active *)
Definition close_reply (cl : option close_frame) : option close_frame :=
  match cl with
  | Some (code, reason) => if close_allowed code then Some (code, reason) else Some (CProtocol, pv_reason)
  | None => None
  end.

Lemma do_close_spec x cl r x' :
  do_close x cl = (r, x') ->
  x_role x' = x_role x /\ x_cfg x' = x_cfg x /\ x_unflushed x' = x_unflushed x /\
  x_incomplete x' = x_incomplete x /\ x_codec x' = x_codec x /\
  match r with
  | ROk (Some c) =>
      (x_state x = Active /\ x_state x' = ClosedByPeer /\ c = close_reply cl /\
       x_additional x' = pend_set (x_additional x) (frame_close c)) \/
      (x_state x = ClosedByUs /\ x_state x' = CloseAcknowledged /\ c = cl /\ x_additional x' = x_additional x)
  | ROk None => x' = x
  | RPanic _ => x' = x
  | _ => False
  end.
Proof.
  unfold do_close. destruct (x_state x) eqn:Es; intros H; inversion H; subst; clear H;
    try (repeat split; fail).
  - match goal with |- context [set_additional ?a ?b] =>
      destruct (set_additional_fields a b) as [F1 [F2 [F3 [F4 [F5 F6]]]]]; rewrite F1, F2, F4, F5, F6 end.
    repeat split. left. rewrite F3, set_additional_pend. repeat split.
  - repeat split. right. repeat split.
Qed.

(* read_message_frame: only a Close or a Ping read while Active touches additional_send *)
Lemma rmf_spec x w r x' w' :
  read_message_frame x w = (r, x', w') ->
  x_role x' = x_role x /\ x_cfg x' = x_cfg x /\ x_unflushed x' = x_unflushed x /\
  (exists l, ext w w' l /\ Forall rd_event l) /\
  match r with
  | ROk (Some (MClose cl)) =>
      (x_state x = Active /\ x_state x' = ClosedByPeer /\
       (exists cl0 pl, frame_into_close pl = ROk cl0 /\ cl = close_reply cl0) /\
       x_additional x' = pend_set (x_additional x) (frame_close cl)) \/
      (x_state x = ClosedByUs /\ x_state x' = CloseAcknowledged /\ x_additional x' = x_additional x)
  | ROk (Some (MPing p)) =>
      (x_state x = Active /\ x_state x' = Active /\
       x_additional x' = pend_set (x_additional x) (frame_pong p)) \/
      (x_state x <> Active /\ x_state x' = x_state x /\ x_additional x' = x_additional x)
  | ROk _ => x_state x' = x_state x /\ x_additional x' = x_additional x
  | _ => st_step (x_state x) (x_state x') /\ x_additional x' = x_additional x
  end.
Proof.
  unfold read_message_frame.
  destruct (read_frame _ _ _ _ _) as [[r0 c1] w1] eqn:Erf. apply read_frame_spec in Erf.
  destruct (check_connection_reset r0 (x_state x)) as [r0' s1] eqn:Ec.
  apply ccr_spec in Ec. destruct Ec as [Hs1 [_ [_ [_ Hok]]]].
  set (x1 := set_state (set_codec x c1) s1).
  assert (X1 : x_role x1 = x_role x /\ x_cfg x1 = x_cfg x /\ x_unflushed x1 = x_unflushed x /\
               x_additional x1 = x_additional x /\ st_step (x_state x) (x_state x1) /\
               (forall a, r0' = ROk a -> x_state x1 = x_state x)).
  { repeat split; try assumption. intros a Ha. apply (Hok a Ha). }
  destruct X1 as [Xr [Xc [Xu [Xa [Xst Xs]]]]]. clearbody x1. clear Hs1 Hok.
  Ltac rmf_fin H :=
    match type of H with (pair (pair _ _) _) = _ => idtac end;
    inversion H; subst; clear H; cbv beta iota;
    cbn [x_role x_cfg x_unflushed x_additional x_state x_incomplete x_codec set_incomplete set_state set_codec];
    repeat split; try assumption; try (right; reflexivity).
  destruct r0' as [[f|]|e|s|]; intros H; try (rmf_fin H).
  2:{ destruct (x_state x1); rmf_fin H. }
  specialize (Xs _ eq_refl). clear Xst.
  destruct (negb (can_read (x_state x1))); [rmf_fin H; left; assumption|].
  destruct (h_rsv1 (f_hdr f) || h_rsv2 (f_hdr f) || h_rsv3 (f_hdr f)); [rmf_fin H; left; assumption|].
  destruct (role_eqb (x_role x1) Client && _); [rmf_fin H; left; assumption|].
  destruct (h_opcode (f_hdr f)) as [d|ctl].
  - (* data frames: additional_send and the state are not touched *)
    destruct d as [| | |i].
    + destruct (x_incomplete x1) as [msg|]; [|rmf_fin H; left; assumption].
      destruct (incmsg_extend msg (f_payload f) (cfg_max_message_size (x_cfg x1))) as [re msg'].
      destruct re as [u|e|s|]; try (rmf_fin H; left; assumption).
      destruct (h_fin (f_hdr f)); [|rmf_fin H].
      destruct (incmsg_complete msg') as [m|e|s|] eqn:Ecm; try (rmf_fin H; left; assumption).
      destruct msg' as [col|v]; cbn in Ecm.
      * destruct (collector_into_string col); inversion Ecm; subst. rmf_fin H.
      * inversion Ecm; subst. rmf_fin H.
    + destruct (x_incomplete x1) as [msg|]; [rmf_fin H; left; assumption|].
      destruct (h_fin (f_hdr f)).
      * destruct (check_max_size _ _); try (rmf_fin H; left; assumption).
        destruct (is_utf8 (f_payload f)); rmf_fin H. left; assumption.
      * destruct (incmsg_extend _ _ _) as [re inc1].
        destruct re as [u|e|s|]; rmf_fin H; left; assumption.
    + destruct (x_incomplete x1) as [msg|]; [rmf_fin H; left; assumption|].
      destruct (h_fin (f_hdr f)).
      * destruct (check_max_size _ _); rmf_fin H; left; assumption.
      * destruct (incmsg_extend _ _ _) as [re inc1].
        destruct re as [u|e|s|]; rmf_fin H; left; assumption.
    + destruct (x_incomplete x1) as [msg|]; rmf_fin H; left; assumption.
  - destruct (negb (h_fin (f_hdr f))); [rmf_fin H; left; assumption|].
    destruct (125 <? blen (f_payload f)); [rmf_fin H; left; assumption|].
    destruct ctl as [| | |i].
    + (* Close *)
      destruct (frame_into_close (f_payload f)) as [cl|e|s|] eqn:Eic; try (rmf_fin H; left; assumption).
      destruct (do_close x1 cl) as [rd x2] eqn:Ed. apply do_close_spec in Ed.
      destruct Ed as [D1 [D2 [D3 [D4 [D5 D6]]]]].
      destruct rd as [[c|]|e|s|]; try contradiction.
      * inversion H; subst; clear H. cbv beta iota.
        split; [congruence|]. split; [congruence|]. split; [congruence|]. split; [assumption|].
        destruct D6 as [[E1 [E2 [E3 E4]]]|[E1 [E2 [E3 E4]]]].
        -- left. rewrite <- Xs, <- Xa. repeat split; try assumption. exists cl, (f_payload f). split; assumption.
        -- right. rewrite <- Xs, <- Xa. repeat split; assumption.
      * subst x2. rmf_fin H.
      * subst x2. rmf_fin H. left; assumption.
    + (* Ping *)
      inversion H; subst; clear H. cbv beta iota.
      destruct (x_state x1) eqn:Es1; cbn [is_active].
      1:{ destruct (set_additional_fields x1 (frame_pong (f_payload f))) as [F1 [F2 [F3 [F4 [F5 F6]]]]].
          rewrite F1, F5, F6, F3, set_additional_pend.
          repeat split; try assumption. left. rewrite <- Xs, <- Xa. repeat split; assumption. }
      all: repeat split; try assumption; right; rewrite <- Xs; repeat split; try assumption; discriminate.
    + rmf_fin H.
    + rmf_fin H. left; assumption.
Qed.

(* ------------------------------------------------------------------------------------------ *)
(* 6. read                                                                                      *)
(* ------------------------------------------------------------------------------------------ *)

(* what read() does before it tries to read a frame *)
Definition read_pre (x : ctx) (w : world) : res unit * ctx * world :=
  if (match x_additional x with Some _ => true | None => false end) || x_unflushed x then
    let '(r, x', w') := flush x w in
    match r with
    | ROk _ => (ROk tt, x', w')
    | RErr (EIo WouldBlock) => (ROk tt, set_unflushed x' true, w')
    | _ => (r, x', w')
    end
  else if role_eqb (x_role x) Server && negb (can_read (x_state x)) then
    let '(rw, c', w') := write_out_buffer (x_codec x) w in
    match rw with
    | ROk _ => (RErr EConnectionClosed, set_state (set_codec x c') Terminated, w')
    | _ => (rw, set_codec x c', w')
    end
  else (ROk tt, x, w).

Lemma read_loop_unfold n x w :
  read_loop (S n) x w =
  let '(r0, x0, w0) := read_pre x w in
  match r0 with
  | ROk _ =>
      let '(r1, x1, w1) := read_message_frame x0 w0 in
      match r1 with
      | ROk (Some m) => (ROk m, x1, w1)
      | ROk None => read_loop n x1 w1
      | RErr e => (RErr e, x1, w1)
      | RPanic s => (RPanic s, x1, w1)
      | ROutOfFuel => (ROutOfFuel, x1, w1)
      end
  | RErr e => (RErr e, x0, w0)
  | RPanic s => (RPanic s, x0, w0)
  | ROutOfFuel => (ROutOfFuel, x0, w0)
  end.
Proof. reflexivity. Qed.

Lemma read_pre_keeps x w r0 x0 w0 : read_pre x w = (r0, x0, w0) -> Keeps x w x0 w0.
Proof.
  unfold read_pre.
  destruct ((match x_additional x with Some _ => true | None => false end) || x_unflushed x).
  - destruct (flush x w) as [[r x1] w1] eqn:Ef. apply flush_keeps in Ef.
    assert (K : Keeps x1 w1 (set_unflushed x1 true) w1).
    { repeat split; try apply st_step_refl. apply Moves_refl. }
    intros H. destruct r as [u|e|s|]; try (inversion H; subst; exact Ef).
    destruct e as [| |k| | | |]; try (inversion H; subst; exact Ef).
    destruct k; inversion H; subst; exact Ef.
  - destruct (role_eqb (x_role x) Server && negb (can_read (x_state x))).
    + destruct (write_out_buffer (x_codec x) w) as [[rw c'] w1] eqn:Ew.
      apply write_out_buffer_queued, QQ_same in Ew.
      intros H. destruct rw; inversion H; subst; clear H; repeat split; cbn;
        try apply st_step_refl; try (right; reflexivity); rewrite Ew; apply Moves_refl.
    + intros H. inversion H; subst. apply Keeps_refl.
Qed.

(* the outcome of read, relative to the output sequence *)
Definition ReadSpec (x : ctx) (w : world) (r : res message) (x' : ctx) (w' : world) : Prop :=
  x_role x' = x_role x /\ x_cfg x' = x_cfg x /\
  match r with
  | ROk (MClose cl) =>
      (x_state x = Active /\ x_state x' = ClosedByPeer /\
       (exists cl0 pl, frame_into_close pl = ROk cl0 /\ cl = close_reply cl0) /\
       exists a, Moves (QQ w) (PP x) (QQ w') (option_map unmask a) /\
                 x_additional x' = pend_set a (frame_close cl)) \/
      (x_state x = ClosedByUs /\ x_state x' = CloseAcknowledged /\ Moves (QQ w) (PP x) (QQ w') (PP x'))
  | ROk (MPing p0) =>
      (x_state x = Active /\ x_state x' = Active /\
       exists a, Moves (QQ w) (PP x) (QQ w') (option_map unmask a) /\
                 x_additional x' = pend_set a (frame_pong p0)) \/
      (x_state x' <> Active /\ st_step (x_state x) (x_state x') /\ Moves (QQ w) (PP x) (QQ w') (PP x'))
  | _ => st_step (x_state x) (x_state x') /\ Moves (QQ w) (PP x) (QQ w') (PP x')
  end.

Lemma st_step_inv s s1 : st_step s s1 -> s1 <> Terminated -> s = s1.
Proof. intros [->| ->] H; [reflexivity|contradiction]. Qed.

Lemma ReadSpec_pre x w x1 w1 r x' w' :
  x_role x1 = x_role x -> st_step (x_state x) (x_state x1) -> x_cfg x1 = x_cfg x ->
  Moves (QQ w) (PP x) (QQ w1) (PP x1) ->
  ReadSpec x1 w1 r x' w' -> ReadSpec x w r x' w'.
Proof.
  intros K1 K2 K3 K5 [R1 [R2 R3]].
  split; [congruence|]. split; [congruence|].
  destruct r as [m|e|s|]; try (destruct R3 as [A B]; split; eauto using st_step_trans, Moves_trans).
  destruct m as [b|b|b|b|cl|f]; try (destruct R3 as [A B]; split; eauto using st_step_trans, Moves_trans).
  - destruct R3 as [[A [B [a [C D]]]]|[A [B C]]].
    + left. split; [rewrite <- A; apply (st_step_inv _ _ K2); rewrite A; discriminate|]. split; [exact B|].
      exists a. split; [eauto using Moves_trans|exact D].
    + right. split; [exact A|]. split; eauto using st_step_trans, Moves_trans.
  - destruct R3 as [[A [B [C [a [D E]]]]]|[A [B C]]].
    + left. split; [rewrite <- A; apply (st_step_inv _ _ K2); rewrite A; discriminate|]. split; [exact B|].
      split; [exact C|]. exists a. split; [eauto using Moves_trans|exact E].
    + right. split; [rewrite <- A; apply (st_step_inv _ _ K2); rewrite A; discriminate|]. split; [exact B|].
      eauto using Moves_trans.
Qed.

Lemma QQ_ext_rd w w' l : ext w w' l -> Forall rd_event l -> QQ w' = QQ w.
Proof. unfold QQ. intros -> Hl. rewrite queued_app, (queued_rd_events _ Hl), app_nil_r. reflexivity. Qed.

Lemma read_loop_spec n : forall x w r x' w', read_loop n x w = (r, x', w') -> ReadSpec x w r x' w'.
Proof.
  induction n as [|n IH]; intros x w r x' w' H.
  - cbn [read_loop] in H. inversion H; subst. repeat split; try apply st_step_refl. apply Moves_refl.
  - rewrite read_loop_unfold in H.
    destruct (read_pre x w) as [[r0 x0] w0] eqn:Ep. apply read_pre_keeps in Ep.
    assert (Hstop : forall r, (match r with ROk _ => False | _ => True end) -> ReadSpec x w r x0 w0).
    { intros r1 Hr1. destruct Ep as [K1 [K2 [K3 [K4 K5]]]]. split; [exact K1|]. split; [exact K3|].
      destruct r1; try contradiction; split; assumption. }
    destruct r0 as [u|e|s|]; try (inversion H; subst; apply Hstop; exact I).
    clear Hstop. destruct Ep as [K1 [K2 [K3 [_ K5]]]].
    apply (ReadSpec_pre _ _ _ _ _ _ _ K1 K2 K3 K5). clear K1 K2 K3 K5.
    destruct (read_message_frame x0 w0) as [[r1 x1] w1] eqn:Em. apply rmf_spec in Em.
    destruct Em as [M1 [M2 [M3 [[l [Hl Hrd]] M4]]]].
    pose proof (QQ_ext_rd _ _ _ Hl Hrd) as HQ.
    assert (HP : x_additional x1 = x_additional x0 -> Moves (QQ w0) (PP x0) (QQ w1) (PP x1)).
    { intros Ha. unfold PP. rewrite Ha, HQ. apply Moves_refl. }
    destruct r1 as [[m|]|e|s|].
    + inversion H; subst; clear H. split; [exact M1|]. split; [exact M2|].
      destruct m as [b|b|b|b|cl|f]; try (destruct M4 as [A B]; split; [rewrite A; apply st_step_refl|auto]).
      * destruct M4 as [[A [B C]]|[A [B C]]].
        -- left. split; [exact A|]. split; [exact B|]. exists (x_additional x0).
           split; [rewrite HQ; apply Moves_refl|exact C].
        -- right. split; [congruence|]. split; [rewrite B; apply st_step_refl|auto].
      * destruct M4 as [[A [B [C D]]]|[A [B C]]].
        -- left. split; [exact A|]. split; [exact B|]. split; [exact C|]. exists (x_additional x0).
           split; [rewrite HQ; apply Moves_refl|exact D].
        -- right. split; [exact A|]. split; [exact B|]. auto.
    + destruct M4 as [A B]. apply IH in H.
      refine (ReadSpec_pre _ _ _ _ _ _ _ M1 _ M2 (HP B) H). rewrite A. apply st_step_refl.
    + inversion H; subst; clear H. split; [exact M1|]. split; [exact M2|]. destruct M4; split; auto.
    + inversion H; subst; clear H. split; [exact M1|]. split; [exact M2|]. destruct M4; split; auto.
    + inversion H; subst; clear H. split; [exact M1|]. split; [exact M2|]. destruct M4; split; auto.
Qed.

Lemma read_spec x w r x' w' : read x w = (r, x', w') -> ReadSpec x w r x' w'.
Proof.
  unfold read. destruct (is_terminated (x_state x)).
  - intros H. inversion H; subst. repeat split; try apply st_step_refl. apply Moves_refl.
  - apply read_loop_spec.
Qed.

(* ------------------------------------------------------------------------------------------ *)
(* 7. C12, function level: the Close payload round trip and the reply                           *)
(* ------------------------------------------------------------------------------------------ *)

Local Ltac Zify.zify_post_hook ::= Z.div_mod_to_equations.

Lemma to_be_2 c : c < 65536 -> to_be 2 c = [c / 256; c mod 256].
Proof.
  intros Hc. cbn [to_be app]. f_equal. lia.
Qed.

Lemma from_be_2 a b : from_be [a; b] = a * 256 + b.
Proof. unfold from_be. cbn [fold_left]. lia. Qed.

Lemma from_to_be_2 c : c < 65536 -> from_be (to_be 2 c) = c.
Proof. intros Hc. rewrite (to_be_2 c Hc), from_be_2. lia. Qed.

(* decoding the payload of a Close frame with a 16-bit status code *)
Lemma frame_into_close_code c reason :
  c < 65536 ->
  frame_into_close (to_be 2 c ++ reason) =
  if is_utf8 reason then ROk (Some (close_of_u16 c, reason)) else RErr EUtf8.
Proof.
  intros Hc. pose proof (from_to_be_2 c Hc) as Hf. rewrite (to_be_2 c Hc) in *.
  cbn [app frame_into_close]. rewrite Hf. reflexivity.
Qed.

(* a CloseFrame that survives Frame::close followed by Frame::into_close *)
Definition wf_close (x : option close_frame) : Prop :=
  match x with
  | None => True
  | Some (code, reason) =>
      is_utf8 reason = true /\ close_to_u16 code < 65536 /\ close_of_u16 (close_to_u16 code) = code
  end.

Lemma close_payload_roundtrip x : wf_close x -> frame_into_close (f_payload (frame_close x)) = ROk x.
Proof.
  destruct x as [[code reason]|]; [|reflexivity].
  intros [Hu [Hc Hr]]. cbn [frame_close f_payload].
  rewrite (frame_into_close_code _ reason Hc), Hu, Hr. reflexivity.
Qed.

Lemma pv_reason_utf8 : is_utf8 pv_reason = true.
Proof. vm_compute. reflexivity. Qed.

Lemma close_to_u16_of_lt c : c < 65536 -> close_to_u16 (close_of_u16 c) < 65536.
Proof. intros H. rewrite close_to_of. exact H. Qed.

(* whatever into_close decodes is 16-bit, valid UTF-8 and in the image of CloseCode::from *)
Lemma from_be_2_lt a b : a < 256 -> b < 256 -> from_be [a; b] < 65536.
Proof. intros Ha Hb. rewrite from_be_2. lia. Qed.

Lemma frame_into_close_wf pl cl :
  Forall (fun b => b < 256) pl -> frame_into_close pl = ROk cl -> wf_close cl.
Proof.
  intros Hpl. destruct pl as [|a [|b reason]]; cbn [frame_into_close].
  - intros H. inversion H. exact I.
  - discriminate.
  - destruct (is_utf8 reason) eqn:Eu; [|discriminate]. intros H. inversion H; subst; clear H.
    inversion Hpl as [|? ? Ha Hpl']; subst. inversion Hpl' as [|? ? Hb _]; subst.
    cbn [wf_close]. split; [exact Eu|]. rewrite close_to_of. split; [|reflexivity].
    apply from_be_2_lt; assumption.
Qed.

Lemma close_reply_wf cl : wf_close cl -> wf_close (close_reply cl).
Proof.
  destruct cl as [[code reason]|]; [|exact (fun H => H)].
  cbn [close_reply]. destruct (close_allowed code); [exact (fun H => H)|].
  intros _. cbn [wf_close]. split; [exact pv_reason_utf8|]. split; [cbn; lia|reflexivity].
Qed.

(* the status codes that may appear on the wire (RFC 6455 7.4), as a boolean on u16 *)
Definition wire_allowed (c : N) : bool :=
  ((1000 <=? c) && (c <=? 1003)) || ((1007 <=? c) && (c <=? 1013)) || ((3000 <=? c) && (c <=? 4999)).

Lemma wire_allowed_spec c : wire_allowed c = close_allowed (close_of_u16 c).
Proof.
  pose proof (close_allowed_iff c) as H. unfold allowed_range in H. unfold wire_allowed.
  destruct (close_allowed (close_of_u16 c)).
  - destruct H as [H _]. specialize (H eq_refl). lia.
  - destruct (((1000 <=? c) && (c <=? 1003)) || ((1007 <=? c) && (c <=? 1013)) || ((3000 <=? c) && (c <=? 4999))) eqn:E;
      [|reflexivity].
    destruct H as [_ H]. symmetry. apply H. lia.
Qed.

(* a well-formed Close frame as delivered by read_frame to an endpoint of role r *)
Definition close_frame_ok (r : role) (f : frame) : Prop :=
  h_opcode (f_hdr f) = OCtl Close /\ h_fin (f_hdr f) = true /\
  h_rsv1 (f_hdr f) = false /\ h_rsv2 (f_hdr f) = false /\ h_rsv3 (f_hdr f) = false /\
  (r = Client -> h_mask (f_hdr f) = None) /\ blen (f_payload f) <= 125.

Definition ctl_frame_ok (r : role) (f : frame) : Prop :=
  h_fin (f_hdr f) = true /\
  h_rsv1 (f_hdr f) = false /\ h_rsv2 (f_hdr f) = false /\ h_rsv3 (f_hdr f) = false /\
  (r = Client -> h_mask (f_hdr f) = None) /\ blen (f_payload f) <= 125.

Definition the_read_frame (x : ctx) (w : world) : res (option frame) * codec * world :=
  read_frame (cfg_max_frame_size (x_cfg x)) (role_eqb (x_role x) Server)
             (cfg_accept_unmasked (x_cfg x)) (x_codec x) w.

Lemma rmf_ctl_prefix x w f c1 w1 :
  the_read_frame x w = (ROk (Some f), c1, w1) ->
  can_read (x_state x) = true -> ctl_frame_ok (x_role x) f ->
  forall ctl, h_opcode (f_hdr f) = OCtl ctl ->
  read_message_frame x w =
  let x1 := set_codec x c1 in
  match ctl with
  | Close =>
      match frame_into_close (f_payload f) with
      | ROk cl =>
          let '(r, x2) := do_close x1 cl in
          match r with
          | ROk (Some c) => (ROk (Some (MClose c)), x2, w1)
          | ROk None => (ROk None, x2, w1)
          | RErr e => (RErr e, x2, w1)
          | RPanic s => (RPanic s, x2, w1)
          | ROutOfFuel => (ROutOfFuel, x2, w1)
          end
      | RErr e => (RErr e, x1, w1)
      | RPanic s => (RPanic s, x1, w1)
      | ROutOfFuel => (ROutOfFuel, x1, w1)
      end
  | CReserved i => (RErr (EProtocol (UnknownControlFrameType i)), x1, w1)
  | Ping =>
      let x2 := if is_active (x_state x1) then set_additional x1 (frame_pong (f_payload f)) else x1 in
      (ROk (Some (MPing (f_payload f))), x2, w1)
  | Pong => (ROk (Some (MPong (f_payload f))), x1, w1)
  end.
Proof.
  unfold the_read_frame, read_message_frame. intros Erf Hcr [Hfin [H1 [H2 [H3 [Hm Hlen]]]]] ctl Hop.
  rewrite Erf. cbn [check_connection_reset].
  assert (E1 : set_state (set_codec x c1) (x_state x) = set_codec x c1) by (destruct x; reflexivity).
  rewrite E1. cbn [x_state set_codec x_role]. rewrite Hcr, H1, H2, H3, Hop, Hfin. cbn [negb orb].
  replace (role_eqb (x_role x) Client && match h_mask (f_hdr f) with Some _ => true | None => false end)
    with false.
  2:{ destruct (x_role x) eqn:Er; [reflexivity|]. rewrite (Hm eq_refl). reflexivity. }
  replace (125 <? blen (f_payload f)) with false by lia.
  reflexivity.
Qed.

(* C12_reply, function level *)
Lemma rmf_close_active x w f c1 w1 cl :
  x_state x = Active ->
  the_read_frame x w = (ROk (Some f), c1, w1) ->
  close_frame_ok (x_role x) f ->
  frame_into_close (f_payload f) = ROk cl ->
  read_message_frame x w =
    (ROk (Some (MClose (close_reply cl))),
     set_additional (set_state (set_codec x c1) ClosedByPeer) (frame_close (close_reply cl)), w1).
Proof.
  intros Hs Erf [Hop Hok] Hic.
  rewrite (rmf_ctl_prefix x w f c1 w1 Erf) with (ctl := Close); try assumption.
  2:{ rewrite Hs. reflexivity. }
  cbv zeta. rewrite Hic. unfold do_close. cbn [x_state set_codec]. rewrite Hs.
  destruct cl as [[code reason]|]; cbn [close_reply]; [destruct (close_allowed code)|]; reflexivity.
Qed.

(* C12_ack, function level *)
Lemma rmf_close_ack x w f c1 w1 cl :
  x_state x = ClosedByUs ->
  the_read_frame x w = (ROk (Some f), c1, w1) ->
  close_frame_ok (x_role x) f ->
  frame_into_close (f_payload f) = ROk cl ->
  read_message_frame x w = (ROk (Some (MClose cl)), set_state (set_codec x c1) CloseAcknowledged, w1).
Proof.
  intros Hs Erf [Hop Hok] Hic.
  rewrite (rmf_ctl_prefix x w f c1 w1 Erf) with (ctl := Close); try assumption.
  2:{ rewrite Hs. reflexivity. }
  cbv zeta. rewrite Hic. unfold do_close. cbn [x_state set_codec]. rewrite Hs. reflexivity.
Qed.

(* the peer's Close payload: empty, or a 16-bit code followed by a reason *)
Definition peer_close_payload (p : option (N * bytes)) : bytes :=
  match p with None => [] | Some (c, reason) => to_be 2 c ++ reason end.
Definition peer_close_ok (p : option (N * bytes)) : Prop :=
  match p with None => True | Some (c, reason) => c < 65536 /\ is_utf8 reason = true end.
(* what the endpoint reports and answers *)
Definition expected_reply (p : option (N * bytes)) : option close_frame :=
  match p with
  | None => None
  | Some (c, reason) => if wire_allowed c then Some (close_of_u16 c, reason) else Some (CProtocol, pv_reason)
  end.
Definition decoded_close (p : option (N * bytes)) : option close_frame :=
  match p with None => None | Some (c, reason) => Some (close_of_u16 c, reason) end.

Lemma peer_close_decodes p :
  peer_close_ok p -> frame_into_close (peer_close_payload p) = ROk (decoded_close p).
Proof.
  destruct p as [[c reason]|]; [|reflexivity]. intros [Hc Hu].
  cbn [peer_close_payload decoded_close]. rewrite (frame_into_close_code c reason Hc), Hu. reflexivity.
Qed.

Lemma expected_reply_spec p : expected_reply p = close_reply (decoded_close p).
Proof.
  destruct p as [[c reason]|]; [|reflexivity]. cbn [expected_reply decoded_close close_reply].
  rewrite wire_allowed_spec. reflexivity.
Qed.

Lemma expected_reply_wf p : peer_close_ok p -> wf_close (expected_reply p).
Proof.
  intros Hp. rewrite expected_reply_spec. apply close_reply_wf.
  destruct p as [[c reason]|]; [|exact I]. destruct Hp as [Hc Hu].
  cbn [decoded_close wf_close]. rewrite close_to_of. repeat split; assumption.
Qed.

Definition pend_free (a : option frame) : Prop :=
  a = None \/ exists g, a = Some g /\ is_pong g = true.

Lemma pend_set_free a g : pend_free a -> pend_set a g = Some g.
Proof. intros [->|[f [-> Hf]]]; cbn [pend_set]; [|rewrite Hf]; reflexivity. Qed.

Lemma reply_full x w f c1 w1 p :
  x_state x = Active ->
  pend_free (x_additional x) ->
  the_read_frame x w = (ROk (Some f), c1, w1) ->
  close_frame_ok (x_role x) f ->
  f_payload f = peer_close_payload p -> peer_close_ok p ->
  exists x',
    read_message_frame x w = (ROk (Some (MClose (expected_reply p))), x', w1) /\
    x_state x' = ClosedByPeer /\
    x_additional x' = Some (frame_close (expected_reply p)) /\
    frame_into_close (f_payload (frame_close (expected_reply p))) = ROk (expected_reply p).
Proof.
  intros Hs Hfree Erf Hok Hpl Hp.
  pose proof (peer_close_decodes p Hp) as Hdec. rewrite <- Hpl in Hdec.
  eexists. split; [|split; [|split]].
  - rewrite expected_reply_spec. exact (rmf_close_active x w f c1 w1 _ Hs Erf Hok Hdec).
  - match goal with |- context [set_additional ?a ?b] =>
      destruct (set_additional_fields a b) as [_ [_ [F3 _]]]; rewrite F3 end. reflexivity.
  - rewrite set_additional_pend. cbn [x_additional set_state set_codec].
    rewrite (pend_set_free _ _ Hfree), expected_reply_spec. reflexivity.
  - apply close_payload_roundtrip, expected_reply_wf, Hp.
Qed.

(* C12_not_displaced: set_additional never replaces a Close frame; a pong (or nothing) gives way *)
Lemma set_additional_keeps_close x f g :
  x_additional x = Some f -> is_close f = true -> set_additional x g = x.
Proof.
  intros Ha Hc. unfold set_additional. rewrite Ha.
  apply is_close_pong_excl in Hc. unfold is_pong in Hc. rewrite Hc. reflexivity.
Qed.

Lemma set_additional_replaces x g :
  pend_free (x_additional x) -> x_additional (set_additional x g) = Some g.
Proof. intros H. rewrite set_additional_pend. apply pend_set_free, H. Qed.

Lemma reply_wf pl cl0 : frame_into_close pl = ROk cl0 -> wf_close (close_reply cl0).
Proof.
  destruct pl as [|a [|b reason]]; cbn [frame_into_close].
  - intros H. inversion H. exact I.
  - discriminate.
  - destruct (is_utf8 reason) eqn:Eu; [|discriminate]. intros H. inversion H; subst; clear H.
    cbn [close_reply]. destruct (close_allowed (close_of_u16 (from_be [a; b]))) eqn:Ea.
    + apply close_allowed_iff in Ea. unfold allowed_range in Ea.
      cbn [wf_close]. rewrite close_to_of. split; [exact Eu|]. split; [lia|reflexivity].
    + cbn [wf_close]. split; [exact pv_reason_utf8|]. split; [cbn; lia|reflexivity].
Qed.

(* ------------------------------------------------------------------------------------------ *)
(* 8. C12, run level: at most one Close frame, carrying what was reported                       *)
(* ------------------------------------------------------------------------------------------ *)

Definition cpl (l : list frame) : list bytes := map f_payload (filter is_close l).

Lemma cpl_app a b : cpl (a ++ b) = cpl a ++ cpl b.
Proof. unfold cpl. rewrite filter_app, map_app. reflexivity. Qed.

Lemma cpl_uq l : cpl (uq l) = cpl l.
Proof.
  induction l as [|f l IH]; [reflexivity|]. unfold cpl, uq in *. cbn [map filter].
  rewrite is_close_unmask. destruct (is_close f); cbn [map]; rewrite IH; reflexivity.
Qed.

(* payloads of the Close frames queued or parked, in order *)
Definition closes (x : ctx) (w : world) : list bytes := cpl (oseq x w).

Lemma closes_raw x w : closes x w = cpl (queued (w_log w) ++ olist (x_additional x)).
Proof.
  unfold closes, oseq, QQ, PP. rewrite !cpl_app, cpl_uq. f_equal.
  destruct (x_additional x) as [f|]; [|reflexivity]. exact (cpl_uq [f]).
Qed.

(* the parked frame is a pong, or a Close parked after the state left Active *)
Definition pend_inv (p : option frame) (s : ws_state) : Prop :=
  match p with
  | None => True
  | Some f => is_pong f = true \/ (is_close f = true /\ s <> Active)
  end.
Definition PInv (x : ctx) : Prop := pend_inv (PP x) (x_state x).

Lemma PInv_raw x : PInv x <-> pend_inv (x_additional x) (x_state x).
Proof. unfold PInv, PP. destruct (x_additional x); reflexivity. Qed.

Lemma pend_inv_keep p s p' s' :
  pend_inv p s -> (p' = p \/ p' = None) -> (s' = Active -> s = Active) -> pend_inv p' s'.
Proof.
  intros H [->| ->] Hs; [|exact I]. destruct p as [f|]; [|exact I].
  destruct H as [H|[H1 H2]]; [left; exact H|right; split; [exact H1|auto]].
Qed.

Lemma Moves_pend q p q' p' : Moves q p q' p' -> p' = p \/ p' = None.
Proof. intros [[_ ->]|[_ ->]]; auto. Qed.

Lemma st_step_active s s' : st_step s s' -> s' = Active -> s = Active.
Proof. intros [->| ->]; [auto|discriminate]. Qed.

Lemma pend_inv_active_free p : pend_inv p Active -> p = None \/ exists g, p = Some g /\ is_pong g = true.
Proof.
  destruct p as [f|]; [|left; reflexivity]. intros [H|[_ H]]; [right; exists f; split; [reflexivity|exact H]|].
  contradiction.
Qed.

Definition CInv (x : ctx) (w : world) : Prop := PInv x /\ (x_state x = Active -> closes x w = []).

(* a step that only moves the parked frame and inserts non-Close user frames *)
Lemma CInv_keep x w x' w' ins :
  CInv x w -> Moves (QQ w ++ ins) (PP x) (QQ w') (PP x') -> cpl ins = [] ->
  (x_state x' = Active -> x_state x = Active) ->
  CInv x' w' /\ closes x' w' = closes x w.
Proof.
  intros [HP HC] HM Hins Hs.
  assert (Hcl : closes x' w' = closes x w).
  { unfold closes, oseq. rewrite (Moves_seq _ _ _ _ HM), !cpl_app, Hins, app_nil_r. reflexivity. }
  split; [|exact Hcl]. split.
  - eapply pend_inv_keep; [exact HP|exact (Moves_pend _ _ _ _ HM)|exact Hs].
  - intros Ha. rewrite Hcl. auto.
Qed.

(* a step that parks a Close while leaving Active *)
Lemma CInv_commit x w x' w' c :
  CInv x w -> x_state x = Active -> x_state x' <> Active ->
  Moves (QQ w) (Some (frame_close c)) (QQ w') (PP x') ->
  CInv x' w' /\ closes x' w' = [f_payload (frame_close c)].
Proof.
  intros [HP HC] Ha Hna HM. specialize (HC Ha).
  unfold closes, oseq in HC. rewrite cpl_app in HC. apply app_eq_nil in HC. destruct HC as [HC _].
  split; [split|].
  - destruct HM as [[_ HM]|[_ HM]]; unfold PInv; rewrite HM; [|exact I].
    right. split; [reflexivity|exact Hna].
  - intros E. contradiction.
  - unfold closes, oseq. rewrite (Moves_seq _ _ _ _ HM), cpl_app, HC. reflexivity.
Qed.

Definition no_raw_ctl (o : op) : Prop :=
  match o with OpWrite (MFrame f) => is_control (h_opcode (f_hdr f)) = false | _ => True end.

Lemma not_ctl_not_close f : is_control (h_opcode (f_hdr f)) = false -> is_close f = false.
Proof. unfold is_close. destruct (h_opcode (f_hdr f)); [reflexivity|discriminate]. Qed.
Lemma not_ctl_not_pong f : is_control (h_opcode (f_hdr f)) = false -> is_pong f = false.
Proof. unfold is_pong. destruct (h_opcode (f_hdr f)); [reflexivity|discriminate]. Qed.

Lemma msg_frame_not_close m : no_raw_ctl (OpWrite m) -> cpl (map unmask (olist (msg_frame m))) = [].
Proof.
  destruct m as [d|d|d|d|c|f]; try reflexivity. cbn [no_raw_ctl msg_frame olist map].
  intros H. unfold cpl. cbn [filter]. rewrite is_close_unmask, (not_ctl_not_close f H). reflexivity.
Qed.

Definition close_origin (o : op) (res : op_result) (c : option close_frame) : Prop :=
  o = OpClose c \/ o = OpWrite (MClose c) \/ (o = OpRead /\ res = ResMsg (ROk (MClose c))).

Definition is_close_op (o : op) : Prop :=
  match o with OpClose _ | OpWrite (MClose _) => True | _ => False end.

Definition CloseStep (x : ctx) (w : world) (o : op) (res : op_result) (x' : ctx) (w' : world) : Prop :=
  CInv x' w' /\ (x_state x' = Active -> x_state x = Active) /\
  (x_state x' = ClosedByUs -> x_state x = ClosedByUs \/ is_close_op o) /\
  ((closes x' w' = closes x w /\
    (forall c, res = ResMsg (ROk (MClose c)) -> x_state x = ClosedByUs /\ x_state x' = CloseAcknowledged)) \/
   (x_state x = Active /\ x_state x' <> Active /\
    exists c, closes x' w' = [f_payload (frame_close c)] /\ close_origin o res c /\
              (res = ResMsg (ROk (MClose c)) -> x_state x' = ClosedByPeer /\ wf_close c))).

Lemma st_step_cbu s s' : st_step s s' -> s' = ClosedByUs -> s = ClosedByUs.
Proof. intros [->| ->]; [auto|discriminate]. Qed.

Lemma close_step_keep x w o res x' w' ins :
  CInv x w -> Moves (QQ w ++ ins) (PP x) (QQ w') (PP x') -> cpl ins = [] ->
  st_step (x_state x) (x_state x') ->
  (forall c, res <> ResMsg (ROk (MClose c))) ->
  CloseStep x w o res x' w'.
Proof.
  intros HI HM Hins Hs Hres.
  destruct (CInv_keep x w x' w' ins HI HM Hins (st_step_active _ _ Hs)) as [HI' Hcl].
  split; [exact HI'|]. split; [exact (st_step_active _ _ Hs)|].
  split; [intros E; left; exact (st_step_cbu _ _ Hs E)|].
  left. split; [exact Hcl|]. intros c E. exfalso. exact (Hres c E).
Qed.

Lemma close_step x o w res x' w' :
  run_op x o w = (res, x', w') -> no_raw_ctl o -> CInv x w -> CloseStep x w o res x' w'.
Proof.
  intros H Hraw HI. destruct o as [|m| |c| | |wbs mx]; cbn [run_op] in H.
  - (* read *)
    destruct (read x w) as [[r x1] w1] eqn:E. inversion H; subst; clear H.
    apply read_spec in E. destruct E as [_ [_ E]].
    assert (Hdef : st_step (x_state x) (x_state x') /\ Moves (QQ w) (PP x) (QQ w') (PP x') ->
                   (forall c, ResMsg r <> ResMsg (ROk (MClose c))) ->
                   CloseStep x w OpRead (ResMsg r) x' w').
    { intros [A B] Hr. eapply close_step_keep with (ins := []); try eassumption; [|reflexivity].
      rewrite app_nil_r. exact B. }
    destruct r as [m|e|s|]; try (apply Hdef; [exact E|intros c; discriminate]).
    destruct m as [b|b|b|b|cl|f]; try (apply Hdef; [exact E|intros c; discriminate]).
    + (* Ping *)
      destruct E as [[A [B [a [C D]]]]|[A [B C]]].
      2:{ apply Hdef; [split; assumption|intros c; discriminate]. }
      destruct HI as [HP HC0]. pose proof (HC0 A) as HC. unfold PInv in HP. rewrite A in HP.
      unfold closes, oseq in HC.
      pose proof (Moves_seq _ _ _ _ C) as Hseq. rewrite <- Hseq, cpl_app in HC.
      apply app_eq_nil in HC. destruct HC as [HC1 HC2].
      assert (Hfree : pend_free (option_map unmask a)).
      { destruct (Moves_pend _ _ _ _ C) as [->| ->]; [apply pend_inv_active_free; exact HP|left; reflexivity]. }
      assert (HPP : PP x' = Some (frame_pong b)).
      { unfold PP. rewrite D, pend_set_unmask, (pend_set_free _ _ Hfree). reflexivity. }
      split; [split|].
      * unfold PInv. rewrite HPP. left. reflexivity.
      * intros _. unfold closes, oseq. rewrite cpl_app, HC1, HPP. reflexivity.
      * split; [intros _; exact A|]. split; [intros E; congruence|].
        left. split; [|intros c; discriminate].
        rewrite (HC0 A). unfold closes, oseq. rewrite cpl_app, HC1, HPP. reflexivity.
    + (* Close *)
      destruct E as [[A [B [[cl0 [pl [Hic Hcl]]] [a [C D]]]]]|[A [B C]]].
      * assert (Hfree : pend_free (option_map unmask a)).
        { destruct HI as [HP _]. unfold PInv in HP. rewrite A in HP.
          destruct (Moves_pend _ _ _ _ C) as [->| ->]; [apply pend_inv_active_free; exact HP|left; reflexivity]. }
        assert (HPP : PP x' = Some (frame_close cl)).
        { unfold PP. rewrite D, pend_set_unmask, (pend_set_free _ _ Hfree). reflexivity. }
        destruct HI as [HP HC]. specialize (HC A). unfold closes, oseq in HC.
        pose proof (Moves_seq _ _ _ _ C) as Hseq. rewrite <- Hseq, cpl_app in HC.
        apply app_eq_nil in HC. destruct HC as [HC1 HC2].
        assert (Hcl' : closes x' w' = [f_payload (frame_close cl)]).
        { unfold closes, oseq. rewrite cpl_app, HC1, HPP. reflexivity. }
        split; [split|].
        -- unfold PInv. rewrite HPP. right. split; [reflexivity|]. rewrite B. discriminate.
        -- intros E. rewrite B in E. discriminate.
        -- split; [intros E; congruence|]. split; [intros E; congruence|].
           right. split; [exact A|]. split; [rewrite B; discriminate|].
           exists cl. split; [exact Hcl'|]. split; [right; right; split; reflexivity|].
           intros _. split; [exact B|]. subst cl. eapply reply_wf; exact Hic.
      * assert (Hs : x_state x' = Active -> x_state x = Active) by (rewrite A, B; discriminate).
        assert (HM : Moves (QQ w ++ []) (PP x) (QQ w') (PP x')) by (rewrite app_nil_r; exact C).
        destruct (CInv_keep x w x' w' [] HI HM eq_refl Hs) as [HI' Hcl].
        split; [exact HI'|]. split; [exact Hs|]. split; [intros E; congruence|].
        left. split; [exact Hcl|]. intros c _. split; assumption.
  - (* write *)
    destruct (write x m w) as [[r x1] w1] eqn:E. inversion H; subst; clear H.
    apply write_msg_spec in E. destruct E as [_ [_ [_ [[A [-> ->]]|[A E]]]]].
    { eapply close_step_keep with (ins := []); try reflexivity; try assumption;
        [rewrite app_nil_r; apply Moves_refl|apply st_step_refl|intros c; discriminate]. }
    assert (Hdata : forall (E' : st_step Active (x_state x') /\
           exists ins, (ins = [] \/ ins = map unmask (olist (msg_frame m))) /\
                       Moves (QQ w ++ ins) (PP x) (QQ w') (PP x')),
           CloseStep x w (OpWrite m) (ResUnit r) x' w').
    { intros [B [ins [Hins HM]]]. eapply close_step_keep with (ins := ins); try eassumption.
      - destruct Hins as [->| ->]; [reflexivity|apply msg_frame_not_close; exact Hraw].
      - rewrite A. exact B.
      - intros c; discriminate. }
    destruct m as [d|d|d|d|c|f]; try (apply Hdata; exact E).
    + (* user pong *)
      destruct E as [B C].
      destruct HI as [HP HC]. pose proof (HC A) as HC0. unfold PInv in HP. rewrite A in HP.
      apply pend_inv_active_free in HP.
      rewrite (pend_set_free _ _ HP) in C.
      unfold closes, oseq in HC0. rewrite cpl_app in HC0. apply app_eq_nil in HC0. destruct HC0 as [HC1 HC2].
      assert (Hcl : closes x' w' = []).
      { unfold closes, oseq. rewrite (Moves_seq _ _ _ _ C), cpl_app, HC1. reflexivity. }
      split; [split|].
      * unfold PInv. destruct (Moves_pend _ _ _ _ C) as [->| ->]; [left; reflexivity|exact I].
      * intros _. exact Hcl.
      * split; [intros _; exact A|]. split; [intros E; exfalso; destruct B as [B|B]; rewrite B in E; discriminate|].
        left. split; [rewrite Hcl, (HC A); reflexivity|intros c; discriminate].
    + (* user close *)
      destruct E as [B C].
      assert (Hna : x_state x' <> Active) by (destruct B as [->| ->]; discriminate).
      destruct (CInv_commit x w x' w' c HI A Hna C) as [HI' Hcl].
      split; [exact HI'|]. split; [intros E; contradiction|]. split; [intros _; right; exact I|].
      right. split; [exact A|]. split; [exact Hna|]. exists c. split; [exact Hcl|].
      split; [right; left; reflexivity|discriminate].
  - (* flush *)
    destruct (flush x w) as [[r x1] w1] eqn:E. inversion H; subst; clear H.
    apply flush_keeps in E. destruct E as [_ [A [_ [_ B]]]].
    eapply close_step_keep with (ins := []); try reflexivity; try assumption;
      [rewrite app_nil_r; exact B|intros c0; discriminate].
  - (* close *)
    destruct (close x c w) as [[r x1] w1] eqn:E. inversion H; subst; clear H.
    apply close_spec in E. destruct E as [_ [_ [_ [[A [B C]]|[A [B C]]]]]].
    + assert (Hna : x_state x' <> Active) by (destruct B as [->| ->]; discriminate).
      destruct (CInv_commit x w x' w' c HI A Hna C) as [HI' Hcl].
      split; [exact HI'|]. split; [intros E; contradiction|]. split; [intros _; right; exact I|].
      right. split; [exact A|]. split; [exact Hna|]. exists c. split; [exact Hcl|].
      split; [left; reflexivity|discriminate].
    + eapply close_step_keep with (ins := []); try reflexivity; try assumption;
        [rewrite app_nil_r; exact C|intros c0; discriminate].
  - inversion H; subst; clear H.
    eapply close_step_keep with (ins := []); try reflexivity; try assumption;
      [rewrite app_nil_r; apply Moves_refl|apply st_step_refl|intros c0; discriminate].
  - inversion H; subst; clear H.
    eapply close_step_keep with (ins := []); try reflexivity; try assumption;
      [rewrite app_nil_r; apply Moves_refl|apply st_step_refl|intros c0; discriminate].
  - destruct (config_valid _); inversion H; subst; clear H;
      (eapply close_step_keep with (ins := []); try reflexivity; try assumption;
        [rewrite app_nil_r; apply Moves_refl|apply st_step_refl|intros c0; discriminate]).
Qed.

Lemma run_ops_cons x o ops w :
  run_ops x (o :: ops) w =
  let '(res1, x1, w1) := run_op x o w in
  let '(rs, x2, w2) := run_ops x1 ops w1 in
  ((res1, blen (w_log w1)) :: rs, x2, w2).
Proof. reflexivity. Qed.

(* over a whole run: the Close payloads are unchanged, or there is exactly one and it has an origin *)
Lemma closes_run ops : forall x w rs x' w',
  run_ops x ops w = (rs, x', w') -> Forall no_raw_ctl ops -> CInv x w ->
  CInv x' w' /\ (x_state x' = Active -> x_state x = Active) /\
  (closes x' w' = closes x w \/
   (x_state x = Active /\ x_state x' <> Active /\
    exists c, closes x' w' = [f_payload (frame_close c)] /\
              exists o res n, In o ops /\ In (res, n) rs /\ close_origin o res c)).
Proof.
  induction ops as [|o ops IH]; intros x w rs x' w' H Hraw HI.
  - cbn [run_ops] in H. inversion H; subst. split; [exact HI|]. split; [auto|]. left. reflexivity.
  - rewrite run_ops_cons in H.
    destruct (run_op x o w) as [[res1 x1] w1] eqn:E1.
    destruct (run_ops x1 ops w1) as [[rs2 x2] w2] eqn:E2.
    inversion H; subst; clear H.
    inversion Hraw as [|? ? Hraw1 Hraw2]; subst.
    apply close_step in E1; [|exact Hraw1|exact HI].
    destruct E1 as [HI1 [Hact [_ Hd]]].
    destruct (IH _ _ _ _ _ E2 Hraw2 HI1) as [HI2 [Hact2 Hd2]].
    split; [exact HI2|]. split; [auto|].
    destruct Hd as [[Hcl _]|[A [Hna [c [Hcl [Ho _]]]]]].
    + destruct Hd2 as [Hcl2|[A2 [Hna2 [c [Hcl2 [o2 [res2 [n2 [Hin1 [Hin2 Ho2]]]]]]]]]].
      * left. congruence.
      * right. split; [auto|]. split; [exact Hna2|]. exists c. split; [exact Hcl2|].
        exists o2, res2, n2. split; [right; exact Hin1|]. split; [right; exact Hin2|exact Ho2].
    + assert (Hna' : x_state x' <> Active) by (intros E; apply Hna; auto).
      destruct Hd2 as [Hcl2|[A2 _]]; [|contradiction].
      right. split; [exact A|]. split; [exact Hna'|]. exists c. split; [congruence|].
      exists o, res1, (blen (w_log w1)). split; [left; reflexivity|]. split; [left; reflexivity|exact Ho].
Qed.

(* if the user never closes, the one Close frame carries exactly what read reported *)
Lemma reported_run ops : forall x w rs x' w',
  run_ops x ops w = (rs, x', w') -> Forall no_raw_ctl ops -> Forall (fun o => ~ is_close_op o) ops ->
  CInv x w -> x_state x <> ClosedByUs ->
  forall c n, In (ResMsg (ROk (MClose c)), n) rs ->
  closes x' w' = [f_payload (frame_close c)] /\ wf_close c.
Proof.
  induction ops as [|o ops IH]; intros x w rs x' w' H Hraw Hnc HI Hs c n Hin.
  - cbn [run_ops] in H. inversion H; subst. contradiction.
  - rewrite run_ops_cons in H.
    destruct (run_op x o w) as [[res1 x1] w1] eqn:E1.
    destruct (run_ops x1 ops w1) as [[rs2 x2] w2] eqn:E2.
    inversion H; subst; clear H.
    inversion Hraw as [|? ? Hraw1 Hraw2]; subst. inversion Hnc as [|? ? Hnc1 Hnc2]; subst.
    apply close_step in E1; [|exact Hraw1|exact HI].
    destruct E1 as [HI1 [Hact [Hcbu Hd]]].
    assert (Hs1 : x_state x1 <> ClosedByUs).
    { intros E. destruct (Hcbu E) as [E'|E']; contradiction. }
    destruct Hin as [Hin|Hin].
    + inversion Hin; subst; clear Hin.
      destruct Hd as [[_ Hack]|[A [Hna [c' [Hcl [Ho Hwf]]]]]].
      * destruct (Hack c eq_refl) as [E _]. contradiction.
      * destruct Ho as [->|[->|[_ Ho]]]; try (exfalso; apply Hnc1; exact I).
        inversion Ho; subst c'. destruct (Hwf eq_refl) as [_ Hwf'].
        destruct (closes_run _ _ _ _ _ _ E2 Hraw2 HI1) as [_ [_ [Hcl2|[A2 _]]]]; [|contradiction].
        split; [congruence|exact Hwf'].
    + exact (IH _ _ _ _ _ E2 Hraw2 Hnc2 HI1 Hs1 c n Hin).
Qed.

Lemma ctx_new_fields r part cfg x0 :
  ctx_new r part cfg = Some x0 ->
  x_role x0 = r /\ x_state x0 = Active /\ x_additional x0 = None /\ x_unflushed x0 = false /\ x_cfg x0 = cfg.
Proof.
  unfold ctx_new. destruct (config_valid cfg); [|discriminate]. intros H. inversion H. repeat split.
Qed.

Lemma CInv_init r part cfg x0 w0 :
  ctx_new r part cfg = Some x0 -> filter is_close (queued (w_log w0)) = [] -> CInv x0 w0.
Proof.
  intros H Hq. apply ctx_new_fields in H. destruct H as [_ [Hs [Ha _]]]. split.
  - apply PInv_raw. rewrite Ha. exact I.
  - intros _. rewrite closes_raw, Ha. cbn [olist]. rewrite app_nil_r. unfold cpl. rewrite Hq. reflexivity.
Qed.

(* the Close frames this endpoint has queued or still holds in additional_send *)
Definition close_frames (x : ctx) (w : world) : list frame :=
  filter is_close (queued (w_log w) ++ olist (x_additional x)).

Lemma closes_frames x w : closes x w = map f_payload (close_frames x w).
Proof. rewrite closes_raw. reflexivity. Qed.

(* C12_once *)
Lemma close_once r part cfg x0 w0 ops rs x' w' :
  ctx_new r part cfg = Some x0 -> filter is_close (queued (w_log w0)) = [] ->
  Forall no_raw_ctl ops ->
  run_ops x0 ops w0 = (rs, x', w') ->
  (length (close_frames x' w') <= 1)%nat.
Proof.
  intros Hn Hq Hraw H. pose proof (CInv_init _ _ _ _ _ Hn Hq) as HI.
  destruct (closes_run _ _ _ _ _ _ H Hraw HI) as [_ [_ Hd]].
  assert (Hlen : length (close_frames x' w') = length (closes x' w'))
    by (rewrite closes_frames, map_length; reflexivity).
  rewrite Hlen. destruct Hd as [Hcl|[_ [_ [c [Hcl _]]]]]; rewrite Hcl.
  - destruct HI as [_ HC]. apply ctx_new_fields in Hn. rewrite HC by apply Hn. cbn. lia.
  - cbn. lia.
Qed.

(* every Close frame of the run comes from a user close or from a reported Close *)
Lemma close_has_origin r part cfg x0 w0 ops rs x' w' :
  ctx_new r part cfg = Some x0 -> filter is_close (queued (w_log w0)) = [] ->
  Forall no_raw_ctl ops ->
  run_ops x0 ops w0 = (rs, x', w') ->
  close_frames x' w' = [] \/
  exists f c, close_frames x' w' = [f] /\ f_payload f = f_payload (frame_close c) /\
    (In (OpClose c) ops \/ In (OpWrite (MClose c)) ops \/ exists n, In (ResMsg (ROk (MClose c)), n) rs).
Proof.
  intros Hn Hq Hraw H. pose proof (CInv_init _ _ _ _ _ Hn Hq) as HI.
  destruct (closes_run _ _ _ _ _ _ H Hraw HI) as [_ [_ Hd]].
  rewrite !closes_frames in Hd.
  destruct Hd as [Hcl|[_ [_ [c [Hcl [o [res [n [Hin1 [Hin2 Ho]]]]]]]]]].
  - left. destruct HI as [_ HC]. apply ctx_new_fields in Hn. rewrite closes_frames in HC.
    rewrite HC in Hcl by apply Hn. destruct (close_frames x' w'); [reflexivity|discriminate].
  - right. destruct (close_frames x' w') as [|f [|g l]]; try discriminate.
    exists f, c. split; [reflexivity|]. split; [cbn [map] in Hcl; congruence|].
    destruct Ho as [->|[->|[-> ->]]]; [left; exact Hin1|right; left; exact Hin1|right; right; exists n; exact Hin2].
Qed.

(* C12 over runs: the reply on the output equals what read reported *)
Lemma reply_matches_report r part cfg x0 w0 ops rs x' w' c n :
  ctx_new r part cfg = Some x0 -> filter is_close (queued (w_log w0)) = [] ->
  Forall no_raw_ctl ops -> Forall (fun o => ~ is_close_op o) ops ->
  run_ops x0 ops w0 = (rs, x', w') ->
  In (ResMsg (ROk (MClose c)), n) rs ->
  exists f, close_frames x' w' = [f] /\ frame_into_close (f_payload f) = ROk c.
Proof.
  intros Hn Hq Hraw Hnc H Hin. pose proof (CInv_init _ _ _ _ _ Hn Hq) as HI.
  assert (Hs : x_state x0 <> ClosedByUs).
  { apply ctx_new_fields in Hn. destruct Hn as [_ [-> _]]. discriminate. }
  destruct (reported_run _ _ _ _ _ _ H Hraw Hnc HI Hs c n Hin) as [Hcl Hwf].
  rewrite closes_frames in Hcl.
  destruct (close_frames x' w') as [|f [|g l]]; try discriminate.
  exists f. split; [reflexivity|]. assert (Hp : f_payload f = f_payload (frame_close c)) by (cbn [map] in Hcl; congruence). rewrite Hp.
  apply close_payload_roundtrip, Hwf.
Qed.

(* C12_ack with the payload spelled out *)
Lemma ack_full x w f c1 w1 p :
  x_state x = ClosedByUs ->
  the_read_frame x w = (ROk (Some f), c1, w1) ->
  close_frame_ok (x_role x) f ->
  f_payload f = peer_close_payload p -> peer_close_ok p ->
  exists x',
    read_message_frame x w = (ROk (Some (MClose (decoded_close p))), x', w1) /\
    x_state x' = CloseAcknowledged /\ x_additional x' = x_additional x.
Proof.
  intros Hs Erf Hok Hpl Hp.
  pose proof (peer_close_decodes p Hp) as Hdec. rewrite <- Hpl in Hdec.
  eexists. split; [exact (rmf_close_ack x w f c1 w1 _ Hs Erf Hok Hdec)|]. split; reflexivity.
Qed.

(* ------------------------------------------------------------------------------------------ *)
(* 9. bytes: what is written to the transport or still in out_buffer                            *)
(* ------------------------------------------------------------------------------------------ *)

Definition encq (l : list frame) : bytes := concat (map frame_format l).

Lemma encq_app a b : encq (a ++ b) = encq a ++ encq b.
Proof. unfold encq. rewrite map_app, concat_app. reflexivity. Qed.

(* over the events l, out_buffer went from out to out': bytes written ++ bytes left = old bytes ++ new frames *)
Definition SendsL (out : bytes) (l : list event) (out' : bytes) : Prop :=
  wire l ++ out' = out ++ encq (queued l).

Lemma SendsL_nil out : SendsL out [] out.
Proof. unfold SendsL. cbn. rewrite app_nil_r. reflexivity. Qed.

Lemma SendsL_trans o l1 o1 l2 o2 : SendsL o l1 o1 -> SendsL o1 l2 o2 -> SendsL o (l1 ++ l2) o2.
Proof.
  unfold SendsL. intros H1 H2. rewrite wire_app, queued_app, encq_app, <- app_assoc, H2, !app_assoc, H1.
  reflexivity.
Qed.

Definition Sends (x : ctx) (w : world) (x' : ctx) (w' : world) : Prop :=
  exists l, ext w w' l /\ SendsL (c_out (x_codec x)) l (c_out (x_codec x')).

Lemma Sends_refl x w : Sends x w x w.
Proof. exists []. split; [apply ext_refl|apply SendsL_nil]. Qed.

Lemma Sends_trans x w x1 w1 x2 w2 : Sends x w x1 w1 -> Sends x1 w1 x2 w2 -> Sends x w x2 w2.
Proof.
  intros [l1 [E1 S1]] [l2 [E2 S2]]. exists (l1 ++ l2).
  split; [eapply ext_trans; eassumption|eapply SendsL_trans; eassumption].
Qed.

Lemma firstn_length_app {A} (a b : list A) : firstn (length a) (a ++ b) = a.
Proof. induction a as [|x a IH]; [destruct b; reflexivity|]. cbn. rewrite IH. reflexivity. Qed.
Lemma skipn_length_app {A} (a b : list A) : skipn (length a) (a ++ b) = b.
Proof. induction a as [|x a IH]; [reflexivity|]. cbn. exact IH. Qed.

Lemma frame_format_into_buf_eq buf f : frame_format_into_buf buf f = buf ++ frame_format f.
Proof.
  unfold frame_format_into_buf, frame_format, takeN, dropN, blen. rewrite Nat2N.id.
  destruct (h_mask (f_hdr f)) as [k|].
  - rewrite firstn_length_app, skipn_length_app, <- app_assoc. reflexivity.
  - rewrite <- app_assoc. reflexivity.
Qed.

Lemma wire_wr_only l : Forall wr_event l -> queued l = [].
Proof. exact (queued_wr_events l). Qed.

Lemma write_out_buffer_sends c w r c' w' :
  write_out_buffer c w = (r, c', w') ->
  exists l, ext w w' l /\ Forall wr_event l /\ SendsL (c_out c) l (c_out c') /\
    c_max_out c' = c_max_out c /\ c_write_len c' = c_write_len c /\
    (r = ROk tt -> c_out c' = []) /\ ((r = ROk tt) \/ exists k, r = RErr (EIo k)).
Proof.
  intros H. apply write_out_buffer_spec in H.
  destruct H as [l [Hl [Hf [_ [Hm [Hw [_ [_ [_ [_ Hr]]]]]]]]]].
  exists l. split; [exact Hl|]. split; [exact Hf|].
  unfold SendsL. rewrite (queued_wr_events _ Hf). cbn [encq map concat]. rewrite app_nil_r.
  destruct Hr as [[-> [Ho Hwi]]|[k [-> Hwi]]].
  - rewrite Ho, app_nil_r. repeat split; auto.
  - repeat split; auto; try discriminate. right. exists k. reflexivity.
Qed.

Lemma codec_buffer_frame_sends c f w r c' w' :
  codec_buffer_frame c f w = (r, c', w') ->
  exists l, ext w w' l /\ SendsL (c_out c) l (c_out c') /\
    c_max_out c' = c_max_out c /\ c_write_len c' = c_write_len c /\
    ((r = RErr (EWriteBufferFull f) /\ l = []) \/
     (not_full r /\ exists l2, l = EvQueue f :: l2 /\ Forall wr_event l2)).
Proof.
  unfold codec_buffer_frame. destruct (c_max_out c <? frame_len f + blen (c_out c)).
  - intros H. inversion H; subst. exists []. split; [apply ext_refl|]. split; [apply SendsL_nil|].
    repeat split. left. split; reflexivity.
  - set (c1 := set_out c (frame_format_into_buf (c_out c) f)).
    assert (S1 : SendsL (c_out c) [EvQueue f] (c_out c1)).
    { unfold SendsL, c1. cbn. rewrite frame_format_into_buf_eq, app_nil_r. reflexivity. }
    destruct (c_write_len c <? blen (c_out c1)).
    + intros H. pose proof (write_out_buffer_not_full _ _ _ _ _ H) as Hnf.
      apply write_out_buffer_sends in H. destruct H as [l2 [El [Hf [S2 [Hm [Hw _]]]]]].
      exists ([EvQueue f] ++ l2). split.
      { unfold ext in *. rewrite El. unfold w_emit. cbn [w_log]. rewrite <- app_assoc. reflexivity. }
      split; [eapply SendsL_trans; eassumption|]. split; [exact Hm|]. split; [exact Hw|].
      right. split; [exact Hnf|]. exists l2. split; [reflexivity|exact Hf].
    + intros H. inversion H; subst; clear H. exists [EvQueue f]. split; [reflexivity|].
      split; [exact S1|]. repeat split. right. split; [intros g; discriminate|].
      exists []. split; [reflexivity|constructor].
Qed.

Lemma w_next_key_fields w :
  w_log (snd (w_next_key w)) = w_log w /\ w_rds (snd (w_next_key w)) = w_rds w /\
  w_wrs (snd (w_next_key w)) = w_wrs w /\ w_fls (snd (w_next_key w)) = w_fls w.
Proof. unfold w_next_key. destruct (w_keys w); repeat split. Qed.

Lemma buffer_frame_sends x f w r x' w' :
  buffer_frame x f w = (r, x', w') ->
  exists l, ext w w' l /\ SendsL (c_out (x_codec x)) l (c_out (x_codec x')) /\
    c_max_out (x_codec x') = c_max_out (x_codec x) /\ c_write_len (x_codec x') = c_write_len (x_codec x) /\
    ((r = RErr (EWriteBufferFull (out_frame x w f)) /\ l = []) \/
     (not_full r /\ exists l2, l = EvQueue (out_frame x w f) :: l2 /\ Forall wr_event l2)).
Proof.
  unfold buffer_frame, out_frame. intros H.
  destruct (x_role x) eqn:Er.
  - destruct (codec_buffer_frame (x_codec x) f w) as [[r0 c'] w2] eqn:E.
    destruct (check_connection_reset r0 (x_state x)) as [r1 s1] eqn:Ec.
    inversion H; subst; clear H. cbn [x_codec set_state set_codec].
    apply ccr_spec in Ec. destruct Ec as [_ [Hnf [Hf _]]].
    apply codec_buffer_frame_sends in E. destruct E as [l [El [S [Hm [Hw Hd]]]]].
    exists l. repeat split; try assumption.
    destruct Hd as [[-> ->]|[Hn Hl]].
    + left. destruct (Hf f eq_refl) as [-> _]. split; reflexivity.
    + right. split; [apply Hnf; exact Hn|exact Hl].
  - destruct (w_next_key w) as [k wk] eqn:Ek.
    destruct (codec_buffer_frame (x_codec x) _ wk) as [[r0 c'] w2] eqn:E.
    destruct (check_connection_reset r0 (x_state x)) as [r1 s1] eqn:Ec.
    inversion H; subst; clear H. cbn [x_codec set_state set_codec fst].
    apply ccr_spec in Ec. destruct Ec as [_ [Hnf [Hf _]]].
    assert (Hlog : w_log wk = w_log w) by (rewrite <- (w_next_key_log w), Ek; reflexivity).
    apply codec_buffer_frame_sends in E. destruct E as [l [El [S [Hm [Hw Hd]]]]].
    exists l. split; [unfold ext in *; rewrite El, Hlog; reflexivity|]. repeat split; try assumption.
    destruct Hd as [[-> ->]|[Hn Hl]].
    + left. destruct (Hf _ eq_refl) as [-> _]. split; reflexivity.
    + right. split; [apply Hnf; exact Hn|exact Hl].
Qed.

Lemma buffer_frame_Sends x f w r x' w' : buffer_frame x f w = (r, x', w') -> Sends x w x' w'.
Proof.
  intros H. apply buffer_frame_sends in H. destruct H as [l [El [S _]]]. exists l. split; assumption.
Qed.

Lemma set_additional_codec x g : x_codec (set_additional x g) = x_codec x.
Proof. apply set_additional_fields. Qed.

Lemma write_add_Sends x0 w0 r1 x1 w1 : write_add x0 w0 = (r1, x1, w1) -> Sends x0 w0 x1 w1.
Proof.
  unfold write_add. destruct (x_additional x0) as [msg|].
  - destruct (buffer_frame (set_additional_raw x0 None) msg w0) as [[rb xb] wb] eqn:Eb.
    apply buffer_frame_Sends in Eb. intros H.
    assert (S' : Sends x0 w0 xb wb) by exact Eb.
    destruct rb as [u|e|s|]; try (inversion H; subst; exact S').
    destruct e; inversion H; subst; try exact S'.
    destruct S' as [l [El S']]. exists l. split; [exact El|]. rewrite set_additional_codec. exact S'.
  - intros H. inversion H; subst. apply Sends_refl.
Qed.

Lemma write_tail_Sends r1 x1 w1 r x' w' : write_tail r1 x1 w1 = (r, x', w') -> Sends x1 w1 x' w'.
Proof.
  unfold write_tail. intros H.
  destruct r1 as [sf|e|s|]; try (inversion H; subst; apply Sends_refl).
  destruct (role_eqb (x_role x1) Server && closing_done (x_state x1) && _).
  - destruct (write_out_buffer (x_codec x1) w1) as [[rw c'] w2] eqn:Ew.
    apply write_out_buffer_sends in Ew. destruct Ew as [l [El [_ [S _]]]].
    assert (S' : Sends x1 w1 (set_codec x1 c') w2) by (exists l; split; assumption).
    destruct rw; inversion H; subst; exact S'.
  - inversion H; subst. apply Sends_refl.
Qed.

Lemma write_Sends x data w r x' w' : write_ x data w = (r, x', w') -> Sends x w x' w'.
Proof.
  rewrite write_unfold.
  destruct (match data with Some f => buffer_frame x f w | None => (ROk tt, x, w) end) as [[r0 x0] w0] eqn:E0.
  assert (S0 : Sends x w x0 w0).
  { destruct data as [d|]; [exact (buffer_frame_Sends _ _ _ _ _ _ E0)|]. inversion E0; subst. apply Sends_refl. }
  destruct r0 as [u|e|s|]; intros H; try (inversion H; subst; exact S0).
  destruct (write_add x0 w0) as [[r1 x1] w1] eqn:E1.
  apply write_add_Sends in E1. apply write_tail_Sends in H. eauto using Sends_trans.
Qed.

(* flush: on Ok the out_buffer is empty and the log ends with a successful transport flush *)
Lemma flush_Sends x w r x' w' :
  flush x w = (r, x', w') ->
  Sends x w x' w' /\
  (r = ROk tt -> c_out (x_codec x') = [] /\ x_unflushed x' = false /\
     exists l, ext w w' (l ++ [EvFlush FlOk]) /\ SendsL (c_out (x_codec x)) l []).
Proof.
  unfold flush. destruct (write_ x None w) as [[r0 x0] w0] eqn:E0.
  apply write_Sends in E0.
  destruct r0 as [u|e|s|]; intros H; try (inversion H; subst; split; [exact E0|discriminate]).
  destruct (write_out_buffer (x_codec x0) w0) as [[r1 c1] w1] eqn:E1.
  apply write_out_buffer_sends in E1. destruct E1 as [l1 [El1 [_ [S1 [_ [_ [Hout Hr1]]]]]]].
  assert (S01 : Sends x0 w0 (set_codec x0 c1) w1) by (exists l1; split; assumption).
  destruct r1 as [u1|e|s|]; try (inversion H; subst; split; [eauto using Sends_trans|discriminate]).
  destruct (w_flush w1) as [r2 w2] eqn:E2. apply w_flush_spec in E2.
  destruct E2 as [e [El2 [Hr2 _]]].
  assert (S12 : forall b, Sends (set_codec x0 c1) w1 (set_unflushed (set_codec x0 c1) b) w2).
  { intros b. exists [EvFlush e]. split; [exact El2|]. unfold SendsL. cbn. rewrite app_nil_r. reflexivity. }
  assert (S12' : Sends (set_codec x0 c1) w1 (set_codec x0 c1) w2).
  { exists [EvFlush e]. split; [exact El2|]. unfold SendsL. cbn. rewrite app_nil_r. reflexivity. }
  destruct r2 as [u2|e2|s2|]; inversion H; subst; clear H;
    try (split; [eauto using Sends_trans|discriminate]).
  split; [eauto using Sends_trans|]. intros _.
  cbn [x_codec x_unflushed set_unflushed set_codec]. split; [apply Hout; destruct u1; reflexivity|].
  split; [reflexivity|].
  destruct E0 as [l0 [El0 S0]]. exists (l0 ++ l1).
  assert (He : e = FlOk) by (apply Hr2; destruct u2; reflexivity). subst e.
  split.
  - unfold ext in *. rewrite El2, El1, El0, <- !app_assoc. reflexivity.
  - pose proof (SendsL_trans _ _ _ _ _ S0 S1) as S. cbn [x_codec set_codec] in S.
    rewrite (Hout ltac:(destruct u1; reflexivity)) in S. exact S.
Qed.

(* ------------------------------------------------------------------------------------------ *)
(* 10. C11: the pong is parked when the ping is delivered                                       *)
(* ------------------------------------------------------------------------------------------ *)

Lemma pend_inv_set p s s' g :
  pend_inv p s -> (s' = Active -> s = Active) ->
  (is_pong g = true \/ (is_close g = true /\ s' <> Active)) ->
  pend_inv (pend_set p g) s'.
Proof.
  intros Hp Hs Hg. destruct p as [f|]; [|exact Hg]. cbn [pend_set].
  destruct (is_pong f) eqn:Ef; [exact Hg|]. cbn [pend_inv]. rewrite Ef.
  destruct Hp as [Hp|[H1 H2]]; [rewrite Ef in Hp; discriminate|]. right. split; [exact H1|auto].
Qed.

Lemma PInv_of_PP x' p s :
  PP x' = p -> x_state x' = s -> pend_inv p s -> PInv x'.
Proof. intros <- <- H. exact H. Qed.

(* every operation keeps the invariant on additional_send (no assumption on the ops) *)
Lemma pinv_step x o w res x' w' : run_op x o w = (res, x', w') -> PInv x -> PInv x'.
Proof.
  intros H HP. unfold PInv in HP.
  assert (Hkeep : forall q q', st_step (x_state x) (x_state x') -> Moves q (PP x) q' (PP x') -> PInv x').
  { intros q q' Hs HM. unfold PInv. eapply pend_inv_keep; [exact HP|exact (Moves_pend _ _ _ _ HM)|].
    exact (st_step_active _ _ Hs). }
  destruct o as [|m| |c| | |wbs mx]; cbn [run_op] in H.
  - destruct (read x w) as [[r x1] w1] eqn:E. inversion H; subst; clear H.
    apply read_spec in E. destruct E as [_ [_ E]].
    destruct r as [m|e|s|]; try (destruct E as [A B]; eapply Hkeep; eassumption).
    destruct m as [b|b|b|b|cl|f]; try (destruct E as [A B]; eapply Hkeep; eassumption).
    + destruct E as [[A [B [a [C D]]]]|[A [B C]]]; [|eapply Hkeep; eassumption].
      unfold PInv, PP. rewrite D, pend_set_unmask, B.
      apply pend_inv_set with (s := x_state x); [|auto|left; reflexivity].
      eapply pend_inv_keep; [exact HP|exact (Moves_pend _ _ _ _ C)|auto].
    + destruct E as [[A [B [_ [a [C D]]]]]|[A [B C]]].
      * unfold PInv, PP. rewrite D, pend_set_unmask, B.
        apply pend_inv_set with (s := x_state x); [|discriminate|right; split; [reflexivity|discriminate]].
        eapply pend_inv_keep; [exact HP|exact (Moves_pend _ _ _ _ C)|auto].
      * unfold PInv. eapply pend_inv_keep; [exact HP|exact (Moves_pend _ _ _ _ C)|].
        rewrite B. discriminate.
  - destruct (write x m w) as [[r x1] w1] eqn:E. inversion H; subst; clear H.
    apply write_msg_spec in E. destruct E as [_ [_ [_ [[A [-> ->]]|[A E]]]]]; [exact HP|].
    assert (Hdata : (st_step Active (x_state x') /\
           exists ins, (ins = [] \/ ins = map unmask (olist (msg_frame m))) /\
                       Moves (QQ w ++ ins) (PP x) (QQ w') (PP x')) -> PInv x').
    { intros [B [ins [_ HM]]]. eapply Hkeep; [rewrite A; exact B|exact HM]. }
    destruct m as [d|d|d|d|c|f]; try (apply Hdata; exact E).
    + destruct E as [B C]. unfold PInv.
      eapply pend_inv_keep with (s := Active);
        [|exact (Moves_pend _ _ _ _ C)|intros _; reflexivity].
      apply pend_inv_set with (s := x_state x); [exact HP|auto|left; reflexivity].
    + destruct E as [B C]. unfold PInv.
      assert (Hna : x_state x' <> Active) by (destruct B as [->| ->]; discriminate).
      destruct (Moves_pend _ _ _ _ C) as [->| ->]; [|exact I]. right. split; [reflexivity|exact Hna].
  - destruct (flush x w) as [[r x1] w1] eqn:E. inversion H; subst; clear H.
    apply flush_keeps in E. destruct E as [_ [A [_ [_ B]]]]. eapply Hkeep; eassumption.
  - destruct (close x c w) as [[r x1] w1] eqn:E. inversion H; subst; clear H.
    apply close_spec in E. destruct E as [_ [_ [_ [[A [B C]]|[A [B C]]]]]]; [|eapply Hkeep; eassumption].
    assert (Hna : x_state x' <> Active) by (destruct B as [->| ->]; discriminate).
    unfold PInv. destruct (Moves_pend _ _ _ _ C) as [->| ->]; [|exact I].
    right. split; [reflexivity|exact Hna].
  - inversion H; subst. exact HP.
  - inversion H; subst. exact HP.
  - destruct (config_valid _); inversion H; subst; exact HP.
Qed.

Lemma pinv_run ops : forall x w rs x' w', run_ops x ops w = (rs, x', w') -> PInv x -> PInv x'.
Proof.
  induction ops as [|o ops IH]; intros x w rs x' w' H HP.
  - cbn [run_ops] in H. inversion H; subst. exact HP.
  - rewrite run_ops_cons in H.
    destruct (run_op x o w) as [[res1 x1] w1] eqn:E1.
    destruct (run_ops x1 ops w1) as [[rs2 x2] w2] eqn:E2.
    inversion H; subst; clear H. eapply IH; [exact E2|]. eapply pinv_step; eassumption.
Qed.

Lemma PInv_init r part cfg x0 : ctx_new r part cfg = Some x0 -> PInv x0.
Proof. intros H. apply ctx_new_fields in H. apply PInv_raw. destruct H as [_ [_ [-> _]]]. exact I. Qed.

Lemma pend_free_unmask a : pend_free (option_map unmask a) -> pend_free a.
Proof.
  intros [H|[g [H Hg]]].
  - left. destruct a; [discriminate|reflexivity].
  - right. destruct a as [f|]; [|discriminate]. exists f. split; [reflexivity|].
    cbn in H. inversion H; subst. exact Hg.
Qed.

(* C11_pong_pending: a read that delivers Ping p and leaves the connection Active has parked pong p *)
Lemma pong_parked x w p x' w' :
  PInv x -> read x w = (ROk (MPing p), x', w') -> x_state x' = Active ->
  x_state x = Active /\ x_additional x' = Some (frame_pong p).
Proof.
  intros HP H Hs. apply read_spec in H. destruct H as [_ [_ [[A [B [a [C D]]]]|[A _]]]]; [|contradiction].
  split; [exact A|]. rewrite D. apply pend_set_free, pend_free_unmask.
  unfold PInv in HP. rewrite A in HP.
  destruct (Moves_pend _ _ _ _ C) as [->| ->]; [apply pend_inv_active_free; exact HP|left; reflexivity].
Qed.

Lemma pong_parked_run r part cfg x0 w0 ops rs x w p x' w' :
  ctx_new r part cfg = Some x0 -> run_ops x0 ops w0 = (rs, x, w) ->
  read x w = (ROk (MPing p), x', w') -> x_state x' = Active ->
  x_additional x' = Some (frame_pong p).
Proof.
  intros Hn Hr H Hs. eapply pong_parked; [|exact H|exact Hs].
  eapply pinv_run; [exact Hr|]. eapply PInv_init; exact Hn.
Qed.

(* in a state that is not Active a delivered Ping changes nothing in additional_send: closing has begun *)

(* C11: the parked frame is never lost: it stays parked, or is queued, unless a newer reply supersedes it *)
Definition supersedes (o : op) (res : op_result) : Prop :=
  match o with
  | OpWrite (MPong _) | OpWrite (MClose _) | OpClose _ => True
  | OpRead => (exists p, res = ResMsg (ROk (MPing p))) \/ (exists c, res = ResMsg (ROk (MClose c)))
  | _ => False
  end.

Definition still_parked (f : frame) (x' : ctx) : Prop :=
  exists f', x_additional x' = Some f' /\ unmask f' = unmask f.
Definition now_queued (f : frame) (w w' : world) : Prop :=
  exists pre f', queued (w_log w') = queued (w_log w) ++ pre ++ [f'] /\ unmask f' = unmask f.

Lemma QQ_inv_queued w w' l : ext w w' l -> QQ w' = QQ w ++ uq (queued l).
Proof. unfold QQ, ext. intros ->. rewrite queued_app, uq_app. reflexivity. Qed.

Lemma uq_snoc_inv l pre g : uq l = pre ++ [g] -> exists pre' f', l = pre' ++ [f'] /\ unmask f' = g /\ uq pre' = pre.
Proof.
  intros H. destruct l as [|a l] using rev_ind.
  - destruct pre; discriminate.
  - unfold uq in H. rewrite map_app in H. cbn [map] in H. apply app_inj_tail in H. destruct H as [H1 H2].
    exists l, a. repeat split; assumption.
Qed.

(* every function only appends to the log *)
Lemma Sends_ext x w x' w' : Sends x w x' w' -> exists l, ext w w' l.
Proof. intros [l [H _]]. exists l. exact H. Qed.

Lemma Moves_parked_or_queued x w x' w' f ins l :
  x_additional x = Some f -> ext w w' l ->
  Moves (QQ w ++ ins) (PP x) (QQ w') (PP x') ->
  still_parked f x' \/ now_queued f w w'.
Proof.
  intros Ha El HM. assert (HP : PP x = Some (unmask f)) by (unfold PP; rewrite Ha; reflexivity).
  destruct HM as [[_ HM]|[HM _]].
  - left. rewrite HP in HM. unfold PP in HM. destruct (x_additional x') as [f'|] eqn:Ea'; [|discriminate].
    exists f'. split; [exact Ea'|]. cbn [option_map] in HM. congruence.
  - right. rewrite HP, (QQ_inv_queued _ _ _ El), <- app_assoc in HM. apply app_inv_head in HM.
    cbn [olist] in HM. apply uq_snoc_inv in HM. destruct HM as [pre' [f' [Hl [Hu _]]]].
    exists pre', f'. split; [|exact Hu]. unfold ext in El. rewrite El, queued_app, Hl. reflexivity.
Qed.

Definition Ext (w w' : world) : Prop := exists l, ext w w' l.
Lemma Ext_refl w : Ext w w. Proof. exists []. apply ext_refl. Qed.
Lemma Ext_trans a b c : Ext a b -> Ext b c -> Ext a c.
Proof. intros [l1 H1] [l2 H2]. exists (l1 ++ l2). eapply ext_trans; eassumption. Qed.

Lemma flush_Ext x w r x' w' : flush x w = (r, x', w') -> Ext w w'.
Proof. intros H. apply flush_Sends in H. destruct H as [H _]. exact (Sends_ext _ _ _ _ H). Qed.

Lemma close_Ext x c w r x' w' : close x c w = (r, x', w') -> Ext w w'.
Proof. unfold close. destruct (x_state x); apply flush_Ext. Qed.

Lemma write_msg_Ext x m w r x' w' : write x m w = (r, x', w') -> Ext w w'.
Proof.
  unfold write. destruct (is_terminated (x_state x)); [intros H; inversion H; apply Ext_refl|].
  destruct (negb (is_active (x_state x))); [intros H; inversion H; apply Ext_refl|].
  assert (Hdata : forall f,
    (let '(r, x1, w1) := write_ x (Some f) w in
      match r with
      | ROk true => flush x1 w1
      | ROk false => (ROk tt, x1, w1)
      | RErr e => (RErr e, x1, w1)
      | RPanic s => (RPanic s, x1, w1)
      | ROutOfFuel => (ROutOfFuel, x1, w1)
      end) = (r, x', w') -> Ext w w').
  { intros f. destruct (write_ x (Some f) w) as [[r1 x1] w1] eqn:E1.
    apply write_Sends, Sends_ext in E1.
    destruct r1 as [[|]|e|s|]; intros H; try (inversion H; subst; exact E1).
    apply flush_Ext in H. eapply Ext_trans; eassumption. }
  destruct m as [d|d|d|d|c|f]; try apply Hdata.
  - destruct (write_ (set_additional x (frame_pong d)) None w) as [[r1 x1] w1] eqn:E1.
    apply write_Sends, Sends_ext in E1. intros H. destruct r1; inversion H; subst; exact E1.
  - apply close_Ext.
Qed.

Lemma read_pre_Ext x w r0 x0 w0 : read_pre x w = (r0, x0, w0) -> Ext w w0.
Proof.
  unfold read_pre.
  destruct ((match x_additional x with Some _ => true | None => false end) || x_unflushed x).
  - destruct (flush x w) as [[r x1] w1] eqn:Ef. apply flush_Ext in Ef.
    intros H. destruct r as [u|e|s|]; try (inversion H; subst; exact Ef).
    destruct e as [| |k| | | |]; try (inversion H; subst; exact Ef).
    destruct k; inversion H; subst; exact Ef.
  - destruct (role_eqb (x_role x) Server && negb (can_read (x_state x))).
    + destruct (write_out_buffer (x_codec x) w) as [[rw c'] w1] eqn:Ew.
      apply write_out_buffer_sends in Ew. destruct Ew as [l [El _]].
      intros H. destruct rw; inversion H; subst; exists l; exact El.
    + intros H. inversion H; subst. apply Ext_refl.
Qed.

Lemma rmf_Ext x w r x' w' : read_message_frame x w = (r, x', w') -> Ext w w'.
Proof. intros H. apply rmf_spec in H. destruct H as [_ [_ [_ [[l [Hl _]] _]]]]. exists l. exact Hl. Qed.

Lemma read_loop_Ext n : forall x w r x' w', read_loop n x w = (r, x', w') -> Ext w w'.
Proof.
  induction n as [|n IH]; intros x w r x' w' H.
  - cbn [read_loop] in H. inversion H; subst. apply Ext_refl.
  - rewrite read_loop_unfold in H.
    destruct (read_pre x w) as [[r0 x0] w0] eqn:Ep. apply read_pre_Ext in Ep.
    destruct r0 as [u|e|s|]; try (inversion H; subst; exact Ep).
    destruct (read_message_frame x0 w0) as [[r1 x1] w1] eqn:Em. apply rmf_Ext in Em.
    pose proof (Ext_trans _ _ _ Ep Em) as E1.
    destruct r1 as [[m|]|e|s|]; try (inversion H; subst; exact E1).
    apply IH in H. eapply Ext_trans; eassumption.
Qed.

Lemma read_Ext x w r x' w' : read x w = (r, x', w') -> Ext w w'.
Proof.
  unfold read. destruct (is_terminated (x_state x)); [intros H; inversion H; apply Ext_refl|].
  apply read_loop_Ext.
Qed.

Lemma run_op_Ext x o w res x' w' : run_op x o w = (res, x', w') -> Ext w w'.
Proof.
  destruct o as [|m| |c| | |wbs mx]; cbn [run_op].
  - destruct (read x w) as [[r x1] w1] eqn:E. intros H; inversion H; subst. eapply read_Ext; exact E.
  - destruct (write x m w) as [[r x1] w1] eqn:E. intros H; inversion H; subst. eapply write_msg_Ext; exact E.
  - destruct (flush x w) as [[r x1] w1] eqn:E. intros H; inversion H; subst. eapply flush_Ext; exact E.
  - destruct (close x c w) as [[r x1] w1] eqn:E. intros H; inversion H; subst. eapply close_Ext; exact E.
  - intros H; inversion H; subst. apply Ext_refl.
  - intros H; inversion H; subst. apply Ext_refl.
  - destruct (config_valid _); intros H; inversion H; subst; apply Ext_refl.
Qed.

Lemma pong_step x o w res x' w' f :
  run_op x o w = (res, x', w') -> x_additional x = Some f ->
  still_parked f x' \/ now_queued f w w' \/ supersedes o res.
Proof.
  intros H Ha. destruct (run_op_Ext _ _ _ _ _ _ H) as [l El].
  assert (Hmv : forall ins, Moves (QQ w ++ ins) (PP x) (QQ w') (PP x') ->
                still_parked f x' \/ now_queued f w w' \/ supersedes o res).
  { intros ins HM. destruct (Moves_parked_or_queued x w x' w' f ins l Ha El HM); auto. }
  assert (Hmv0 : Moves (QQ w) (PP x) (QQ w') (PP x') ->
                still_parked f x' \/ now_queued f w w' \/ supersedes o res).
  { intros HM. apply (Hmv []). rewrite app_nil_r. exact HM. }
  assert (Hsame : x_additional x' = x_additional x -> still_parked f x' \/ now_queued f w w' \/ supersedes o res).
  { intros E. left. exists f. split; [congruence|reflexivity]. }
  clear El.
  destruct o as [|m| |c| | |wbs mx]; cbn [run_op] in H.
  - destruct (read x w) as [[r x1] w1] eqn:E. inversion H; subst; clear H.
    apply read_spec in E. destruct E as [_ [_ E]].
    destruct r as [m|e|s|]; try (apply Hmv0; apply E).
    destruct m as [b|b|b|b|cl|g]; try (apply Hmv0; apply E).
    + right. right. left. exists b. reflexivity.
    + right. right. right. exists cl. reflexivity.
  - destruct (write x m w) as [[r x1] w1] eqn:E. inversion H; subst; clear H.
    apply write_msg_spec in E. destruct E as [_ [_ [_ [[A [-> ->]]|[A E]]]]]; [apply Hsame; reflexivity|].
    destruct m as [d|d|d|d|c|g]; try (destruct E as [_ [ins [_ HM]]]; exact (Hmv ins HM));
      right; right; exact I.
  - destruct (flush x w) as [[r x1] w1] eqn:E. inversion H; subst; clear H.
    apply flush_keeps in E. apply Hmv0, E.
  - right. right. exact I.
  - inversion H; subst. apply Hsame. reflexivity.
  - inversion H; subst. apply Hsame. reflexivity.
  - destruct (config_valid _); inversion H; subst; apply Hsame; reflexivity.
Qed.

Lemma run_ops_Ext ops : forall x w rs x' w', run_ops x ops w = (rs, x', w') -> Ext w w'.
Proof.
  induction ops as [|o ops IH]; intros x w rs x' w' H.
  - cbn [run_ops] in H. inversion H; subst. apply Ext_refl.
  - rewrite run_ops_cons in H.
    destruct (run_op x o w) as [[res1 x1] w1] eqn:E1.
    destruct (run_ops x1 ops w1) as [[rs2 x2] w2] eqn:E2.
    inversion H; subst; clear H. eapply Ext_trans; [eapply run_op_Ext; exact E1|eapply IH; exact E2].
Qed.

Definition was_queued (f : frame) (w w' : world) : Prop :=
  exists pre f' post, queued (w_log w') = queued (w_log w) ++ pre ++ [f'] ++ post /\ unmask f' = unmask f.

Lemma was_queued_later f w w1 w2 : was_queued f w w1 -> Ext w1 w2 -> was_queued f w w2.
Proof.
  intros [pre [f' [post [Hq Hu]]]] [l El]. exists pre, f', (post ++ queued l). split; [|exact Hu].
  unfold ext in El. rewrite El, queued_app, Hq, <- !app_assoc. reflexivity.
Qed.

Lemma was_queued_earlier f w w1 w2 : Ext w w1 -> was_queued f w1 w2 -> was_queued f w w2.
Proof.
  intros [l El] [pre [f' [post [Hq Hu]]]]. exists (queued l ++ pre), f', post. split; [|exact Hu].
  unfold ext in El. rewrite Hq, El, queued_app, <- !app_assoc. reflexivity.
Qed.

(* over any run in which nothing supersedes it, a parked frame stays parked or has been queued *)
Lemma pong_kept_run ops : forall x w rs x' w' f,
  run_ops x ops w = (rs, x', w') -> x_additional x = Some f ->
  Forall2 (fun o rn => ~ supersedes o (fst rn)) ops rs ->
  still_parked f x' \/ was_queued f w w'.
Proof.
  induction ops as [|o ops IH]; intros x w rs x' w' f H Ha Hns.
  - cbn [run_ops] in H. inversion H; subst. left. exists f. split; [exact Ha|reflexivity].
  - rewrite run_ops_cons in H.
    destruct (run_op x o w) as [[res1 x1] w1] eqn:E1.
    destruct (run_ops x1 ops w1) as [[rs2 x2] w2] eqn:E2.
    inversion H; subst; clear H.
    inversion Hns as [|? ? ? ? Hns1 Hns2]; subst. cbn [fst] in Hns1.
    pose proof (run_op_Ext _ _ _ _ _ _ E1) as X1. pose proof (run_ops_Ext _ _ _ _ _ _ E2) as X2.
    destruct (pong_step _ _ _ _ _ _ f E1 Ha) as [[f1 [Ha1 Hu1]]|[[pre [f' [Hq Hu]]]|Hs]]; [| |contradiction].
    + destruct (IH _ _ _ _ _ f1 E2 Ha1 Hns2) as [[f2 [Ha2 Hu2]]|Hq].
      * left. exists f2. split; [exact Ha2|congruence].
      * right. apply (was_queued_earlier _ _ _ _ X1).
        destruct Hq as [pre [f' [post [Hq Hu]]]]. exists pre, f', post. split; [exact Hq|congruence].
    + right. apply (was_queued_later f w w1 w'); [|exact X2].
      exists pre, f', []. split; [rewrite Hq; reflexivity|exact Hu].
Qed.

(* ------------------------------------------------------------------------------------------ *)
(* 11. C11: order and no invention                                                              *)
(* ------------------------------------------------------------------------------------------ *)

Inductive Subseq {A : Type} : list A -> list A -> Prop :=
| ss_nil : Subseq [] []
| ss_skip a l1 l2 : Subseq l1 l2 -> Subseq l1 (a :: l2)
| ss_take a l1 l2 : Subseq l1 l2 -> Subseq (a :: l1) (a :: l2).

Lemma Subseq_nil_l {A} (l : list A) : Subseq [] l.
Proof. induction l; constructor; assumption. Qed.

Lemma Subseq_refl {A} (l : list A) : Subseq l l.
Proof. induction l; constructor; assumption. Qed.

Lemma Subseq_nil_r {A} (l : list A) : Subseq l [] -> l = [].
Proof. intros H. inversion H. reflexivity. Qed.

Lemma Subseq_trans {A} (l1 l2 l3 : list A) : Subseq l1 l2 -> Subseq l2 l3 -> Subseq l1 l3.
Proof.
  intros H1 H2. revert l1 H1. induction H2 as [|a l2 l3 H2 IH|a l2 l3 H2 IH]; intros l1 H1.
  - exact H1.
  - apply ss_skip, IH, H1.
  - inversion H1; subst.
    + apply ss_skip, IH. assumption.
    + apply ss_take, IH. assumption.
Qed.

Lemma Subseq_app {A} (l1 l2 m1 m2 : list A) : Subseq l1 l2 -> Subseq m1 m2 -> Subseq (l1 ++ m1) (l2 ++ m2).
Proof. intros H1 H2. induction H1; cbn [app]; [exact H2| |]; constructor; assumption. Qed.

Lemma Subseq_app_l {A} (l m : list A) : Subseq l (l ++ m).
Proof. rewrite <- (app_nil_r l) at 1. apply Subseq_app; [apply Subseq_refl|apply Subseq_nil_l]. Qed.

Lemma Subseq_app_r {A} (l m : list A) : Subseq m (l ++ m).
Proof. change m with ([] ++ m) at 1. apply Subseq_app; [apply Subseq_nil_l|apply Subseq_refl]. Qed.

Lemma Subseq_length {A} (l1 l2 : list A) : Subseq l1 l2 -> (length l1 <= length l2)%nat.
Proof. induction 1; cbn [length]; lia. Qed.

Lemma Subseq_In {A} (l1 l2 : list A) a : Subseq l1 l2 -> In a l1 -> In a l2.
Proof. induction 1; cbn [In]; intuition. Qed.

(* payloads of the pong frames of a list *)
Definition ppl (l : list frame) : list bytes := map f_payload (filter is_pong l).

Lemma ppl_app a b : ppl (a ++ b) = ppl a ++ ppl b.
Proof. unfold ppl. rewrite filter_app, map_app. reflexivity. Qed.

Lemma ppl_uq l : ppl (uq l) = ppl l.
Proof.
  induction l as [|f l IH]; [reflexivity|]. unfold ppl, uq in *. cbn [map filter].
  rewrite is_pong_unmask. destruct (is_pong f); cbn [map]; rewrite IH; reflexivity.
Qed.

(* pong payloads queued or parked, in order *)
Definition pongs (x : ctx) (w : world) : list bytes := ppl (oseq x w).

Lemma pongs_raw x w : pongs x w = ppl (queued (w_log w) ++ olist (x_additional x)).
Proof.
  unfold pongs, oseq, QQ, PP. rewrite !ppl_app, ppl_uq. f_equal.
  destruct (x_additional x) as [f|]; [|reflexivity]. exact (ppl_uq [f]).
Qed.

(* where pongs come from: a Ping delivered by read, or a Pong written by the user *)
Definition pong_src (o : op) (res : op_result) : list bytes :=
  match o, res with
  | OpWrite (MPong d), _ => [d]
  | OpRead, ResMsg (ROk (MPing p)) => [p]
  | _, _ => []
  end.

Fixpoint pong_srcs (ops : list op) (rs : list (op_result * N)) : list bytes :=
  match ops, rs with
  | o :: ops', rn :: rs' => pong_src o (fst rn) ++ pong_srcs ops' rs'
  | _, _ => []
  end.

Lemma ppl_pend_set_pong p d : Subseq (ppl (olist (pend_set p (frame_pong d)))) (ppl (olist p) ++ [d]).
Proof.
  destruct p as [f|]; [|apply Subseq_refl]. cbn [pend_set].
  destruct (is_pong f) eqn:Ef.
  - apply Subseq_app_r.
  - unfold ppl. cbn [olist filter]. rewrite Ef. apply Subseq_nil_l.
Qed.

Lemma ppl_pend_set_close p c : Subseq (ppl (olist (pend_set p (frame_close c)))) (ppl (olist p) ++ []).
Proof.
  rewrite app_nil_r. destruct p as [f|]; [|apply Subseq_nil_l]. cbn [pend_set].
  destruct (is_pong f) eqn:Ef; [apply Subseq_nil_l|apply Subseq_refl].
Qed.

Lemma order_set q p q' pa g src :
  Moves q p q' pa ->
  Subseq (ppl (olist (pend_set pa g))) (ppl (olist pa) ++ src) ->
  exists l, ppl q' ++ ppl (olist (pend_set pa g)) = ppl q ++ l /\ Subseq l (ppl (olist p) ++ src).
Proof.
  intros [[-> ->]|[-> ->]] H.
  - eexists. split; [reflexivity|exact H].
  - exists (ppl (olist p) ++ ppl (olist (pend_set None g))). split; [rewrite ppl_app, app_assoc; reflexivity|].
    apply Subseq_app; [apply Subseq_refl|exact H].
Qed.

Lemma order_moves q p q' p' ins src :
  Moves (q ++ ins) p q' p' -> ppl ins = [] ->
  exists l, ppl q' ++ ppl (olist p') = ppl q ++ l /\ Subseq l (ppl (olist p) ++ src).
Proof.
  intros HM Hins. exists (ppl (olist p)). split; [|apply Subseq_app_l].
  rewrite <- !ppl_app, (Moves_seq _ _ _ _ HM), !ppl_app, Hins, app_nil_r. reflexivity.
Qed.

Lemma msg_frame_not_pong m : no_raw_ctl (OpWrite m) -> ppl (map unmask (olist (msg_frame m))) = [].
Proof.
  destruct m as [d|d|d|d|c|f]; try reflexivity. cbn [no_raw_ctl msg_frame olist map].
  intros H. unfold ppl. cbn [filter]. rewrite is_pong_unmask, (not_ctl_not_pong f H). reflexivity.
Qed.

Lemma order_step x o w res x' w' :
  run_op x o w = (res, x', w') -> no_raw_ctl o ->
  exists l, pongs x' w' = ppl (QQ w) ++ l /\ Subseq l (ppl (olist (PP x)) ++ pong_src o res).
Proof.
  intros H Hraw. unfold pongs, oseq. rewrite ppl_app.
  assert (Hmv : forall ins, Moves (QQ w ++ ins) (PP x) (QQ w') (PP x') -> ppl ins = [] ->
     exists l, ppl (QQ w') ++ ppl (olist (PP x')) = ppl (QQ w) ++ l /\
               Subseq l (ppl (olist (PP x)) ++ pong_src o res)).
  { intros ins HM Hins. eapply order_moves; eassumption. }
  assert (Hmv0 : Moves (QQ w) (PP x) (QQ w') (PP x') ->
     exists l, ppl (QQ w') ++ ppl (olist (PP x')) = ppl (QQ w) ++ l /\
               Subseq l (ppl (olist (PP x)) ++ pong_src o res)).
  { intros HM. apply (Hmv []); [rewrite app_nil_r; exact HM|reflexivity]. }
  destruct o as [|m| |c| | |wbs mx]; cbn [run_op] in H.
  - destruct (read x w) as [[r x1] w1] eqn:E. inversion H; subst; clear H.
    apply read_spec in E. destruct E as [_ [_ E]].
    destruct r as [m|e|s|]; try (apply Hmv0; apply E).
    destruct m as [b|b|b|b|cl|g]; try (apply Hmv0; apply E).
    + destruct E as [[A [B [a [C D]]]]|[A [B C]]]; [|apply Hmv0; exact C].
      unfold PP at 1. rewrite D, pend_set_unmask, unmask_pong. cbn [pong_src].
      eapply order_set; [exact C|apply ppl_pend_set_pong].
    + destruct E as [[A [B [_ [a [C D]]]]]|[A [B C]]]; [|apply Hmv0; exact C].
      unfold PP at 1. rewrite D, pend_set_unmask, unmask_close. cbn [pong_src].
      eapply order_set; [exact C|apply ppl_pend_set_close].
  - destruct (write x m w) as [[r x1] w1] eqn:E. inversion H; subst; clear H.
    apply write_msg_spec in E. destruct E as [_ [_ [_ [[A [-> ->]]|[A E]]]]].
    { apply Hmv0, Moves_refl. }
    assert (Hdata : (st_step Active (x_state x') /\
           exists ins, (ins = [] \/ ins = map unmask (olist (msg_frame m))) /\
                       Moves (QQ w ++ ins) (PP x) (QQ w') (PP x')) ->
       exists l, ppl (QQ w') ++ ppl (olist (PP x')) = ppl (QQ w) ++ l /\
               Subseq l (ppl (olist (PP x)) ++ pong_src (OpWrite m) (ResUnit r))).
    { intros [_ [ins [Hins HM]]]. apply (Hmv ins HM).
      destruct Hins as [->| ->]; [reflexivity|apply msg_frame_not_pong; exact Hraw]. }
    destruct m as [d|d|d|d|c|f]; try (apply Hdata; exact E).
    + destruct E as [_ C]. cbn [pong_src].
      exists (ppl (olist (pend_set (PP x) (frame_pong d)))). split; [|apply ppl_pend_set_pong].
      rewrite <- !ppl_app, (Moves_seq _ _ _ _ C). reflexivity.
    + destruct E as [_ C]. exists []. split; [|apply Subseq_nil_l].
      rewrite <- !ppl_app, (Moves_seq _ _ _ _ C), ppl_app. reflexivity.
  - destruct (flush x w) as [[r x1] w1] eqn:E. inversion H; subst; clear H.
    apply flush_keeps in E. apply Hmv0, E.
  - destruct (close x c w) as [[r x1] w1] eqn:E. inversion H; subst; clear H.
    apply close_spec in E. destruct E as [_ [_ [_ [[A [B C]]|[A [B C]]]]]]; [|apply Hmv0; exact C].
    exists []. split; [|apply Subseq_nil_l].
    rewrite <- !ppl_app, (Moves_seq _ _ _ _ C), ppl_app. reflexivity.
  - inversion H; subst. apply Hmv0, Moves_refl.
  - inversion H; subst. apply Hmv0, Moves_refl.
  - destruct (config_valid _); inversion H; subst; apply Hmv0; unfold PP; cbn [x_additional]; apply Moves_refl.
Qed.

Lemma order_run ops : forall x w rs x' w',
  run_ops x ops w = (rs, x', w') -> Forall no_raw_ctl ops ->
  Subseq (pongs x' w') (pongs x w ++ pong_srcs ops rs).
Proof.
  induction ops as [|o ops IH]; intros x w rs x' w' H Hraw.
  - cbn [run_ops] in H. inversion H; subst. cbn [pong_srcs]. rewrite app_nil_r. apply Subseq_refl.
  - rewrite run_ops_cons in H.
    destruct (run_op x o w) as [[res1 x1] w1] eqn:E1.
    destruct (run_ops x1 ops w1) as [[rs2 x2] w2] eqn:E2.
    inversion H; subst; clear H.
    inversion Hraw as [|? ? Hraw1 Hraw2]; subst.
    destruct (order_step _ _ _ _ _ _ E1 Hraw1) as [l [Hl Hs]].
    pose proof (IH _ _ _ _ _ E2 Hraw2) as H2.
    eapply Subseq_trans; [exact H2|]. cbn [pong_srcs fst].
    rewrite Hl. unfold pongs, oseq. rewrite ppl_app, <- !app_assoc.
    apply Subseq_app; [apply Subseq_refl|]. rewrite app_assoc.
    apply Subseq_app; [exact Hs|apply Subseq_refl].
Qed.

(* the Ping payloads delivered by the reads of a run, in order *)
Definition ping_of (res : op_result) : list bytes :=
  match res with ResMsg (ROk (MPing p)) => [p] | _ => [] end.
Definition pings_delivered (rs : list (op_result * N)) : list bytes :=
  flat_map (fun rn => ping_of (fst rn)) rs.

Definition is_user_pong (o : op) : Prop := match o with OpWrite (MPong _) => True | _ => False end.

Lemma pong_srcs_auto ops : forall rs,
  Forall (fun o => ~ is_user_pong o) ops -> Subseq (pong_srcs ops rs) (pings_delivered rs).
Proof.
  induction ops as [|o ops IH]; intros rs Hnu.
  - apply Subseq_nil_l.
  - destruct rs as [|rn rs]; [apply Subseq_nil_l|]. inversion Hnu as [|? ? H1 H2]; subst.
    cbn [pong_srcs pings_delivered flat_map]. apply Subseq_app; [|apply IH; exact H2].
    destruct o as [|m| |c| | |wbs mx]; try apply Subseq_nil_l.
    + destruct (fst rn) as [r| |]; try apply Subseq_nil_l.
      destruct r as [m| | |]; try apply Subseq_nil_l. destruct m; try apply Subseq_nil_l. apply Subseq_refl.
    + destruct m; try apply Subseq_nil_l. exfalso. apply H1. exact I.
Qed.

Lemma pongs_init r part cfg x0 w0 :
  ctx_new r part cfg = Some x0 -> filter is_pong (queued (w_log w0)) = [] -> pongs x0 w0 = [].
Proof.
  intros H Hq. apply ctx_new_fields in H. destruct H as [_ [_ [Ha _]]].
  rewrite pongs_raw, Ha. cbn [olist]. rewrite app_nil_r. unfold ppl. rewrite Hq. reflexivity.
Qed.

(* C11_order_no_invention *)
Lemma pong_order r part cfg x0 w0 ops rs x' w' :
  ctx_new r part cfg = Some x0 -> filter is_pong (queued (w_log w0)) = [] ->
  Forall no_raw_ctl ops ->
  run_ops x0 ops w0 = (rs, x', w') ->
  Subseq (ppl (queued (w_log w') ++ olist (x_additional x'))) (pong_srcs ops rs).
Proof.
  intros Hn Hq Hraw H. pose proof (order_run _ _ _ _ _ _ H Hraw) as Ho.
  rewrite (pongs_init _ _ _ _ _ Hn Hq), pongs_raw in Ho. exact Ho.
Qed.

Lemma pong_order_auto r part cfg x0 w0 ops rs x' w' :
  ctx_new r part cfg = Some x0 -> filter is_pong (queued (w_log w0)) = [] ->
  Forall no_raw_ctl ops -> Forall (fun o => ~ is_user_pong o) ops ->
  run_ops x0 ops w0 = (rs, x', w') ->
  Subseq (ppl (queued (w_log w'))) (pings_delivered rs).
Proof.
  intros Hn Hq Hraw Hnu H.
  eapply Subseq_trans; [|apply pong_srcs_auto; exact Hnu].
  eapply Subseq_trans; [|eapply pong_order; eassumption].
  rewrite ppl_app. apply Subseq_app_l.
Qed.

(* ------------------------------------------------------------------------------------------ *)
(* 12. C11: the pong reaches the wire                                                           *)
(* ------------------------------------------------------------------------------------------ *)

Lemma try_take_out ms c :
  match try_take ms c with
  | TkPayload _ _ _ c' | TkNeedMore _ c' | TkErr _ c' => c_out c' = c_out c
  | TkPanic _ => True
  end.
Proof.
  unfold try_take. destruct (c_hdr c) as [[h len]|] eqn:Eh.
  - rewrite Eh. destruct (ms <? len); [reflexivity|]. destruct (len <=? blen (c_in c)); reflexivity.
  - destruct (header_parse (c_in c)) as [h len k| |i|]; try reflexivity.
    + cbn [c_hdr set_hdr set_in]. destruct (ms <? len); [reflexivity|].
      destruct (len <=? blen _); reflexivity.
    + rewrite Eh. reflexivity.
Qed.

Lemma read_frame_loop_out ms rds : forall c log r c' rds' log',
  read_frame_loop ms rds c log = (r, c', rds', log') -> c_out c' = c_out c.
Proof.
  induction rds as [|o rds IH]; intros c log r c' rds' log' H; cbn [read_frame_loop] in H;
    pose proof (try_take_out ms c) as Ht; destruct (try_take ms c) as [h len p c0|n c0|e c0|s];
    try (inversion H; subst; clear H; first [exact Ht|reflexivity]).
  destruct o as [bs| |k]; try (inversion H; subst; clear H; exact Ht).
  destruct bs as [|b bs]; [inversion H; subst; clear H; exact Ht|].
  apply IH in H. rewrite H. exact Ht.
Qed.

Lemma read_frame_out ms um au c w r c' w' : read_frame ms um au c w = (r, c', w') -> c_out c' = c_out c.
Proof.
  unfold read_frame. destruct (read_frame_loop _ _ _ _) as [[[r0 c0] rds0] log0] eqn:E.
  apply read_frame_loop_out in E. intros H.
  destruct r0 as [[[[h len] p]|]|e|s|]; try (inversion H; subst; exact E).
  destruct (negb (blen p =? len)); [inversion H; subst; exact E|].
  destruct um; [|inversion H; subst; exact E].
  destruct (h_mask h); [inversion H; subst; exact E|].
  destruct au; inversion H; subst; exact E.
Qed.

Lemma do_close_codec x cl r x' : do_close x cl = (r, x') -> x_codec x' = x_codec x.
Proof. intros H. apply do_close_spec in H. apply H. Qed.

(* read_message_frame never touches out_buffer *)
Lemma rmf_out x w r x' w' :
  read_message_frame x w = (r, x', w') -> c_out (x_codec x') = c_out (x_codec x).
Proof.
  unfold read_message_frame.
  destruct (read_frame _ _ _ _ _) as [[r0 c1] w1] eqn:Erf. apply read_frame_out in Erf.
  destruct (check_connection_reset r0 (x_state x)) as [r0' s1].
  set (x1 := set_state (set_codec x c1) s1).
  assert (X1 : c_out (x_codec x1) = c_out (x_codec x)) by exact Erf. clearbody x1.
  Ltac rmf_out_fin H :=
    match type of H with (pair (pair _ _) _) = _ => idtac end;
    inversion H; subst; clear H; cbn [x_codec set_incomplete]; try assumption.
  destruct r0' as [[f|]|e|s|]; intros H; try (rmf_out_fin H).
  2:{ destruct (x_state x1); rmf_out_fin H. }
  destruct (negb (can_read (x_state x1))); [rmf_out_fin H|].
  destruct (h_rsv1 (f_hdr f) || h_rsv2 (f_hdr f) || h_rsv3 (f_hdr f)); [rmf_out_fin H|].
  destruct (role_eqb (x_role x1) Client && _); [rmf_out_fin H|].
  destruct (h_opcode (f_hdr f)) as [d|ctl].
  - destruct d as [| | |i].
    + destruct (x_incomplete x1) as [msg|]; [|rmf_out_fin H].
      destruct (incmsg_extend msg (f_payload f) (cfg_max_message_size (x_cfg x1))) as [re msg'].
      destruct re as [u|e|s|]; try (rmf_out_fin H).
      destruct (h_fin (f_hdr f)); [|rmf_out_fin H].
      destruct (incmsg_complete msg') as [m|e|s|]; rmf_out_fin H.
    + destruct (x_incomplete x1) as [msg|]; [rmf_out_fin H|].
      destruct (h_fin (f_hdr f)).
      * destruct (check_max_size _ _); try (rmf_out_fin H).
        destruct (is_utf8 (f_payload f)); rmf_out_fin H.
      * destruct (incmsg_extend _ _ _) as [re inc1]. destruct re as [u|e|s|]; rmf_out_fin H.
    + destruct (x_incomplete x1) as [msg|]; [rmf_out_fin H|].
      destruct (h_fin (f_hdr f)).
      * destruct (check_max_size _ _); rmf_out_fin H.
      * destruct (incmsg_extend _ _ _) as [re inc1]. destruct re as [u|e|s|]; rmf_out_fin H.
    + destruct (x_incomplete x1) as [msg|]; rmf_out_fin H.
  - destruct (negb (h_fin (f_hdr f))); [rmf_out_fin H|].
    destruct (125 <? blen (f_payload f)); [rmf_out_fin H|].
    destruct ctl as [| | |i].
    + destruct (frame_into_close (f_payload f)) as [cl|e|s|]; try (rmf_out_fin H).
      destruct (do_close x1 cl) as [rd x2] eqn:Ed. apply do_close_codec in Ed.
      destruct rd as [[c|]|e|s|]; inversion H; subst; clear H; rewrite Ed; exact X1.
    + inversion H; subst; clear H. destruct (is_active (x_state x1)); [rewrite set_additional_codec|]; exact X1.
    + rmf_out_fin H.
    + rmf_out_fin H.
Qed.

Lemma rmf_Sends x w r x' w' : read_message_frame x w = (r, x', w') -> Sends x w x' w'.
Proof.
  intros H. pose proof (rmf_out _ _ _ _ _ H) as Ho.
  apply rmf_spec in H. destruct H as [_ [_ [_ [[l [Hl Hrd]] _]]]].
  exists l. split; [exact Hl|]. unfold SendsL.
  rewrite (wire_rd_events _ Hrd), (queued_rd_events _ Hrd), Ho. cbn. rewrite app_nil_r. reflexivity.
Qed.

Lemma close_Sends x c w r x' w' : close x c w = (r, x', w') -> Sends x w x' w'.
Proof.
  unfold close. destruct (x_state x); intros H; apply flush_Sends in H; destruct H as [H _]; exact H.
Qed.

Lemma write_msg_Sends x m w r x' w' : write x m w = (r, x', w') -> Sends x w x' w'.
Proof.
  unfold write. destruct (is_terminated (x_state x)); [intros H; inversion H; apply Sends_refl|].
  destruct (negb (is_active (x_state x))); [intros H; inversion H; apply Sends_refl|].
  assert (Hdata : forall f,
    (let '(r, x1, w1) := write_ x (Some f) w in
      match r with
      | ROk true => flush x1 w1
      | ROk false => (ROk tt, x1, w1)
      | RErr e => (RErr e, x1, w1)
      | RPanic s => (RPanic s, x1, w1)
      | ROutOfFuel => (ROutOfFuel, x1, w1)
      end) = (r, x', w') -> Sends x w x' w').
  { intros f. destruct (write_ x (Some f) w) as [[r1 x1] w1] eqn:E1.
    apply write_Sends in E1.
    destruct r1 as [[|]|e|s|]; intros H; try (inversion H; subst; exact E1).
    apply flush_Sends in H. destruct H as [H _]. eapply Sends_trans; eassumption. }
  destruct m as [d|d|d|d|c|f]; try apply Hdata.
  - destruct (write_ (set_additional x (frame_pong d)) None w) as [[r1 x1] w1] eqn:E1.
    apply write_Sends in E1. intros H.
    assert (S : Sends x w x1 w1).
    { destruct E1 as [l [El S]]. exists l. split; [exact El|]. rewrite set_additional_codec in S. exact S. }
    destruct r1; inversion H; subst; exact S.
  - apply close_Sends.
Qed.

Lemma read_pre_Sends x w r0 x0 w0 : read_pre x w = (r0, x0, w0) -> Sends x w x0 w0.
Proof.
  unfold read_pre.
  destruct ((match x_additional x with Some _ => true | None => false end) || x_unflushed x).
  - destruct (flush x w) as [[r x1] w1] eqn:Ef. apply flush_Sends in Ef. destruct Ef as [Ef _].
    intros H. destruct r as [u|e|s|]; try (inversion H; subst; exact Ef).
    destruct e as [| |k| | | |]; try (inversion H; subst; exact Ef).
    destruct k; inversion H; subst; exact Ef.
  - destruct (role_eqb (x_role x) Server && negb (can_read (x_state x))).
    + destruct (write_out_buffer (x_codec x) w) as [[rw c'] w1] eqn:Ew.
      apply write_out_buffer_sends in Ew. destruct Ew as [l [El [_ [S _]]]].
      intros H. destruct rw; inversion H; subst; exists l; split; assumption.
    + intros H. inversion H; subst. apply Sends_refl.
Qed.

Lemma read_loop_Sends n : forall x w r x' w', read_loop n x w = (r, x', w') -> Sends x w x' w'.
Proof.
  induction n as [|n IH]; intros x w r x' w' H.
  - cbn [read_loop] in H. inversion H; subst. apply Sends_refl.
  - rewrite read_loop_unfold in H.
    destruct (read_pre x w) as [[r0 x0] w0] eqn:Ep. apply read_pre_Sends in Ep.
    destruct r0 as [u|e|s|]; try (inversion H; subst; exact Ep).
    destruct (read_message_frame x0 w0) as [[r1 x1] w1] eqn:Em. apply rmf_Sends in Em.
    pose proof (Sends_trans _ _ _ _ _ _ Ep Em) as E1.
    destruct r1 as [[m|]|e|s|]; try (inversion H; subst; exact E1).
    apply IH in H. eapply Sends_trans; eassumption.
Qed.

Lemma read_Sends x w r x' w' : read x w = (r, x', w') -> Sends x w x' w'.
Proof.
  unfold read. destruct (is_terminated (x_state x)); [intros H; inversion H; apply Sends_refl|].
  apply read_loop_Sends.
Qed.

Lemma run_op_Sends x o w res x' w' : run_op x o w = (res, x', w') -> Sends x w x' w'.
Proof.
  destruct o as [|m| |c| | |wbs mx]; cbn [run_op].
  - destruct (read x w) as [[r x1] w1] eqn:E. intros H; inversion H; subst. eapply read_Sends; exact E.
  - destruct (write x m w) as [[r x1] w1] eqn:E. intros H; inversion H; subst. eapply write_msg_Sends; exact E.
  - destruct (flush x w) as [[r x1] w1] eqn:E. intros H; inversion H; subst.
    apply flush_Sends in E. apply E.
  - destruct (close x c w) as [[r x1] w1] eqn:E. intros H; inversion H; subst. eapply close_Sends; exact E.
  - intros H; inversion H; subst. apply Sends_refl.
  - intros H; inversion H; subst. apply Sends_refl.
  - destruct (config_valid _); intros H; inversion H; subst; try apply Sends_refl.
    exists []. split; [apply ext_refl|]. exact (SendsL_nil (c_out (x_codec x))).
Qed.

Lemma run_ops_Sends ops : forall x w rs x' w', run_ops x ops w = (rs, x', w') -> Sends x w x' w'.
Proof.
  induction ops as [|o ops IH]; intros x w rs x' w' H.
  - cbn [run_ops] in H. inversion H; subst. apply Sends_refl.
  - rewrite run_ops_cons in H.
    destruct (run_op x o w) as [[res1 x1] w1] eqn:E1.
    destruct (run_ops x1 ops w1) as [[rs2 x2] w2] eqn:E2.
    inversion H; subst; clear H. eapply Sends_trans; [eapply run_op_Sends; exact E1|eapply IH; exact E2].
Qed.

(* bytes written ++ bytes still buffered = encoding of the frames queued so far *)
Lemma stream_inv r part cfg x0 w0 ops rs x' w' :
  ctx_new r part cfg = Some x0 -> w_log w0 = [] ->
  run_ops x0 ops w0 = (rs, x', w') ->
  wire (w_log w') ++ c_out (x_codec x') = encq (queued (w_log w')).
Proof.
  intros Hn Hl H. apply run_ops_Sends in H. destruct H as [l [El S]].
  unfold ext in El. rewrite Hl in El. cbn [app] in El. rewrite El.
  unfold SendsL in S. rewrite S.
  unfold ctx_new in Hn. destruct (config_valid cfg); [|discriminate]. inversion Hn. reflexivity.
Qed.

(* is the write buffer too full to take frame f now? (the test made by FrameCodec::buffer_frame) *)
Definition buffer_full (x : ctx) (w : world) (f : frame) : bool :=
  c_max_out (x_codec x) <? frame_len (out_frame x w f) + blen (c_out (x_codec x)).

Lemma buffer_frame_full_iff x f w r x' w' :
  buffer_frame x f w = (r, x', w') ->
  (buffer_full x w f = true /\ r = RErr (EWriteBufferFull (out_frame x w f))) \/
  (buffer_full x w f = false /\ not_full r).
Proof.
  unfold buffer_frame, buffer_full, out_frame. intros H.
  destruct (x_role x) eqn:Er.
  - destruct (codec_buffer_frame (x_codec x) f w) as [[r0 c'] w2] eqn:E.
    destruct (check_connection_reset r0 (x_state x)) as [r1 s1] eqn:Ec.
    inversion H; subst; clear H.
    apply ccr_spec in Ec. destruct Ec as [_ [Hnf [Hf _]]].
    apply codec_buffer_frame_spec in E. destruct E as [[-> [_ [_ Hb]]]|[Hn [_ Hb]]].
    + left. split; [exact Hb|]. destruct (Hf f eq_refl) as [-> _]. reflexivity.
    + right. split; [exact Hb|apply Hnf; exact Hn].
  - destruct (w_next_key w) as [k wk] eqn:Ek.
    destruct (codec_buffer_frame (x_codec x) _ wk) as [[r0 c'] w2] eqn:E.
    destruct (check_connection_reset r0 (x_state x)) as [r1 s1] eqn:Ec.
    inversion H; subst; clear H. cbn [fst].
    apply ccr_spec in Ec. destruct Ec as [_ [Hnf [Hf _]]].
    apply codec_buffer_frame_spec in E. destruct E as [[-> [_ [_ Hb]]]|[Hn [_ Hb]]].
    + left. split; [exact Hb|]. destruct (Hf _ eq_refl) as [-> _]. reflexivity.
    + right. split; [exact Hb|apply Hnf; exact Hn].
Qed.

(* with room in the write buffer, _write(None) takes the parked frame out of additional_send *)
Lemma write_add_room x0 w0 f r1 x1 w1 :
  x_additional x0 = Some f -> buffer_full x0 w0 f = false ->
  write_add x0 w0 = (r1, x1, w1) -> x_additional x1 = None.
Proof.
  intros Ha Hroom. unfold write_add. rewrite Ha.
  destruct (buffer_frame (set_additional_raw x0 None) f w0) as [[rb xb] wb] eqn:Eb.
  pose proof (buffer_frame_full_iff _ _ _ _ _ _ Eb) as Hf.
  apply buffer_frame_spec in Eb. destruct Eb as [_ [Hab _]]. cbn [x_additional set_additional_raw] in Hab.
  destruct Hf as [[Hf _]|[_ Hn]].
  { unfold buffer_full, out_frame in *. cbn [x_codec x_role set_additional_raw] in Hf. congruence. }
  intros H. destruct rb as [u|e|s|]; try (inversion H; subst; exact Hab).
  destruct e; try (inversion H; subst; exact Hab). exfalso. eapply Hn. reflexivity.
Qed.

Lemma flush_room x w f r x' w' :
  x_additional x = Some f -> buffer_full x w f = false ->
  flush x w = (r, x', w') -> x_additional x' = None.
Proof.
  intros Ha Hroom. unfold flush. destruct (write_ x None w) as [[r0 x0] w0] eqn:E0.
  assert (H0 : x_additional x0 = None).
  { rewrite write_unfold in E0. destruct (write_add x w) as [[r1 x1] w1] eqn:E1.
    pose proof (write_add_room _ _ _ _ _ _ Ha Hroom E1) as Hn.
    apply write_tail_spec in E0. destruct E0 as [_ [_ [_ [_ [Ha' _]]]]]. congruence. }
  destruct r0 as [u|e|s|]; intros H; try (inversion H; subst; exact H0).
  destruct (write_out_buffer (x_codec x0) w0) as [[r1 c1] w1].
  destruct r1 as [u1|e|s|]; try (inversion H; subst; exact H0).
  destruct (w_flush w1) as [r2 w2]. destruct r2; inversion H; subst; exact H0.
Qed.

Lemma sent_core x w x' w' f ins l :
  x_additional x = Some f -> x_additional x' = None ->
  Moves (QQ w ++ ins) (PP x) (QQ w') (PP x') -> ext w w' l ->
  uq (queued l) = ins ++ [unmask f].
Proof.
  intros Ha Ha' HM El.
  assert (HP : PP x = Some (unmask f)) by (unfold PP; rewrite Ha; reflexivity).
  assert (HP' : PP x' = None) by (unfold PP; rewrite Ha'; reflexivity).
  destruct HM as [[_ HM]|[HM _]]; [congruence|].
  rewrite HP, (QQ_inv_queued _ _ _ El), <- app_assoc in HM. apply app_inv_head in HM. exact HM.
Qed.

Lemma uq_single l g : uq l = [g] -> exists f', l = [f'] /\ unmask f' = g.
Proof.
  destruct l as [|a [|b l]]; try discriminate. cbn. intros H. exists a. split; [reflexivity|congruence].
Qed.

(* C11_pong_sent for flush: a successful flush with the frame taken out of additional_send has written
   everything buffered before and then the frame, and ends with a successful transport flush *)
Lemma flush_sent x w f x' w' :
  x_additional x = Some f -> flush x w = (ROk tt, x', w') -> x_additional x' = None ->
  exists f1 l, unmask f1 = unmask f /\
    w_log w' = w_log w ++ l ++ [EvFlush FlOk] /\ queued l = [f1] /\
    wire l = c_out (x_codec x) ++ frame_format f1 /\
    c_out (x_codec x') = [] /\ x_unflushed x' = false.
Proof.
  intros Ha H Ha'. pose proof (flush_keeps _ _ _ _ _ H) as [_ [_ [_ [_ HM]]]].
  apply flush_Sends in H. destruct H as [_ H]. destruct (H eq_refl) as [Hout [Hu [l [El S]]]].
  assert (HM' : Moves (QQ w ++ []) (PP x) (QQ w') (PP x')) by (rewrite app_nil_r; exact HM).
  pose proof (sent_core _ _ _ _ f [] _ Ha Ha' HM' El) as Hq.
  rewrite queued_app in Hq. cbn [queued] in Hq. rewrite app_nil_r in Hq. cbn [app] in Hq.
  apply uq_single in Hq. destruct Hq as [f1 [Hq Hf1]].
  exists f1, l. split; [exact Hf1|]. split; [exact El|]. split; [exact Hq|].
  unfold SendsL in S. rewrite app_nil_r, Hq in S. unfold encq in S. cbn [map concat] in S.
  rewrite app_nil_r in S. repeat split; assumption.
Qed.

(* the rest of read() once its preliminary flush is done *)
Definition read_go (n : nat) (x0 : ctx) (w0 : world) : res message * ctx * world :=
  let '(r1, x1, w1) := read_message_frame x0 w0 in
  match r1 with
  | ROk (Some m) => (ROk m, x1, w1)
  | ROk None => read_loop n x1 w1
  | RErr e => (RErr e, x1, w1)
  | RPanic s => (RPanic s, x1, w1)
  | ROutOfFuel => (ROutOfFuel, x1, w1)
  end.

Definition read_fuel (x : ctx) (w : world) : nat := length (c_in (x_codec x)) + rd_bytes (w_rds w).

Lemma read_go_Ext n x0 w0 r x' w' : read_go n x0 w0 = (r, x', w') -> Ext w0 w'.
Proof.
  unfold read_go. destruct (read_message_frame x0 w0) as [[r1 x1] w1] eqn:Em. apply rmf_Ext in Em.
  destruct r1 as [[m|]|e|s|]; intros H; try (inversion H; subst; exact Em).
  apply read_loop_Ext in H. eapply Ext_trans; eassumption.
Qed.

Definition must_flush (x : ctx) : Prop := (exists f, x_additional x = Some f) \/ x_unflushed x = true.

Lemma must_flush_true x :
  must_flush x -> (match x_additional x with Some _ => true | None => false end) || x_unflushed x = true.
Proof. intros [[f ->]| ->]; [reflexivity|apply orb_true_r]. Qed.

(* read() whose preliminary flush succeeds goes on to read with the flushed context *)
Lemma read_flush_ok x w x1 w1 :
  is_terminated (x_state x) = false -> must_flush x ->
  flush x w = (ROk tt, x1, w1) ->
  read x w = read_go (read_fuel x w) x1 w1.
Proof.
  intros Ht Hm Hf. unfold read. rewrite Ht. rewrite read_loop_unfold. unfold read_pre.
  rewrite (must_flush_true x Hm), Hf. reflexivity.
Qed.

(* C11_blocked: read() whose preliminary flush hits WouldBlock remembers that (unflushed_additional)
   and goes on to read all the same *)
Lemma read_flush_blocked x w x1 w1 :
  is_terminated (x_state x) = false -> must_flush x ->
  flush x w = (RErr (EIo WouldBlock), x1, w1) ->
  read x w = read_go (read_fuel x w) (set_unflushed x1 true) w1.
Proof.
  intros Ht Hm Hf. unfold read. rewrite Ht. rewrite read_loop_unfold. unfold read_pre.
  rewrite (must_flush_true x Hm), Hf. reflexivity.
Qed.

(* whatever flush returns, the parked frame is still parked or has been queued, and no byte is lost *)
Lemma flush_keeps_frame x w f r x' w' :
  x_additional x = Some f -> flush x w = (r, x', w') ->
  (still_parked f x' \/ now_queued f w w') /\
  exists l, ext w w' l /\ wire l ++ c_out (x_codec x') = c_out (x_codec x) ++ encq (queued l).
Proof.
  intros Ha H. split.
  - destruct (flush_Ext _ _ _ _ _ H) as [l El].
    pose proof (flush_keeps _ _ _ _ _ H) as [_ [_ [_ [_ HM]]]].
    apply (Moves_parked_or_queued x w x' w' f [] l Ha El). rewrite app_nil_r. exact HM.
  - apply flush_Sends in H. destruct H as [[l [El S]] _]. exists l. split; [exact El|exact S].
Qed.

(* a context with unflushed_additional set flushes at the next read, and _write(None) asks for a flush *)
Lemma unflushed_write_none x w :
  x_additional x = None -> x_unflushed x = true ->
  (role_eqb (x_role x) Server && closing_done (x_state x)) = false ->
  write_ x None w = (ROk true, x, w).
Proof.
  intros Ha Hu Hs. rewrite write_unfold. unfold write_add, write_tail. rewrite Ha, Hu, Hs. reflexivity.
Qed.

(* _write(Some d) that returns Ok has queued d, and says whether the parked frame went out too *)
Lemma write_ok_shape x d w b x' w' f :
  x_additional x = Some f ->
  write_ x (Some d) w = (ROk b, x', w') ->
  Moves (QQ w ++ [unmask d]) (PP x) (QQ w') (PP x') /\
  ((b = true /\ x_additional x' = None) \/ (b = false /\ exists f', x_additional x' = Some f')).
Proof.
  intros Ha. rewrite write_unfold.
  destruct (buffer_frame x d w) as [[r0 x0] w0] eqn:E0.
  apply buffer_frame_spec in E0. destruct E0 as [_ [Ha0 [_ [_ [_ [_ Hq]]]]]].
  destruct r0 as [u|e|s|]; try discriminate.
  destruct Hq as [[Hq _]|[_ Hq]]; [discriminate|].
  assert (HP0 : PP x0 = PP x) by (unfold PP; rewrite Ha0; reflexivity).
  pose proof (QQ_snoc _ _ _ Hq) as HQ0. rewrite unmask_out_frame in HQ0.
  destruct (write_add x0 w0) as [[r1 x1] w1] eqn:E1. intros H.
  pose proof (write_tail_spec _ _ _ _ _ _ H) as [_ [_ [_ [_ [_ [_ [_ Hok]]]]]]].
  destruct (Hok b eq_refl) as [-> [-> ->]]. clear H Hok.
  pose proof (write_add_spec _ _ _ _ _ E1) as [_ [_ [_ [_ [HM _]]]]].
  split; [rewrite <- HQ0, <- HP0; exact HM|].
  unfold write_add in E1. rewrite Ha0, Ha in E1.
  destruct (buffer_frame (set_additional_raw x0 None) f w0) as [[rb xb] wb] eqn:Eb.
  apply buffer_frame_spec in Eb. destruct Eb as [_ [Hab _]]. cbn [x_additional set_additional_raw] in Hab.
  destruct rb as [u1|e|s|]; try discriminate.
  - inversion E1; subst. left. split; [reflexivity|exact Hab].
  - destruct e; try discriminate. inversion E1; subst. right. split; [reflexivity|].
    eexists. rewrite set_additional_pend, Hab. reflexivity.
Qed.

Lemma uq_nil l : uq l = [] -> l = [].
Proof. destruct l; [reflexivity|discriminate]. Qed.

Lemma uq_two l a b : uq l = [a; b] -> exists a' b', l = [a'; b'] /\ unmask a' = a /\ unmask b' = b.
Proof.
  destruct l as [|x [|y [|z l]]]; try discriminate. cbn. intros H. exists x, y.
  split; [reflexivity|]. split; congruence.
Qed.

(* C11_pong_sent for write: a data write that returns Ok with nothing left parked has written the data
   frame, then the parked frame, and flushed *)
Lemma write_sent x m d w f x' w' :
  x_state x = Active -> msg_frame m = Some d ->
  x_additional x = Some f -> write x m w = (ROk tt, x', w') -> x_additional x' = None ->
  exists d1 f1 l, unmask d1 = unmask d /\ unmask f1 = unmask f /\
    w_log w' = w_log w ++ l ++ [EvFlush FlOk] /\ queued l = [d1; f1] /\
    wire l = c_out (x_codec x) ++ frame_format d1 ++ frame_format f1 /\
    c_out (x_codec x') = [].
Proof.
  intros Hs Hm Ha H Ha'. unfold write in H. rewrite Hs in H. cbn [is_terminated is_active negb] in H.
  assert (Hdata :
    (let '(r, x1, w1) := write_ x (Some d) w in
      match r with
      | ROk true => flush x1 w1
      | ROk false => (ROk tt, x1, w1)
      | RErr e => (RErr e, x1, w1)
      | RPanic s => (RPanic s, x1, w1)
      | ROutOfFuel => (ROutOfFuel, x1, w1)
      end) = (ROk tt, x', w')).
  { destruct m; cbn [msg_frame] in Hm; try discriminate; inversion Hm; subst; exact H. }
  clear H. destruct (write_ x (Some d) w) as [[r1 x1] w1] eqn:E1.
  destruct r1 as [b|e|s|]; try discriminate.
  pose proof (write_ok_shape _ _ _ _ _ _ _ Ha E1) as [HM [[-> Ha1]|[-> [f' Ha1]]]].
  2:{ inversion Hdata; subst. congruence. }
  apply write_Sends in E1. destruct E1 as [l1 [El1 S1]].
  pose proof (sent_core _ _ _ _ f [unmask d] _ Ha Ha1 HM El1) as Hq1.
  cbn [app] in Hq1. apply uq_two in Hq1. destruct Hq1 as [d1 [f1 [Hq1 [Hd1 Hf1]]]].
  pose proof (flush_keeps _ _ _ _ _ Hdata) as [_ [_ [_ [_ HM2]]]].
  apply flush_Sends in Hdata. destruct Hdata as [_ Hf]. destruct (Hf eq_refl) as [Hout [_ [l2 [El2 S2]]]].
  assert (Hq2 : queued l2 = []).
  { assert (HP1 : PP x1 = None) by (unfold PP; rewrite Ha1; reflexivity).
    assert (HQ : QQ w' = QQ w1).
    { destruct HM2 as [[HQ _]|[HQ _]]; [exact HQ|]. rewrite HP1 in HQ. cbn [olist] in HQ.
      rewrite app_nil_r in HQ. exact HQ. }
    rewrite (QQ_inv_queued _ _ _ El2) in HQ. rewrite <- (app_nil_r (QQ w1)) in HQ at 2.
    apply app_inv_head, uq_nil in HQ. rewrite queued_app in HQ. apply app_eq_nil in HQ. apply HQ. }
  exists d1, f1, (l1 ++ l2). split; [exact Hd1|]. split; [exact Hf1|].
  split; [unfold ext in *; rewrite El2, El1, <- !app_assoc; reflexivity|].
  split; [rewrite queued_app, Hq1, Hq2, app_nil_r; reflexivity|].
  split; [|exact Hout].
  unfold SendsL in S1, S2. rewrite Hq2 in S2. cbn [encq map concat] in S2. rewrite !app_nil_r in S2.
  rewrite wire_app, S2, S1, Hq1. unfold encq. cbn [map concat]. rewrite app_nil_r. reflexivity.
Qed.

(* C11_pong_sent for read: the preliminary flush of read() sends the parked frame; reading then goes on *)
Lemma read_sent x w f x1 w1 r x' w' :
  is_terminated (x_state x) = false -> x_additional x = Some f ->
  flush x w = (ROk tt, x1, w1) -> x_additional x1 = None ->
  read x w = (r, x', w') ->
  read x w = read_go (read_fuel x w) x1 w1 /\
  exists f1 l l2, unmask f1 = unmask f /\
    w_log w' = w_log w ++ l ++ [EvFlush FlOk] ++ l2 /\ queued l = [f1] /\
    wire l = c_out (x_codec x) ++ frame_format f1.
Proof.
  intros Ht Ha Hf Ha1 Hr.
  assert (Hm : must_flush x) by (left; exists f; exact Ha).
  pose proof (read_flush_ok x w x1 w1 Ht Hm Hf) as Hgo. split; [exact Hgo|].
  rewrite Hgo in Hr. apply read_go_Ext in Hr. destruct Hr as [l2 El2].
  destruct (flush_sent _ _ _ _ _ Ha Hf Ha1) as [f1 [l [Hu [El [Hq [Hw _]]]]]].
  exists f1, l, l2. split; [exact Hu|]. split; [|split; assumption].
  unfold ext in El2. rewrite El2, El, <- !app_assoc. reflexivity.
Qed.

(* C11_blocked *)
Lemma read_blocked x w f x1 w1 :
  is_terminated (x_state x) = false -> x_additional x = Some f ->
  flush x w = (RErr (EIo WouldBlock), x1, w1) ->
  read x w = read_go (read_fuel x w) (set_unflushed x1 true) w1 /\
  (still_parked f x1 \/ now_queued f w w1) /\
  (exists l, ext w w1 l /\ wire l ++ c_out (x_codec x1) = c_out (x_codec x) ++ encq (queued l)) /\
  must_flush (set_unflushed x1 true).
Proof.
  intros Ht Ha Hf.
  assert (Hm : must_flush x) by (left; exists f; exact Ha).
  split; [exact (read_flush_blocked x w x1 w1 Ht Hm Hf)|].
  destruct (flush_keeps_frame _ _ _ _ _ _ Ha Hf) as [H1 H2].
  split; [exact H1|]. split; [exact H2|]. right. reflexivity.
Qed.

Lemma encq_In f l : In f l -> exists a b, encq l = a ++ frame_format f ++ b.
Proof.
  intros H. apply in_split in H. destruct H as [l1 [l2 ->]].
  exists (encq l1), (encq l2). rewrite encq_app. unfold encq at 2. cbn [map concat]. reflexivity.
Qed.

(* after any run, a successful flush leaves every queued frame on the wire, followed by a transport flush *)
Lemma flushed_all r part cfg x0 w0 ops rs x w x' w' :
  ctx_new r part cfg = Some x0 -> w_log w0 = [] ->
  run_ops x0 ops w0 = (rs, x, w) ->
  flush x w = (ROk tt, x', w') ->
  wire (w_log w') = encq (queued (w_log w')) /\
  (exists l, w_log w' = l ++ [EvFlush FlOk]) /\
  forall f1, In f1 (queued (w_log w')) -> exists a b, wire (w_log w') = a ++ frame_format f1 ++ b.
Proof.
  intros Hn Hl Hr Hf.
  assert (Hw : wire (w_log w') = encq (queued (w_log w'))).
  { apply run_ops_Sends in Hr. pose proof (flush_Sends _ _ _ _ _ Hf) as [S2 Hok].
    destruct (Hok eq_refl) as [Hout _].
    destruct (Sends_trans _ _ _ _ _ _ Hr S2) as [l [El S]].
    unfold ext in El. rewrite Hl in El. cbn [app] in El. rewrite El.
    unfold SendsL in S. rewrite Hout, app_nil_r in S. rewrite S.
    unfold ctx_new in Hn. destruct (config_valid cfg); [|discriminate]. inversion Hn. reflexivity. }
  split; [exact Hw|]. split.
  - apply flush_Sends in Hf. destruct Hf as [_ Hok]. destruct (Hok eq_refl) as [_ [_ [l [El _]]]].
    exists (w_log w ++ l). unfold ext in El. rewrite El, app_assoc. reflexivity.
  - intros f1 Hin. rewrite Hw. apply encq_In, Hin.
Qed.

(* once the peer's Close has been seen (or the connection is terminated) a further frame is refused:
   nothing is reported, nothing is parked *)
Lemma rmf_after_close x w f c1 w1 :
  can_read (x_state x) = false ->
  the_read_frame x w = (ROk (Some f), c1, w1) ->
  read_message_frame x w = (RErr (EProtocol ReceivedAfterClosing), set_codec x c1, w1).
Proof.
  unfold the_read_frame, read_message_frame. intros Hcr Erf. rewrite Erf. cbn [check_connection_reset].
  assert (E1 : set_state (set_codec x c1) (x_state x) = set_codec x c1) by (destruct x; reflexivity).
  rewrite E1. cbn [x_state set_codec]. rewrite Hcr. reflexivity.
Qed.

(* ------------------------------------------------------------------------------------------ *)
(* 13. C12 end to end: from the bytes of a Close frame in in_buffer                             *)
(* ------------------------------------------------------------------------------------------ *)

Lemma in_range_from k : forall s n, s <= n < s + N.of_nat k -> In n (range_from s k).
Proof.
  induction k as [|k IH]; intros s n H; [lia|]. cbn [range_from].
  destruct (N.eq_dec s n) as [->|Hne]; [left; reflexivity|]. right. apply IH. lia.
Qed.

Definition len_ok (n : N) : bool :=
  (N.land n 128 =? 0) && (N.land n 127 =? n) && (N.land (N.lor n 128) 127 =? n) &&
  negb (N.land (N.lor n 128) 128 =? 0) && (N.lor n 0 =? n).

Lemma len_sweep : forallb len_ok (range_from 0 126) = true.
Proof. vm_compute. reflexivity. Qed.

Lemma len_facts n : n <= 125 ->
  N.land n 128 = 0 /\ N.land n 127 = n /\ N.land (N.lor n 128) 127 = n /\
  N.land (N.lor n 128) 128 <> 0 /\ N.lor n 0 = n.
Proof.
  intros Hn. pose proof len_sweep as Hs. rewrite forallb_forall in Hs.
  specialize (Hs n (in_range_from 126 0 n ltac:(lia))). unfold len_ok in Hs.
  repeat (apply andb_prop in Hs; destruct Hs as [Hs ?]). repeat split; lia.
Qed.

Definition close_hdr (m : option key) : header := mkHeader true false false false (OCtl Close) m.

Lemma header_parse_close_unmasked n r :
  n <= 125 -> header_parse (136 :: n :: r) = POk (close_hdr None) n 2.
Proof.
  intros Hn. destruct (len_facts n Hn) as [H1 [H2 _]].
  unfold header_parse, bit. change (opcode_of_u8 (N.land 136 15)) with (Some (OCtl Close)).
  rewrite H1, H2. unfold lf_for_byte.
  replace (n =? 126) with false by lia. replace (n =? 127) with false by lia.
  cbn [lf_extra]. change (8 <? 0) with false. replace (blen r <? 0) with false by lia.
  change (0 <? 0) with false. cbn [negb N.eqb is_reserved]. reflexivity.
Qed.

Lemma header_parse_close_masked n a b c d r :
  n <= 125 ->
  header_parse (136 :: N.lor n 128 :: a :: b :: c :: d :: r) = POk (close_hdr (Some (a, b, c, d))) n 6.
Proof.
  intros Hn. destruct (len_facts n Hn) as [_ [_ [H3 [H4 _]]]].
  unfold header_parse, bit. change (opcode_of_u8 (N.land 136 15)) with (Some (OCtl Close)).
  rewrite H3. replace (N.land (N.lor n 128) 128 =? 0) with false by lia. unfold lf_for_byte.
  replace (n =? 126) with false by lia. replace (n =? 127) with false by lia.
  cbn [lf_extra negb]. change (8 <? 0) with false.
  replace (blen (a :: b :: c :: d :: r) <? 0) with false by lia.
  change (0 <? 0) with false. cbn [is_reserved]. reflexivity.
Qed.

Lemma close_header_format m n :
  n <= 125 ->
  header_format (close_hdr m) n =
  [136; match m with Some _ => N.lor n 128 | None => n end] ++ match m with Some k => key_bytes k | None => [] end.
Proof.
  intros Hn. destruct (len_facts n Hn) as [_ [_ [_ [_ H5]]]].
  unfold header_format, lf_for_length. replace (n <? 126) with true by lia.
  cbn [lf_length_byte h_mask close_hdr h_opcode h_fin h_rsv1 h_rsv2 h_rsv3 opcode_to_u8 flag].
  change (N.lor (N.lor (N.lor (N.lor 8 128) 0) 0) 0) with 136.
  destruct m as [k|]; cbn [flag app]; [reflexivity|]. rewrite H5. reflexivity.
Qed.

Lemma read_frame_loop_payload ms rds c log h len p c' :
  try_take ms c = TkPayload h len p c' ->
  read_frame_loop ms rds c log = (ROk (Some (h, len, p)), c', rds, log).
Proof. intros H. destruct rds; cbn [read_frame_loop]; rewrite H; reflexivity. Qed.

Lemma world_eta w : mkWorld (w_rds w) (w_wrs w) (w_fls w) (w_keys w) (w_log w) = w.
Proof. destruct w; reflexivity. Qed.

Lemma takeN_blen_app {A} (a b : list A) : takeN (blen a) (a ++ b) = a.
Proof. unfold takeN, blen. rewrite Nat2N.id. apply firstn_length_app. Qed.
Lemma dropN_blen_app {A} (a b : list A) : dropN (blen a) (a ++ b) = b.
Proof. unfold dropN, blen. rewrite Nat2N.id. apply skipn_length_app. Qed.

Lemma xor_cyc_invol k p : xor_cyc k (xor_cyc k p) = p.
Proof.
  revert k. induction p as [|b p IH]; intros k; [reflexivity|]. cbn [xor_cyc]. rewrite IH. f_equal.
  rewrite N.lxor_assoc, N.lxor_nilpotent, N.lxor_0_r. reflexivity.
Qed.

Lemma xor_cyc_length k p : length (xor_cyc k p) = length p.
Proof. revert k. induction p as [|b p IH]; intros k; [reflexivity|]. cbn [xor_cyc length]. rewrite IH. reflexivity. Qed.

(* the model's encoding of a Close frame with payload pl, masked with m or not *)
Definition close_bytes (m : option key) (pl : bytes) : bytes := frame_format (mkFrame (close_hdr m) pl).

(* read_frame on a codec whose in_buffer starts with a complete Close frame *)
Lemma try_take_close ms c m pl rest :
  c_hdr c = None -> c_in c = close_bytes m pl ++ rest -> blen pl <= 125 -> blen pl <= ms ->
  exists c', c_in c' = rest /\ c_out c' = c_out c /\
    try_take ms c = TkPayload (close_hdr m) (blen pl)
                      (match m with Some k => apply_mask k pl | None => pl end) c'.
Proof.
  intros Hh Hin Hn Hms. unfold close_bytes, frame_format in Hin.
  cbn [f_hdr f_payload h_mask close_hdr] in Hin. rewrite (close_header_format m _ Hn) in Hin.
  unfold try_take. rewrite Hh, Hin.
  destruct m as [[[[a b] c0] d]|]; cbn [key_bytes app].
  - rewrite (header_parse_close_masked _ a b c0 d _ Hn). cbn [c_hdr set_hdr set_in c_in].
    replace (ms <? blen pl) with false by lia.
    change (dropN 6 (136 :: N.lor (blen pl) 128 :: a :: b :: c0 :: d :: apply_mask (a, b, c0, d) pl ++ rest))
      with (apply_mask (a, b, c0, d) pl ++ rest).
    assert (Hl : blen (apply_mask (a, b, c0, d) pl) = blen pl).
    { unfold blen, apply_mask. rewrite xor_cyc_length. reflexivity. }
    replace (blen pl <=? blen (apply_mask (a, b, c0, d) pl ++ rest)) with true
      by (unfold blen in *; rewrite app_length; lia).
    rewrite <- Hl, takeN_blen_app, dropN_blen_app. eexists. split; [|split; [|reflexivity]]; reflexivity.
  - rewrite (header_parse_close_unmasked _ _ Hn). cbn [c_hdr set_hdr set_in c_in].
    replace (ms <? blen pl) with false by lia.
    change (dropN 2 (136 :: blen pl :: pl ++ rest)) with (pl ++ rest).
    replace (blen pl <=? blen (pl ++ rest)) with true by (unfold blen; rewrite app_length; lia).
    rewrite takeN_blen_app, dropN_blen_app. eexists. split; [|split; [|reflexivity]]; reflexivity.
Qed.

(* the role-appropriate encoding: a server receives masked frames, a client unmasked ones *)
Definition peer_mask_ok (r : role) (m : option key) : Prop :=
  match r, m with Server, Some _ => True | Client, None => True | _, _ => False end.

Lemma the_read_frame_close x w m pl rest :
  c_hdr (x_codec x) = None -> c_in (x_codec x) = close_bytes m pl ++ rest ->
  blen pl <= 125 -> blen pl <= limit_of (cfg_max_frame_size (x_cfg x)) ->
  peer_mask_ok (x_role x) m ->
  exists c1, c_in c1 = rest /\ c_out c1 = c_out (x_codec x) /\
    the_read_frame x w = (ROk (Some (mkFrame (close_hdr None) pl)), c1, w).
Proof.
  intros Hh Hin Hn Hms Hm. unfold the_read_frame, read_frame.
  destruct (try_take_close _ _ m pl rest Hh Hin Hn Hms) as [c' [Hc1 [Hc2 Ht]]].
  rewrite (read_frame_loop_payload _ _ _ _ _ _ _ _ Ht), world_eta.
  exists c'. split; [exact Hc1|]. split; [exact Hc2|].
  destruct (x_role x), m as [k|]; cbn in Hm; try contradiction; cbn [role_eqb].
  - replace (blen (apply_mask k pl) =? blen pl) with true
      by (unfold blen, apply_mask; rewrite xor_cyc_length; lia).
    cbn [negb h_mask close_hdr h_fin h_rsv1 h_rsv2 h_rsv3 h_opcode].
    unfold apply_mask. rewrite xor_cyc_invol. reflexivity.
  - replace (blen pl =? blen pl) with true by lia. reflexivity.
Qed.

(* C12_reply from bytes: an Active endpoint whose in_buffer starts with the encoding of a Close frame *)
Lemma reply_from_bytes x w m rest p :
  x_state x = Active -> pend_free (x_additional x) ->
  c_hdr (x_codec x) = None ->
  c_in (x_codec x) = close_bytes m (peer_close_payload p) ++ rest ->
  blen (peer_close_payload p) <= 125 ->
  blen (peer_close_payload p) <= limit_of (cfg_max_frame_size (x_cfg x)) ->
  peer_mask_ok (x_role x) m -> peer_close_ok p ->
  exists x',
    read_message_frame x w = (ROk (Some (MClose (expected_reply p))), x', w) /\
    x_state x' = ClosedByPeer /\
    x_additional x' = Some (frame_close (expected_reply p)) /\
    c_in (x_codec x') = rest /\
    frame_into_close (f_payload (frame_close (expected_reply p))) = ROk (expected_reply p).
Proof.
  intros Hs Hfree Hh Hin Hn Hms Hm Hp.
  destruct (the_read_frame_close x w m _ rest Hh Hin Hn Hms Hm) as [c1 [Hc1 [_ Erf]]].
  assert (Hok : close_frame_ok (x_role x) (mkFrame (close_hdr None) (peer_close_payload p))).
  { unfold close_frame_ok. cbn. repeat split. exact Hn. }
  pose proof (peer_close_decodes p Hp) as Hdec.
  pose proof (rmf_close_active x w _ c1 w _ Hs Erf Hok Hdec) as Hr.
  eexists. split; [rewrite expected_reply_spec; exact Hr|].
  match goal with |- context [set_additional ?a ?b] =>
    destruct (set_additional_fields a b) as [_ [F2 [F3 _]]]; rewrite F3, F2 end.
  split; [reflexivity|]. split; [|split; [exact Hc1|]].
  - rewrite set_additional_pend. cbn [x_additional set_state set_codec].
    rewrite (pend_set_free _ _ Hfree), expected_reply_spec. reflexivity.
  - apply close_payload_roundtrip, expected_reply_wf, Hp.
Qed.
