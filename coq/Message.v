(* Message.v — model of IncompleteMessage and check_max_size (src/protocol/message.rs, protocol/mod.rs) *)
From TungModel Require Export World.

Inductive incmsg := ITxt (c : collector) | IBin (v : bytes).

Definition incmsg_len (m : incmsg) : N :=
  match m with ITxt c => collector_len c | IBin v => blen v end.

Definition limit_of (l : option N) : N := match l with Some m => m | None => u64_max end.

(* IncompleteMessage::extend. Returns the result and the (possibly mutated) accumulator. *)
Definition incmsg_extend (m : incmsg) (tail : bytes) (size_limit : option N) : res unit * incmsg :=
  let max_size := limit_of size_limit in
  let my_size := incmsg_len m in
  let portion := blen tail in
  if (max_size <? my_size) || (max_size - my_size <? portion) then
    if two64 <=? my_size + portion then (RPanic site_overflow, m)
    else (RErr (ECapacity (my_size + portion) max_size), m)
  else
    match m with
    | IBin v => (ROk tt, IBin (v ++ tail))
    | ITxt c =>
        match collector_extend c tail with
        | COk c' => (ROk tt, ITxt c')
        | CErrUtf8 c' => (RErr EUtf8, ITxt c')
        | CPanic => (RPanic site_utf8_checked_sub, m)
        end
    end.

(* IncompleteMessage::complete *)
Definition incmsg_complete (m : incmsg) : res message :=
  match m with
  | IBin v => ROk (MBinary v)
  | ITxt c => match collector_into_string c with Some s => ROk (MText s) | None => RErr EUtf8 end
  end.

(* check_max_size *)
Definition check_max_size (size : N) (max_size : option N) : res unit :=
  match max_size with
  | Some m => if m <? size then RErr (ECapacity size m) else ROk tt
  | None => ROk tt
  end.

(* Frame::into_close *)
Definition frame_into_close (payload : bytes) : res (option close_frame) :=
  match payload with
  | [] => ROk None
  | [_] => RErr (EProtocol InvalidCloseSequence)
  | a :: b :: reason =>
      if is_utf8 reason then ROk (Some (close_of_u16 (from_be [a; b]), reason)) else RErr EUtf8
  end.
