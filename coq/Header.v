(* Header.v — model of FrameHeader / LengthFormat in src/protocol/frame/frame.rs *)
From TungModel Require Export Base Coding Mask.

Record header := mkHeader {
  h_fin : bool; h_rsv1 : bool; h_rsv2 : bool; h_rsv3 : bool;
  h_opcode : opcode; h_mask : option key }.

Inductive lenfmt := LU8 (b : N) | LU16 | LU64.

(* LengthFormat::for_length *)
Definition lf_for_length (n : N) : lenfmt :=
  if n <? 126 then LU8 n else if n <? 65536 then LU16 else LU64.
(* LengthFormat::extra_bytes *)
Definition lf_extra (f : lenfmt) : N := match f with LU8 _ => 0 | LU16 => 2 | LU64 => 8 end.
(* LengthFormat::length_byte *)
Definition lf_length_byte (f : lenfmt) : N := match f with LU8 b => b | LU16 => 126 | LU64 => 127 end.
(* LengthFormat::for_byte (argument already masked with 0x7F) *)
Definition lf_for_byte (b : N) : lenfmt :=
  if b =? 126 then LU16 else if b =? 127 then LU64 else LU8 b.

(* FrameHeader::len *)
Definition header_len (h : header) (n : N) : N :=
  2 + lf_extra (lf_for_length n) + (match h_mask h with Some _ => 4 | None => 0 end).

Definition flag (b : bool) (v : N) : N := if b then v else 0.

(* FrameHeader::format *)
Definition header_format (h : header) (n : N) : bytes :=
  let code := opcode_to_u8 (h_opcode h) in
  let one := N.lor (N.lor (N.lor (N.lor code (flag (h_fin h) 128)) (flag (h_rsv1 h) 64))
                          (flag (h_rsv2 h) 32)) (flag (h_rsv3 h) 16) in
  let lf := lf_for_length n in
  let two := N.lor (lf_length_byte lf) (flag (match h_mask h with Some _ => true | None => false end) 128) in
  [one; two]
  ++ (match lf with LU8 _ => [] | LU16 => to_be 2 (n mod 65536) | LU64 => to_be 8 n end)
  ++ (match h_mask h with Some k => key_bytes k | None => [] end).

Inductive pres :=
| POk (h : header) (len : N) (consumed : N)
| PIncomplete
| PErr (bad_opcode : N)       (* ProtocolError::InvalidOpcode *)
| PPanic.                      (* OpCode::from panic arm / the assert! in parse_internal *)

Definition bit (b m : N) : bool := negb (N.land b m =? 0).

(* FrameHeader::parse = parse_internal + position reset on incomplete.
   On POk the third component is the number of bytes consumed; PIncomplete and PErr consume nothing
   (on Err the caller never advances). *)
Definition header_parse (bs : bytes) : pres :=
  match bs with
  | first :: second :: r =>
      match opcode_of_u8 (N.land first 15) with
      | None => PPanic
      | Some opc =>
          let masked := bit second 128 in
          let length_byte := N.land second 127 in
          let ll := lf_extra (lf_for_byte length_byte) in
          if 8 <? ll then PPanic else
          if blen r <? ll then PIncomplete else
          let len := if 0 <? ll then from_be (takeN ll r) else length_byte in
          let r1 := dropN ll r in
          if masked then
            match r1 with
            | a :: b :: c :: d :: _ =>
                if is_reserved opc then PErr (N.land first 15) else
                POk (mkHeader (bit first 128) (bit first 64) (bit first 32) (bit first 16) opc (Some (a, b, c, d)))
                    len (2 + ll + 4)
            | _ => PIncomplete
            end
          else
            if is_reserved opc then PErr (N.land first 15) else
            POk (mkHeader (bit first 128) (bit first 64) (bit first 32) (bit first 16) opc None) len (2 + ll)
      end
  | _ => PIncomplete
  end.
