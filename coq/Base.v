(* Base.v — bytes, big-endian packing, small list utilities shared by the whole model.
   Executable definitions only (no proofs): this file is part of the extracted model. *)
From Coq Require Export List NArith Bool.
Export ListNotations.
Open Scope N_scope.

Definition byte := N.
Definition bytes := list N.

(* length as a binary natural (lengths held in usize/u64 in the Rust code) *)
Definition blen {A} (l : list A) : N := N.of_nat (length l).

(* first n / all but first n elements, n given as N *)
Definition takeN {A} (n : N) (l : list A) : list A := firstn (N.to_nat n) l.
Definition dropN {A} (n : N) (l : list A) : list A := skipn (N.to_nat n) l.

(* big-endian encoding of v on w bytes (w : nat is 2, 4 or 8 everywhere) *)
Fixpoint to_be (w : nat) (v : N) : bytes :=
  match w with
  | O => []
  | S w' => to_be w' (v / 256) ++ [v mod 256]
  end.

(* big-endian decoding *)
Definition from_be (bs : bytes) : N := fold_left (fun acc b => acc * 256 + b) bs 0.

Definition u16_max : N := 65535.
Definition u64_max : N := 18446744073709551615.
Definition two64 : N := 18446744073709551616.

Definition wf_byte (b : N) : bool := b <? 256.
Definition wf_bytes (bs : bytes) : bool := forallb wf_byte bs.

(* all bytes 0..255 — used for finite sweeps *)
Fixpoint range_from (start : N) (n : nat) : list N :=
  match n with O => [] | S n' => start :: range_from (start + 1) n' end.
Definition all_bytes : list N := range_from 0 256.

Fixpoint list_eqb {A} (eqb : A -> A -> bool) (a b : list A) : bool :=
  match a, b with
  | [], [] => true
  | x :: a', y :: b' => eqb x y && list_eqb eqb a' b'
  | _, _ => false
  end.
Definition bytes_eqb := list_eqb N.eqb.

Fixpoint sumN (l : list N) : N := match l with [] => 0 | x :: r => x + sumN r end.
