(* FrameSocket.v — model of the public raw-frame API FrameSocket<Stream> (src/protocol/frame/mod.rs):
   read / write / flush / send on frames, directly over FrameCodec (no role logic, no unmasking:
   read passes unmask = false, accept_unmasked = true). *)
From TungModel Require Export World Message Codec.

Inductive fs_op :=
| FsRead (max_size : option N)
| FsWrite (f : frame)
| FsFlush
| FsSend (f : frame).

Inductive fs_result := FsFrame (r : res (option frame)) | FsUnit (r : res unit).

(* FrameSocket::flush *)
Definition fs_flush (c : codec) (w : world) : res unit * codec * world :=
  let '(r, c', w') := write_out_buffer c w in
  match r with
  | ROk _ => let '(r2, w2) := w_flush w' in (r2, c', w2)
  | _ => (r, c', w')
  end.

Definition fs_run_op (c : codec) (o : fs_op) (w : world) : fs_result * codec * world :=
  match o with
  | FsRead max => let '(r, c', w') := read_frame max false true c w in (FsFrame r, c', w')
  | FsWrite f => let '(r, c', w') := codec_buffer_frame c f w in (FsUnit r, c', w')
  | FsFlush => let '(r, c', w') := fs_flush c w in (FsUnit r, c', w')
  | FsSend f =>
      let '(r, c', w') := codec_buffer_frame c f w in
      match r with
      | ROk _ => let '(r2, c2, w2) := fs_flush c' w' in (FsUnit r2, c2, w2)
      | _ => (FsUnit r, c', w')
      end
  end.

Fixpoint fs_run_ops (c : codec) (ops : list fs_op) (w : world) : list (fs_result * N) * codec * world :=
  match ops with
  | [] => ([], c, w)
  | o :: r =>
      let '(res1, c1, w1) := fs_run_op c o w in
      let '(rs, c2, w2) := fs_run_ops c1 r w1 in
      ((res1, blen (w_log w1)) :: rs, c2, w2)
  end.
