(* props/C05.v — C05: what is read does not depend on how the transport cuts the byte stream.

   Vocabulary (definitions in proofs/CodecReadP.v):
   - every list of read outcomes [w_rds w] is a schedule: [sched_data] = concatenation of the non-empty
     chunks delivered before the first terminal entry (WouldBlock entries skipped), [sched_end] = that
     terminal: end of file (RdEof or an empty read), a hard error, or silence (oracle exhausted: it
     answers WouldBlock for ever);
   - [drive fuel ms unmask accept_unmasked c w] = the results of successive [read_frame] calls,
     WouldBlocks dropped, up to and including the first result that is neither a frame nor WouldBlock;
   - [frames_ref] = the whole-stream reference decoder (cuts a byte string into frames; ends with the
     decoding error, or with the terminal when the bytes run out inside a frame);
   - [mu c rds] bounds the number of calls; any fuel above it gives the same list, without OutOfFuel.
   The read-buffer size does not occur in the model (the model's in_buffer is a plain byte list), so
   independence of read_buffer_size holds by construction in the model; for the code it rests on the
   correspondence runs over read_buffer_size in {0,1,2,5,6,13,14,15,64,4096,131072}.           *)
From TungModel Require Import Base Coding Mask Header Frame World Message Codec Protocol.
From TungModel.proofs Require Import CodecReadP.

(* Under EVERY schedule, from EVERY codec state, the successive results of read_frame are the
   reference decoding of (buffered bytes ++ data of the schedule) followed by the schedule's terminal. *)
Theorem C05_frames_ref : forall ms unmask acc fuel c w,
  (mu c (w_rds w) < fuel)%nat ->
  drive fuel ms unmask acc c w =
  frames_ref ms unmask acc (c_hdr c) (c_in c ++ sched_data (w_rds w)) (sched_end (w_rds w)).
Proof. exact drive_ref. Qed.

(* Two schedules with the same data and the same terminal give the same results. *)
Theorem C05_frames : forall ms unmask acc c w1 w2 f1 f2,
  sched_data (w_rds w1) = sched_data (w_rds w2) ->
  sched_end (w_rds w1) = sched_end (w_rds w2) ->
  (mu c (w_rds w1) < f1)%nat -> (mu c (w_rds w2) < f2)%nat ->
  drive f1 ms unmask acc c w1 = drive f2 ms unmask acc c w2.
Proof. exact drive_sched_indep. Qed.

Theorem C05_frames_fuel_ok : forall ms unmask acc fuel c w,
  (mu c (w_rds w) < fuel)%nat -> ~ In ROutOfFuel (drive fuel ms unmask acc c w).
Proof. exact drive_no_oof. Qed.

(* A read_frame that answers WouldBlock consumed the chunks [chunks] and stopped at a WouldBlock entry
   or at the end of the oracle; the state it leaves decodes every continuation d of the stream as the
   state before decodes chunks ++ d; nothing else changed. *)
Theorem C05_wouldblock_state_frames : forall ms unmask acc c w c' w',
  read_frame ms unmask acc c w = (RErr (EIo WouldBlock), c', w') ->
  exists chunks,
    (w_rds w = map RdData chunks ++ RdErr WouldBlock :: w_rds w' \/
     (w_rds w = map RdData chunks /\ w_rds w' = [])) /\
    Forall nonempty chunks /\
    (forall d t, frames_ref ms unmask acc (c_hdr c') (c_in c' ++ d) t =
                 frames_ref ms unmask acc (c_hdr c) (c_in c ++ concat chunks ++ d) t) /\
    c_out c' = c_out c /\ c_max_out c' = c_max_out c /\ c_write_len c' = c_write_len c /\
    w_wrs w' = w_wrs w /\ w_fls w' = w_fls w /\ w_keys w' = w_keys w.
Proof. exact read_frame_wouldblock_state. Qed.

(* Retrying continues where the call stopped ... *)
Theorem C05_wouldblock_noop_frames : forall ms unmask acc c w c' w' f f',
  read_frame ms unmask acc c w = (RErr (EIo WouldBlock), c', w') ->
  (mu c' (w_rds w') < f')%nat -> (mu c (w_rds w) < f)%nat ->
  drive f' ms unmask acc c' w' = drive f ms unmask acc c w.
Proof. exact drive_wouldblock_noop. Qed.

(* ... and the results are those of the schedule from which that WouldBlock was removed. *)
Theorem C05_wouldblock_removed_frames : forall ms unmask acc c w c' w' f f',
  read_frame ms unmask acc c w = (RErr (EIo WouldBlock), c', w') ->
  forall chunks, w_rds w = map RdData chunks ++ RdErr WouldBlock :: w_rds w' ->
  Forall nonempty chunks ->
  let w0 := w_set_rds w (map RdData chunks ++ w_rds w') in
  (mu c' (w_rds w') < f')%nat -> (mu c (w_rds w0) < f)%nat ->
  drive f' ms unmask acc c' w' = drive f ms unmask acc c w0.
Proof. exact drive_wouldblock_removed. Qed.

(* from_partially_read p, then a schedule  ==  fresh codec under any schedule delivering p ++ data *)
Theorem C05_partially_read_frames : forall ms unmask acc p w w0 f f0,
  sched_data (w_rds w0) = p ++ sched_data (w_rds w) ->
  sched_end (w_rds w0) = sched_end (w_rds w) ->
  (mu (codec_new p) (w_rds w) < f)%nat -> (mu (codec_new []) (w_rds w0) < f0)%nat ->
  drive f ms unmask acc (codec_new p) w = drive f0 ms unmask acc (codec_new []) w0.
Proof. exact drive_partially_read. Qed.

(* ---- non-vacuity ---- *)
Definition ex_stream : bytes := [129; 130; 1; 2; 3; 4; 73; 107; 137; 128; 9; 9; 9; 9; 130; 1].
Definition ex_drip (bs : bytes) : list rd_out := flat_map (fun b => [RdData [b]; RdErr WouldBlock]) bs.
Definition ex_w (rds : list rd_out) : world := mkWorld rds [] [] [] [].
Definition ex_text : frame := mkFrame (mkHeader true false false false (OData Text) None) [72; 105].
Definition ex_ping : frame := mkFrame (mkHeader true false false false (OCtl Ping) None) [].

(* whole stream at once, then EOF: two frames (a masked Text "Hi", a masked empty Ping), then EOF
   inside the third, incomplete frame *)
Example C05_ex_whole :
  drive 100 None true false (codec_new []) (ex_w [RdData ex_stream; RdEof])
  = [ROk (Some ex_text); ROk (Some ex_ping); ROk None].
Proof. vm_compute. reflexivity. Qed.

(* one byte at a time with a WouldBlock after every byte: same data, same terminal, same results *)
Example C05_ex_drip :
  sched_data (ex_drip ex_stream ++ [RdEof]) = sched_data [RdData ex_stream; RdEof] /\
  sched_end (ex_drip ex_stream ++ [RdEof]) = sched_end [RdData ex_stream; RdEof] /\
  (mu (codec_new []) (ex_drip ex_stream ++ [RdEof]) < 100)%nat /\
  drive 100 None true false (codec_new []) (ex_w (ex_drip ex_stream ++ [RdEof]))
  = [ROk (Some ex_text); ROk (Some ex_ping); ROk None].
Proof. vm_compute. repeat split; try reflexivity. repeat constructor. Qed.

(* a WouldBlock in the middle of the mask: the call returns WouldBlock, three header+mask bytes stay buffered *)
Example C05_ex_wouldblock :
  exists c' w',
    read_frame None true false (codec_new [129; 130]) (ex_w [RdData [1; 2]; RdData [3]; RdErr WouldBlock; RdData [4; 73; 107]])
    = (RErr (EIo WouldBlock), c', w') /\ c_in c' = [129; 130; 1; 2; 3] /\ w_rds w' = [RdData [4; 73; 107]].
Proof. eexists. eexists. vm_compute. repeat split; reflexivity. Qed.

(* pre-read part of 3 bytes (cut inside the mask), hard error as terminal *)
Example C05_ex_partially_read :
  drive 100 None true false (codec_new [129; 130; 1])
        (ex_w (ex_drip [2; 3; 4; 73; 107; 137; 128; 9; 9; 9; 9; 130; 1] ++ [RdErr ConnReset]))
  = [ROk (Some ex_text); ROk (Some ex_ping); RErr (EIo ConnReset)].
Proof. vm_compute. reflexivity. Qed.

(* concrete instance: one byte at a time with a WouldBlock after every byte == the whole chunk at once *)
Theorem C05_frames_one_byte_at_a_time : forall ms unmask acc c w bs tail f1 f2,
  bs <> [] -> w_rds w = RdData bs :: tail ->
  let w' := w_set_rds w (drip bs ++ tail) in
  (mu c (w_rds w) < f1)%nat -> (mu c (w_rds w') < f2)%nat ->
  drive f1 ms unmask acc c w = drive f2 ms unmask acc c w'.
Proof.
  intros ms unmask acc c w bs tail f1 f2 Hne Hw w' H1 H2.
  destruct (sched_drip_whole bs tail Hne) as [A B].
  apply drive_sched_indep; try assumption; rewrite Hw; symmetry; assumption.
Qed.

(* ================================ message level (Protocol.read) ================================ *)
(* [reads fuel x w] = the results of successive [read] calls, WouldBlocks dropped, up to and including
   the first error ("the sequence of messages and the final error").

   FINDING.  With only "the write side accepts everything" as hypothesis the message-level statement is
   FALSE for the model (= the repaired code).  Server, write_buffer_size 100, max_write_buffer_size 101;
   write(Binary, 96 bytes) succeeds and leaves its 98-byte frame in out_buffer.  Inbound stream: a Close
   frame, then an empty Text frame.  Both schedules below carry the same bytes and end in silence:
     rds1 = the 14 bytes in one chunk                 -> [Close(1000); Err ReceivedAfterClosing]
     rds2 = Close frame, WouldBlock, Text frame       -> [Close(1000); Err ConnectionClosed]
   Cause: the 4-byte Close reply does not fit beside the 98 queued bytes, _write re-parks it in
   additional_send and flush drains out_buffer; the extra read() call made after the WouldBlock retries
   the reply, now it fits, and the server tail of _write terminates the connection before the Text
   frame is looked at.  The final error therefore depends on the segmentation. *)
Theorem C05_messages_refuted :
  exists (cfg : config) (msg : message) (rds1 rds2 : list rd_out) (wrs : list wr_out) (fls : list fl_out)
         (x0 x : ctx) (w1 w2 : world),
    Forall (acc_wr (cfg_max_write_buffer_size cfg)) wrs /\ Forall (fun o => o = FlOk) fls /\
    sched_data rds1 = sched_data rds2 /\ sched_end rds1 = sched_end rds2 /\
    ctx_new Server [] cfg = Some x0 /\
    write x0 msg (mkWorld rds1 wrs fls [] []) = (ROk tt, x, w1) /\
    write x0 msg (mkWorld rds2 wrs fls [] []) = (ROk tt, x, w2) /\
    blen (c_out (x_codec x)) = 98 /\
    reads 50 x w1 = [ROk (MClose (Some (CNormal, []))); RErr (EProtocol ReceivedAfterClosing)] /\
    reads 50 x w2 = [ROk (MClose (Some (CNormal, []))); RErr EConnectionClosed].
Proof. exact messages_refuted_witness. Qed.

(* CORRECTED STATEMENT: add "nothing is queued in out_buffer when reading starts" (true of a fresh socket
   and after every successful flush).  Hypotheses:
   - [ctx_ready B x]: max_write_buffer_size = B, out_buffer = [], and a held frame header is still waiting
     for payload bytes (true of every reachable codec state);
   - [supply B x w]: the write side accepts: every write entry accepts >= B bytes, every flush entry is Ok,
     and there are at least 2*(mu+1) write and mu+1 flush entries (an exhausted oracle means WouldBlock).
   No hypothesis on the context state, the role, the configuration, the mask-key oracle or the schedule. *)

(* under EVERY schedule the results of read are those of the reference machine [mloop] (pre-step, then
   on_frame, per item) run over the whole-stream frame reference [fview x w] *)
Theorem C05_messages_ref : forall B fuel x w,
  c_max_out (x_codec x) = B -> c_out (x_codec x) = [] -> codec_rest (x_codec x) ->
  supply B x w -> (xmu x w < fuel)%nat ->
  reads fuel x w = if is_terminated (x_state x) then [RErr EAlreadyClosed] else mloop (fview x w) x.
Proof. exact reads_ref. Qed.

Theorem C05_messages : forall B x w1 w2 f1 f2,
  ctx_ready B x -> supply B x w1 -> supply B x w2 ->
  sched_data (w_rds w1) = sched_data (w_rds w2) ->
  sched_end (w_rds w1) = sched_end (w_rds w2) ->
  (xmu x w1 < f1)%nat -> (xmu x w2 < f2)%nat ->
  reads f1 x w1 = reads f2 x w2.
Proof. exact reads_sched_indep. Qed.

(* a read that returns WouldBlock leaves a context from which the remaining results are exactly the
   results that were due before the call (frames completed before blocking are kept in the incomplete
   message, bytes of the frame in progress in in_buffer/header): nothing lost, nothing seen twice *)
Theorem C05_wouldblock_noop : forall B x w x' w',
  ctx_ready B x -> supply B x w ->
  read x w = (RErr (EIo WouldBlock), x', w') ->
  ctx_ready B x' /\ x_state x' <> Terminated /\
  forall f f', supply B x' w' -> (xmu x' w' < f')%nat -> (xmu x w < f)%nat ->
               reads f' x' w' = reads f x w.
Proof. exact reads_wouldblock_noop. Qed.

(* from_partially_read p, then a schedule  ==  a fresh socket under any schedule delivering p ++ data *)
Theorem C05_partially_read : forall r p cfg xp x0 w w0 f f0,
  ctx_new r p cfg = Some xp -> ctx_new r [] cfg = Some x0 ->
  supply (cfg_max_write_buffer_size cfg) xp w -> supply (cfg_max_write_buffer_size cfg) x0 w0 ->
  sched_data (w_rds w0) = p ++ sched_data (w_rds w) ->
  sched_end (w_rds w0) = sched_end (w_rds w) ->
  (xmu xp w < f)%nat -> (xmu x0 w0 < f0)%nat ->
  reads f xp w = reads f0 x0 w0.
Proof. exact reads_partially_read. Qed.

(* removing all WouldBlocks / merging chunks / dripping bytes keeps data and terminal: instances *)
Theorem C05_sched_instances :
  (forall rds, sched_data (filter not_wb rds) = sched_data rds /\ sched_end (filter not_wb rds) = sched_end rds) /\
  (forall bs tail, bs <> [] ->
     sched_data (drip bs ++ tail) = sched_data (RdData bs :: tail) /\
     sched_end (drip bs ++ tail) = sched_end (RdData bs :: tail)).
Proof. split; [exact sched_filter_wb|exact sched_drip_whole]. Qed.

(* ---- non-vacuity at the message level: tight write buffer (the Close reply never fits), server ---- *)
Definition ex_mcfg : config := mkConfig 0 3 None None false.
Definition ex_mping : bytes := [137; 129; 0; 0; 0; 0; 7].
Definition ex_mclose : bytes := [136; 130; 0; 0; 0; 0; 3; 232].
Definition ex_mw (rds : list rd_out) : world :=
  mkWorld rds (repeat (WrAccept 1000) 200) (repeat FlOk 100) [(1, 2, 3, 4); (5, 6, 7, 8)] [].
Definition ex_rds1 : list rd_out := [RdData (ex_mping ++ ex_mping ++ ex_mclose); RdEof].
Definition ex_rds2 : list rd_out :=
  drip ex_mping ++ [RdData ex_mping; RdErr WouldBlock; RdErr WouldBlock] ++ drip ex_mclose ++ [RdEof].

Example C05_ex_messages :
  exists x, ctx_new Server [] ex_mcfg = Some x /\
    ctx_ready 3 x /\ supply 3 x (ex_mw ex_rds1) /\ supply 3 x (ex_mw ex_rds2) /\
    sched_data ex_rds1 = sched_data ex_rds2 /\ sched_end ex_rds1 = sched_end ex_rds2 /\
    (xmu x (ex_mw ex_rds1) < 100)%nat /\ (xmu x (ex_mw ex_rds2) < 100)%nat /\
    reads 100 x (ex_mw ex_rds2)
    = [ROk (MPing [7]); ROk (MPing [7]); ROk (MClose (Some (CNormal, []))); RErr EConnectionClosed].
Proof.
  eexists. split; [reflexivity|].
  assert (HW : forall n, Forall (acc_wr 3) (repeat (WrAccept 1000) n)).
  { intros n. apply Forall_forall. intros o Ho. apply repeat_spec in Ho. subst o. cbn. discriminate. }
  assert (HF : forall n, Forall (fun o => o = FlOk) (repeat FlOk n)).
  { intros n. apply Forall_forall. intros o Ho. apply repeat_spec in Ho. exact Ho. }
  split. { unfold ctx_ready, codec_rest. cbn. auto. }
  split. { unfold supply, wgood. cbn [ex_mw w_wrs w_fls]. rewrite !repeat_length.
           split; [apply HW|]. split; [apply HF|]. vm_compute. split; repeat constructor. }
  split. { unfold supply, wgood. cbn [ex_mw w_wrs w_fls]. rewrite !repeat_length.
           split; [apply HW|]. split; [apply HF|]. vm_compute. split; repeat constructor. }
  vm_compute. repeat split; try reflexivity; repeat constructor.
Qed.

Print Assumptions C05_frames_ref.
Print Assumptions C05_frames.
Print Assumptions C05_frames_fuel_ok.
Print Assumptions C05_frames_one_byte_at_a_time.
Print Assumptions C05_wouldblock_state_frames.
Print Assumptions C05_wouldblock_noop_frames.
Print Assumptions C05_wouldblock_removed_frames.
Print Assumptions C05_partially_read_frames.
Print Assumptions C05_messages_refuted.
Print Assumptions C05_messages_ref.
Print Assumptions C05_messages.
Print Assumptions C05_wouldblock_noop.
Print Assumptions C05_partially_read.
Print Assumptions C05_sched_instances.
