(* props/C05.v — C05: what is read does not depend on how the transport cuts the byte stream.

   Vocabulary (definitions in proofs/CodecReadP.v):
   - every list of read outcomes [w_rds w] is a schedule: [sched_data] = concatenation of the non-empty
     chunks delivered before the first terminal entry (WouldBlock entries skipped), [sched_end] = that
     terminal: end of file (RdEof or an empty read), a hard error, or silence (oracle exhausted: it
     answers WouldBlock for ever);
   - [drive fuel ms unmask accept_unmasked c w] = the results of successive [read_frame] calls,
     WouldBlocks dropped, up to and including the first result that is neither a frame nor WouldBlock;
   - [frames_ref] = the whole-stream reference decoder (cuts a byte string into frames; ends with the
     decoding error, or with the terminal when the bytes run out inside a frame);
   - [mu c rds] bounds the number of calls; any fuel above it gives the same list, without OutOfFuel.
   The read-buffer size does not occur in the model (the model's in_buffer is a plain byte list), so
   independence of read_buffer_size holds by construction in the model; for the code it rests on the
   correspondence runs over read_buffer_size in {0,1,2,5,6,13,14,15,64,4096,131072}.           *)
From TungModel Require Import Base Coding Mask Header Frame World Message Codec Protocol.
From TungModel.proofs Require Import CodecReadP.

(* Under EVERY schedule, from EVERY codec state, the successive results of read_frame are the
   reference decoding of (buffered bytes ++ data of the schedule) followed by the schedule's terminal. *)
Theorem C05_frames_ref : forall ms unmask acc fuel c w,
  (mu c (w_rds w) < fuel)%nat ->
  drive fuel ms unmask acc c w =
  frames_ref ms unmask acc (c_hdr c) (c_in c ++ sched_data (w_rds w)) (sched_end (w_rds w)).
Proof. exact drive_ref. Qed.

(* Two schedules with the same data and the same terminal give the same results. *)
Theorem C05_frames : forall ms unmask acc c w1 w2 f1 f2,
  sched_data (w_rds w1) = sched_data (w_rds w2) ->
  sched_end (w_rds w1) = sched_end (w_rds w2) ->
  (mu c (w_rds w1) < f1)%nat -> (mu c (w_rds w2) < f2)%nat ->
  drive f1 ms unmask acc c w1 = drive f2 ms unmask acc c w2.
Proof. exact drive_sched_indep. Qed.

Theorem C05_frames_fuel_ok : forall ms unmask acc fuel c w,
  (mu c (w_rds w) < fuel)%nat -> ~ In ROutOfFuel (drive fuel ms unmask acc c w).
Proof. exact drive_no_oof. Qed.

(* A read_frame that answers WouldBlock consumed the chunks [chunks] and stopped at a WouldBlock entry
   or at the end of the oracle; the state it leaves decodes every continuation d of the stream as the
   state before decodes chunks ++ d; nothing else changed. *)
Theorem C05_wouldblock_state_frames : forall ms unmask acc c w c' w',
  read_frame ms unmask acc c w = (RErr (EIo WouldBlock), c', w') ->
  exists chunks,
    (w_rds w = map RdData chunks ++ RdErr WouldBlock :: w_rds w' \/
     (w_rds w = map RdData chunks /\ w_rds w' = [])) /\
    Forall nonempty chunks /\
    (forall d t, frames_ref ms unmask acc (c_hdr c') (c_in c' ++ d) t =
                 frames_ref ms unmask acc (c_hdr c) (c_in c ++ concat chunks ++ d) t) /\
    c_out c' = c_out c /\ c_max_out c' = c_max_out c /\ c_write_len c' = c_write_len c /\
    w_wrs w' = w_wrs w /\ w_fls w' = w_fls w /\ w_keys w' = w_keys w.
Proof. exact read_frame_wouldblock_state. Qed.

(* Retrying continues where the call stopped ... *)
Theorem C05_wouldblock_noop_frames : forall ms unmask acc c w c' w' f f',
  read_frame ms unmask acc c w = (RErr (EIo WouldBlock), c', w') ->
  (mu c' (w_rds w') < f')%nat -> (mu c (w_rds w) < f)%nat ->
  drive f' ms unmask acc c' w' = drive f ms unmask acc c w.
Proof. exact drive_wouldblock_noop. Qed.

(* ... and the results are those of the schedule from which that WouldBlock was removed. *)
Theorem C05_wouldblock_removed_frames : forall ms unmask acc c w c' w' f f',
  read_frame ms unmask acc c w = (RErr (EIo WouldBlock), c', w') ->
  forall chunks, w_rds w = map RdData chunks ++ RdErr WouldBlock :: w_rds w' ->
  Forall nonempty chunks ->
  let w0 := w_set_rds w (map RdData chunks ++ w_rds w') in
  (mu c' (w_rds w') < f')%nat -> (mu c (w_rds w0) < f)%nat ->
  drive f' ms unmask acc c' w' = drive f ms unmask acc c w0.
Proof. exact drive_wouldblock_removed. Qed.

(* from_partially_read p, then a schedule  ==  fresh codec under any schedule delivering p ++ data *)
Theorem C05_partially_read_frames : forall ms unmask acc p w w0 f f0,
  sched_data (w_rds w0) = p ++ sched_data (w_rds w) ->
  sched_end (w_rds w0) = sched_end (w_rds w) ->
  (mu (codec_new p) (w_rds w) < f)%nat -> (mu (codec_new []) (w_rds w0) < f0)%nat ->
  drive f ms unmask acc (codec_new p) w = drive f0 ms unmask acc (codec_new []) w0.
Proof. exact drive_partially_read. Qed.

(* ---- non-vacuity ---- *)
Definition ex_stream : bytes := [129; 130; 1; 2; 3; 4; 73; 107; 137; 128; 9; 9; 9; 9; 130; 1].
Definition ex_drip (bs : bytes) : list rd_out := flat_map (fun b => [RdData [b]; RdErr WouldBlock]) bs.
Definition ex_w (rds : list rd_out) : world := mkWorld rds [] [] [] [].
Definition ex_text : frame := mkFrame (mkHeader true false false false (OData Text) None) [72; 105].
Definition ex_ping : frame := mkFrame (mkHeader true false false false (OCtl Ping) None) [].

(* whole stream at once, then EOF: two frames (a masked Text "Hi", a masked empty Ping), then EOF
   inside the third, incomplete frame *)
Example C05_ex_whole :
  drive 100 None true false (codec_new []) (ex_w [RdData ex_stream; RdEof])
  = [ROk (Some ex_text); ROk (Some ex_ping); ROk None].
Proof. vm_compute. reflexivity. Qed.

(* one byte at a time with a WouldBlock after every byte: same data, same terminal, same results *)
Example C05_ex_drip :
  sched_data (ex_drip ex_stream ++ [RdEof]) = sched_data [RdData ex_stream; RdEof] /\
  sched_end (ex_drip ex_stream ++ [RdEof]) = sched_end [RdData ex_stream; RdEof] /\
  (mu (codec_new []) (ex_drip ex_stream ++ [RdEof]) < 100)%nat /\
  drive 100 None true false (codec_new []) (ex_w (ex_drip ex_stream ++ [RdEof]))
  = [ROk (Some ex_text); ROk (Some ex_ping); ROk None].
Proof. vm_compute. repeat split; try reflexivity. repeat constructor. Qed.

(* a WouldBlock in the middle of the mask: the call returns WouldBlock, three header+mask bytes stay buffered *)
Example C05_ex_wouldblock :
  exists c' w',
    read_frame None true false (codec_new [129; 130]) (ex_w [RdData [1; 2]; RdData [3]; RdErr WouldBlock; RdData [4; 73; 107]])
    = (RErr (EIo WouldBlock), c', w') /\ c_in c' = [129; 130; 1; 2; 3] /\ w_rds w' = [RdData [4; 73; 107]].
Proof. eexists. eexists. vm_compute. repeat split; reflexivity. Qed.

(* pre-read part of 3 bytes (cut inside the mask), hard error as terminal *)
Example C05_ex_partially_read :
  drive 100 None true false (codec_new [129; 130; 1])
        (ex_w (ex_drip [2; 3; 4; 73; 107; 137; 128; 9; 9; 9; 9; 130; 1] ++ [RdErr ConnReset]))
  = [ROk (Some ex_text); ROk (Some ex_ping); RErr (EIo ConnReset)].
Proof. vm_compute. reflexivity. Qed.

Print Assumptions C05_frames_ref.
Print Assumptions C05_frames.
Print Assumptions C05_frames_fuel_ok.
Print Assumptions C05_wouldblock_state_frames.
Print Assumptions C05_wouldblock_noop_frames.
Print Assumptions C05_wouldblock_removed_frames.
Print Assumptions C05_partially_read_frames.
