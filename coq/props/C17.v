(* props/C17.v — property theorems for C17 only:
   handshakes are resumable and bounded against a hostile peer.
   Model: Handshake.v (attack_check, hs_loop, hs_fuel, server_handshake, client_handshake).  The HTTP
   parser is an arbitrary function (oreq / oresp are universally quantified in every theorem);
   only the segmentation theorems assume the sequential-scan property P2 (seq_scan) as a premise.
   Spec definitions used below (all in proofs/MachineP.v):
     attack_fold p b sizes   := attack_check folded over a list of read sizes from counters (p, b)
     hs_res / hs_world / hs_log := the three components of a handshake run
     rd_chunks log           := the data chunks of the EvRead (RdData _) events of a log, in order;
     rd_sizes log / rd_data log := their sizes / their concatenation
     hs_wire log             := concatenation of the accepted bytes of the EvWrite events of a log
     read_stage / write_stage / flush_stage := the three stages of the machine as functions that are
                                structurally recursive on the read / write / flush oracle (no fuel)
     server_spec / client_spec := the machine written as the composition of the stages
     writes_ok rest ev       := ev consists of write calls only; each offers exactly what remains of
                                rest, the transport accepts a prefix, the next call starts behind it
     flush_wb, flush_final o := [flush -> WouldBlock; Interrupted], the last flush event of outcome o
     strip_rds/wrs/fls, strip_world, strip_ev, strip_run := deletion of the WouldBlock entries of the
                                oracles / of the WouldBlock events and Interrupted markers of a log
     seq_scan oracle         := P2 (P1, determinism, is built in: the oracle is a function)
     stable parse            := a non-Partial answer stays the same when more bytes arrive
     nonempty_chunks cs      := Forall (fun c => c <> []) cs
     seg_agree xA xB         := same result, same bytes written, same unused write/flush oracles,
                                same final world on Done, same log up to the chunking of the reads *)
From TungModel Require Import Base Coding Mask Header Frame Utf8 World Message Codec Protocol Sha1 Handshake.
From TungModel.proofs Require Import MachineP.

(* ---------------------------------------------------------------------------------------------- *)
(* C17_attack_arith: for EVERY list of read sizes: if all checks pass then count <= 512,
   total <= 65536 and (count <= 64 or the average read is >= 128 bytes) *)
Theorem C17_attack_arith : forall (sizes : list N) (p b : N),
  attack_fold 0 0 sizes = Some (p, b) ->
  p = blen sizes /\ b = sumN sizes /\
  p <= 512 /\ b <= 65536 /\ (p <= 64 \/ 128 * p <= b).
Proof. exact attack_arith. Qed.

(* hence, for any reader and any parser: if every read but the last passed the guard, at most 513
   reads were made and at most 65536 + (size of the last read) bytes were taken *)
Theorem C17_attack_consumed : forall sizes : list N,
  attack_fold 0 0 (removelast sizes) <> None ->
  blen sizes <= 513 /\ sumN sizes <= 65536 + last sizes 0.
Proof. exact attack_consumed0. Qed.

(* non-vacuity / sharpness: 1-byte and 127-byte drips pass 64 reads and stop at read 65; a 128-byte
   drip runs to the packet and byte limit (512 reads, 65536 bytes) and stops at read 513 *)
Example C17_drip_1 :
  attack_fold 0 0 (repeat 1 64) = Some (64, 64) /\ attack_fold 0 0 (repeat 1 65) = None.
Proof. vm_compute. split; reflexivity. Qed.
Example C17_drip_127 :
  attack_fold 0 0 (repeat 127 64) = Some (64, 8128) /\ attack_fold 0 0 (repeat 127 65) = None.
Proof. vm_compute. split; reflexivity. Qed.
Example C17_drip_128 :
  attack_fold 0 0 (repeat 128 512) = Some (512, 65536) /\ attack_fold 0 0 (repeat 128 513) = None.
Proof. vm_compute. split; reflexivity. Qed.

(* ---------------------------------------------------------------------------------------------- *)
(* C17_bounded: whatever the parser, the transport and the peer do, a handshake in either role never
   runs out of fuel, makes at most 513 data reads, takes at most 65536 + (last chunk) bytes, and every
   data read but the last passed the guard (so C17_attack_arith applies to them) *)
Theorem C17_bounded : forall oreq oresp,
  (forall cb w,
     let x := server_handshake oreq oresp cb w in
     let sizes := rd_sizes (hs_log x) in
     hs_res x <> HsOutOfFuel /\
     attack_fold 0 0 (removelast sizes) <> None /\
     blen sizes <= 513 /\ sumN sizes <= 65536 + last sizes 0) /\
  (forall scheme_ok path hs w,
     let x := client_handshake oreq oresp scheme_ok path hs w in
     let sizes := rd_sizes (hs_log x) in
     hs_res x <> HsOutOfFuel /\
     attack_fold 0 0 (removelast sizes) <> None /\
     blen sizes <= 513 /\ sumN sizes <= 65536 + last sizes 0).
Proof. exact handshake_bounded_full. Qed.

(* parsing work: the parser is only ever applied to buffers of at most 65536 bytes (one parse per data
   read): replacing it by any parser that agrees on such buffers changes nothing; the server does not
   use the response parser, nor the client the request parser *)
Theorem C17_parse_bounded : forall oreq oreq' oresp oresp',
  (forall cb w,
     (forall x, blen x <= 65536 -> oreq x = oreq' x) ->
     server_handshake oreq oresp cb w = server_handshake oreq' oresp' cb w) /\
  (forall scheme_ok path hs w,
     (forall x, blen x <= 65536 -> oresp x = oresp' x) ->
     client_handshake oreq oresp scheme_ok path hs w =
     client_handshake oreq' oresp' scheme_ok path hs w).
Proof. exact handshake_parse_bounded. Qed.

(* the Attack error is returned exactly when the guard tripped on a data read *)
Theorem C17_attack_result : forall oreq oresp cb w,
  let x := server_handshake oreq oresp cb w in
  hs_res x = HsFail HEAttack <-> attack_fold 0 0 (rd_sizes (hs_log x)) = None.
Proof. exact attack_result_iff. Qed.

(* ---------------------------------------------------------------------------------------------- *)
(* closed form: the fuel-driven machine IS the composition of the three stage functions *)
Theorem C17_stages_server : forall oreq oresp cb w,
  server_handshake oreq oresp cb w = server_spec oreq cb w.
Proof. exact server_handshake_spec. Qed.

Theorem C17_stages_client : forall oreq oresp scheme_ok path hs w,
  client_handshake oreq oresp scheme_ok path hs w = client_spec oresp scheme_ok path hs w.
Proof. exact client_handshake_spec. Qed.

(* ---------------------------------------------------------------------------------------------- *)
(* C17_write_exact: for EVERY pattern of WrAccept k / WouldBlock / errors in the write oracle: each
   call offers exactly the remaining bytes, the accepted bytes are a prefix of the data, in order,
   nothing repeated; all of it when the stage finished; a failure is a hard I/O error; every oracle
   entry used corresponds to exactly one call *)
Theorem C17_write_exact : forall rest wrs o r' ev,
  write_stage rest wrs = (o, r', ev) ->
  writes_ok rest ev /\
  (exists remaining, rest = hs_wire ev ++ remaining) /\
  (forall u, o = SDone u -> hs_wire ev = rest) /\
  (forall e, o = SFail e -> exists k, e = HEIo k /\ k <> WouldBlock) /\
  (o = SBlocked -> r' = []) /\
  (exists used, wrs = used ++ r' /\ hs_calls ev = length used).
Proof. exact write_stage_exact. Qed.

(* ... followed by flushes until FlOk: WouldBlock flushes (each one returning Interrupted), then
   FlOk (done) or a hard error (failed) or the end of the oracle (blocked) *)
Theorem C17_flush_exact : forall fls o r' ev,
  flush_stage fls = (o, r', ev) ->
  (exists k, ev = concat (repeat flush_wb k) ++ flush_final o) /\
  (forall e, o = SFail e -> exists k, e = HEIo k /\ k <> WouldBlock) /\
  (o = SBlocked -> r' = []) /\
  (exists used, fls = used ++ r' /\ hs_calls ev = length used).
Proof. exact flush_stage_exact. Qed.

(* end to end, server: the answer is computed from exactly the bytes read; what reaches the wire is a
   prefix of it; on Done (accepted) and on the callback's rejection error the whole answer was
   written, once, and flushed *)
Theorem C17_write_exact_server : forall oreq oresp cb w res w' log,
  server_handshake oreq oresp cb w = (res, w', log) ->
  (hs_wire log = [] \/
   exists n req out pend remaining,
     parse_req oreq (rd_data log) = PComplete n req /\
     server_done_reading cb req (dropN n (rd_data log)) = HOk (out, pend) /\
     out = hs_wire log ++ remaining /\
     ((exists tail, res = HsDone Server tail) -> remaining = [] /\ pend = None)) /\
  (forall tail, res = HsDone Server tail ->
     tail = [] /\ hs_wire log <> [] /\ In (HsEv (EvFlush FlOk)) log) /\
  (forall status body, res = HsFail (HEHttp status body) ->
     In (HsEv (EvFlush FlOk)) log /\
     exists n req out,
       parse_req oreq (rd_data log) = PComplete n req /\
       server_done_reading cb req (dropN n (rd_data log)) = HOk (out, Some (status, body)) /\
       hs_wire log = out).
Proof. exact server_wire_exact. Qed.

(* order of the server's transport calls: reads, then the writes of the answer, then flushes *)
Theorem C17_log_shape_server : forall oreq oresp cb w res w' log,
  server_handshake oreq oresp cb w = (res, w', log) ->
  exists evr evw evf k o3,
    log = evr ++ evw ++ evf /\ Forall is_read_ev evr /\
    evf = concat (repeat flush_wb k) ++ flush_final o3 /\
    ((evw = [] /\ evf = []) \/
     exists n req out pend,
       parse_req oreq (rd_data evr) = PComplete n req /\
       server_done_reading cb req (dropN n (rd_data evr)) = HOk (out, pend) /\
       writes_ok out evw /\ (evf <> [] -> hs_wire evw = out)).
Proof. exact server_log_shape. Qed.

(* end to end, client: what reaches the wire is a prefix of the request; the response is read only
   after the whole request was written, once, and flushed; on Done the tail handed to the WebSocket
   is what was read behind the response head *)
Theorem C17_write_exact_client : forall oreq oresp path hs w subs req key res w' log,
  extract_subprotocols hs = HOk subs -> generate_request path hs = HOk (req, key) ->
  client_handshake oreq oresp true path hs w = (res, w', log) ->
  (exists remaining, req = hs_wire log ++ remaining) /\
  (forall r, In (HsEv (EvRead r)) log ->
     hs_wire log = req /\ In (HsEv (EvFlush FlOk)) log) /\
  (forall tail, res = HsDone Client tail ->
     hs_wire log = req /\ In (HsEv (EvFlush FlOk)) log /\
     exists n resp resp',
       parse_resp oresp (rd_data log) = PComplete n resp /\
       verify_response (derive_accept_key key) subs resp = HOk resp' /\
       tail = dropN n (rd_data log)).
Proof. exact client_wire_exact. Qed.

Theorem C17_log_shape_client : forall oreq oresp path hs w subs req key res w' log,
  extract_subprotocols hs = HOk subs -> generate_request path hs = HOk (req, key) ->
  client_handshake oreq oresp true path hs w = (res, w', log) ->
  exists evw evf evr k o3,
    log = evw ++ evf ++ evr /\ writes_ok req evw /\
    evf = concat (repeat flush_wb k) ++ flush_final o3 /\ Forall is_read_ev evr /\
    (evf <> [] -> hs_wire evw = req) /\ (evr <> [] -> o3 = SDone tt).
Proof. exact client_log_shape. Qed.

(* ---------------------------------------------------------------------------------------------- *)
(* C17_resume: WouldBlock entries anywhere in any of the three oracles change nothing: the run on the
   oracles with the WouldBlocks deleted gives the same result, the same final world up to that
   deletion, and the same log up to the removal of the WouldBlock events and Interrupted markers *)
Theorem C17_resume_server : forall oreq oresp cb w,
  server_handshake oreq oresp cb (strip_world w) = strip_run (server_handshake oreq oresp cb w).
Proof. exact server_resume. Qed.

Theorem C17_resume_client : forall oreq oresp scheme_ok path hs w,
  client_handshake oreq oresp scheme_ok path hs (strip_world w) =
  strip_run (client_handshake oreq oresp scheme_ok path hs w).
Proof. exact client_resume. Qed.

(* ... and that removal keeps every byte written and every chunk read: nothing lost or repeated *)
Theorem C17_resume_bytes : forall ev,
  hs_wire (strip_ev ev) = hs_wire ev /\ rd_chunks (strip_ev ev) = rd_chunks ev.
Proof. exact strip_ev_bytes. Qed.

(* ---------------------------------------------------------------------------------------------- *)
(* C17_segmentation.  P2 gives what the machine needs from the parser *)
Theorem C17_seq_scan_stable : forall oreq oresp,
  (seq_scan oreq -> stable (parse_req oreq) /\ forall x, parse_req oreq x <> PFail HEAttack) /\
  (seq_scan oresp -> stable (parse_resp oresp) /\ forall x, parse_resp oresp x <> PFail HEAttack).
Proof. exact seq_scan_stable. Qed.

(* the reading stage (either role, any counters): while the guard is not tripped, two segmentations
   of the same bytes followed by the same further transport behaviour give the same outcome (object,
   consumed length, error), and no byte is lost: buffer ++ unread chunks is the same *)
Theorem C17_segmentation_reading : forall (A : Type) (parse : bytes -> parsed A),
  stable parse -> (forall x, parse x <> PFail HEAttack) ->
  forall csA csB buf pA bA pB bB t oA rA evA oB rB evB,
  nonempty_chunks csA -> nonempty_chunks csB -> concat csA = concat csB ->
  read_stage parse buf pA bA (map RdData csA ++ t) = (oA, rA, evA) ->
  read_stage parse buf pB bB (map RdData csB ++ t) = (oB, rB, evB) ->
  oA <> SFail HEAttack -> oB <> SFail HEAttack ->
  match oA, oB with
  | SDone (nA, aA, bufA), SDone (nB, aB, bufB) =>
      nA = nB /\ aA = aB /\
      exists restA restB t',
        rA = map RdData restA ++ t' /\ rB = map RdData restB ++ t' /\
        bufA ++ concat restA = bufB ++ concat restB
  | SFail eA, SFail eB => eA = eB
  | SBlocked, SBlocked => rA = rB
  | _, _ => False
  end.
Proof. exact (@read_stage_segmentation). Qed.

(* the whole server handshake: under P2, for two segmentations of the same bytes with nothing sent
   behind the head, neither tripping the guard: same result, same bytes written, ... (seg_agree) *)
Theorem C17_segmentation : forall oreq oresp cb w csA csB t,
  seq_scan oreq ->
  nonempty_chunks csA -> nonempty_chunks csB -> concat csA = concat csB ->
  (forall n x, oreq (concat csA) = OComplete n x -> n = blen (concat csA)) ->
  let xA := server_handshake oreq oresp cb (w_set_rds w (map RdData csA ++ t)) in
  let xB := server_handshake oreq oresp cb (w_set_rds w (map RdData csB ++ t)) in
  hs_res xA <> HsFail HEAttack -> hs_res xB <> HsFail HEAttack ->
  seg_agree xA xB.
Proof. exact server_segmentation. Qed.

Theorem C17_segmentation_client : forall oreq oresp scheme_ok path hs w csA csB t,
  seq_scan oresp ->
  nonempty_chunks csA -> nonempty_chunks csB -> concat csA = concat csB ->
  (forall n x, oresp (concat csA) = OComplete n x -> n = blen (concat csA)) ->
  let xA := client_handshake oreq oresp scheme_ok path hs (w_set_rds w (map RdData csA ++ t)) in
  let xB := client_handshake oreq oresp scheme_ok path hs (w_set_rds w (map RdData csB ++ t)) in
  hs_res xA <> HsFail HEAttack -> hs_res xB <> HsFail HEAttack ->
  seg_agree xA xB.
Proof. exact client_segmentation. Qed.

(* segmentation and WouldBlock together (the full quantifier of the property): two transports that,
   once their WouldBlocks are deleted, differ only in how the peer's handshake bytes are cut into
   reads (same write-acceptance sizes, same further behaviour) give the same result and put the
   same bytes on the wire *)
Theorem C17_segmentation_wouldblock : forall oreq oresp cb wA wB w0 csA csB t,
  seq_scan oreq ->
  nonempty_chunks csA -> nonempty_chunks csB -> concat csA = concat csB ->
  (forall n x, oreq (concat csA) = OComplete n x -> n = blen (concat csA)) ->
  strip_world wA = w_set_rds w0 (map RdData csA ++ t) ->
  strip_world wB = w_set_rds w0 (map RdData csB ++ t) ->
  let xA := server_handshake oreq oresp cb wA in
  let xB := server_handshake oreq oresp cb wB in
  hs_res xA <> HsFail HEAttack -> hs_res xB <> HsFail HEAttack ->
  hs_res xA = hs_res xB /\ hs_wire (hs_log xA) = hs_wire (hs_log xB).
Proof. exact server_segmentation_wb. Qed.

Theorem C17_segmentation_wouldblock_client : forall oreq oresp scheme_ok path hs wA wB w0 csA csB t,
  seq_scan oresp ->
  nonempty_chunks csA -> nonempty_chunks csB -> concat csA = concat csB ->
  (forall n x, oresp (concat csA) = OComplete n x -> n = blen (concat csA)) ->
  strip_world wA = w_set_rds w0 (map RdData csA ++ t) ->
  strip_world wB = w_set_rds w0 (map RdData csB ++ t) ->
  let xA := client_handshake oreq oresp scheme_ok path hs wA in
  let xB := client_handshake oreq oresp scheme_ok path hs wB in
  hs_res xA <> HsFail HEAttack -> hs_res xB <> HsFail HEAttack ->
  hs_res xA = hs_res xB /\ hs_wire (hs_log xA) = hs_wire (hs_log xB).
Proof. exact client_segmentation_wb. Qed.

(* non-vacuity of the two world premises: WouldBlocks before reads, writes and the flush, different
   cuts of "G\n", both accepted *)
Example C17_segmentation_wouldblock_nonvacuous :
  let wA := mkWorld [RdErr WouldBlock; RdData [71]; RdErr WouldBlock; RdData [10]]
                    [WrErr WouldBlock; WrAccept 3; WrAccept 1000] [FlErr WouldBlock; FlOk] [] [] in
  let wB := mkWorld [RdData [71; 10]] [WrAccept 3; WrErr WouldBlock; WrAccept 1000] [FlOk] [] [] in
  let w0 := mkWorld [] [WrAccept 3; WrAccept 1000] [FlOk] [] [] in
  strip_world wA = w_set_rds w0 (map RdData [[71]; [10]] ++ []) /\
  strip_world wB = w_set_rds w0 (map RdData [[71; 10]] ++ []) /\
  hs_res (server_handshake HsWitness.toy_req HsWitness.no_resp CbNone wA) = HsDone Server [] /\
  hs_res (server_handshake HsWitness.toy_req HsWitness.no_resp CbNone wB) = HsDone Server [].
Proof. vm_compute. repeat split; reflexivity. Qed.

(* REFUTED without "nothing behind the head": the statement "same hs_result for every two read
   oracles whose chunks concatenate to the same stream" is false for the model (= the code): a byte
   behind the request head is rejected as JunkAfterRequest only when it arrives in the same read *)
Theorem C17_segmentation_junk_refuted :
  exists (oreq : bytes -> oracle_out raw_req) (oresp : bytes -> oracle_out raw_resp)
         cb w csA csB t,
    seq_scan oreq /\ nonempty_chunks csA /\ nonempty_chunks csB /\ concat csA = concat csB /\
    let xA := server_handshake oreq oresp cb (w_set_rds w (map RdData csA ++ t)) in
    let xB := server_handshake oreq oresp cb (w_set_rds w (map RdData csB ++ t)) in
    hs_res xA <> HsFail HEAttack /\ hs_res xB <> HsFail HEAttack /\
    hs_res xA = HsDone Server [] /\ hs_res xB = HsFail (HEProto JunkAfterRequest).
Proof. exact HsWitness2.segmentation_junk_refuted. Qed.

(* the guard premise is needed too ("short of tripping the small-packet guard") *)
Theorem C17_segmentation_guard_needed :
  exists (oreq : bytes -> oracle_out raw_req) (oresp : bytes -> oracle_out raw_resp)
         cb w csA csB t,
    seq_scan oreq /\ nonempty_chunks csA /\ nonempty_chunks csB /\ concat csA = concat csB /\
    (forall n x, oreq (concat csA) = OComplete n x -> n = blen (concat csA)) /\
    let xA := server_handshake oreq oresp cb (w_set_rds w (map RdData csA ++ t)) in
    let xB := server_handshake oreq oresp cb (w_set_rds w (map RdData csB ++ t)) in
    hs_res xA = HsFail HEAttack /\ hs_res xB = HsDone Server [].
Proof. exact HsWitness2.segmentation_guard_refuted. Qed.

(* non-vacuity: P2 is satisfiable by a real scanner (head = everything up to the first LF), and the
   premises of C17_segmentation hold for two different segmentations of a successful handshake *)
Example C17_seq_scan_satisfiable : forall (A : Type) (x : A), seq_scan (toy_oracle x).
Proof. exact toy_oracle_seq_scan. Qed.

Example C17_segmentation_nonvacuous :
  exists (oreq : bytes -> oracle_out raw_req) (oresp : bytes -> oracle_out raw_resp)
         cb w csA csB t,
    seq_scan oreq /\ nonempty_chunks csA /\ nonempty_chunks csB /\ concat csA = concat csB /\
    csA <> csB /\
    (forall n x, oreq (concat csA) = OComplete n x -> n = blen (concat csA)) /\
    let xA := server_handshake oreq oresp cb (w_set_rds w (map RdData csA ++ t)) in
    let xB := server_handshake oreq oresp cb (w_set_rds w (map RdData csB ++ t)) in
    hs_res xA <> HsFail HEAttack /\ hs_res xB <> HsFail HEAttack /\ hs_res xA = HsDone Server [].
Proof. exact HsWitness2.segmentation_example. Qed.

Print Assumptions C17_attack_arith.
Print Assumptions C17_attack_consumed.
Print Assumptions C17_bounded.
Print Assumptions C17_parse_bounded.
Print Assumptions C17_attack_result.
Print Assumptions C17_stages_server.
Print Assumptions C17_stages_client.
Print Assumptions C17_write_exact.
Print Assumptions C17_flush_exact.
Print Assumptions C17_write_exact_server.
Print Assumptions C17_log_shape_server.
Print Assumptions C17_write_exact_client.
Print Assumptions C17_log_shape_client.
Print Assumptions C17_resume_server.
Print Assumptions C17_resume_client.
Print Assumptions C17_resume_bytes.
Print Assumptions C17_seq_scan_stable.
Print Assumptions C17_segmentation_reading.
Print Assumptions C17_segmentation.
Print Assumptions C17_segmentation_client.
Print Assumptions C17_segmentation_wouldblock.
Print Assumptions C17_segmentation_wouldblock_client.
Print Assumptions C17_segmentation_junk_refuted.
Print Assumptions C17_segmentation_guard_needed.
