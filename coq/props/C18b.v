(* props/C18b.v — C18 lifted to whole frames through the public raw-frame API FrameSocket
   (FrameSocket.v: FsRead / FsWrite / FsFlush / FsSend directly over FrameCodec; FsRead passes
   unmask = false, accept_unmasked = true).

   Vocabulary (definitions in proofs/FrameSocketP.v unless said otherwise):
   - [fs_is_full r]        r = FsUnit (RErr (EWriteBufferFull _)) — the only answer of FsWrite / FsSend
                           that does not queue the frame;
   - [fs_accepted ops rs]  "frames_accepted": the frames f of the ops FsWrite f / FsSend f in [ops] whose
                           result in [rs] is not WriteBufferFull, in order;
   - [fs_frames ops]       all frames of the FsWrite / FsSend ops;
   - [fs_flushing o]       o is FsFlush or FsSend _;
   - [wire log]            (World.v) the bytes the transport has accepted so far;
   - [wire_payload f]      xor_cyc key (f_payload f) if f has a mask key, else f_payload f;
   - [wire_frame f]        mkFrame (f_hdr f) (wire_payload f): same header INCLUDING the mask key;
   - [fs_rt_ok ms f]       opcode of f not reserved, |payload| < 2^64, |payload| <= m if ms = Some m;
   - [fs_reads fuel ms c w] the results of successive FsRead ms calls, WouldBlocks dropped, up to and
                           including the first result that is neither a frame nor WouldBlock
                           (= [drive] of CodecReadP / C05 at the FrameSocket API);
   - [sched_data], [sched_end], [mu], [term_res] (CodecReadP.v, see props/C05.v): data and terminal of
     a read schedule, the fuel bound, and the terminal as a result list ([] for silence).          *)
From TungModel Require Import Base Coding Mask Header Frame World Message Codec FrameSocket.
From TungModel.proofs Require Import HeaderP CodecReadP WritePathP FrameSocketP.

(* ---------------------------------------- write side ---------------------------------------- *)

(* Any run of FrameSocket ops (writes, sends, flushes, reads, in any order; any flags, opcode, key,
   payload) on a fresh FrameSocket under ANY write / flush / read oracle: the frames queued are exactly
   the accepted ones, and  bytes on the wire ++ out_buffer = the concatenated encodings of them. *)
Theorem C18b_fs_wire : forall (ops : list fs_op) (p : bytes) (w : world) rs c' w',
  w_log w = [] ->
  fs_run_ops (codec_new p) ops w = (rs, c', w') ->
  queued (w_log w') = fs_accepted ops (map fst rs) /\
  wire (w_log w') ++ c_out c' = concat (map frame_format (fs_accepted ops (map fst rs))).
Proof. exact fs_wire. Qed.

(* the same from any state in which the balance holds (any limits, any log) *)
Theorem C18b_fs_wire_gen : forall (ops : list fs_op) (c : codec) (w : world) rs c' w',
  wire (w_log w) ++ c_out c = concat (map frame_format (queued (w_log w))) ->
  fs_run_ops c ops w = (rs, c', w') ->
  queued (w_log w') = queued (w_log w) ++ fs_accepted ops (map fst rs) /\
  wire (w_log w') ++ c_out c' =
    concat (map frame_format (queued (w_log w) ++ fs_accepted ops (map fst rs))).
Proof. exact fs_wire_gen. Qed.

(* After a successful FsFlush / FsSend the wire is the whole encoding of everything accepted, nothing is
   left in out_buffer and the last event is the transport flush that returned Ok. *)
Theorem C18b_fs_wire_flushed : forall (ops : list fs_op) (o : fs_op) (p : bytes) (w : world) rs n c' w',
  w_log w = [] -> fs_flushing o = true ->
  fs_run_ops (codec_new p) (ops ++ [o]) w = (rs ++ [(FsUnit (ROk tt), n)], c', w') ->
  c_out c' = [] /\
  wire (w_log w') =
    concat (map frame_format (fs_accepted (ops ++ [o]) (map fst (rs ++ [(FsUnit (ROk tt), n)])))) /\
  exists l, w_log w' = l ++ [EvFlush FlOk].
Proof. exact fs_wire_flushed_run. Qed.

(* With the limit set by codec_new (max_out_buffer_len = u64::MAX) no frame is refused as long as the
   sizes of all frames offered sum to at most u64::MAX: frames_accepted = all frames. *)
Theorem C18b_fs_all_accepted : forall (ops : list fs_op) (p : bytes) (w : world) rs c' w',
  fs_run_ops (codec_new p) ops w = (rs, c', w') ->
  sumN (map frame_len (fs_frames ops)) <= u64_max ->
  fs_accepted ops (map fst rs) = fs_frames ops.
Proof. exact fs_all_accepted. Qed.

(* Frame::len = bytes emitted (C18_frame_len / C18_encoders_agree, cited), and an accepted FsWrite adds
   exactly those frame_len f bytes to (bytes the transport took during the call) ++ out_buffer; when no
   write is attempted (total <= write_buffer_size) they are all appended to out_buffer. *)
Theorem C18b_fs_len : forall (c : codec) (f : frame) (w : world) r c' w',
  fs_run_op c (FsWrite f) w = (FsUnit r, c', w') ->
  fs_is_full (FsUnit r) = false ->
  frame_len f = blen (frame_format f) /\
  frame_format_into_buf (c_out c) f = c_out c ++ frame_format f /\
  blen (frame_format_into_buf (c_out c) f) = blen (c_out c) + frame_len f /\
  exists evs, w_log w' = w_log w ++ EvQueue f :: evs /\ Forall is_wr_ev evs /\
    wire evs ++ c_out c' = c_out c ++ frame_format f /\
    blen (wire evs) + blen (c_out c') = blen (c_out c) + frame_len f /\
    (blen (c_out c) + frame_len f <= c_write_len c ->
     evs = [] /\ r = ROk tt /\ c_out c' = c_out c ++ frame_format f).
Proof. exact fs_write_len. Qed.

(* send = write, then (if Ok) flush *)
Theorem C18b_fs_send_is_write_flush : forall (c : codec) (f : frame) (w : world),
  fs_run_op c (FsSend f) w =
  let '(r1, c1, w1) := fs_run_op c (FsWrite f) w in
  match r1 with
  | FsUnit (ROk _) => fs_run_op c1 FsFlush w1
  | _ => (r1, c1, w1)
  end.
Proof. exact fs_send_is_write_flush. Qed.

(* FsWrite answers WriteBufferFull exactly when max_out_buffer_len < frame_len f + |out_buffer|; the
   error carries f, and codec and world are unchanged *)
Theorem C18b_fs_full : forall (c : codec) (f : frame) (w : world),
  (c_max_out c < frame_len f + blen (c_out c) ->
   fs_run_op c (FsWrite f) w = (FsUnit (RErr (EWriteBufferFull f)), c, w)) /\
  (forall g c' w', fs_run_op c (FsWrite f) w = (FsUnit (RErr (EWriteBufferFull g)), c', w') ->
   c_max_out c < frame_len f + blen (c_out c) /\ g = f /\ c' = c /\ w' = w).
Proof. exact fs_write_full. Qed.

Theorem C18b_fs_full_send : forall (c : codec) (f : frame) (w : world),
  (c_max_out c < frame_len f + blen (c_out c) ->
   fs_run_op c (FsSend f) w = (FsUnit (RErr (EWriteBufferFull f)), c, w)) /\
  (forall g c' w', fs_run_op c (FsSend f) w = (FsUnit (RErr (EWriteBufferFull g)), c', w') ->
   c_max_out c < frame_len f + blen (c_out c) /\ g = f /\ c' = c /\ w' = w).
Proof. exact fs_send_full. Qed.

(* ---------------------------------------- read side ----------------------------------------- *)

(* decode . encode = identity on (header incl. key, length, wire payload), nothing split or merged:
   a FrameSocket created on pre-read bytes p, reading a schedule with  p ++ data = the concatenated
   encodings of fs, under ANY schedule (chunking, WouldBlocks), returns exactly map wire_frame fs in
   order, then the schedule's terminal (nothing if it ends in silence: the reader blocks).
   No hypothesis on flags, key bytes or payload bytes. *)
Theorem C18b_fs_roundtrip : forall (ms : option N) (fs : list frame) (p : bytes) (w : world) (fuel : nat),
  Forall (fs_rt_ok ms) fs ->
  p ++ sched_data (w_rds w) = concat (map frame_format fs) ->
  (mu (codec_new p) (w_rds w) < fuel)%nat ->
  fs_reads fuel ms (codec_new p) w =
  map (fun f => ROk (Some (wire_frame f))) fs ++ term_res (sched_end (w_rds w)).
Proof. exact fs_roundtrip. Qed.

Theorem C18b_fs_roundtrip_blocks : forall (ms : option N) (fs : list frame) (p : bytes) (w : world) (fuel : nat),
  Forall (fs_rt_ok ms) fs ->
  p ++ sched_data (w_rds w) = concat (map frame_format fs) ->
  sched_end (w_rds w) = TSilence ->
  (mu (codec_new p) (w_rds w) < fuel)%nat ->
  fs_reads fuel ms (codec_new p) w = map (fun f => ROk (Some (wire_frame f))) fs.
Proof. exact fs_roundtrip_blocks. Qed.

(* bytes after the encodings (e.g. the beginning of a further frame) are decoded as they would be alone *)
Theorem C18b_fs_roundtrip_gen : forall (ms : option N) (fs : list frame) (rest p : bytes) (w : world) (fuel : nat),
  Forall (fs_rt_ok ms) fs ->
  p ++ sched_data (w_rds w) = concat (map frame_format fs) ++ rest ->
  (mu (codec_new p) (w_rds w) < fuel)%nat ->
  fs_reads fuel ms (codec_new p) w =
  map (fun f => ROk (Some (wire_frame f))) fs ++ frames_ref ms false true None rest (sched_end (w_rds w)).
Proof. exact fs_roundtrip_gen. Qed.

(* the statement in the words of C18: well-formed headers (non-reserved opcode, key bytes < 256) *)
Theorem C18b_fs_roundtrip_wf : forall (ms : option N) (fs : list frame) (p : bytes) (w : world) (fuel : nat),
  Forall (fun f => wf_header (f_hdr f) /\ blen (f_payload f) < two64 /\
                   match ms with Some m => blen (f_payload f) <= m | None => True end) fs ->
  p ++ sched_data (w_rds w) = concat (map frame_format fs) ->
  (mu (codec_new p) (w_rds w) < fuel)%nat ->
  fs_reads fuel ms (codec_new p) w =
  map (fun f => ROk (Some (wire_frame f))) fs ++ term_res (sched_end (w_rds w)).
Proof.
  intros ms fs p w fuel H. apply fs_roundtrip.
  eapply Forall_impl; [|exact H]. intros f [[Hr _] Hrest]. split; [exact Hr|exact Hrest].
Qed.

(* what the raw reader got is the payload again after unmasking; unmasked frames come back identical *)
Theorem C18b_wire_frame : forall (f : frame),
  f_hdr (wire_frame f) = f_hdr f /\ blen (f_payload (wire_frame f)) = blen (f_payload f) /\
  (forall k, h_mask (f_hdr f) = Some k -> apply_mask k (f_payload (wire_frame f)) = f_payload f) /\
  (h_mask (f_hdr f) = None -> wire_frame f = f).
Proof.
  intros f. split; [reflexivity|]. split; [apply wire_payload_blen|].
  split; [intros k; apply wire_payload_unmask|apply wire_frame_unmasked].
Qed.

(* the two frame hypotheses are needed *)
Theorem C18b_fs_roundtrip_needs :
  fs_reads 10 None (codec_new [])
    (mkWorld [RdData (frame_format (mkFrame (mkHeader true false false false (OData (DReserved 3)) None) []))]
             [] [] [] [])
  = [RErr (EProtocol (InvalidOpcode 3))] /\
  fs_reads 10 (Some 2) (codec_new [])
    (mkWorld [RdData (frame_format (mkFrame (mkHeader true false false false (OData Binary) None) [1; 2; 3]))]
             [] [] [] [])
  = [RErr (ECapacity 3 2)].
Proof. split; [exact fs_roundtrip_needs_nonreserved|exact fs_roundtrip_needs_limit]. Qed.

(* ------------------------------------ examples / non-vacuity --------------------------------- *)

Fixpoint ex_pay_from (s : N) (n : nat) : bytes :=
  match n with O => [] | S n' => s mod 251 :: ex_pay_from (s + 1) n' end.
Definition ex_pay (n : N) : bytes := ex_pay_from 0 (N.to_nat n).
Definition ex_key : key := (17, 34, 51, 255).
(* masked: all flags set, opcode Text; unmasked: FIN only, opcode Binary *)
Definition ex_m (n : N) : frame := mkFrame (mkHeader true true true true (OData Text) (Some ex_key)) (ex_pay n).
Definition ex_u (n : N) : frame := mkFrame (mkHeader true false false false (OData Binary) None) (ex_pay n).
Definition ex_small : list frame := [ex_m 0; ex_u 0; ex_m 125; ex_u 125; ex_m 126; ex_u 126].
Definition ex_drip (bs : bytes) : list rd_out := flat_map (fun b => [RdData [b]; RdErr WouldBlock]) bs.

(* frame sizes: 2/4/10 header bytes (+4 with key) + payload *)
Example C18b_ex_len :
  map frame_len (ex_small ++ [ex_m 65536; ex_u 65536]) = [6; 2; 131; 127; 134; 130; 65550; 65546] /\
  map (fun f => blen (frame_format f)) (ex_small ++ [ex_m 65536; ex_u 65536])
  = [6; 2; 131; 127; 134; 130; 65550; 65546].
Proof. vm_compute. split; reflexivity. Qed.

(* a write-side run, computed: the transport takes 1 byte, blocks, takes the rest, returns Ok(0), takes
   everything, takes 7 bytes, is interrupted, takes everything; the first flush fails.  A write that
   returns an I/O error has still queued its frame. *)
Definition ex_wops : list fs_op :=
  [FsWrite (ex_m 0); FsWrite (ex_u 0); FsSend (ex_m 125); FsWrite (ex_u 125); FsFlush; FsFlush;
   FsWrite (ex_m 126); FsSend (ex_u 126)].
Definition ex_ww : world :=
  mkWorld [] [WrAccept 1; WrErr WouldBlock; WrAccept 50; WrAccept 0; WrAccept 100000; WrAccept 7;
              WrErr Interrupted; WrAccept 100000]
          [FlErr IoOther; FlOk; FlOk] [] [].

Example C18b_ex_write :
  let '(rs, c', w') := fs_run_ops (codec_new []) ex_wops ex_ww in
  map fst rs = [FsUnit (RErr (EIo WouldBlock)); FsUnit (ROk tt); FsUnit (RErr (EIo ConnReset));
                FsUnit (ROk tt); FsUnit (RErr (EIo IoOther)); FsUnit (ROk tt);
                FsUnit (RErr (EIo Interrupted)); FsUnit (ROk tt)] /\
  fs_accepted ex_wops (map fst rs) = ex_small /\ fs_frames ex_wops = ex_small /\
  sumN (map frame_len (fs_frames ex_wops)) = 530 /\
  c_out c' = [] /\
  wire (w_log w') = concat (map frame_format ex_small) /\
  last (w_log w') (EvReserve 0) = EvFlush FlOk.
Proof. vm_compute. repeat split; reflexivity. Qed.

(* the hypotheses of C18b_fs_wire_flushed hold of that run *)
Example C18b_ex_write_flushed :
  exists rs n c' w',
    fs_run_ops (codec_new []) (removelast ex_wops ++ [FsSend (ex_u 126)]) ex_ww
    = (rs ++ [(FsUnit (ROk tt), n)], c', w') /\ fs_flushing (FsSend (ex_u 126)) = true.
Proof.
  eexists (removelast (fst (fst (fs_run_ops (codec_new []) ex_wops ex_ww)))). eexists. eexists. eexists.
  vm_compute. split; reflexivity.
Qed.

(* one 65536-byte masked frame through FsSend, the transport taking at most 40000 bytes per call
   (large byte strings are compared with the executable bytes_eqb, which decides equality) *)
Definition ex_send_64k : fs_result * codec * world :=
  fs_run_op (codec_new []) (FsSend (ex_m 65536)) (mkWorld [] [WrAccept 40000; WrAccept 40000] [FlOk] [] []).

Example C18b_ex_send_64k :
  fst (fst ex_send_64k) = FsUnit (ROk tt) /\ c_out (snd (fst ex_send_64k)) = [] /\
  wire (w_log (snd ex_send_64k)) = frame_format (ex_m 65536) /\
  blen (wire (w_log (snd ex_send_64k))) = 65550 /\
  last (w_log (snd ex_send_64k)) (EvReserve 0) = EvFlush FlOk.
Proof.
  split; [vm_compute; reflexivity|]. split; [vm_compute; reflexivity|].
  split; [apply bytes_eqb_eq; vm_compute; reflexivity|].
  split; vm_compute; reflexivity.
Qed.

(* WriteBufferFull at the boundary: limit 130 takes the 130-byte frame and refuses the 131-byte one *)
Example C18b_ex_full :
  let c := set_limits (codec_new []) 130 0 in
  let w := mkWorld [] [] [] [] [] in
  fs_run_op c (FsWrite (ex_m 125)) w = (FsUnit (RErr (EWriteBufferFull (ex_m 125))), c, w) /\
  fst (fst (fs_run_op c (FsWrite (ex_u 126)) w)) = FsUnit (RErr (EIo WouldBlock)) /\
  blen (c_out (snd (fst (fs_run_op c (FsWrite (ex_u 126)) w)))) = 130.
Proof. vm_compute. repeat split; reflexivity. Qed.

(* below the write_buffer_size threshold nothing is handed to the transport: the frame_len f bytes are
   appended to out_buffer (the last clause of C18b_fs_len) *)
Example C18b_ex_len_buffered :
  let c := set_out (set_limits (codec_new []) 1000 500) [9; 9; 9] in
  let w := mkWorld [] [WrAccept 5] [] [] [] in
  blen (c_out c) + frame_len (ex_m 125) <= c_write_len c /\
  fs_run_op c (FsWrite (ex_m 125)) w
  = (FsUnit (ROk tt), set_out c ([9; 9; 9] ++ frame_format (ex_m 125)), w_emit w (EvQueue (ex_m 125))).
Proof. vm_compute. split; [discriminate|reflexivity]. Qed.

(* read side, computed: the six small frames one byte at a time with a WouldBlock after every byte;
   every frame comes back with its header (key included) and its wire payload, then the reader blocks *)
Example C18b_ex_read :
  fs_reads 2000 None (codec_new []) (mkWorld (ex_drip (concat (map frame_format ex_small))) [] [] [] [])
  = map (fun f => ROk (Some (wire_frame f))) ex_small /\
  Forall (fs_rt_ok None) ex_small /\
  f_payload (wire_frame (ex_m 125)) <> ex_pay 125 /\
  apply_mask ex_key (f_payload (wire_frame (ex_m 125))) = ex_pay 125.
Proof.
  split; [vm_compute; reflexivity|]. split; [repeat constructor|].
  split; [vm_compute; discriminate|vm_compute; reflexivity].
Qed.

(* other terminals: after the frames, end of file is reported as Ok(None), a hard error as itself; the
   first three bytes of a further frame are not reported at all (C18b_fs_roundtrip_gen with rest) *)
Example C18b_ex_read_terminal :
  let bs := concat (map frame_format ex_small) in
  fs_reads 100 None (codec_new (takeN 7 bs)) (mkWorld [RdData (dropN 7 bs); RdEof] [] [] [] [])
  = map (fun f => ROk (Some (wire_frame f))) ex_small ++ [ROk None] /\
  fs_reads 100 None (codec_new []) (mkWorld [RdData (bs ++ [130; 254; 1]); RdErr ConnReset] [] [] [] [])
  = map (fun f => ROk (Some (wire_frame f))) ex_small ++ [RErr (EIo ConnReset)] /\
  frames_ref None false true None [130; 254; 1] (TErr ConnReset) = [RErr (EIo ConnReset)].
Proof. vm_compute. repeat split; reflexivity. Qed.

(* 65536-byte frames, masked and unmasked, by instantiating the general theorem: the stream is cut
   inside the first header and in the middle of the first payload, with a WouldBlock at each cut;
   max_size = exactly 65536 *)
Definition ex_big : list frame := [ex_m 65536; ex_u 65536].
Definition ex_big_bytes : bytes := concat (map frame_format ex_big).
Definition ex_big_rds : list rd_out :=
  [RdData (takeN 3 ex_big_bytes); RdErr WouldBlock; RdData (takeN 40000 (dropN 3 ex_big_bytes));
   RdErr WouldBlock; RdData (dropN 40003 ex_big_bytes)].
Definition ex_big_w : world := mkWorld ex_big_rds [] [] [] [].

Example C18b_ex_read_64k :
  fs_reads (S (mu (codec_new []) (w_rds ex_big_w))) (Some 65536) (codec_new []) ex_big_w
  = map (fun f => ROk (Some (wire_frame f))) ex_big.
Proof.
  apply C18b_fs_roundtrip_blocks.
  - repeat constructor; vm_compute; discriminate.
  - apply bytes_eqb_eq. vm_compute. reflexivity.
  - vm_compute. reflexivity.
  - exact (le_n _).
Qed.

(* ... and by direct computation: headers (key kept), lengths, payloads *)
Example C18b_ex_read_64k_computed :
  match fs_reads (N.to_nat 200000) (Some 65536) (codec_new []) ex_big_w with
  | [ROk (Some g1); ROk (Some g2)] =>
      f_hdr g1 = f_hdr (ex_m 65536) /\ f_hdr g2 = f_hdr (ex_u 65536) /\
      blen (f_payload g1) = 65536 /\ blen (f_payload g2) = 65536 /\
      bytes_eqb (f_payload g1) (xor_cyc ex_key (ex_pay 65536)) = true /\
      bytes_eqb (f_payload g2) (ex_pay 65536) = true
  | _ => False
  end.
Proof. vm_compute. repeat split; reflexivity. Qed.

(* writer to reader: what one FrameSocket put on the wire, cut as the writer's transport took it, read
   by another FrameSocket *)
Definition ex_log_chunks (log : list event) : list rd_out :=
  flat_map (fun e => match e with EvWrite _ (b :: bs) => [RdData (b :: bs); RdErr WouldBlock] | _ => [] end) log.

Example C18b_ex_pipe :
  let '(_, _, w') := fs_run_ops (codec_new []) ex_wops ex_ww in
  sched_data (ex_log_chunks (w_log w')) = wire (w_log w') /\
  fs_reads 100 None (codec_new []) (mkWorld (ex_log_chunks (w_log w')) [] [] [] [])
  = map (fun f => ROk (Some (wire_frame f))) ex_small.
Proof. vm_compute. split; reflexivity. Qed.

Print Assumptions C18b_fs_wire.
Print Assumptions C18b_fs_wire_gen.
Print Assumptions C18b_fs_wire_flushed.
Print Assumptions C18b_fs_all_accepted.
Print Assumptions C18b_fs_len.
Print Assumptions C18b_fs_send_is_write_flush.
Print Assumptions C18b_fs_full.
Print Assumptions C18b_fs_full_send.
Print Assumptions C18b_fs_roundtrip.
Print Assumptions C18b_fs_roundtrip_blocks.
Print Assumptions C18b_fs_roundtrip_gen.
Print Assumptions C18b_fs_roundtrip_wf.
Print Assumptions C18b_wire_frame.
Print Assumptions C18b_fs_roundtrip_needs.
