(* props/C17b.v — property theorems for C17b only:
   ReadBuffer<CHUNK_SIZE> (src/buffer.rs; model ReadBuf.v: a byte vector plus a read position) refines the
   plain FIFO of bytes that Handshake.v works with.
   Spec definitions used below (all in proofs/ReadBufP.v):
     rb_abs rb   := dropN (rb_pos rb) (rb_storage rb)     the abstract FIFO contents: the bytes not yet consumed
     rb_wf rb    := rb_pos rb <= blen (rb_storage rb)     the cursor never stands past the end
     fifo_run cs buf ops rds := the machine ReadBuf.rb_run replayed on a plain byte list buf:
                    RbRead appends takeN cs of the offered chunk and re-queues the rest (Eof -> Ok 0, error -> the
                    error, exhausted script -> WouldBlock; buf unchanged in these three cases);
                    RbAdvance n drops n bytes if n <= blen buf, else ([RbPanic], None);
                    RbChunk outputs buf; RbRemaining outputs blen buf *)
From TungModel Require Import Base World ReadBuf.
From TungModel.proofs Require Import ReadBufP.

(* ---------------------------------------------------------------------------------------------- *)
(* C17b_constructors: new() is the empty FIFO, from_partially_read(p) is the FIFO holding exactly p *)
Theorem C17b_constructors :
  rb_abs rb_new = [] /\ rb_wf rb_new /\
  forall p, rb_abs (rb_from_partially_read p) = p /\ rb_wf (rb_from_partially_read p).
Proof. exact rb_constructors. Qed.

(* ---------------------------------------------------------------------------------------------- *)
(* C17b_observers: chunk() / remaining() / into_vec() show exactly the abstract contents *)
Theorem C17b_observers : forall rb, rb_wf rb ->
  rb_chunk rb = rb_abs rb /\ rb_remaining rb = blen (rb_abs rb) /\ rb_into_vec rb = rb_abs rb.
Proof. exact rb_observers. Qed.

Example C17b_observers_nonvacuous :
  let rb := mkRbuf [72; 101; 108; 108] 2 in
  rb_wf rb /\ rb_chunk rb = [108; 108] /\ rb_remaining rb = 2 /\ rb_into_vec rb = [108; 108].
Proof. vm_compute. repeat split. discriminate. Qed.

(* ---------------------------------------------------------------------------------------------- *)
(* C17b_advance: advance(n) drops n bytes from the front when that many are there, and panics otherwise *)
Theorem C17b_advance : forall rb n, rb_wf rb ->
  (n <= blen (rb_abs rb) ->
     exists rb', rb_advance rb n = Some rb' /\ rb_wf rb' /\ rb_abs rb' = dropN n (rb_abs rb)) /\
  (blen (rb_abs rb) < n -> rb_advance rb n = None).
Proof. exact rb_advance_spec. Qed.

Example C17b_advance_nonvacuous :
  let rb := mkRbuf [72; 101; 108; 108] 1 in
  rb_wf rb /\ 2 <= blen (rb_abs rb) /\ rb_advance rb 2 = Some (mkRbuf [72; 101; 108; 108] 3) /\
  blen (rb_abs rb) < 4 /\ rb_advance rb 4 = None.
Proof. vm_compute. repeat split; discriminate. Qed.

(* ---------------------------------------------------------------------------------------------- *)
(* C17b_clean_up: the consumed bytes are dropped from the storage, nothing else changes *)
Theorem C17b_clean_up : forall rb, rb_wf rb ->
  rb_wf (rb_clean_up rb) /\ rb_abs (rb_clean_up rb) = rb_abs rb /\
  rb_pos (rb_clean_up rb) = 0 /\ rb_storage (rb_clean_up rb) = rb_abs rb.
Proof. exact rb_clean_up_spec. Qed.

Example C17b_clean_up_nonvacuous :
  let rb := mkRbuf [72; 101; 108; 108] 2 in
  rb_wf rb /\ rb_clean_up rb = mkRbuf [108; 108] 0.
Proof. vm_compute. split; [discriminate|reflexivity]. Qed.

(* ---------------------------------------------------------------------------------------------- *)
(* C17b_read_from: one transport read appends at most CHUNK_SIZE bytes of what was offered, the transport keeps
   exactly the rest; EOF, an error or WouldBlock lose nothing *)
Theorem C17b_read_from : forall cs rb r res rb' keep, rb_wf rb ->
  rb_read_from cs rb r = (res, rb', keep) ->
  rb_wf rb' /\
  match r with
  | RdData offered =>
      res = ROk (blen (takeN cs offered)) /\ rb_abs rb' = rb_abs rb ++ takeN cs offered /\
      blen (takeN cs offered) <= cs /\
      (match keep with
       | Some k => k = dropN cs offered /\ k <> []
       | None => dropN cs offered = []
       end)
  | RdEof => res = ROk 0 /\ rb_abs rb' = rb_abs rb /\ keep = None
  | RdErr k => res = RErr (EIo k) /\ rb_abs rb' = rb_abs rb /\ keep = None
  end.
Proof. exact rb_read_from_spec. Qed.

Example C17b_read_from_nonvacuous :
  let rb := mkRbuf [72; 101; 108; 108] 2 in
  rb_wf rb /\
  rb_read_from 4 rb (RdData [111; 32; 87; 111; 114; 108]) =
    (ROk 4, mkRbuf [108; 108; 111; 32; 87; 111] 0, Some [114; 108]) /\
  rb_read_from 4 rb (RdData [111; 32]) = (ROk 2, mkRbuf [108; 108; 111; 32] 0, None) /\
  rb_read_from 4 rb RdEof = (ROk 0, mkRbuf [108; 108] 0, None) /\
  rb_read_from 4 rb (RdErr WouldBlock) = (RErr (EIo WouldBlock), mkRbuf [108; 108] 0, None).
Proof. vm_compute. repeat split. discriminate. Qed.

(* ---------------------------------------------------------------------------------------------- *)
(* C17b_fifo: under ANY sequence of reads / advances / observations and ANY transport script the ReadBuffer
   produces the same outputs as the plain FIFO and ends in a state that abstracts to the FIFO's final contents
   (both panic at the same operation or neither does): no byte is lost, repeated or reordered *)
Theorem C17b_fifo : forall cs ops rb rds, rb_wf rb ->
  let '(outs, fin) := rb_run cs rb ops rds in
  let '(outs', fin') := fifo_run cs (rb_abs rb) ops rds in
  outs = outs' /\
  match fin, fin' with
  | Some rb', Some b' => rb_wf rb' /\ rb_abs rb' = b'
  | None, None => True
  | _, _ => False
  end.
Proof. exact rb_run_fifo. Qed.

(* ---------------------------------------------------------------------------------------------- *)
(* C17b_no_loss: reads only, every delivered chunk fits the scratch array: into_vec() returns the initial
   contents followed by the concatenation of the chunks delivered *)
Theorem C17b_no_loss : forall cs part chunks,
  Forall (fun c => blen c <= cs) chunks ->
  exists rb',
    snd (rb_run cs (rb_from_partially_read part) (repeat RbRead (length chunks)) (map RdData chunks))
      = Some rb' /\
    rb_into_vec rb' = part ++ concat chunks.
Proof. exact rb_no_loss. Qed.

Example C17b_no_loss_nonvacuous :
  Forall (fun c => blen c <= 4) [[108; 111; 32]; []; [87; 111; 114; 108]; [100]] /\
  snd (rb_run 4 (rb_from_partially_read [72; 101; 108]) (repeat RbRead 4)
         (map RdData [[108; 111; 32]; []; [87; 111; 114; 108]; [100]]))
    = Some (mkRbuf [72; 101; 108; 108; 111; 32; 87; 111; 114; 108; 100] 0).
Proof.
  split; [|vm_compute; reflexivity].
  repeat constructor; vm_compute; discriminate.
Qed.

(* ---------------------------------------------------------------------------------------------- *)
(* Examples: the unit test `reading_in_chunks` of src/buffer.rs (ReadBuffer::<4>, "Hello World!" ready in the
   transport as one 12-byte offer):
     read -> 4, chunk "Hell"; advance 2 -> chunk "ll"; read -> 4, chunk "llo Wo"; read -> 4, chunk "llo World!" *)
Definition hello_world : bytes := [72; 101; 108; 108; 111; 32; 87; 111; 114; 108; 100; 33].

Example C17b_reading_in_chunks :
  rb_run 4 rb_new
    [RbRead; RbChunk; RbAdvance 2; RbChunk; RbRead; RbChunk; RbRemaining; RbRead; RbChunk]
    [RdData hello_world] =
  ([RbN (ROk 4); RbBytes [72; 101; 108; 108];
    RbN (ROk 2); RbBytes [108; 108];
    RbN (ROk 4); RbBytes [108; 108; 111; 32; 87; 111]; RbN (ROk 6);
    RbN (ROk 4); RbBytes [108; 108; 111; 32; 87; 111; 114; 108; 100; 33]],
   Some (mkRbuf [108; 108; 111; 32; 87; 111; 114; 108; 100; 33] 0)).
Proof. vm_compute. reflexivity. Qed.

(* the same history on the plain FIFO *)
Example C17b_reading_in_chunks_fifo :
  fifo_run 4 []
    [RbRead; RbChunk; RbAdvance 2; RbChunk; RbRead; RbChunk; RbRemaining; RbRead; RbChunk]
    [RdData hello_world] =
  ([RbN (ROk 4); RbBytes [72; 101; 108; 108];
    RbN (ROk 2); RbBytes [108; 108];
    RbN (ROk 4); RbBytes [108; 108; 111; 32; 87; 111]; RbN (ROk 6);
    RbN (ROk 4); RbBytes [108; 108; 111; 32; 87; 111; 114; 108; 100; 33]],
   Some [108; 108; 111; 32; 87; 111; 114; 108; 100; 33]).
Proof. vm_compute. reflexivity. Qed.

(* `assert_eq!(buf.storage.get_mut(), b"Hell")` after advance(2): advance moves the position only;
   the next read_from drops the two consumed bytes (storage "llo Wo") *)
Example C17b_storage_after_advance :
  exists rb1 rb2 rb3 keep1 keep2,
    rb_read_from 4 rb_new (RdData hello_world) = (ROk 4, rb1, Some keep1) /\
    rb_advance rb1 2 = Some rb2 /\ rb_storage rb2 = [72; 101; 108; 108] /\ rb_pos rb2 = 2 /\
    rb_read_from 4 rb2 (RdData keep1) = (ROk 4, rb3, Some keep2) /\
    rb_storage rb3 = [108; 108; 111; 32; 87; 111] /\ keep2 = [114; 108; 100; 33].
Proof. do 5 eexists. vm_compute. repeat split. Qed.

(* advance past the end: the panic of Cursor's Buf::advance; the run stops there *)
Example C17b_advance_past_end :
  rb_run 4 rb_new [RbRead; RbAdvance 5; RbChunk] [RdData hello_world] = ([RbN (ROk 4); RbPanic], None) /\
  fifo_run 4 [] [RbRead; RbAdvance 5; RbChunk] [RdData hello_world] = ([RbN (ROk 4); RbPanic], None).
Proof. vm_compute. split; reflexivity. Qed.

(* exhausted script = WouldBlock, EOF = Ok 0, errors pass through: the contents stay *)
Example C17b_nothing_lost_on_error :
  rb_run 4 (rb_from_partially_read [1; 2; 3])
    [RbAdvance 1; RbRead; RbChunk; RbRead; RbChunk; RbRead; RbChunk]
    [RdErr ConnReset; RdEof] =
  ([RbN (ROk 1); RbN (RErr (EIo ConnReset)); RbBytes [2; 3]; RbN (ROk 0); RbBytes [2; 3];
    RbN (RErr (EIo WouldBlock)); RbBytes [2; 3]],
   Some (mkRbuf [2; 3] 0)).
Proof. vm_compute. reflexivity. Qed.

Print Assumptions C17b_constructors.
Print Assumptions C17b_observers.
Print Assumptions C17b_advance.
Print Assumptions C17b_clean_up.
Print Assumptions C17b_read_from.
Print Assumptions C17b_fifo.
Print Assumptions C17b_no_loss.
