(* props/C06b.v — property theorems for C06 along histories that contain set_config calls changing the
   inbound limits (ProtocolCfg.run_xops: XSetConfig cfg = set_config(|c| *c = cfg), XSetLimits = set_config
   changing only max_message_size / max_frame_size / accept_unmasked_frames), at any point of the history,
   in particular in the middle of a fragmented message.

   run_xops records, per operation: the result, the log length after it, and the configuration IN FORCE
   when the operation ran. "The limit in force" below is the limit of that recorded configuration.

   What changes with respect to props/C06.v: the limits are not fixed along the history; the bound on a
   delivered message and the numbers of a capacity error are those of the configuration in force at the
   read that returned them; the accumulator is NOT bounded by the limit in force (lowering the limit in
   the middle of a message leaves the accumulated fragments in place: C06b_lowered_mid_message) but by
   the largest limit that was ever in force (C06b_accumulator_bound).

   Spec definitions from proofs/ProtocolCfgP.v:
     limits_within Mx Fx mms mfs = mms = Some M, mfs = Some F with M <= Mx, F <= Fx
     cfg_within Mx Fx c          = limits_within on the two limits of c
     xop_within Mx Fx o          = o is XOp o' with op_ok o' (props/C07.v), or XSetConfig c with c valid
                                   (assert_valid) and cfg_within Mx Fx c, or XSetLimits within the bounds
     xops_within Mx Fx ops       = Forall (xop_within Mx Fx) ops
   and reserve_ok from proofs/LimitsP.v (props/C06.v). *)
From TungModel Require Import Base Coding Mask Header Frame Utf8 World Message Codec Protocol ProtocolCfg.
From TungModel.proofs Require Import LimitsP ProtocolCfgP.
From Coq Require Import Lia.

(* ---- run_xops extends run_ops ---- *)

(* a history without inbound-limit changes is a run_ops history: same results, same log lengths, same
   final context and world (so every theorem about run_ops is a theorem about these histories) *)
Theorem C06b_embed : forall ops x w,
  let '(rs, x', w') := run_ops x ops w in
  exists rsx, run_xops x (map XOp ops) w = (rsx, x', w') /\
              map (fun t : op_result * N * config => (fst (fst t), snd (fst t))) rsx = rs.
Proof. exact xops_embed. Qed.

(* Protocol.OpSetBuf with a valid pair is the set_config that leaves the inbound limits alone *)
Theorem C06b_setbuf_special_case : forall x wbs mx w,
  wbs <? mx = true ->
  run_xop x (XOp (OpSetBuf wbs mx)) w =
  run_xop x (XSetConfig (mkConfig wbs mx (cfg_max_message_size (x_cfg x)) (cfg_max_frame_size (x_cfg x))
                                  (cfg_accept_unmasked (x_cfg x)))) w.
Proof. exact setbuf_is_set_config. Qed.

(* ---- the limits in force ---- *)

(* every Text/Binary message delivered by a read is within the max_message_size in force at that read.
   x is ANY context (whatever the accumulator holds); no hypothesis on max_frame_size (it may be None),
   none on the other operations of the history *)
Theorem C06b_message_bound_in_force : forall x ops w rs x' w',
  run_xops x ops w = (rs, x', w') ->
  Forall (fun t : op_result * N * config =>
            let '(r, _, c) := t in
            match r with
            | ResMsg (ROk (MText b)) | ResMsg (ROk (MBinary b)) =>
                forall M, cfg_max_message_size c = Some M -> blen b <= M
            | _ => True
            end) rs.
Proof. exact xops_message_bound. Qed.

(* every capacity error of a read carries (size, limit) with limit = the max_frame_size or the
   max_message_size in force at that read and size > limit; no write / flush / close / set_config
   reports a capacity error *)
Theorem C06b_capacity_numbers_in_force : forall x ops w rs x' w',
  run_xops x ops w = (rs, x', w') ->
  Forall (fun t : op_result * N * config =>
            let '(r, _, c) := t in
            match r with
            | ResMsg (RErr (ECapacity sz mx)) =>
                forall F M, cfg_max_frame_size c = Some F -> cfg_max_message_size c = Some M ->
                  (mx = F /\ F < sz) \/ (mx = M /\ M < sz)
            | ResUnit (RErr (ECapacity _ _)) => False
            | _ => True
            end) rs.
Proof. exact xops_capacity_numbers. Qed.

(* the two previous statements in one, with max_frame_size possibly None (limit_of None = usize::MAX) *)
Theorem C06b_limits_in_force : forall ops x w rs x' w',
  run_xops x ops w = (rs, x', w') -> Forall res_lim_ok rs.
Proof. exact xops_lim. Qed.

(* step form of the reservation bound: the events one operation appends to the log contain only
   reservations n <= max F 6, F the max_frame_size in force at that operation (any context, any
   max_message_size); set_config itself appends nothing (it makes no transport call) *)
Theorem C06b_reserve_bound_in_force : forall F x o w r x' w',
  run_xop x o w = (r, x', w') -> cfg_max_frame_size (x_cfg x) = Some F ->
  exists evs, w_log w' = w_log w ++ evs /\ Forall (reserve_ok F) evs.
Proof. exact xop_reserve_step. Qed.

(* history form: if every configuration in force had max_frame_size <= Fx, every reservation of the
   history is within max Fx 6 *)
Theorem C06b_reserve_bound_history : forall Fx ops x w rs x' w',
  run_xops x ops w = (rs, x', w') ->
  Forall (fun t : op_result * N * config => exists F, cfg_max_frame_size (snd t) = Some F /\ F <= Fx) rs ->
  Forall (reserve_ok Fx) (w_log w) -> Forall (reserve_ok Fx) (w_log w').
Proof. exact xops_reserve_bound. Qed.

(* the accumulator is within the largest message limit of the history (not within the limit in force:
   see C06b_lowered_mid_message). Mx + Fx < 2^64 as in props/C07.v *)
Theorem C06b_accumulator_bound : forall Mx Fx role part cfg x ops w rs x' w',
  Mx + Fx < two64 -> cfg_within Mx Fx cfg ->
  ctx_new role part cfg = Some x ->
  xops_within Mx Fx ops ->
  run_xops x ops w = (rs, x', w') ->
  forall m, x_incomplete x' = Some m -> incmsg_len m <= Mx.
Proof. exact xops_accumulator_bound. Qed.

(* ---- non-vacuity: the limit is changed in the middle of a fragmented message ---- *)

Definition exb_cfg (M : N) : config := mkConfig 0 100 (Some M) (Some 1000) false.
(* results, the message limit in force at each operation, and the size of the accumulator at the end *)
Definition exb_run (M : N) (rds : list rd_out) (ops : list xop) :=
  match ctx_new Client [] (exb_cfg M) with
  | Some x => let '(rs, x', w') := run_xops x ops (mkWorld rds [] [] [] []) in
              Some (map (fun t : op_result * N * config => (fst (fst t), cfg_max_message_size (snd t))) rs,
                    option_map incmsg_len (x_incomplete x'),
                    filter (fun e => match e with EvReserve _ => true | _ => false end) (w_log w'))
  | None => None
  end.

(* lowered: 100-byte first binary fragment read under max_message_size 1000; limit lowered to 50; the
   10-byte final continuation is answered by Capacity(110, 50), not by a message, nothing panics; the
   100 accumulated bytes stay in the accumulator (above the limit now in force) *)
Definition exb_lowered : list xop := [XOp OpRead; XSetLimits (Some 50) (Some 1000) false; XOp OpRead].
Example C06b_lowered_mid_message :
  exb_run 1000 [RdData (2 :: 100 :: repeat 7 100); RdErr WouldBlock; RdData (128 :: 10 :: repeat 9 10)] exb_lowered =
  Some ([(ResMsg (RErr (EIo WouldBlock)), Some 1000); (ResUnit (ROk tt), Some 1000);
         (ResMsg (RErr (ECapacity 110 50)), Some 50)],
        Some 100, [EvReserve 6; EvReserve 6; EvReserve 6]).
Proof. vm_compute. reflexivity. Qed.

(* raised: 40-byte first fragment under limit 50; limit raised to 1000; the 100-byte final continuation
   completes a 140-byte message, delivered *)
Example C06b_raised_mid_message :
  exb_run 50 [RdData (2 :: 40 :: repeat 7 40); RdErr WouldBlock; RdData (128 :: 100 :: repeat 9 100)]
          [XOp OpRead; XSetLimits (Some 1000) (Some 1000) false; XOp OpRead] =
  Some ([(ResMsg (RErr (EIo WouldBlock)), Some 50); (ResUnit (ROk tt), Some 50);
         (ResMsg (ROk (MBinary (repeat 7 40 ++ repeat 9 100))), Some 1000)],
        None, [EvReserve 6; EvReserve 6; EvReserve 6]).
Proof. vm_compute. reflexivity. Qed.

(* frame limit lowered while a frame header is held: 100-byte frame announced under max_frame_size 1000
   (100 bytes reserved for the payload), limit lowered to 10 before the payload arrives: the next read
   rejects the held header with Capacity(100, 10) and reserves nothing *)
Example C06b_frame_limit_lowered_mid_frame :
  exb_run 1000 [RdData [130; 100; 1; 2; 3]; RdErr WouldBlock; RdData (repeat 9 97)]
          [XOp OpRead; XSetLimits (Some 1000) (Some 10) false; XOp OpRead] =
  Some ([(ResMsg (RErr (EIo WouldBlock)), Some 1000); (ResUnit (ROk tt), Some 1000);
         (ResMsg (RErr (ECapacity 100 10)), Some 1000)],
        None, [EvReserve 6; EvReserve 100]).
Proof. vm_compute. reflexivity. Qed.

(* the hypotheses of C06b_accumulator_bound (and of C07cfg_no_panic) hold for the lowered history *)
Example C06b_ex_hyps :
  1000 + 1000 < two64 /\ cfg_within 1000 1000 (exb_cfg 1000) /\ xops_within 1000 1000 exb_lowered /\
  ctx_new Client [] (exb_cfg 1000) <> None.
Proof.
  split; [reflexivity|]. split; [exists 1000, 1000; repeat split; lia|]. split; [|discriminate].
  repeat constructor. exists 50, 1000. repeat split; lia.
Qed.

(* the hypothesis of C06b_reserve_bound_history holds for it *)
Example C06b_ex_frame_limits :
  Forall (fun c => exists F, cfg_max_frame_size c = Some F /\ F <= 1000)
         [exb_cfg 1000; exb_cfg 1000; mkConfig 0 100 (Some 50) (Some 1000) false].
Proof. repeat constructor; exists 1000; split; (reflexivity || lia). Qed.

Print Assumptions C06b_embed.
Print Assumptions C06b_setbuf_special_case.
Print Assumptions C06b_message_bound_in_force.
Print Assumptions C06b_capacity_numbers_in_force.
Print Assumptions C06b_limits_in_force.
Print Assumptions C06b_reserve_bound_in_force.
Print Assumptions C06b_reserve_bound_history.
Print Assumptions C06b_accumulator_bound.
