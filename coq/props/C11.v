(* props/C11.v — property theorems for C11: every ping is answered with a matching pong without user
   action.  Proofs are in proofs/ReplyP.v; the spec vocabulary used here is defined there:

     unmask f                f with its mask key forgotten (a client masks a frame with a fresh key each time it
                             is handed to the codec; flags, opcode and payload are unchanged)
     still_parked f x'       additional_send of x' holds f (up to the mask key)
     now_queued f w w'       between w and w' a frame equal to f (up to the mask key) was appended to `queued`
     was_queued f w w'       the same, with possibly more frames queued after it
     supersedes o res        o is write(Pong _), write(Close _), close(_), or a read that returned Ping/Close:
                             the operations that put a newer reply into additional_send
     no_raw_ctl o            o is not write(Message::Frame f) with a control opcode
     is_user_pong o          o is write(Message::Pong _)
     ppl l                   payloads of the Pong frames of l, in order
     pong_srcs ops rs        in op order: payload p for each read that returned Ping p, payload d for each
                             write(Pong d)
     pings_delivered rs      payloads of the Ping messages returned by the reads of the run, in order
     Subseq l1 l2            l1 is a subsequence of l2 (same order, same elements)
     buffer_full x w f       the test `frame.len() + out_buffer.len() > max_out_buffer_len` for f now
     read_go n x1 w1         the rest of read() after its preliminary flush: read_message_frame, then loop
     must_flush x            additional_send is Some or unflushed_additional is set (read() flushes first)   *)
From TungModel Require Import Base Coding Mask Header Frame Utf8 World Message Codec Protocol.
From TungModel.proofs Require Import CodingP ReplyP.

(* C11_pong_pending (1): after any run (all op lists, all oracles), a read that delivers Ping p and
   leaves the connection Active has parked exactly pong p in additional_send. *)
Theorem C11_pong_pending : forall r part cfg x0 w0 ops rs x w p x' w',
  ctx_new r part cfg = Some x0 -> run_ops x0 ops w0 = (rs, x, w) ->
  read x w = (ROk (MPing p), x', w') -> x_state x' = Active ->
  x_additional x' = Some (frame_pong p).
Proof. exact pong_parked_run. Qed.

(* C11_pong_pending (2): from any context, one operation leaves a parked frame parked, or queues it —
   never neither — unless the operation supersedes it (newer pong, or closing begins). *)
Theorem C11_pong_kept : forall x o w res x' w' f,
  run_op x o w = (res, x', w') -> x_additional x = Some f ->
  still_parked f x' \/ now_queued f w w' \/ supersedes o res.
Proof. exact pong_step. Qed.

(* ... and over any run (all op lists, all oracles) in which nothing supersedes it *)
Theorem C11_pong_kept_run : forall ops x w rs x' w' f,
  run_ops x ops w = (rs, x', w') -> x_additional x = Some f ->
  Forall2 (fun o rn => ~ supersedes o (fst rn)) ops rs ->
  still_parked f x' \/ was_queued f w w'.
Proof. exact pong_kept_run. Qed.

(* C11_order_no_invention: over all op lists (no raw control frames) and all oracles, the pong payloads
   queued (followed by the parked one) are a subsequence of the pings delivered and the user's pongs, in
   the order of those events. *)
Theorem C11_order_no_invention : forall r part cfg x0 w0 ops rs x' w',
  ctx_new r part cfg = Some x0 -> filter is_pong (queued (w_log w0)) = [] ->
  Forall no_raw_ctl ops ->
  run_ops x0 ops w0 = (rs, x', w') ->
  Subseq (ppl (queued (w_log w') ++ olist (x_additional x'))) (pong_srcs ops rs).
Proof. exact pong_order. Qed.

(* without user pongs: the pongs queued are a subsequence of the pings delivered — same payloads, same
   order, none invented *)
Theorem C11_no_invention_auto : forall r part cfg x0 w0 ops rs x' w',
  ctx_new r part cfg = Some x0 -> filter is_pong (queued (w_log w0)) = [] ->
  Forall no_raw_ctl ops -> Forall (fun o => ~ is_user_pong o) ops ->
  run_ops x0 ops w0 = (rs, x', w') ->
  Subseq (ppl (queued (w_log w'))) (pings_delivered rs).
Proof. exact pong_order_auto. Qed.

(* C11_pong_sent, flush: a flush that succeeds and takes the parked frame has written everything buffered
   before, then the frame, and the log ends with a successful transport flush. *)
Theorem C11_pong_sent_flush : forall x w f x' w',
  x_additional x = Some f -> flush x w = (ROk tt, x', w') -> x_additional x' = None ->
  exists f1 l, unmask f1 = unmask f /\
    w_log w' = w_log w ++ l ++ [EvFlush FlOk] /\ queued l = [f1] /\
    wire l = c_out (x_codec x) ++ frame_format f1 /\
    c_out (x_codec x') = [] /\ x_unflushed x' = false.
Proof. exact flush_sent. Qed.

(* the frame is taken whenever the write buffer has room for it (always, for an unlimited buffer) *)
Theorem C11_pong_taken : forall x w f r x' w',
  x_additional x = Some f -> buffer_full x w f = false ->
  flush x w = (r, x', w') -> x_additional x' = None.
Proof. exact flush_room. Qed.

(* C11_pong_sent, read: read() first flushes; if that succeeds the frame is on the wire, followed by
   the transport flush, and the same call goes on to read (l2 are the events of the reading part). *)
Theorem C11_pong_sent_read : forall x w f x1 w1 r x' w',
  is_terminated (x_state x) = false -> x_additional x = Some f ->
  flush x w = (ROk tt, x1, w1) -> x_additional x1 = None ->
  read x w = (r, x', w') ->
  read x w = read_go (read_fuel x w) x1 w1 /\
  exists f1 l l2, unmask f1 = unmask f /\
    w_log w' = w_log w ++ l ++ [EvFlush FlOk] ++ l2 /\ queued l = [f1] /\
    wire l = c_out (x_codec x) ++ frame_format f1.
Proof. exact read_sent. Qed.

(* C11_pong_sent, write: a data write that returns Ok with nothing left parked has written the data
   frame, then the parked frame, and flushed. *)
Theorem C11_pong_sent_write : forall x m d w f x' w',
  x_state x = Active -> msg_frame m = Some d ->
  x_additional x = Some f -> write x m w = (ROk tt, x', w') -> x_additional x' = None ->
  exists d1 f1 l, unmask d1 = unmask d /\ unmask f1 = unmask f /\
    w_log w' = w_log w ++ l ++ [EvFlush FlOk] /\ queued l = [d1; f1] /\
    wire l = c_out (x_codec x) ++ frame_format d1 ++ frame_format f1 /\
    c_out (x_codec x') = [].
Proof. exact write_sent. Qed.

(* C11_pong_sent, queued frames: after any run, a successful flush leaves every frame queued so far
   (in particular a pong queued by an earlier, blocked call) on the wire, and ends with EvFlush FlOk. *)
Theorem C11_pong_sent_queued : forall r part cfg x0 w0 ops rs x w x' w',
  ctx_new r part cfg = Some x0 -> w_log w0 = [] ->
  run_ops x0 ops w0 = (rs, x, w) ->
  flush x w = (ROk tt, x', w') ->
  wire (w_log w') = encq (queued (w_log w')) /\
  (exists l, w_log w' = l ++ [EvFlush FlOk]) /\
  forall f1, In f1 (queued (w_log w')) -> exists a b, wire (w_log w') = a ++ frame_format f1 ++ b.
Proof. exact flushed_all. Qed.

(* C11_blocked: if the preliminary flush of read() hits WouldBlock (on a transport write or on the
   transport flush), the same read call goes on to read with unflushed_additional set (so the next call
   flushes again); the frame is still parked or has been queued, and no byte was lost: bytes written ++
   bytes still in out_buffer = bytes buffered before ++ encoding of the frames queued meanwhile. *)
Theorem C11_blocked : forall x w f x1 w1,
  is_terminated (x_state x) = false -> x_additional x = Some f ->
  flush x w = (RErr (EIo WouldBlock), x1, w1) ->
  read x w = read_go (read_fuel x w) (set_unflushed x1 true) w1 /\
  (still_parked f x1 \/ now_queued f w w1) /\
  (exists l, ext w w1 l /\ wire l ++ c_out (x_codec x1) = c_out (x_codec x) ++ encq (queued l)) /\
  must_flush (set_unflushed x1 true).
Proof. exact read_blocked. Qed.

(* ---- non-vacuity ---- *)
Definition ex_cfg : config := mkConfig 131072 u64_max (Some 67108864) (Some 16777216) false.
Definition ex_ctx (r : role) : ctx :=
  match ctx_new r [] ex_cfg with
  | Some x => x
  | None => mkCtx r (codec_new []) Terminated None None false ex_cfg
  end.
(* a masked Ping "x" from a client: 89 81 00000000 78 *)
Definition ex_ping : bytes := [137; 129; 0; 0; 0; 0; 120].
Definition ex_world (wrs : list wr_out) : world := mkWorld [RdData ex_ping] wrs [FlOk; FlOk] [] [].
(* the server after it has read that ping *)
Definition ex_after_ping (wrs : list wr_out) : ctx * world :=
  let '(_, x, w) := read (ex_ctx Server) (ex_world wrs) in (x, w).

(* hypotheses of C11_pong_pending *)
Example C11_pending_example :
  exists x' w', ctx_new Server [] ex_cfg = Some (ex_ctx Server) /\
    run_ops (ex_ctx Server) [] (ex_world []) = ([], ex_ctx Server, ex_world []) /\
    read (ex_ctx Server) (ex_world []) = (ROk (MPing [120]), x', w') /\ x_state x' = Active.
Proof. do 2 eexists. vm_compute. repeat split. Qed.

(* hypotheses of C11_pong_sent_flush / C11_pong_taken / C11_pong_sent_read (transport accepts) *)
Example C11_sent_example :
  let '(x, w) := ex_after_ping [WrAccept 1000] in
  x_additional x = Some (frame_pong [120]) /\ buffer_full x w (frame_pong [120]) = false /\
  is_terminated (x_state x) = false /\
  exists x' w', flush x w = (ROk tt, x', w') /\ x_additional x' = None /\
                wire (w_log w') = [138; 1; 120].
Proof. vm_compute. repeat split. do 2 eexists. repeat split. Qed.

(* hypotheses of C11_pong_sent_write *)
Example C11_sent_write_example :
  let '(x, w) := ex_after_ping [WrAccept 1000] in
  exists x' w', x_state x = Active /\ msg_frame (MBinary [1]) = Some (frame_message [1] (OData Binary) true) /\
    write x (MBinary [1]) w = (ROk tt, x', w') /\ x_additional x' = None /\
    wire (w_log w') = [130; 1; 1; 138; 1; 120].
Proof. vm_compute. do 2 eexists. repeat split. Qed.

(* hypotheses of C11_blocked (the transport accepts nothing) *)
Example C11_blocked_example :
  let '(x, w) := ex_after_ping [] in
  x_additional x = Some (frame_pong [120]) /\ is_terminated (x_state x) = false /\
  exists x1 w1, flush x w = (RErr (EIo WouldBlock), x1, w1) /\
                queued (w_log w1) = [frame_pong [120]] /\ c_out (x_codec x1) = [138; 1; 120].
Proof. vm_compute. repeat split. do 2 eexists. repeat split. Qed.

(* hypotheses of C11_pong_kept_run / C11_order_no_invention: ping read, then flush *)
Example C11_run_example :
  exists rs x' w',
    run_ops (ex_ctx Server) [OpRead; OpFlush] (ex_world [WrAccept 1000]) = (rs, x', w') /\
    Forall no_raw_ctl [OpRead; OpFlush] /\
    pong_srcs [OpRead; OpFlush] rs = [[120]] /\ ppl (queued (w_log w')) = [[120]] /\
    wire (w_log w') = [138; 1; 120].
Proof. do 3 eexists. vm_compute. repeat split; repeat constructor. Qed.

Example C11_kept_run_example :
  let '(x, w) := ex_after_ping [] in
  exists rs x' w', run_ops x [OpCanRead; OpFlush] w = (rs, x', w') /\
    Forall2 (fun o rn => ~ supersedes o (fst rn)) [OpCanRead; OpFlush] rs.
Proof. vm_compute. do 3 eexists. split; [reflexivity|]. repeat constructor; intros H; exact H. Qed.

Print Assumptions C11_pong_pending.
Print Assumptions C11_pong_kept.
Print Assumptions C11_pong_kept_run.
Print Assumptions C11_order_no_invention.
Print Assumptions C11_no_invention_auto.
Print Assumptions C11_pong_sent_flush.
Print Assumptions C11_pong_taken.
Print Assumptions C11_pong_sent_read.
Print Assumptions C11_pong_sent_write.
Print Assumptions C11_pong_sent_queued.
Print Assumptions C11_blocked.
