(* props/C19.v — property theorems for C19 only:
   masking XORs each payload byte with its key byte at any length and alignment.
   mask_fast32 p k buf models apply_mask_fast32 with p = the prefix length returned by
   align_to_mut (an address fact); every theorem quantifies over ALL p, all keys, all buffers
   (no bound on the length).  Bytes are N; "wf" = every byte < 256 (the only values a u8 can hold). *)
From TungModel Require Import Base Coding Mask Header Frame World Message Codec Protocol.
From TungModel.proofs Require Import MaskP.

(* the word-wise path equals the byte-wise specification for every prefix length p
   (also those align_to_mut never returns), every key, every buffer *)
Theorem C19_fast_is_spec : forall (p : N) (k : key) (buf : bytes),
  wf_key k = true -> wf_bytes buf = true -> mask_fast32 p k buf = xor_cyc k buf.
Proof. exact mask_fast32_spec. Qed.

(* the function the rest of the model calls (apply_mask) is that path at every alignment *)
Theorem C19_apply_mask_is_fast : forall (p : N) (k : key) (buf : bytes),
  wf_key k = true -> wf_bytes buf = true -> apply_mask k buf = mask_fast32 p k buf.
Proof. exact apply_mask_is_fast. Qed.

(* the wf hypotheses are exactly the u8 range: without them the packed-word model differs *)
Theorem C19_wf_needed :
  (exists p k buf, wf_key k = true /\ mask_fast32 p k buf <> xor_cyc k buf) /\
  (exists p k buf, wf_bytes buf = true /\ mask_fast32 p k buf <> xor_cyc k buf).
Proof. exact (conj mask_fast32_needs_wf_buf mask_fast32_needs_wf_key). Qed.

(* byte i becomes byte i XOR key[i mod 4]; nothing else exists in the result (same length);
   bytes stay bytes *)
Theorem C19_pointwise : forall (k : key) (buf : bytes),
  length (xor_cyc k buf) = length buf
  /\ (forall i : nat, (i < length buf)%nat ->
        nth i (xor_cyc k buf) 0 = N.lxor (nth i buf 0) (nth (Nat.modulo i 4) (key_bytes k) 0))
  /\ (wf_key k = true -> wf_bytes buf = true -> wf_bytes (xor_cyc k buf) = true).
Proof. exact xor_cyc_pointwise_pack. Qed.

(* the same with the model's binary-natural indices: position i (as N) uses key byte i mod 4 *)
Theorem C19_pointwise_N : forall (k : key) (buf : bytes) (i : N), i < blen buf ->
  nth (N.to_nat i) (xor_cyc k buf) 0
  = N.lxor (nth (N.to_nat i) buf 0) (nth (N.to_nat (i mod 4)) (key_bytes k) 0).
Proof. intros k buf i. exact (xor_cyc_nthN buf k i). Qed.

(* the same, stated directly on the word-wise path at an arbitrary alignment *)
Theorem C19_pointwise_fast : forall (p : N) (k : key) (buf : bytes),
  wf_key k = true -> wf_bytes buf = true ->
  length (mask_fast32 p k buf) = length buf
  /\ (forall i : nat, (i < length buf)%nat ->
        nth i (mask_fast32 p k buf) 0 = N.lxor (nth i buf 0) (nth (Nat.modulo i 4) (key_bytes k) 0))
  /\ wf_bytes (mask_fast32 p k buf) = true.
Proof. exact mask_fast32_pointwise_pack. Qed.

(* applying the mask twice restores the original (spec: any key, any bytes;
   fast path: the two applications may run at different alignments) *)
Theorem C19_involution : forall (k : key) (buf : bytes), xor_cyc k (xor_cyc k buf) = buf.
Proof. intros k buf. exact (xor_cyc_involutive buf k). Qed.

Theorem C19_involution_fast : forall (p q : N) (k : key) (buf : bytes),
  wf_key k = true -> wf_bytes buf = true -> mask_fast32 q k (mask_fast32 p k buf) = buf.
Proof. exact mask_fast32_involutive. Qed.

(* encode path: format_into_buf appends header ++ masked payload; the bytes already in the shared
   buffer and the header bytes are untouched; the in-place masking of the appended range may run
   at any alignment p *)
Theorem C19_in_place : forall (pre : bytes) (f : frame),
  takeN (blen pre) (frame_format_into_buf pre f) = pre
  /\ frame_format_into_buf pre f = pre ++ frame_format f
  /\ match h_mask (f_hdr f) with
     | Some k =>
         frame_format_into_buf pre f
         = pre ++ header_format (f_hdr f) (blen (f_payload f)) ++ xor_cyc k (f_payload f)
     | None =>
         frame_format_into_buf pre f
         = pre ++ header_format (f_hdr f) (blen (f_payload f)) ++ f_payload f
     end.
Proof. exact format_into_buf_pack. Qed.

Theorem C19_in_place_fast : forall (p : N) (pre : bytes) (f : frame) (k : key),
  h_mask (f_hdr f) = Some k -> wf_key k = true -> wf_bytes (f_payload f) = true ->
  let buf1 := pre ++ header_format (f_hdr f) (blen (f_payload f)) in
  let buf2 := buf1 ++ f_payload f in
  takeN (blen buf1) buf2 ++ mask_fast32 p k (dropN (blen buf1) buf2) = frame_format_into_buf pre f
  /\ frame_format_into_buf pre f
     = pre ++ header_format (f_hdr f) (blen (f_payload f)) ++ mask_fast32 p k (f_payload f).
Proof. exact format_into_buf_fast. Qed.

(* client write path: WebSocketContext::buffer_frame of a client takes the next key k of the
   oracle and (unless the buffer is full) the shared out_buffer becomes
   old contents ++ header(with k) ++ xor_cyc k payload before anything reaches the transport *)
Theorem C19_client_write : forall (x : ctx) (f : frame) (w : world),
  x_role x = Client ->
  buffer_frame x f w
  = let k := fst (w_next_key w) in
    let w' := snd (w_next_key w) in
    let f1 := client_frame f k in
    let c := x_codec x in
    let '(r, c', w2) :=
      if c_max_out c <? frame_len f1 + blen (c_out c) then (RErr (EWriteBufferFull f1), c, w')
      else if c_write_len c <? blen (c_out (out_after c f1 k))
           then write_out_buffer (out_after c f1 k) (w_emit w' (EvQueue f1))
           else (ROk tt, out_after c f1 k, w_emit w' (EvQueue f1)) in
    let '(r', s') := check_connection_reset r (x_state x) in
    (r', set_state (set_codec x c') s', w2).
Proof. exact buffer_frame_client. Qed.

(* decode path (server role, unmask = true), for every size limit, buffer state and transport
   oracle: a delivered frame carries xor_cyc key of the wire payload p, where p is the slice of
   the byte stream (read buffer ++ chunks read) directly after the header, |p| = announced length,
   and the bytes after p remain in the read buffer unchanged *)
Theorem C19_in_place_read : forall (ms : option N) (acc : bool) (c c' : codec) (w w' : world) (f : frame),
  read_frame ms true acc c w = (ROk (Some f), c', w') ->
  exists h p used,
    w_rds w = rd_chunks used ++ w_rds w'
    /\ c_hdr c' = None
    /\ frame_at (c_hdr c) (c_in c ++ concat used) h (blen p) p (c_in c')
    /\ match h_mask h with
       | Some k => f = mkFrame (unmasked_header h) (xor_cyc k p)
       | None => acc = true /\ f = mkFrame h p
       end.
Proof. exact read_frame_unmask_stream. Qed.

(* and every masked frame the loop splits off is delivered that way *)
Theorem C19_read_unmasks : forall (ms : option N) (acc : bool) (c c' : codec) (w : world)
    (h : header) (len : N) (p : bytes) (k : key) (rds' : list rd_out) (log' : list event),
  read_frame_loop (limit_of ms) (w_rds w) c (w_log w) = (ROk (Some (h, len, p)), c', rds', log') ->
  h_mask h = Some k ->
  read_frame ms true acc c w
  = (ROk (Some (mkFrame (unmasked_header h) (xor_cyc k p))), c',
     mkWorld rds' (w_wrs w) (w_fls w) (w_keys w) log').
Proof. exact read_frame_unmask_complete. Qed.

(* PARTIAL (named in the design): "bytes adjacent to the payload are never touched" / memory safety
   of the unsafe align_to_mut reinterpretation is a fact about machine memory and is not
   expressible in the list model.  What the list model does say about neighbours is proved:
   bytes before the payload in the write buffer (C19_in_place) and bytes after the payload in the
   read buffer (c_in c' in C19_in_place_read) are unchanged, and the result has the same length.
   The rest is covered by the harness only (neighbouring bytes compared, E1+E2). *)
Theorem C19_adjacent_partial : forall (p : N) (pre post : bytes) (k : key) (payload : bytes),
  wf_key k = true -> wf_bytes payload = true ->
  let buf := pre ++ payload ++ post in
  let lo := blen pre in
  let n := blen payload in
  (* masking the range [lo, lo+n) of buf in place *)
  let buf' := takeN lo buf ++ mask_fast32 p k (takeN n (dropN lo buf)) ++ dropN n (dropN lo buf) in
  buf' = pre ++ xor_cyc k payload ++ post /\ blen buf' = blen buf.
Proof. exact mask_range_in_place. Qed.

(* ---- non-vacuity ---- *)
(* the Rust unit-test vector (mask 6d b6 b2 80), run through the word path at alignment 3 *)
Example C19_ex_fast :
  mask_fast32 3 (109, 182, 178, 128) [243; 0; 1; 2; 3; 128; 129; 130; 255; 254; 0; 23; 116; 249; 18; 3]
  = xor_cyc (109, 182, 178, 128) [243; 0; 1; 2; 3; 128; 129; 130; 255; 254; 0; 23; 116; 249; 18; 3]
  /\ wf_key (109, 182, 178, 128) = true.
Proof. split; reflexivity. Qed.

(* a masked 5-byte text frame, 2 bytes of the next frame behind it, is read and unmasked *)
Example C19_ex_read :
  read_frame None true false
    (codec_new [129; 133; 1; 2; 3; 4; 105; 103; 111; 104; 110; 129; 0])
    (mkWorld [] [] [] [] [])
  = (ROk (Some (mkFrame (mkHeader true false false false (OData Text) None) [104; 101; 108; 108; 111])),
     codec_new [129; 0], mkWorld [] [] [] [] []).
Proof. reflexivity. Qed.

(* a client queues a masked frame behind 3 bytes already in out_buffer *)
Example C19_ex_write :
  exists x w, x_role x = Client /\
    c_out (x_codec (snd (fst (buffer_frame x (frame_message [104; 101; 108; 108; 111] (OData Text) true) w))))
    = [9; 9; 9] ++ [129; 133; 1; 2; 3; 4] ++ [105; 103; 111; 104; 110].
Proof.
  exists (mkCtx Client (mkCodec [] [9; 9; 9] 1000 100 None) Active None None false
            (mkConfig 100 1000 None None false)),
         (mkWorld [] [] [] [(1, 2, 3, 4)] []).
  split; reflexivity.
Qed.

Print Assumptions C19_fast_is_spec.
Print Assumptions C19_apply_mask_is_fast.
Print Assumptions C19_wf_needed.
Print Assumptions C19_pointwise.
Print Assumptions C19_pointwise_N.
Print Assumptions C19_pointwise_fast.
Print Assumptions C19_involution.
Print Assumptions C19_involution_fast.
Print Assumptions C19_in_place.
Print Assumptions C19_in_place_fast.
Print Assumptions C19_client_write.
Print Assumptions C19_in_place_read.
Print Assumptions C19_read_unmasks.
Print Assumptions C19_adjacent_partial.
