(* props/C08b.v — C08b: the accessor / conversion API of Message and Frame (MessageApi.v):
   into_text / to_text give valid UTF-8 equal to the data, len / is_empty, Display, constructors, kinds.
   Spec: valid_utf8 (Unicode Table 3-7), defined in proofs/Utf8P.v. *)
From TungModel Require Import Base Coding Mask Header Frame Utf8 World Message MessageApi Codec Protocol.
From TungModel.proofs Require Import Utf8P MessageApiP.

(* ---- T1/T2: Message::into_text / to_text --------------------------------------------------------- *)
(* on a Rust value of type Message (wf_msg: the Utf8Bytes fields are valid) a returned text is valid
   UTF-8 and is exactly the data of the message *)
Theorem C08b_into_text_valid : forall m t,
  wf_msg m = true -> msg_into_text m = Some t -> valid_utf8 t /\ t = msg_into_data m.
Proof. exact msg_into_text_valid. Qed.

Example C08b_into_text_valid_nonvacuous :
  wf_msg (MBinary [0xC3; 0xA9]) = true /\ msg_into_text (MBinary [0xC3; 0xA9]) = Some [0xC3; 0xA9] /\
  wf_msg (MClose (Some (CNormal, [0x62; 0x79; 0x65]))) = true /\
  msg_into_text (MClose (Some (CNormal, [0x62; 0x79; 0x65]))) = Some [0x62; 0x79; 0x65].
Proof. repeat split. Qed.

(* it fails exactly on a non-text, non-close message whose data is not UTF-8 *)
Theorem C08b_into_text_none_iff : forall m,
  msg_into_text m = None <->
  (msg_is_text m = false /\ msg_is_close m = false /\ is_utf8 (msg_into_data m) = false).
Proof. exact msg_into_text_none_iff. Qed.

Example C08b_into_text_none_nonvacuous : msg_into_text (MPing [0xFF]) = None.
Proof. reflexivity. Qed.

(* ---- T3: Message::len / is_empty, Frame::len / is_empty ------------------------------------------- *)
Theorem C08b_len_data : forall m, (forall f, m <> MFrame f) -> msg_len m = blen (msg_into_data m).
Proof. exact msg_len_data. Qed.

Theorem C08b_len_frame : forall f,
  msg_len (MFrame f) = header_len (f_hdr f) (blen (f_payload f)) + blen (f_payload f) /\
  2 <= frame_len f /\ frame_is_empty f = false.
Proof. exact msg_len_frame. Qed.

Theorem C08b_is_empty : forall m, msg_is_empty m = true <-> msg_len m = 0.
Proof. exact msg_is_empty_iff. Qed.

(* ---- T4: impl Display for Message ----------------------------------------------------------------- *)
Theorem C08b_display : forall m,
  (forall t, msg_into_text m = Some t -> msg_display m = t) /\
  (msg_into_text m = None ->
   msg_display m = display_prefix ++ dec_digits (msg_len m) ++ display_suffix).
Proof. exact msg_display_spec. Qed.

(* dec_digits n is the decimal numeral of n: digits only, value n, no leading zero, "0" for 0 *)
Theorem C08b_dec_digits : forall n,
  Forall (fun d => 48 <= d <= 57) (dec_digits n) /\
  fold_left (fun a d => 10 * a + (d - 48)) (dec_digits n) 0 = n /\
  (n <> 0 -> hd 0 (dec_digits n) <> 48) /\
  dec_digits 0 = [48].
Proof. exact dec_digits_spec. Qed.

(* "Binary Data<length=3>" *)
Example C08b_display_binary :
  msg_display (MBinary [0xFF; 0x00; 0x01]) =
  [66;105;110;97;114;121;32;68;97;116;97;60;108;101;110;103;116;104;61;51;62] /\
  dec_digits 18446744073709551615 = [49;56;52;52;54;55;52;52;48;55;51;55;48;57;53;53;49;54;49;53].
Proof. split; vm_compute; reflexivity. Qed.

(* what Display writes is always a string *)
Theorem C08b_display_valid : forall m, wf_msg m = true -> valid_utf8 (msg_display m).
Proof. exact msg_display_valid. Qed.

(* ---- T5: messages returned by read, any history of API calls on a fresh connection ---------------- *)
Theorem C08b_read_accessors : forall (r : role) (part : bytes) (cfg : config) (x : ctx),
  ctx_new r part cfg = Some x ->
  forall (ops : list op) (w : world),
  Forall (fun p => match fst p with
                   | ResMsg (ROk m) =>
                       wf_msg m = true /\
                       (forall t, msg_into_text m = Some t -> valid_utf8 t /\ t = msg_into_data m)
                   | _ => True
                   end) (fst (fst (run_ops x ops w))).
Proof. exact run_ops_read_accessors. Qed.

Definition c08b_cfg : config := mkConfig 131072 u64_max (Some 67108864) (Some 16777216) false.
Definition c08b_world (wire : bytes) : world := mkWorld [RdData wire] [] [] [] [].

(* a server reads the masked (key 0) binary frame C3 A9; to_text on it gives "é" *)
Example C08b_read_accessors_nonvacuous :
  exists x, ctx_new Server [] c08b_cfg = Some x /\
  fst (fst (run_ops x [OpRead] (c08b_world [0x82; 0x82; 0; 0; 0; 0; 0xC3; 0xA9]))) =
    [(ResMsg (ROk (MBinary [0xC3; 0xA9])), 2)] /\
  msg_into_text (MBinary [0xC3; 0xA9]) = Some [0xC3; 0xA9].
Proof. eexists. split; [reflexivity | split; vm_compute; reflexivity]. Qed.

(* ---- T6: constructors and kind predicates --------------------------------------------------------- *)
Theorem C08b_constructors : forall s b,
  msg_into_data (msg_text s) = s /\ msg_into_text (msg_text s) = Some s /\
  msg_len (msg_text s) = blen s /\ msg_is_text (msg_text s) = true /\
  msg_into_data (msg_binary b) = b /\ msg_len (msg_binary b) = blen b /\
  msg_is_binary (msg_binary b) = true.
Proof. exact msg_constructors. Qed.

Theorem C08b_kind_exclusive : forall m,
  match m with
  | MFrame _ => msg_is_text m = false /\ msg_is_binary m = false /\ msg_is_ping m = false /\
                msg_is_pong m = false /\ msg_is_close m = false
  | _ => count_occ Bool.bool_dec
           [msg_is_text m; msg_is_binary m; msg_is_ping m; msg_is_pong m; msg_is_close m] true = 1%nat
  end.
Proof. exact msg_kind_exclusive. Qed.

Print Assumptions C08b_into_text_valid.
Print Assumptions C08b_into_text_none_iff.
Print Assumptions C08b_len_data.
Print Assumptions C08b_len_frame.
Print Assumptions C08b_is_empty.
Print Assumptions C08b_display.
Print Assumptions C08b_dec_digits.
Print Assumptions C08b_display_valid.
Print Assumptions C08b_read_accessors.
Print Assumptions C08b_constructors.
Print Assumptions C08b_kind_exclusive.
