(* props/C07.v — property theorems for C07, socket part (established sockets, both roles).
   C07: For every inbound byte stream and every transport behaviour allowed by the Read/Write contracts -
   any segmentation, WouldBlock, short or zero-length writes, errors and EOF at any point - every call of
   the socket and handshake API returns a value or an error after a bounded amount of work; it never
   panics, overflows or spins. This covers handshakes in both roles and established sockets in both
   roles, with finite size limits configured.

   Scope of this file: the socket model (Protocol.run_ops over read / write / flush / close / can_read /
   can_write / set_config, raw frames allowed in writes). The handshake part (C07_no_panic_handshake) is
   NOT in this file.

   Quantification: all roles, all initial in-buffer contents `part`, all configs accepted by
   WebSocketConfig::assert_valid with finite limits F, M, all op lists, all worlds (read / write / flush
   oracles and mask keys).

   Spec definitions from proofs/LimitsP.v:
     is_panic r s       = r is ResMsg (RPanic s) or ResUnit (RPanic s)
     is_out_of_fuel r   = r is ResMsg ROutOfFuel or ResUnit ROutOfFuel
     op_ok o            = o is not set_config, or it is OpSetBuf wbs mx with wbs < mx (the documented
                          assert_valid precondition)
     ctx_inv M x        = state invariant established by ctx_new (see props/C06.v)
   Explicit hypothesis for the overflow site (`my_size + portion_size` in IncompleteMessage::extend):
     M + F < 2^64   (implied by M < 2^63 and F < 2^63). *)
From TungModel Require Import Base Coding Mask Header Frame Utf8 World Message Codec Protocol.
From TungModel.proofs Require Import LimitsP.

(* no operation of any op list panics. Sites covered (World.v): read_frame's expect (1), do_close's
   unreachable! (2), read_message_frame's panic! (3), OpCode::from / parse_internal assert (5), the utf-8
   crate's unwraps and Incomplete::new copy (6), usize overflow (7), debug_assert on payload length (9);
   site 8 (assert_valid) is excluded by op_ok and by ctx_new succeeding. *)
Theorem C07_no_panic_socket : forall F M role part cfg x ops w rs x' w',
  cfg_max_frame_size cfg = Some F -> cfg_max_message_size cfg = Some M -> M + F < two64 ->
  ctx_new role part cfg = Some x ->
  Forall op_ok ops ->
  run_ops x ops w = (rs, x', w') ->
  forall r n s, In (r, n) rs -> ~ is_panic r s.
Proof. exact ops_no_panic. Qed.

(* the fuel computed inside Protocol.read (1 + |in_buffer| + bytes the read oracle can still deliver)
   always suffices: no operation returns OutOfFuel (no hypothesis on M + F, none on set_config) *)
Theorem C07_bounded_work : forall F M role part cfg x ops w rs x' w',
  cfg_max_frame_size cfg = Some F -> cfg_max_message_size cfg = Some M ->
  ctx_new role part cfg = Some x ->
  run_ops x ops w = (rs, x', w') ->
  forall r n, In (r, n) rs -> ~ is_out_of_fuel r.
Proof. exact ops_no_fuel. Qed.

(* why: an iteration of read's loop that does not return has consumed peer bytes — the quantity
   |in_buffer| + (bytes the transport can still deliver) strictly decreases; read_frame's own loop and
   write_out_buffer's loop are structural recursions on the transport oracles (one transport call per
   iteration) *)
Theorem C07_bounded_work_progress : forall F M x w x' w',
  cfg_max_frame_size (x_cfg x) = Some F -> cfg_max_message_size (x_cfg x) = Some M ->
  hdr_pos (x_codec x) ->
  read_message_frame x w = (ROk None, x', w') ->
  (length (c_in (x_codec x')) + rd_bytes (w_rds w') < length (c_in (x_codec x)) + rd_bytes (w_rds w))%nat.
Proof. exact read_iteration_consumes. Qed.

(* no arithmetic overflow: site_overflow is never reported (for every op list, including invalid
   set_config calls) *)
Theorem C07_no_overflow : forall F M role part cfg x ops w rs x' w',
  cfg_max_frame_size cfg = Some F -> cfg_max_message_size cfg = Some M -> M + F < two64 ->
  ctx_new role part cfg = Some x ->
  run_ops x ops w = (rs, x', w') ->
  forall r n, In (r, n) rs -> ~ is_panic r site_overflow.
Proof. exact ops_no_overflow. Qed.

(* the overflow site itself: an accumulator within M extended by a payload within F *)
Theorem C07_no_overflow_site : forall F M m tail,
  incmsg_len m <= M -> blen tail <= F -> M + F < two64 ->
  fst (incmsg_extend m tail (Some M)) <> RPanic site_overflow.
Proof. exact extend_no_overflow. Qed.

(* the three statements from any state satisfying the invariant (not only fresh sockets), with the
   invariant re-established at the end *)
Theorem C07_socket_safe_from_invariant : forall F M x ops w rs x' w',
  cfg_max_frame_size (x_cfg x) = Some F -> cfg_max_message_size (x_cfg x) = Some M ->
  ctx_inv M x ->
  run_ops x ops w = (rs, x', w') ->
  ctx_inv M x' /\
  (forall r n, In (r, n) rs -> ~ is_out_of_fuel r) /\
  (M + F < two64 -> forall r n, In (r, n) rs -> ~ is_panic r site_overflow) /\
  (M + F < two64 -> Forall op_ok ops -> forall r n s, In (r, n) rs -> ~ is_panic r s).
Proof. exact ops_safe_from_inv. Qed.

(* complete list of the panics the socket model can produce from a state satisfying the invariant:
   the overflow site when M + F >= 2^64, and assert_valid on an invalid set_config *)
Theorem C07_panic_sites : forall F M x o w res x' w' s,
  cfg_max_frame_size (x_cfg x) = Some F -> cfg_max_message_size (x_cfg x) = Some M ->
  ctx_inv M x -> run_op x o w = (res, x', w') -> is_panic res s ->
  (s = site_overflow /\ two64 <= M + F) \/
  (s = site_config_invalid /\ exists wbs mx, o = OpSetBuf wbs mx /\ mx <= wbs).
Proof. exact op_panic_sites. Qed.

(* WebSocketConfig::assert_valid (documented panic) is an explicit branch *)
Theorem C07_config_panic_explicit : forall x wbs mx w,
  mx <= wbs -> run_op x (OpSetBuf wbs mx) w = (ResUnit (RPanic site_config_invalid), x, w).
Proof. exact setbuf_invalid. Qed.
Theorem C07_config_new_explicit : forall role part cfg,
  ctx_new role part cfg = None <-> cfg_max_write_buffer_size cfg <= cfg_write_buffer_size cfg.
Proof. exact ctx_new_invalid. Qed.

(* ---- non-vacuity ---- *)

Definition ex_cfg : config := mkConfig 0 100 (Some 10) (Some 10) false.

(* the hypotheses are satisfiable (server role, masked inbound frames, a raw frame with reserved bits and
   opcode written by the user, a zero-length write, set_config, close) and such a run does deliver data *)
Example C07_ex_run :
  match ctx_new Server [] ex_cfg with
  | Some x =>
      map fst (fst (fst (run_ops x
        [OpRead; OpWrite (MFrame (mkFrame (mkHeader true true false false (OCtl (CReserved 11)) None) [1; 2; 3]));
         OpRead; OpSetBuf 5 6; OpClose None; OpRead; OpFlush; OpRead]
        (mkWorld [RdData [137; 128; 1; 2; 3; 4]; RdData [1; 130; 1; 2; 3; 4; 9; 9]; RdData [128; 131; 0; 0; 0; 0; 7; 7; 7]]
                 [WrAccept 3; WrAccept 0] [FlOk] [] []))))
  | None => []
  end =
  [ResMsg (ROk (MPing [])); ResUnit (RErr (EIo ConnReset)); ResMsg (ROk (MText [8; 11; 7; 7; 7]));
   ResUnit (ROk tt); ResUnit (RErr (EIo WouldBlock)); ResMsg (RErr (EIo WouldBlock));
   ResUnit (RErr (EIo WouldBlock)); ResMsg (RErr (EIo WouldBlock))].
Proof. vm_compute. reflexivity. Qed.
Example C07_ex_hyps : Forall op_ok [OpRead; OpSetBuf 5 6; OpClose None] /\ 10 + 10 < two64.
Proof. split; [repeat constructor|reflexivity]. Qed.

(* the state hypothesis (ctx_new / ctx_inv) cannot be dropped: from states no run reaches, the utf-8
   crate's checked_sub(..).unwrap() panics, and read's fuel is one short *)
Example C07_ex_invariant_needed_panic :
  fst (fst (read (mkCtx Client (codec_new [128; 1; 65]) Active
                        (Some (ITxt (mkCollector [] (Some [65; 255])))) None false ex_cfg)
                 (mkWorld [] [] [] [] []))) = RPanic site_utf8_checked_sub.
Proof. vm_compute. reflexivity. Qed.
Example C07_ex_invariant_needed_fuel :
  fst (fst (read (mkCtx Client
                        (mkCodec [] [] 100 0 (Some (mkHeader false false false false (OData Binary) None, 0)))
                        Active None None false ex_cfg)
                 (mkWorld [] [] [] [] []))) = ROutOfFuel.
Proof. vm_compute. reflexivity. Qed.

(* "finite size limits" cannot be dropped: with max_frame_size = None an announced length of 2^64-1
   makes the codec call in_buffer.reserve(2^64-1), which panics in the real crate (capacity overflow) *)
Example C07_ex_unbounded_reserve :
  w_log (snd (read_frame None false false
                (codec_new [130; 127; 255; 255; 255; 255; 255; 255; 255; 255]) (mkWorld [] [] [] [] []))) =
  [EvReserve 18446744073709551615; EvRead (RdErr WouldBlock)].
Proof. vm_compute. reflexivity. Qed.

Print Assumptions C07_no_panic_socket.
Print Assumptions C07_bounded_work.
Print Assumptions C07_bounded_work_progress.
Print Assumptions C07_no_overflow.
Print Assumptions C07_no_overflow_site.
Print Assumptions C07_socket_safe_from_invariant.
Print Assumptions C07_panic_sites.
Print Assumptions C07_config_panic_explicit.
Print Assumptions C07_config_new_explicit.
