(* props/C16b.v — C16 for requests built with ClientRequestBuilder (URL + extra headers + subprotocols).

   Model: Client.v ([builder_request], [builder_request_bytes]) on top of Handshake.v.
   [builder_request authority key extra subs] = the five URL-derived headers, then the user's [extra]
   headers APPENDED (lower-case names, otherwise arbitrary: they may repeat a mandatory name), then
   [sec-websocket-protocol: join ", " subs] when [subs] is not empty.
   [builder_request_bytes authority path key extra subs] = generate_request on that list.

   Vocabulary (proofs/HandshakeP.v, proofs/ClientP.v):
   - extra_headers hs : the headers of hs whose name is not one of the five mandatory ones, in order
   - extra_lines hs   : their lines "<fix_name name>: <value>\r\n" (fix_name: Origin, Sec-WebSocket-Protocol)
   - sub_header subs  : [] or [(sec-websocket-protocol, join ", " subs)];  sub_line subs : its line
   - values_visible hs / all_visible subs : every value / every subprotocol is visible ASCII (to_str succeeds)
   - spec_parse_request : the reference reader of C16;  lower_names : names lower-cased as HeaderMap does
   - line_count wn L  : number of header lines of L whose name equals wn ignoring ASCII case
   KEY FRESHNESS is not expressible (the key is an input), as in C16. *)
From Coq Require Import String Ascii.
From TungModel Require Import Base Coding Mask Header Frame World Message Codec Protocol Sha1 Handshake Client.
From TungModel.proofs Require Import HandshakeP ClientP.

(* ---- the request on the wire: the URL-derived mandatory headers win ---- *)

(* For ANY extra headers (also ones named host, connection, upgrade, sec-websocket-version,
   sec-websocket-key) with visible-ASCII values, a visible-ASCII host and key and visible-ASCII
   subprotocols: the request is produced, the key returned is the given key, and the bytes are the
   request line, the five mandatory lines with the URL-derived values, the lines of exactly those extra
   headers whose name is not mandatory (in order), the subprotocol line if any, and the blank line.
   User-supplied duplicates of mandatory headers never reach the wire and never replace a value. *)
Theorem C16_builder_required_win :
  forall (a p key : bytes) (extra : headers) (subs : list bytes),
  host_of_authority a <> [] ->
  forallb visible (host_of_authority a) = true -> forallb visible key = true ->
  values_visible extra = true -> all_visible subs = true ->
  builder_request_bytes (Some a) (Some p) key extra subs =
  HOk (B"GET " ++ p ++ B" HTTP/1.1" ++ crlf ++
       B"Host: " ++ host_of_authority a ++ crlf ++
       B"Connection: Upgrade" ++ crlf ++
       B"Upgrade: websocket" ++ crlf ++
       B"Sec-WebSocket-Version: 13" ++ crlf ++
       B"Sec-WebSocket-Key: " ++ key ++ crlf ++
       extra_lines (extra_headers extra) ++ sub_line subs ++ crlf, key).
Proof. exact builder_request_bytes_wire_all. Qed.

(* Sharp form: necessary and sufficient.  Only the values of the extras that are NOT duplicates of a
   mandatory header have to be visible ASCII (the duplicates are dropped without being looked at). *)
Theorem C16_builder_required_win_iff :
  forall (a p key : bytes) (extra : headers) (subs : list bytes) (req k : bytes),
  builder_request_bytes (Some a) (Some p) key extra subs = HOk (req, k) <->
  host_of_authority a <> [] /\ forallb visible (host_of_authority a) = true /\ forallb visible key = true /\
  values_visible (extra_headers extra) = true /\ all_visible subs = true /\ k = key /\
  req = B"GET " ++ p ++ B" HTTP/1.1" ++ crlf ++
        B"Host: " ++ host_of_authority a ++ crlf ++
        B"Connection: Upgrade" ++ crlf ++
        B"Upgrade: websocket" ++ crlf ++
        B"Sec-WebSocket-Version: 13" ++ crlf ++
        B"Sec-WebSocket-Key: " ++ key ++ crlf ++
        extra_lines (extra_headers extra) ++ sub_line subs ++ crlf.
Proof. exact builder_request_bytes_iff. Qed.

(* the header list itself, and the URL errors (unchanged by extras and subprotocols) *)
Theorem C16_builder_headers : forall (authority : option bytes) (key : bytes) (extra : headers) (subs : list bytes) (hs : headers),
  builder_request authority key extra subs = HOk hs <->
  exists a, authority = Some a /\ host_of_authority a <> [] /\
    hs = [(B"host", host_of_authority a); (B"connection", B"Upgrade"); (B"upgrade", B"websocket");
          (B"sec-websocket-version", B"13"); (B"sec-websocket-key", key)] ++ extra ++ sub_header subs.
Proof. exact builder_request_ok_iff. Qed.

Theorem C16_builder_errors : forall (authority : option bytes) (key : bytes) (extra : headers) (subs : list bytes),
  (authority = None -> builder_request authority key extra subs = HErr HEUrlNoHost) /\
  (forall a, authority = Some a -> host_of_authority a = [] ->
     builder_request authority key extra subs = HErr HEUrlEmptyHost).
Proof. exact builder_request_errors. Qed.

(* ---- each mandatory header in exactly one line ---- *)

(* Whenever the builder's request is produced (extra names lower-case, without ':' and CR; path without
   space and CR), the reference reader reads it back as one GET ... HTTP/1.1 head whose header lines L
   contain, for each of the five mandatory names, exactly ONE line with that name (ignoring case) —
   and that line is the URL-derived one. *)
Theorem C16_builder_required_once :
  forall (a p key : bytes) (extra : headers) (subs : list bytes) (req k tail : bytes),
  ~ In 32 p -> ~ In 13 p ->
  Forall (fun nv => map lower (fst nv) = fst nv /\ name_wire_ok (fst nv)) extra ->
  builder_request_bytes (Some a) (Some p) key extra subs = HOk (req, k) ->
  exists L, spec_parse_request (req ++ tail) = Some (B"GET", p, B"HTTP/1.1", L, tail) /\
    (forall q, In q required_headers -> line_count (snd q) L = 1%nat) /\
    In (B"Host", host_of_authority a) L /\ In (B"Connection", B"Upgrade") L /\
    In (B"Upgrade", B"websocket") L /\ In (B"Sec-WebSocket-Version", B"13") L /\
    In (B"Sec-WebSocket-Key", key) L.
Proof. exact builder_required_once. Qed.

(* ---- a server endpoint of this library accepts it ---- *)

(* on the header list the builder produces — for ANY extras, clashing ones included (create_parts
   looks at the first value of a name, and the URL-derived headers come first) — and on the list after
   generate_request's normalisation (the five first values, every other occurrence of a mandatory
   name removed) *)
Theorem C16_builder_self_accept :
  forall (authority : option bytes) (key : bytes) (extra : headers) (subs : list bytes) (hs : headers),
  builder_request authority key extra subs = HOk hs ->
  create_parts true true hs = HOk (accept_headers key) /\
  create_parts true true
    ([(B"host", first_value B"host" hs); (B"connection", first_value B"connection" hs);
      (B"upgrade", first_value B"upgrade" hs); (B"sec-websocket-version", first_value B"sec-websocket-version" hs);
      (B"sec-websocket-key", first_value B"sec-websocket-key" hs)] ++ extra_headers hs)
  = HOk (accept_headers key).
Proof.
  intros authority key extra subs hs H. split; [exact (builder_request_accepted _ _ _ _ _ H)|].
  apply builder_request_ok_iff in H. destruct H as [a [_ [_ Hhs]]]. subst hs. reflexivity.
Qed.

(* through the bytes: request bytes -> reference reader -> names lower-cased -> create_parts; the list
   the server sees is the URL-derived five, the non-clashing extras, the subprotocol header *)
Theorem C16_builder_self_accept_bytes :
  forall (a p key : bytes) (extra : headers) (subs : list bytes) (req k tail : bytes),
  ~ In 32 p -> ~ In 13 p ->
  Forall (fun nv => map lower (fst nv) = fst nv /\ name_wire_ok (fst nv)) extra ->
  builder_request_bytes (Some a) (Some p) key extra subs = HOk (req, k) ->
  k = key /\
  exists L, spec_parse_request (req ++ tail) = Some (B"GET", p, B"HTTP/1.1", L, tail) /\
    lower_names L = client_headers (host_of_authority a) key ++ extra_headers extra ++ sub_header subs /\
    create_parts true true (lower_names L) = HOk (accept_headers key).
Proof. exact builder_self_accept_bytes. Qed.

(* ---- the subprotocols the client will hold the response against ---- *)

(* extract_subprotocols on the builder's header list [hs]:
   (1) an extra header named sec-websocket-protocol comes first and wins: the result is what that
       header alone gives (the builder's own header is then ignored here, though both lines are sent);
   (2) otherwise, no subprotocols: None;
   (3) otherwise, visible-ASCII subprotocols: the comma split of the joined string, each piece trimmed;
       and this is exactly [subs] when no subprotocol contains ',' or has leading/trailing whitespace;
   (4) otherwise (some subprotocol not visible ASCII): Error::Utf8. *)
Theorem C16_builder_subprotocols :
  forall (host key : bytes) (extra : headers) (subs : list bytes),
  let hs := client_headers host key ++ extra ++ sub_header subs in
  (forall v, hget B"sec-websocket-protocol" extra = Some v ->
     extract_subprotocols hs = extract_subprotocols extra) /\
  (hget B"sec-websocket-protocol" extra = None -> subs = [] -> extract_subprotocols hs = HOk None) /\
  (hget B"sec-websocket-protocol" extra = None -> subs <> [] -> all_visible subs = true ->
     extract_subprotocols hs = HOk (Some (map trim (split_on (fun b => b =? 44) (join_with B", " subs) []))) /\
     (Forall (fun s => ~ In 44 s /\ trim s = s) subs -> extract_subprotocols hs = HOk (Some subs))) /\
  (hget B"sec-websocket-protocol" extra = None -> subs <> [] -> all_visible subs = false ->
     extract_subprotocols hs = HErr HEUtf8).
Proof. exact builder_subprotocols. Qed.

(* ---- examples (non-vacuity) ---- *)
Definition exb_key : bytes := B"dGhlIHNhbXBsZSBub25jZQ==".
Definition exb_auth : bytes := B"user:pw@example.com:8080".
(* clashing Host, key and Connection headers among the extras *)
Definition exb_extra : headers :=
  [(B"host", B"evil.example"); (B"origin", B"http://o"); (B"sec-websocket-key", B"AAAAAAAAAAAAAAAAAAAAAA==");
   (B"x-token", B"t1"); (B"connection", B"close")].
Definition exb_subs : list bytes := [B"chat"; B"superchat"].
Definition exb_req : bytes :=
  B"GET /chat?x=1 HTTP/1.1" ++ crlf ++ B"Host: example.com:8080" ++ crlf ++ B"Connection: Upgrade" ++ crlf ++
  B"Upgrade: websocket" ++ crlf ++ B"Sec-WebSocket-Version: 13" ++ crlf ++
  B"Sec-WebSocket-Key: dGhlIHNhbXBsZSBub25jZQ==" ++ crlf ++
  B"Origin: http://o" ++ crlf ++ B"x-token: t1" ++ crlf ++
  B"Sec-WebSocket-Protocol: chat, superchat" ++ crlf ++ crlf.

(* a URL with userinfo, clashing extra Host / key / Connection headers, two subprotocols *)
Example C16b_ex_bytes :
  builder_request_bytes (Some exb_auth) (Some B"/chat?x=1") exb_key exb_extra exb_subs = HOk (exb_req, exb_key).
Proof. vm_compute. reflexivity. Qed.

(* the hypotheses of C16_builder_required_win / _required_once / _self_accept_bytes hold for it *)
Example C16b_ex_hyps :
  host_of_authority exb_auth = B"example.com:8080" /\ host_of_authority exb_auth <> [] /\
  forallb visible (host_of_authority exb_auth) = true /\ forallb visible exb_key = true /\
  values_visible exb_extra = true /\ all_visible exb_subs = true /\
  Forall (fun nv => map lower (fst nv) = fst nv /\ name_wire_ok (fst nv)) exb_extra.
Proof.
  split; [vm_compute; reflexivity|]. split; [vm_compute; discriminate|].
  repeat (split; [vm_compute; reflexivity|]).
  repeat (constructor; [split; [reflexivity | split; cbn; intro H; repeat (destruct H as [H|H]; [discriminate|]); exact H]|]).
  constructor.
Qed.

(* read back: nine lines, each mandatory name once, and the server accepts *)
Example C16b_ex_read_back :
  spec_parse_request (exb_req ++ [129; 0]) =
  Some (B"GET", B"/chat?x=1", B"HTTP/1.1",
        [(B"Host", B"example.com:8080"); (B"Connection", B"Upgrade"); (B"Upgrade", B"websocket");
         (B"Sec-WebSocket-Version", B"13"); (B"Sec-WebSocket-Key", exb_key);
         (B"Origin", B"http://o"); (B"x-token", B"t1"); (B"Sec-WebSocket-Protocol", B"chat, superchat")],
        [129; 0]) /\
  map (fun q => line_count (snd q) (builder_lines B"example.com:8080" exb_key exb_extra exb_subs)) required_headers
    = [1; 1; 1; 1; 1]%nat /\
  create_parts true true (lower_names (builder_lines B"example.com:8080" exb_key exb_extra exb_subs))
    = HOk (accept_headers exb_key).
Proof. vm_compute. repeat split; reflexivity. Qed.

(* the header list still has the clashing entries (they are appended), yet the server decision on it
   is the same: first values win *)
Example C16b_ex_headers :
  builder_request (Some exb_auth) exb_key exb_extra exb_subs =
  HOk (client_headers B"example.com:8080" exb_key ++ exb_extra ++ [(B"sec-websocket-protocol", B"chat, superchat")]) /\
  create_parts true true (client_headers B"example.com:8080" exb_key ++ exb_extra ++ sub_header exb_subs)
    = HOk (accept_headers exb_key).
Proof. vm_compute. split; reflexivity. Qed.

(* a clashing extra with a value that is NOT visible ASCII is dropped unseen (sharp form), a
   non-clashing one gives Error::Utf8 *)
Example C16b_ex_nonascii :
  builder_request_bytes (Some B"h") (Some B"/") exb_key [(B"host", [200])] [] =
  HOk (B"GET / HTTP/1.1" ++ crlf ++ B"Host: h" ++ crlf ++ B"Connection: Upgrade" ++ crlf ++
       B"Upgrade: websocket" ++ crlf ++ B"Sec-WebSocket-Version: 13" ++ crlf ++
       B"Sec-WebSocket-Key: dGhlIHNhbXBsZSBub25jZQ==" ++ crlf ++ crlf, exb_key) /\
  builder_request_bytes (Some B"h") (Some B"/") exb_key [(B"x-a", [200])] [] = HErr HEUtf8 /\
  builder_request_bytes (Some B"h") (Some B"/") exb_key [] [[200]] = HErr HEUtf8.
Proof. vm_compute. repeat split; reflexivity. Qed.

(* subprotocols: the plain case; an extra sec-websocket-protocol header wins (and both lines are sent);
   a subprotocol containing a comma or outer blanks does not come back as given *)
Example C16b_ex_subprotocols :
  extract_subprotocols (client_headers B"h" exb_key ++ exb_extra ++ sub_header exb_subs) = HOk (Some exb_subs) /\
  extract_subprotocols (client_headers B"h" exb_key ++ exb_extra ++ sub_header []) = HOk None /\
  extract_subprotocols (client_headers B"h" exb_key ++ [(B"sec-websocket-protocol", B"mine")] ++ sub_header exb_subs)
    = HOk (Some [B"mine"]) /\
  builder_request_bytes (Some B"h") (Some B"/") exb_key [(B"sec-websocket-protocol", B"mine")] exb_subs =
  HOk (B"GET / HTTP/1.1" ++ crlf ++ B"Host: h" ++ crlf ++ B"Connection: Upgrade" ++ crlf ++
       B"Upgrade: websocket" ++ crlf ++ B"Sec-WebSocket-Version: 13" ++ crlf ++
       B"Sec-WebSocket-Key: dGhlIHNhbXBsZSBub25jZQ==" ++ crlf ++
       B"Sec-WebSocket-Protocol: mine" ++ crlf ++ B"Sec-WebSocket-Protocol: chat, superchat" ++ crlf ++ crlf, exb_key) /\
  extract_subprotocols (client_headers B"h" exb_key ++ [] ++ sub_header [B"a,b"; B" c "]) = HOk (Some [B"a"; B"b"; B"c"]).
Proof. vm_compute. repeat split; reflexivity. Qed.

(* URL errors are those of the plain URL request *)
Example C16b_ex_errors :
  builder_request None exb_key exb_extra exb_subs = HErr HEUrlNoHost /\
  builder_request (Some B"user@") exb_key exb_extra exb_subs = HErr HEUrlEmptyHost /\
  builder_request_bytes (Some exb_auth) None exb_key exb_extra exb_subs = HErr HEUrlNoPath.
Proof. vm_compute. repeat split; reflexivity. Qed.

Print Assumptions C16_builder_required_win.
Print Assumptions C16_builder_required_win_iff.
Print Assumptions C16_builder_headers.
Print Assumptions C16_builder_errors.
Print Assumptions C16_builder_required_once.
Print Assumptions C16_builder_self_accept.
Print Assumptions C16_builder_self_accept_bytes.
Print Assumptions C16_builder_subprotocols.
