(* props/C15.v — C15: the server upgrades only valid WebSocket requests and answers them correctly.

   Model: Handshake.v.  The HTTP head parser is an oracle (bytes -> raw head); every theorem about
   the machine quantifies over ALL oracle functions, all callbacks and all transport worlds.
   Header names in a parsed head are lower-case (HeaderMap normalises them: name case is the
   oracle's part); [hget] = first value of a name.

   Vocabulary (definitions in proofs/HandshakeP.v):
   - conn_ok hs  := exists c, hget "connection" hs = Some c /\ c is visible ASCII /\ has_upgrade_token c
   - upg_ok hs   := exists u, hget "upgrade" hs = Some u /\ eq_ic u "websocket"
   - ver_ok hs   := hget "sec-websocket-version" hs = Some "13"
   - accept_headers key := [connection: Upgrade; upgrade: websocket; sec-websocket-accept: derive_accept_key key]
   - tok_split sep v ps : v = p0 x1 p1 ... xk pk with separators xi and separator-free pieces ps
   - once_each hs : each of connection/upgrade/sec-websocket-version/sec-websocket-key occurs at most once
   - hdr_case_eq  : same name; same value, except Connection/Upgrade values equal up to ASCII case
   - rd_stage / wr_stage / fl_stage : the reading / writing / flushing stage as a list recursion
     over its own transport oracle; server_run = their composition (C15_server_stages)
   - hs_wire hlog / hs_data_read hlog : bytes accepted by / delivered by the transport
   - has_write_ev / has_flush_ev : the log contains a write (accepted or failed) / flush event
   - wr_friendly / wr_capacity : write oracle entries that accept >0 bytes or say WouldBlock / their total *)
From Coq Require Import String Ascii Permutation.
From TungModel Require Import Base World Sha1 Handshake.
From TungModel.proofs Require Import HandshakeP.

(* ---- the decision ---- *)

(* accepted iff GET (mg), HTTP/1.1+ (v) and the four header conditions; the response headers are fixed *)
Theorem C15_accept_iff : forall (mg v : bool) (hs : headers) (r : headers),
  create_parts mg v hs = HOk r <->
  mg = true /\ v = true /\ conn_ok hs /\ upg_ok hs /\ ver_ok hs /\
  exists key, hget B"sec-websocket-key" hs = Some key /\ r = accept_headers key.
Proof. exact create_parts_ok_iff. Qed.

(* the same on the head as the parser reports it: method, version and well-formedness included *)
Theorem C15_decide_iff : forall (n : N) (raw : raw_req),
  (exists req rh, try_parse_request (OComplete n raw) = PComplete n req /\
                  create_parts true true (req_headers req) = HOk rh) <->
  rq_method raw = B"GET" /\ 1 <= rq_version raw /\ rq_fmt_ok raw = true /\
  conn_ok (rq_headers raw) /\ upg_ok (rq_headers raw) /\ ver_ok (rq_headers raw) /\
  exists key, hget B"sec-websocket-key" (rq_headers raw) = Some key.
Proof. exact server_decide_iff. Qed.

(* the Connection test = some piece of the value cut at ' ' and ',' equals "upgrade" ignoring case *)
Theorem C15_connection_token : forall v : bytes,
  has_upgrade_token v = true <->
  exists ps, tok_split conn_sep v ps /\ exists p, In p ps /\ eq_ic p B"Upgrade" = true.
Proof. exact has_upgrade_token_spec. Qed.

(* which error a refused head gets: the first failing test in the order of the code *)
Theorem C15_reject_reason : forall (mg v : bool) (hs : headers),
  create_parts mg v hs =
  if negb mg then HErr (HEProto WrongHttpMethod) else
  if negb v then HErr (HEProto WrongHttpVersion) else
  if negb (hs_conn_okb hs) then HErr (HEProto MissingConnectionUpgradeHeader) else
  if negb (hs_upg_okb hs) then HErr (HEProto MissingUpgradeWebSocketHeader) else
  if negb (hs_ver_okb hs) then HErr (HEProto MissingSecWebSocketVersionHeader) else
  match hget B"sec-websocket-key" hs with
  | None => HErr (HEProto MissingSecWebSocketKey)
  | Some key => HOk (accept_headers key)
  end.
Proof. exact create_parts_err. Qed.

(* invariance: header order (when no decision header is duplicated), headers with other names
   inserted anywhere (one at a time, or all at once: only the decision headers matter), and the case
   of the Connection / Upgrade values *)
Theorem C15_invariance : forall (mg v : bool) (hs : headers),
  (forall hs', once_each hs -> Permutation hs hs' -> create_parts mg v hs' = create_parts mg v hs) /\
  (forall hs1 hs2 n x, hs = hs1 ++ hs2 -> is_decision_name n = false ->
     create_parts mg v (hs1 ++ (n, x) :: hs2) = create_parts mg v hs) /\
  (forall hs', Forall2 hdr_case_eq hs hs' -> create_parts mg v hs' = create_parts mg v hs) /\
  create_parts mg v (filter (fun nv => is_decision_name (fst nv)) hs) = create_parts mg v hs.
Proof. exact create_parts_invariance. Qed.

(* order-free acceptance: the four headers anywhere in the list, each name once, whatever else is there *)
Theorem C15_accept_any_order : forall (hs : headers) (c u key : bytes),
  once_each hs ->
  In (B"connection", c) hs -> forallb visible c = true -> has_upgrade_token c = true ->
  In (B"upgrade", u) hs -> eq_ic u B"websocket" = true ->
  In (B"sec-websocket-version", B"13") hs ->
  In (B"sec-websocket-key", key) hs ->
  create_parts true true hs = HOk (accept_headers key).
Proof. exact create_parts_accepts_members. Qed.

(* ---- the response ---- *)

(* bytes of the 101: status line, the three fixed headers with accept = base64(sha1(key ++ GUID)),
   the callback's additions, blank line; None (-> Error::Utf8) iff an added value is not visible ASCII *)
Theorem C15_response : forall (mg v : bool) (hs rh : headers), create_parts mg v hs = HOk rh ->
  exists key, hget B"sec-websocket-key" hs = Some key /\ rh = accept_headers key /\
    forall extra : headers,
      write_response 101 (rh ++ extra) =
      if values_visible extra then
        Some (B"HTTP/1.1 101 Switching Protocols" ++ crlf ++
              B"connection: Upgrade" ++ crlf ++
              B"upgrade: websocket" ++ crlf ++
              B"sec-websocket-accept: " ++ base64 (sha1 (key ++ B"258EAFA5-E914-47DA-95CA-C5AB0DC85B11")) ++ crlf ++
              header_lines extra ++ crlf)
      else None.
Proof. exact create_parts_response. Qed.

(* the accept value is always 28 visible characters *)
Theorem C15_accept_value_shape : forall key : bytes,
  derive_accept_key key = base64 (sha1 (key ++ B"258EAFA5-E914-47DA-95CA-C5AB0DC85B11")) /\
  length (derive_accept_key key) = 28%nat /\ forallb visible (derive_accept_key key) = true.
Proof. intro key. split; [reflexivity | exact (derive_accept_key_shape key)]. Qed.

(* FIPS 180 test vectors and the RFC 6455 sample *)
Example C15_sha1_abc : sha1 B"abc" =
  [0xA9; 0x99; 0x3E; 0x36; 0x47; 0x06; 0x81; 0x6A; 0xBA; 0x3E; 0x25; 0x71; 0x78; 0x50; 0xC2; 0x6C; 0x9C; 0xD0; 0xD8; 0x9D].
Proof. vm_compute. reflexivity. Qed.
Example C15_sha1_empty : sha1 [] =
  [0xDA; 0x39; 0xA3; 0xEE; 0x5E; 0x6B; 0x4B; 0x0D; 0x32; 0x55; 0xBF; 0xEF; 0x95; 0x60; 0x18; 0x90; 0xAF; 0xD8; 0x07; 0x09].
Proof. vm_compute. reflexivity. Qed.
Example C15_sha1_two_blocks : sha1 B"abcdbcdecdefdefgefghfghighijhijkijkljklmklmnlmnomnopnopq" =
  [0x84; 0x98; 0x3E; 0x44; 0x1C; 0x3B; 0xD2; 0x6E; 0xBA; 0xAE; 0x4A; 0xA1; 0xF9; 0x51; 0x29; 0xE5; 0xE5; 0x46; 0x70; 0xF1].
Proof. vm_compute. reflexivity. Qed.
Example C15_base64_rfc4648 : base64 B"foobar" = B"Zm9vYmFy" /\ base64 B"fooba" = B"Zm9vYmE=" /\ base64 B"foob" = B"Zm9vYg==".
Proof. vm_compute. auto. Qed.
Example C15_rfc6455_sample : derive_accept_key B"dGhlIHNhbXBsZSBub25jZQ==" = B"s3pPLMBiTxaQ9kYGzzhZRbK+xOo=".
Proof. vm_compute. reflexivity. Qed.

(* ---- the machine ---- *)

(* the server handshake is the composition of its three stages (no fuel, any oracle, any world) *)
Theorem C15_server_stages : forall oracle_req oracle_resp (cb : callback) (w : world),
  server_handshake oracle_req oracle_resp cb w = server_run oracle_req cb w.
Proof. exact server_handshake_run. Qed.

(* no 101 (nothing at all) is offered to the transport unless the bytes read are a complete valid
   upgrade request with nothing after the head (and the callback did not answer 2xx) *)
Theorem C15_no_101_when_invalid : forall oracle_req oracle_resp cb w res w' hlog,
  server_handshake oracle_req oracle_resp cb w = (res, w', hlog) ->
  has_write_ev hlog = true \/ has_flush_ev hlog = true \/ hs_wire hlog <> [] ->
  exists n raw, oracle_req (hs_data_read hlog) = OComplete n raw /\
                dropN n (hs_data_read hlog) = [] /\ valid_upgrade_request raw /\
                (forall status hs body, cb = CbReject status hs body -> is_2xx status = false).
Proof. exact server_write_implies_valid. Qed.

(* contrapositive form: an invalid / incomplete / junk-followed request => no write event, no flush,
   empty wire, no WebSocket *)
Theorem C15_invalid_no_write : forall oracle_req oracle_resp cb w res w' hlog,
  server_handshake oracle_req oracle_resp cb w = (res, w', hlog) ->
  (forall n raw, oracle_req (hs_data_read hlog) = OComplete n raw ->
     ~ (valid_upgrade_request raw /\ dropN n (hs_data_read hlog) = [])) ->
  has_write_ev hlog = false /\ has_flush_ev hlog = false /\ hs_wire hlog = [] /\
  (forall r t, res <> HsDone r t).
Proof. exact server_invalid_no_write. Qed.

(* every failure other than a transport error or the reported HTTP rejection left nothing on the wire *)
Theorem C15_fail_no_write : forall oracle_req oracle_resp cb w e w' hlog,
  server_handshake oracle_req oracle_resp cb w = (HsFail e, w', hlog) ->
  (forall k, e <> HEIo k) -> (forall s b, e <> HEHttp s b) ->
  has_write_ev hlog = false /\ has_flush_ev hlog = false /\ hs_wire hlog = [].
Proof. exact server_fail_no_write. Qed.

(* a complete junk-free head refused by create_parts fails with create_parts' error, nothing written *)
Theorem C15_refuses : forall oracle_req oracle_resp cb w n req buf rds' ev1 e,
  rd_stage (req_parser oracle_req) (w_rds w) [] 0 0 = (RDone n req buf, rds', ev1) -> dropN n buf = [] ->
  create_parts true true (req_headers req) = HErr e ->
  server_handshake oracle_req oracle_resp cb w = (HsFail e, w_set_rds w rds', ev1) /\
  has_write_ev ev1 = false /\ has_flush_ev ev1 = false /\ hs_wire ev1 = [].
Proof. exact server_refuses. Qed.

(* bytes after the head in the same buffer => JunkAfterRequest, nothing written; and conversely *)
Theorem C15_junk : forall oracle_req oracle_resp cb w n req buf rds' ev,
  rd_stage (req_parser oracle_req) (w_rds w) [] 0 0 = (RDone n req buf, rds', ev) -> dropN n buf <> [] ->
  server_handshake oracle_req oracle_resp cb w = (HsFail (HEProto JunkAfterRequest), w_set_rds w rds', ev) /\
  has_write_ev ev = false /\ has_flush_ev ev = false /\ buf = hs_data_read ev.
Proof. exact server_junk. Qed.

Theorem C15_junk_only_if : forall oracle_req oracle_resp cb w w' hlog,
  server_handshake oracle_req oracle_resp cb w = (HsFail (HEProto JunkAfterRequest), w', hlog) ->
  has_write_ev hlog = false /\ has_flush_ev hlog = false /\
  exists n raw, oracle_req (hs_data_read hlog) = OComplete n raw /\
                rq_method raw = B"GET" /\ 1 <= rq_version raw /\ rq_fmt_ok raw = true /\
                dropN n (hs_data_read hlog) <> [].
Proof. exact server_junk_inv. Qed.

(* a WebSocket only after: complete valid junk-free request, callback did not reject, the whole 101
   accepted by the transport (wire = the response bytes) and flushed *)
Theorem C15_success_shape : forall oracle_req oracle_resp cb w r tail w' hlog,
  server_handshake oracle_req oracle_resp cb w = (HsDone r tail, w', hlog) ->
  r = Server /\ tail = [] /\
  exists n raw key extra,
    oracle_req (hs_data_read hlog) = OComplete n raw /\ dropN n (hs_data_read hlog) = [] /\
    rq_method raw = B"GET" /\ 1 <= rq_version raw /\ rq_fmt_ok raw = true /\
    hget B"sec-websocket-key" (rq_headers raw) = Some key /\
    create_parts true true (rq_headers raw) = HOk (accept_headers key) /\
    cb_extra cb = Some extra /\ values_visible extra = true /\
    hs_wire hlog = response_101 key extra /\
    exists pre, hlog = pre ++ [HsEv (EvFlush FlOk)].
Proof. exact server_success_shape. Qed.

(* every complete junk-free head that passes create_parts is answered with the 101 and accepted,
   whatever the partial-write / WouldBlock pattern of a transport that eventually takes everything *)
Theorem C15_accepts : forall oracle_req oracle_resp cb extra w n req buf rds' ev1 rh pre post j fpost,
  rd_stage (req_parser oracle_req) (w_rds w) [] 0 0 = (RDone n req buf, rds', ev1) -> dropN n buf = [] ->
  create_parts true true (req_headers req) = HOk rh ->
  cb_extra cb = Some extra -> values_visible extra = true ->
  w_wrs w = pre ++ post -> Forall wr_friendly pre ->
  w_fls w = repeat (FlErr WouldBlock) j ++ FlOk :: fpost ->
  exists key, hget B"sec-websocket-key" (req_headers req) = Some key /\
    (blen (response_101 key extra) <= wr_capacity pre ->
     exists w' hlog, server_handshake oracle_req oracle_resp cb w = (HsDone Server [], w', hlog) /\
                     hs_wire hlog = response_101 key extra).
Proof. exact server_accepts. Qed.

(* callback rejection: never a WebSocket; 2xx => nothing written; what reaches the wire is a prefix
   of head ++ body; Err(Http) is reported only after head ++ body was accepted in full and flushed *)
Theorem C15_callback_reject : forall oracle_req oracle_resp status hs body w res w' hlog,
  server_handshake oracle_req oracle_resp (CbReject status hs body) w = (res, w', hlog) ->
  (forall r t, res <> HsDone r t) /\
  (is_2xx status = true -> has_write_ev hlog = false /\ has_flush_ev hlog = false /\ hs_wire hlog = []) /\
  (exists rem, hs_wire hlog ++ rem = reject_bytes status hs body) /\
  (forall s b, res = HsFail (HEHttp s b) ->
     s = status /\ b = body /\ is_2xx status = false /\ values_visible hs = true /\
     hs_wire hlog = reject_bytes status hs body /\ exists pre, hlog = pre ++ [HsEv (EvFlush FlOk)]).
Proof. exact server_reject_sound. Qed.

(* ... and it IS written in full and reported, under any partial-write pattern *)
Theorem C15_callback_reject_complete :
  forall oracle_req oracle_resp status hs body w n req buf rds' ev1 rh pre post j fpost,
  rd_stage (req_parser oracle_req) (w_rds w) [] 0 0 = (RDone n req buf, rds', ev1) -> dropN n buf = [] ->
  create_parts true true (req_headers req) = HOk rh ->
  is_2xx status = false -> values_visible hs = true ->
  w_wrs w = pre ++ post -> Forall wr_friendly pre -> blen (reject_bytes status hs body) <= wr_capacity pre ->
  w_fls w = repeat (FlErr WouldBlock) j ++ FlOk :: fpost ->
  exists w' hlog,
    server_handshake oracle_req oracle_resp (CbReject status hs body) w = (HsFail (HEHttp status body), w', hlog) /\
    hs_wire hlog = reject_bytes status hs body.
Proof. exact server_reject_complete. Qed.

(* a "successful" rejection is CustomResponseSuccessful with nothing written *)
Theorem C15_callback_reject_2xx : forall oracle_req oracle_resp status hs body w n req buf rds' ev1 rh,
  rd_stage (req_parser oracle_req) (w_rds w) [] 0 0 = (RDone n req buf, rds', ev1) -> dropN n buf = [] ->
  create_parts true true (req_headers req) = HOk rh -> is_2xx status = true ->
  server_handshake oracle_req oracle_resp (CbReject status hs body) w
  = (HsFail (HEProto CustomResponseSuccessful), w_set_rds w rds', ev1) /\
  has_write_ev ev1 = false /\ has_flush_ev ev1 = false /\ hs_wire ev1 = [].
Proof. exact server_reject_2xx. Qed.

(* ---- non-vacuity ---- *)
Definition ex_hdrs : headers :=
  [(B"host", B"example.com"); (B"connection", B"keep-alive, uPGRADE"); (B"x-extra", B"1");
   (B"upgrade", B"WebSocket"); (B"sec-websocket-version", B"13");
   (B"sec-websocket-key", B"dGhlIHNhbXBsZSBub25jZQ==")].
Definition ex_raw : raw_req := mkRawReq B"GET" 1 B"/chat" true ex_hdrs.
Definition ex_bytes : bytes := B"<the request head>".
(* an oracle that reports the head complete exactly on ex_bytes (+ optional junk), Partial on prefixes *)
Definition ex_oracle (buf : bytes) : oracle_out raw_req :=
  if bytes_eqb (takeN (blen ex_bytes) buf) ex_bytes then OComplete (blen ex_bytes) ex_raw else OPartial.
Definition ex_oresp (buf : bytes) : oracle_out raw_resp := OPartial.
Definition ex_world (rds : list rd_out) (wrs : list wr_out) : world := mkWorld rds wrs [FlErr WouldBlock; FlOk] [] [].

Example C15_ex_decision : create_parts true true ex_hdrs = HOk (accept_headers B"dGhlIHNhbXBsZSBub25jZQ==")
  /\ once_each ex_hdrs /\ valid_upgrade_request ex_raw.
Proof.
  split; [vm_compute; reflexivity|]. split.
  - intros name Hn. unfold decision_names in Hn. cbn [In] in Hn.
    destruct Hn as [Hn|[Hn|[Hn|[Hn|[]]]]]; subst name; vm_compute; auto.
  - unfold valid_upgrade_request. split; [reflexivity|]. split; [vm_compute; discriminate|].
    split; [reflexivity|].
    exists B"dGhlIHNhbXBsZSBub25jZQ==". split; vm_compute; reflexivity.
Qed.

(* near misses are refused *)
Example C15_ex_near_misses :
  create_parts true true [(B"connection", B"upgrade2"); (B"upgrade", B"websocket"); (B"sec-websocket-version", B"13"); (B"sec-websocket-key", B"k")]
    = HErr (HEProto MissingConnectionUpgradeHeader) /\
  create_parts true true [(B"connection", B"Upgrade"); (B"upgrade", B"websocket "); (B"sec-websocket-version", B"13"); (B"sec-websocket-key", B"k")]
    = HErr (HEProto MissingUpgradeWebSocketHeader) /\
  create_parts true true [(B"connection", B"Upgrade"); (B"upgrade", B"websocket"); (B"sec-websocket-version", B"13 "); (B"sec-websocket-key", B"k")]
    = HErr (HEProto MissingSecWebSocketVersionHeader) /\
  create_parts true true [(B"connection", B"Upgrade"); (B"upgrade", B"websocket"); (B"sec-websocket-version", B"13")]
    = HErr (HEProto MissingSecWebSocketKey) /\
  try_parse_request (OComplete 5 (mkRawReq B"get" 1 B"/" true ex_hdrs)) = PFail (HEProto WrongHttpMethod) /\
  try_parse_request (OComplete 5 (mkRawReq B"GET" 0 B"/" true ex_hdrs)) = PFail (HEProto WrongHttpVersion).
Proof. vm_compute. repeat split; reflexivity. Qed.

(* the head in two reads, the 101 in three writes (one WouldBlock): a WebSocket, wire = the 101 *)
Example C15_ex_accept :
  let w := ex_world [RdData (takeN 7 ex_bytes); RdErr WouldBlock; RdData (dropN 7 ex_bytes)]
                    [WrAccept 10; WrErr WouldBlock; WrAccept 1; WrAccept 1000] in
  let '(res, w', hlog) := server_handshake ex_oracle ex_oresp CbNone w in
  res = HsDone Server [] /\ hs_wire hlog = response_101 B"dGhlIHNhbXBsZSBub25jZQ==" [] /\
  hs_data_read hlog = ex_bytes.
Proof. vm_compute. repeat split; reflexivity. Qed.

(* junk after the head: refused without a byte written *)
Example C15_ex_junk :
  let w := ex_world [RdData (ex_bytes ++ [129; 0])] [WrAccept 1000] in
  let '(res, w', hlog) := server_handshake ex_oracle ex_oresp CbNone w in
  res = HsFail (HEProto JunkAfterRequest) /\ has_write_ev hlog = false /\ w_wrs w' = [WrAccept 1000].
Proof. vm_compute. repeat split; reflexivity. Qed.

(* callback rejections: 403 with a body written in pieces; 200 refused as CustomResponseSuccessful *)
Example C15_ex_reject :
  let w := ex_world [RdData ex_bytes] [WrAccept 3; WrAccept 1000] in
  let '(res, w', hlog) := server_handshake ex_oracle ex_oresp (CbReject 403 [(B"x-why", B"no")] (Some B"denied")) w in
  res = HsFail (HEHttp 403 (Some B"denied")) /\
  hs_wire hlog = reject_bytes 403 [(B"x-why", B"no")] (Some B"denied") /\
  reject_bytes 403 [(B"x-why", B"no")] (Some B"denied")
  = B"HTTP/1.1 403 Forbidden" ++ crlf ++ B"x-why: no" ++ crlf ++ crlf ++ B"denied".
Proof. vm_compute. repeat split; reflexivity. Qed.

Example C15_ex_reject_2xx :
  let w := ex_world [RdData ex_bytes] [WrAccept 1000] in
  let '(res, w', hlog) := server_handshake ex_oracle ex_oresp (CbReject 200 [] None) w in
  res = HsFail (HEProto CustomResponseSuccessful) /\ has_write_ev hlog = false.
Proof. vm_compute. repeat split; reflexivity. Qed.

(* the hypotheses of C15_accepts / C15_callback_reject_complete are satisfiable *)
Example C15_ex_stage_hyps :
  rd_stage (req_parser ex_oracle) [RdData ex_bytes] [] 0 0
  = (RDone (blen ex_bytes) (mkRequest B"/chat" ex_hdrs) ex_bytes, [], [HsEv (EvRead (RdData ex_bytes))]) /\
  dropN (blen ex_bytes) ex_bytes = [] /\
  Forall wr_friendly [WrAccept 3; WrErr WouldBlock; WrAccept 1000] /\
  blen (response_101 B"dGhlIHNhbXBsZSBub25jZQ==" []) <= wr_capacity [WrAccept 3; WrErr WouldBlock; WrAccept 1000].
Proof.
  split; [vm_compute; reflexivity|]. split; [vm_compute; reflexivity|]. split.
  - repeat constructor.
  - vm_compute. discriminate.
Qed.

Print Assumptions C15_accept_iff.
Print Assumptions C15_decide_iff.
Print Assumptions C15_connection_token.
Print Assumptions C15_reject_reason.
Print Assumptions C15_invariance.
Print Assumptions C15_accept_any_order.
Print Assumptions C15_response.
Print Assumptions C15_accept_value_shape.
Print Assumptions C15_server_stages.
Print Assumptions C15_no_101_when_invalid.
Print Assumptions C15_invalid_no_write.
Print Assumptions C15_fail_no_write.
Print Assumptions C15_refuses.
Print Assumptions C15_junk.
Print Assumptions C15_junk_only_if.
Print Assumptions C15_success_shape.
Print Assumptions C15_accepts.
Print Assumptions C15_callback_reject.
Print Assumptions C15_callback_reject_complete.
Print Assumptions C15_callback_reject_2xx.
