(* props/C03.v — property theorems for C03 (close handshake is safe) only.
   Model: Protocol.v (the repaired code).  Proofs: proofs/CloseP.v.
   Setting of every theorem: any role, any initial buffer `part`, any valid config, any transport
   oracle `w0` (reads / write outcomes / flush outcomes / mask keys are arbitrary lists) with an empty
   log, any list of user operations `ops` (without raw `Message::Frame` writes where stated), run from
   the fresh context; `(rs, x, w)` is the configuration reached. *)
From TungModel Require Import Base Coding Mask Header Frame Utf8 World Message Codec Protocol.
From TungModel.proofs Require Import CloseP.

(* Spec vocabulary (defined in proofs/CloseP.v, recalled here):
   close_queued log      := exists f, In f (queued log) /\ h_opcode (f_hdr f) = OCtl Close
   write_refused r       := r = ResUnit (RErr (EProtocol SendAfterClosing)) \/ r = ResUnit (RErr EAlreadyClosed)
   no_raw ops            := forall f, ~ In (OpWrite (MFrame f)) ops
   close_received rs     := some result in rs is ResMsg (ROk (MClose _))
   is_cc r               := r is ResMsg (RErr EConnectionClosed) or ResUnit (RErr EConnectionClosed)
   closed_reported rs    := some result in rs satisfies is_cc
   transport_ended log   := log contains EvRead RdEof, EvRead (RdErr ConnReset), EvWrite _ [] or
                            EvWriteErr _ ConnReset *)

(* (a) once a Close frame of this endpoint is queued, every later write (of any message, even a raw
   frame) is refused with SendAfterClosing / AlreadyClosed and changes nothing *)
Theorem C03_a_no_write_after_close :
  forall role part cfg x0 w0 ops rs x w,
    ctx_new role part cfg = Some x0 -> w_log w0 = [] -> no_raw ops ->
    run_ops x0 ops w0 = (rs, x, w) ->
    close_queued (w_log w) ->
    forall m, exists r, run_op x (OpWrite m) w = (r, x, w) /\ write_refused r.
Proof. exact a_no_write_after_close. Qed.

(* (a) a Close frame is the last frame ever appended to the write queue (the log only grows, so this
   holds at every moment of every history) *)
Theorem C03_a_close_last_queued :
  forall role part cfg x0 w0 ops rs x w,
    ctx_new role part cfg = Some x0 -> w_log w0 = [] -> no_raw ops ->
    run_ops x0 ops w0 = (rs, x, w) ->
    forall pre c post, queued (w_log w) = pre ++ c :: post ->
      h_opcode (f_hdr c) = OCtl Close -> post = [].
Proof. exact a_close_last_queued. Qed.

(* non-vacuity: a history that queues a Close *)
Definition ex_cfg : config := mkConfig 0 1000 None None false.
Definition ex_w0 : world := mkWorld [] [WrAccept 100] [FlOk] [] [].
Example C03_a_nonvacuous :
  exists x0 rs x w, ctx_new Server [] ex_cfg = Some x0 /\ w_log ex_w0 = [] /\ no_raw [OpClose None] /\
    run_ops x0 [OpClose None] ex_w0 = (rs, x, w) /\ close_queued (w_log w).
Proof.
  do 4 eexists. split; [reflexivity|]. split; [reflexivity|].
  split; [intros f [H|[]]; discriminate|]. split; [vm_compute; reflexivity|].
  eexists. split; [left; reflexivity|reflexivity].
Qed.

(* (b) after a read returned Message::Close, no later read returns Ok (any history `ops`, raw frames
   included, may lie between the Close and that read) *)
Theorem C03_b_no_message_after_close :
  forall role part cfg x0 w0 ops rs x w,
    ctx_new role part cfg = Some x0 -> w_log w0 = [] ->
    run_ops x0 ops w0 = (rs, x, w) ->
    close_received rs = true ->
    forall r x' w', run_op x OpRead w = (r, x', w') -> forall m, r <> ResMsg (ROk m).
Proof. exact b_no_message_after_close. Qed.

(* non-vacuity: a server history in which a Close is received, then ConnectionClosed is reported *)
Definition ex_w1 : world := mkWorld [RdData [136; 128; 0; 0; 0; 0]] [WrAccept 100] [FlOk; FlOk] [] [].
Example C03_b_nonvacuous :
  exists x0 rs x w, ctx_new Server [] ex_cfg = Some x0 /\ w_log ex_w1 = [] /\
    run_ops x0 [OpRead] ex_w1 = (rs, x, w) /\ close_received rs = true.
Proof.
  do 4 eexists. split; [reflexivity|]. split; [reflexivity|].
  split; [vm_compute; reflexivity|]. vm_compute. reflexivity.
Qed.

(* (e) after any call returned ConnectionClosed, every later read and write returns AlreadyClosed and
   changes nothing *)
Theorem C03_e_already_closed :
  forall role part cfg x0 w0 ops rs x w,
    ctx_new role part cfg = Some x0 -> w_log w0 = [] ->
    run_ops x0 ops w0 = (rs, x, w) ->
    closed_reported rs = true ->
    run_op x OpRead w = (ResMsg (RErr EAlreadyClosed), x, w) /\
    forall m, run_op x (OpWrite m) w = (ResUnit (RErr EAlreadyClosed), x, w).
Proof. exact e_already_closed. Qed.

Example C03_e_nonvacuous :
  exists x0 rs x w, ctx_new Server [] ex_cfg = Some x0 /\ w_log ex_w1 = [] /\
    run_ops x0 [OpRead; OpRead] ex_w1 = (rs, x, w) /\ closed_reported rs = true.
Proof.
  do 4 eexists. split; [reflexivity|]. split; [reflexivity|].
  split; [vm_compute; reflexivity|]. vm_compute. reflexivity.
Qed.

(* (f) can_write / can_read agree with what write / read then do.  Stated for EVERY context x and
   world w (in particular every reachable one):
   - the queries return is_active / can_read of the state and change nothing;
   - can_write = false: after any further history every write is refused and changes nothing;
   - can_read = false: after any further history no read delivers a message;
   - can_write = true: write answers Ok, an Io error or WriteBufferFull (never a closing error);
   - can_read = true: read is not refused (no AlreadyClosed / ConnectionClosed / ReceivedAfterClosing). *)
Theorem C03_f_can :
  forall x w,
    run_op x OpCanWrite w = (ResBool (is_active (x_state x)), x, w) /\
    run_op x OpCanRead w = (ResBool (can_read (x_state x)), x, w) /\
    (is_active (x_state x) = false ->
     forall ops rs x' w', run_ops x ops w = (rs, x', w') ->
     forall m, exists r, run_op x' (OpWrite m) w' = (r, x', w') /\ write_refused r) /\
    (can_read (x_state x) = false ->
     forall ops rs x' w', run_ops x ops w = (rs, x', w') ->
     forall r x'' w'', run_op x' OpRead w' = (r, x'', w'') -> forall m, r <> ResMsg (ROk m)) /\
    (is_active (x_state x) = true ->
     forall m r x' w', run_op x (OpWrite m) w = (r, x', w') ->
     r = ResUnit (ROk tt) \/ (exists k, r = ResUnit (RErr (EIo k))) \/
     (exists f, r = ResUnit (RErr (EWriteBufferFull f)))) /\
    (can_read (x_state x) = true ->
     forall r x' w', run_op x OpRead w = (r, x', w') ->
     r <> ResMsg (RErr EAlreadyClosed) /\ r <> ResMsg (RErr EConnectionClosed) /\
     r <> ResMsg (RErr (EProtocol ReceivedAfterClosing))).
Proof. exact f_can. Qed.

(* (d) while no Close has been received: no call reports ConnectionClosed; a call during which the
   transport read returned EOF answers ResetWithoutClosingHandshake; one during which the transport
   read (resp. write) failed with ConnectionReset / wrote zero bytes answers that Io error.
   `evs` is the slice of the log produced by the call. *)
Theorem C03_d_reset :
  forall role part cfg x0 w0 ops rs x w,
    ctx_new role part cfg = Some x0 -> w_log w0 = [] ->
    run_ops x0 ops w0 = (rs, x, w) ->
    close_received rs = false ->
    forall o r x' w' evs, run_op x o w = (r, x', w') -> w_log w' = w_log w ++ evs ->
      is_cc r = false /\
      (In (EvRead RdEof) evs -> r = ResMsg (RErr (EProtocol ResetWithoutClosingHandshake))) /\
      (In (EvRead (RdErr ConnReset)) evs -> r = ResMsg (RErr (EIo ConnReset))) /\
      (forall n, In (EvWrite n []) evs \/ In (EvWriteErr n ConnReset) evs ->
                 r = ResMsg (RErr (EIo ConnReset)) \/ r = ResUnit (RErr (EIo ConnReset))).
Proof. exact d_reset. Qed.

(* non-vacuity: EOF on a fresh client *)
Definition ex_w3 : world := mkWorld [RdEof] [] [] [] [].
Example C03_d_nonvacuous :
  exists x0 r x' w' evs, ctx_new Client [] ex_cfg = Some x0 /\ w_log ex_w3 = [] /\
    run_ops x0 [] ex_w3 = ([], x0, ex_w3) /\ close_received [] = false /\
    run_op x0 OpRead ex_w3 = (r, x', w') /\ w_log w' = w_log ex_w3 ++ evs /\ In (EvRead RdEof) evs.
Proof.
  do 5 eexists. split; [reflexivity|]. split; [reflexivity|]. split; [reflexivity|].
  split; [reflexivity|]. split; [vm_compute; reflexivity|]. split; [reflexivity|].
  right. left. reflexivity.
Qed.

(* (c) any call that returns ConnectionClosed: a Close was received before, and either nothing is
   left to send (write buffer empty, nothing parked) with this endpoint's Close as the last queued
   frame, or the transport ended; for a client the transport ended. *)
Theorem C03_c_clean_close_sound :
  forall role part cfg x0 w0 ops rs x w,
    ctx_new role part cfg = Some x0 -> w_log w0 = [] -> no_raw ops ->
    run_ops x0 ops w0 = (rs, x, w) ->
    forall o r x' w', run_op x o w = (r, x', w') -> is_cc r = true ->
      close_received rs = true /\
      ((c_out (x_codec x') = [] /\ x_additional x' = None /\
        exists pre c, queued (w_log w') = pre ++ [c] /\ h_opcode (f_hdr c) = OCtl Close) \/
       transport_ended (w_log w') = true) /\
      (role = Client -> transport_ended (w_log w') = true).
Proof. exact c_clean_close_sound. Qed.

Example C03_c_nonvacuous :
  exists x0 rs x w r x' w', ctx_new Server [] ex_cfg = Some x0 /\ w_log ex_w1 = [] /\
    no_raw [OpRead] /\ run_ops x0 [OpRead] ex_w1 = (rs, x, w) /\
    run_op x OpRead w = (r, x', w') /\ is_cc r = true.
Proof.
  do 7 eexists. split; [reflexivity|]. split; [reflexivity|].
  split; [intros f [H|[]]; discriminate|]. split; [vm_compute; reflexivity|].
  split; [vm_compute; reflexivity|]. reflexivity.
Qed.

(* "after the history ops1" above means "later in the same history": the results of a longer
   history split at any operation into the results of the prefix, that operation run from the
   configuration the prefix reached, and the rest *)
Theorem C03_history_split :
  forall ops1 o ops2 x0 w0 rs x w,
    run_ops x0 (ops1 ++ o :: ops2) w0 = (rs, x, w) ->
    exists rs1 x1 w1 r x1' w1' rs2,
      run_ops x0 ops1 w0 = (rs1, x1, w1) /\ run_op x1 o w1 = (r, x1', w1') /\
      run_ops x1' ops2 w1' = (rs2, x, w) /\
      rs = rs1 ++ (r, blen (w_log w1')) :: rs2 /\ length rs1 = length ops1.
Proof. exact run_ops_split. Qed.

Print Assumptions C03_a_no_write_after_close.
Print Assumptions C03_a_close_last_queued.
Print Assumptions C03_b_no_message_after_close.
Print Assumptions C03_e_already_closed.
Print Assumptions C03_f_can.
Print Assumptions C03_d_reset.
Print Assumptions C03_c_clean_close_sound.
Print Assumptions C03_history_split.
