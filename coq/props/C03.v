(* props/C03.v — property theorems for C03 (close handshake is safe) only.
   Model: Protocol.v (the repaired code).  Proofs: proofs/CloseP.v.
   Setting of every theorem: any role, any initial buffer `part`, any valid config, any transport
   oracle `w0` (reads / write outcomes / flush outcomes / mask keys are arbitrary lists) with an empty
   log, any list of user operations `ops` (without raw `Message::Frame` writes where stated), run from
   the fresh context; `(rs, x, w)` is the configuration reached. *)
From TungModel Require Import Base Coding Mask Header Frame Utf8 World Message Codec Protocol.
From TungModel.proofs Require Import CloseP.

(* Spec vocabulary (defined in proofs/CloseP.v, recalled here):
   close_queued log      := exists f, In f (queued log) /\ h_opcode (f_hdr f) = OCtl Close
   write_refused r       := r = ResUnit (RErr (EProtocol SendAfterClosing)) \/ r = ResUnit (RErr EAlreadyClosed)
   no_raw ops            := forall f, ~ In (OpWrite (MFrame f)) ops
   close_received rs     := some result in rs is ResMsg (ROk (MClose _))
   closed_reported rs    := some result in rs is Res* (RErr EConnectionClosed)
   transport_ended log   := log contains EvRead RdEof, EvRead (RdErr ConnReset), EvWrite _ [] or
                            EvWriteErr _ ConnReset *)

(* (a) once a Close frame of this endpoint is queued, every later write (of any message, even a raw
   frame) is refused with SendAfterClosing / AlreadyClosed and changes nothing *)
Theorem C03_a_no_write_after_close :
  forall role part cfg x0 w0 ops rs x w,
    ctx_new role part cfg = Some x0 -> w_log w0 = [] -> no_raw ops ->
    run_ops x0 ops w0 = (rs, x, w) ->
    close_queued (w_log w) ->
    forall m, exists r, run_op x (OpWrite m) w = (r, x, w) /\ write_refused r.
Proof. exact a_no_write_after_close. Qed.

(* (a) a Close frame is the last frame ever appended to the write queue (the log only grows, so this
   holds at every moment of every history) *)
Theorem C03_a_close_last_queued :
  forall role part cfg x0 w0 ops rs x w,
    ctx_new role part cfg = Some x0 -> w_log w0 = [] -> no_raw ops ->
    run_ops x0 ops w0 = (rs, x, w) ->
    forall pre c post, queued (w_log w) = pre ++ c :: post ->
      h_opcode (f_hdr c) = OCtl Close -> post = [].
Proof. exact a_close_last_queued. Qed.

(* non-vacuity: a history that queues a Close *)
Definition ex_cfg : config := mkConfig 0 1000 None None false.
Definition ex_w0 : world := mkWorld [] [WrAccept 100] [FlOk] [] [].
Example C03_a_nonvacuous :
  exists x0 rs x w, ctx_new Server [] ex_cfg = Some x0 /\ w_log ex_w0 = [] /\ no_raw [OpClose None] /\
    run_ops x0 [OpClose None] ex_w0 = (rs, x, w) /\ close_queued (w_log w).
Proof.
  do 4 eexists. split; [reflexivity|]. split; [reflexivity|].
  split; [intros f [H|[]]; discriminate|]. split; [vm_compute; reflexivity|].
  eexists. split; [left; reflexivity|reflexivity].
Qed.

Print Assumptions C03_a_no_write_after_close.
Print Assumptions C03_a_close_last_queued.
