(* props/C01.v — C01: messages written by one endpoint are read by the peer intact and in order.

   Vocabulary (definitions in proofs/RoundTripP.v; engine vocabulary in Protocol.v / World.v):
   - [plain m]        : m is a text, binary, ping or pong message;
   - [frame_of m]     : the frame WebSocketContext::write builds for m (fin, no rsv, opcode, payload);
   - [encode r k m]   : Frame::format of that frame as role r sends it: masked with key k iff r = Client;
   - [encode_all r ks ms] : encode r k1 m1 ++ encode r k2 m2 ++ ... with k1, k2, ... the keys of the
     oracle [ks] in order (an exhausted oracle yields the zero key, as World.w_next_key does);
   - [written ops]    : the messages of the OpWrite entries of an operation list, in order;
     [wop_ok o]       : o is OpFlush or OpWrite of a plain message;
   - [write_res_ok]   : the result of a writer operation is Ok(()) or Err(Io(_)) — in both cases the
     message is queued (io errors do not lose it);
   - [wf_msg m]       : plain, payload length < 2^64, text payload is UTF-8 ([is_utf8] — true by type in
     Rust), ping/pong payload <= 125 bytes (the documented precondition of write; see the note below);
     no bound on the byte values is needed;
   - [fits cfg m]     : the reader's limits allow m: payload <= max_frame_size (None = no limit = u64
     max) and, for text/binary, payload <= max_message_size;   [rd_ok cfg m] = wf_msg m /\ fits cfg m;
   - [opp r]          : the other role;
   - [live_rd]        : a read-oracle entry that is a non-empty chunk or WouldBlock (no EOF, no hard
     error); [rd_payload] its bytes.  A schedule is ANY list of such entries: every segmentation of
     the byte stream, with WouldBlocks anywhere (an exhausted oracle answers WouldBlock for ever).
     The reader's read-buffer size does not occur in the model: it only restricts which schedules can
     occur, so "for all schedules" covers every read_buffer_size;
   - [soft w]         : the reader's own write side never fails hard (every write accepts >= 1 byte or
     answers WouldBlock; every flush is Ok or WouldBlock) — needed because read() sends the pong
     replies and reports a hard write error instead of the next message;
   - [acc_wrs T k wrs]: each of the next k transport writes accepts at least T bytes; [acc_fls k fls]:
     each of the next k transport flushes succeeds (an "accepting" transport);
     [res_ok_unit]    : the result of an operation is Ok(());
   - [delivered rs]   : the results of a run of calls, those equal to Err(Io(WouldBlock)) removed;
     [ok_msg m] = the result Ok(m) of a read.
   "Both directions" = the theorems are for every role r (writer r, reader opp r).
   "Every buffer-size configuration" = cfg is universally quantified on both sides (the only
   hypothesis is that the writer's max_write_buffer_size is at least the total encoded size, so that
   no frame is refused).

   NOTE (outside the theorems): write() does not check that a ping/pong payload is <= 125 bytes; such
   a frame is sent and the peer rejects it (ControlFrameTooBig).  wf_msg excludes it.               *)
From TungModel Require Import Base Coding Mask Header Frame Utf8 World Message Codec Protocol.
From TungModel.proofs Require Import CodecReadP WritePathP RoundTripP.

(* ---------------------------------------------------------------------------------------------- *)
(* The writer.  Role r, any configuration whose max_write_buffer_size is at least the total encoded
   size, any write_buffer_size, any pre-read part, any message list of text/binary/ping/pong, any key
   oracle, any write and flush oracle (partial accepts, WouldBlock, hard errors).
   After [write m1; ...; write mn; flush] from a fresh context:
   - the bytes the transport accepted followed by the bytes still in out_buffer are exactly
     encode_all (so the wire is a prefix of it, for EVERY oracle);
   - if the final flush returned Ok, the wire is exactly encode_all;
   - every call returned Ok or an io error (never WriteBufferFull, a panic, ...).                  *)
Theorem C01_writer : forall r part cfg ms x0 w0 rs x w,
  ctx_new r part cfg = Some x0 -> w_log w0 = [] ->
  Forall (fun m => plain m = true) ms ->
  blen (encode_all r (w_keys w0) ms) <= cfg_max_write_buffer_size cfg ->
  run_ops x0 (map OpWrite ms ++ [OpFlush]) w0 = (rs, x, w) ->
  wire (w_log w) ++ c_out (x_codec x) = encode_all r (w_keys w0) ms /\
  (last (map fst rs) (ResBool false) = ResUnit (ROk tt) -> wire (w_log w) = encode_all r (w_keys w0) ms) /\
  Forall write_res_ok rs /\ length rs = S (length ms).
Proof. exact writer_run. Qed.

(* The same for any interleaving of writes and flushes — hence at the end of every prefix of the
   operations, i.e. at every moment between calls.  Every user pong is queued by its own write call
   (under the size hypothesis the additional_send slot is always empty again when write returns). *)
Theorem C01_writer_interleaved : forall r part cfg ops x0 w0 rs x w,
  ctx_new r part cfg = Some x0 -> w_log w0 = [] ->
  Forall wop_ok ops ->
  blen (encode_all r (w_keys w0) (written ops)) <= cfg_max_write_buffer_size cfg ->
  run_ops x0 ops w0 = (rs, x, w) ->
  wire (w_log w) ++ c_out (x_codec x) = encode_all r (w_keys w0) (written ops) /\
  Forall write_res_ok rs /\ x_state x = Active /\ x_additional x = None.
Proof. exact writer_ops. Qed.

(* Over an accepting transport every write and every flush returns Ok (so with C01_writer_interleaved:
   after a final flush the wire is exactly encode_all; each pong is queued and, if write_buffer_size
   is below the pending size, also sent by its own write call). *)
Theorem C01_writer_accepting : forall r part cfg ops x0 w0 rs x w,
  ctx_new r part cfg = Some x0 -> w_log w0 = [] ->
  Forall wop_ok ops ->
  blen (encode_all r (w_keys w0) (written ops)) <= cfg_max_write_buffer_size cfg ->
  acc_wrs (blen (encode_all r (w_keys w0) (written ops))) (length ops) (w_wrs w0) ->
  acc_fls (length ops) (w_fls w0) ->
  run_ops x0 ops w0 = (rs, x, w) ->
  Forall res_ok_unit rs.
Proof. exact writer_accepting. Qed.

(* ---------------------------------------------------------------------------------------------- *)
(* The reader.  Role opp r, any configuration whose limits allow the messages, any pre-read part and
   any schedule whose data, after the pre-read part, are encode_all r ks ms (any keys), a write side
   that never fails hard.  For every number n of read calls: the non-WouldBlock results are
   Ok(m1), ..., Ok(mk) for some k — same kind, same bytes, same order, nothing added, dropped, split
   or merged — and once n >= |ms| + |schedule| they are exactly Ok(m1), ..., Ok(mn): every further
   read answers WouldBlock.                                                                        *)
Theorem C01_reader : forall r part cfg x0 w0 ks ms n rs x w,
  ctx_new (opp r) part cfg = Some x0 ->
  Forall live_rd (w_rds w0) ->
  part ++ concat (map rd_payload (w_rds w0)) = encode_all r ks ms ->
  soft w0 -> Forall (rd_ok cfg) ms ->
  run_ops x0 (repeat OpRead n) w0 = (rs, x, w) ->
  (exists k, delivered rs = map ok_msg (firstn k ms)) /\
  ((length ms + length (w_rds w0) <= n)%nat -> delivered rs = map ok_msg ms).
Proof. exact reader_run. Qed.

(* A reader that has so far been handed only a prefix of the stream (cut anywhere, also inside a
   frame) returns a prefix of the messages. *)
Theorem C01_reader_prefix : forall r part cfg x0 w0 ks ms more n rs x w,
  ctx_new (opp r) part cfg = Some x0 ->
  Forall live_rd (w_rds w0) ->
  (part ++ concat (map rd_payload (w_rds w0))) ++ more = encode_all r ks ms ->
  soft w0 -> Forall (rd_ok cfg) ms ->
  run_ops x0 (repeat OpRead n) w0 = (rs, x, w) ->
  exists k, delivered rs = map ok_msg (firstn k ms).
Proof. exact reader_prefix. Qed.

(* ---------------------------------------------------------------------------------------------- *)
(* The round trip, both directions (r = Client: client to server; r = Server: server to client).
   The writer's transport accepted everything by the time flush returned Ok; the peer is handed the
   writer's wire bytes under any delivery schedule. *)
Theorem C01_roundtrip : forall r cfgW partW ms xw0 ww0 rsw xw ww cfgR partR xr0 wr0 n rsr xr wr,
  ctx_new r partW cfgW = Some xw0 -> w_log ww0 = [] ->
  blen (encode_all r (w_keys ww0) ms) <= cfg_max_write_buffer_size cfgW ->
  run_ops xw0 (map OpWrite ms ++ [OpFlush]) ww0 = (rsw, xw, ww) ->
  last (map fst rsw) (ResBool false) = ResUnit (ROk tt) ->
  ctx_new (opp r) partR cfgR = Some xr0 ->
  Forall live_rd (w_rds wr0) ->
  partR ++ concat (map rd_payload (w_rds wr0)) = wire (w_log ww) ->
  soft wr0 -> Forall (rd_ok cfgR) ms ->
  run_ops xr0 (repeat OpRead n) wr0 = (rsr, xr, wr) ->
  (exists k, delivered rsr = map ok_msg (firstn k ms)) /\
  ((length ms + length (w_rds wr0) <= n)%nat -> delivered rsr = map ok_msg ms).
Proof. exact roundtrip. Qed.

(* The same with the hypothesis on the flush result replaced by its cause: an accepting transport. *)
Theorem C01_roundtrip_accepting : forall r cfgW partW ms xw0 ww0 rsw xw ww cfgR partR xr0 wr0 n rsr xr wr,
  ctx_new r partW cfgW = Some xw0 -> w_log ww0 = [] ->
  blen (encode_all r (w_keys ww0) ms) <= cfg_max_write_buffer_size cfgW ->
  acc_wrs (blen (encode_all r (w_keys ww0) ms)) (S (length ms)) (w_wrs ww0) ->
  acc_fls (S (length ms)) (w_fls ww0) ->
  run_ops xw0 (map OpWrite ms ++ [OpFlush]) ww0 = (rsw, xw, ww) ->
  ctx_new (opp r) partR cfgR = Some xr0 ->
  Forall live_rd (w_rds wr0) ->
  partR ++ concat (map rd_payload (w_rds wr0)) = wire (w_log ww) ->
  soft wr0 -> Forall (rd_ok cfgR) ms ->
  run_ops xr0 (repeat OpRead n) wr0 = (rsr, xr, wr) ->
  Forall res_ok_unit rsw /\
  (exists k, delivered rsr = map ok_msg (firstn k ms)) /\
  ((length ms + length (w_rds wr0) <= n)%nat -> delivered rsr = map ok_msg ms).
Proof. exact roundtrip_accepting. Qed.

(* For EVERY writer oracle (hard errors included), any interleaving of writes and flushes, at every
   moment between calls: a peer handed any prefix of what the transport accepted so far returns a
   prefix of the written messages. *)
Theorem C01_roundtrip_prefix : forall r cfgW partW ops xw0 ww0 rsw xw ww cfgR partR xr0 wr0 more n rsr xr wr,
  ctx_new r partW cfgW = Some xw0 -> w_log ww0 = [] ->
  Forall wop_ok ops ->
  blen (encode_all r (w_keys ww0) (written ops)) <= cfg_max_write_buffer_size cfgW ->
  run_ops xw0 ops ww0 = (rsw, xw, ww) ->
  ctx_new (opp r) partR cfgR = Some xr0 ->
  Forall live_rd (w_rds wr0) ->
  (partR ++ concat (map rd_payload (w_rds wr0))) ++ more = wire (w_log ww) ->
  soft wr0 -> Forall (rd_ok cfgR) (written ops) ->
  run_ops xr0 (repeat OpRead n) wr0 = (rsr, xr, wr) ->
  exists k, delivered rsr = map ok_msg (firstn k (written ops)).
Proof. exact roundtrip_prefix. Qed.

(* ---------------------------------------------------------------------------------------------- *)
(* Payload lengths are universally quantified; the three length-encoding boundaries as instances of
   the general theorem (any role, byte value, keys, configuration without limits — [nolimit] —,
   pre-read part, schedule). *)
Example C01_boundary_lengths : forall len, In len [0; 125; 126; 65535; 65536] ->
  forall r b part cfg x0 w0 ks n rs x w,
  nolimit cfg ->
  ctx_new (opp r) part cfg = Some x0 ->
  Forall live_rd (w_rds w0) ->
  part ++ concat (map rd_payload (w_rds w0)) = encode_all r ks [MBinary (repeat b (N.to_nat len))] ->
  soft w0 ->
  (1 + length (w_rds w0) <= n)%nat ->
  run_ops x0 (repeat OpRead n) w0 = (rs, x, w) ->
  delivered rs = [ok_msg (MBinary (repeat b (N.to_nat len)))].
Proof. exact boundary_lengths. Qed.

(* ---------------------------------------------------------------------------------------------- *)
(* Non-vacuity: concrete runs (vm_compute) in which every hypothesis of C01_roundtrip holds and the
   conclusion is observed.  Both directions; write_buffer_size 0 and 131072; a transport that accepts
   7 bytes per call; delivery one byte at a time with a WouldBlock after every byte, and in one chunk;
   payload lengths 0, 125, 126 (and 65535, 65536 below). *)
Definition ex_cfg (wbs : N) : config := mkConfig wbs u64_max None None false.
Definition ex_msgs : list message :=
  [MText []; MText (repeat 65 125); MBinary (repeat 200 126); MPing (repeat 1 125); MPong []; MBinary [0; 255; 7]].
Definition ex_keys : list key := [(1, 2, 3, 4); (250, 251, 252, 253); (0, 0, 0, 0); (9, 8, 7, 6)].
(* two transport flushes: the write after the pong flushes (the pong's own write call moved it into
   out_buffer and set unflushed_additional), then the final flush *)
Definition ex_ww (n : N) : world := mkWorld [] (repeat (WrAccept n) 200) [FlOk; FlOk] ex_keys [].
Definition ex_drip (bs : bytes) : list rd_out := flat_map (fun b => [RdData [b]; RdErr WouldBlock]) bs.
Definition ex_wr (rds : list rd_out) : world :=
  mkWorld rds (repeat (WrAccept 3) 100) (repeat FlOk 10) [(7, 7, 7, 7)] [].

Definition msg_eqb (a b : message) : bool :=
  match a, b with
  | MText p, MText q | MBinary p, MBinary q | MPing p, MPing q | MPong p, MPong q => bytes_eqb p q
  | _, _ => false
  end.
Definition res_is (o : op_result) (m : message) : bool :=
  match o with ResMsg (ROk a) => msg_eqb a m | _ => false end.
Fixpoint all2 {A B} (f : A -> B -> bool) (l : list A) (l' : list B) : bool :=
  match l, l' with
  | [], [] => true
  | a :: r, b :: r' => f a b && all2 f r r'
  | _, _ => false
  end.

(* writer r writes ms and flushes over a transport taking acc bytes per call; the reader is handed
   the wire bytes cut by [cut] and reads [reads] times; true iff the flush returned Ok, the wire is
   encode_all and the delivered results are exactly Ok(m) for the written messages *)
Definition ex_round (ms : list message) (r : role) (wbs acc : N) (cut : bytes -> list rd_out) (reads : nat) : bool :=
  match ctx_new r [] (ex_cfg wbs), ctx_new (opp r) [] (ex_cfg 0) with
  | Some xw0, Some xr0 =>
      let '(rsw, xw, ww) := run_ops xw0 (map OpWrite ms ++ [OpFlush]) (ex_ww acc) in
      let '(rsr, xr, wr) := run_ops xr0 (repeat OpRead reads) (ex_wr (cut (wire (w_log ww)))) in
      match last (map fst rsw) (ResBool false) with ResUnit (ROk _) => true | _ => false end
      && bytes_eqb (wire (w_log ww)) (encode_all r ex_keys ms)
      && all2 res_is (delivered rsr) ms
  | _, _ => false
  end.

Example C01_ex_client_to_server_drip : ex_round ex_msgs Client 0 7 ex_drip 1100 = true.
Proof. vm_compute. reflexivity. Qed.

Example C01_ex_server_to_client_whole : ex_round ex_msgs Server 131072 1000 (fun bs => [RdData bs]) 10 = true.
Proof. vm_compute. reflexivity. Qed.

(* the hypotheses of the theorems on these data *)
Example C01_ex_hyps :
  Forall (rd_ok (ex_cfg 0)) ex_msgs /\ soft (ex_wr []) /\
  Forall live_rd (ex_drip (encode_all Client ex_keys ex_msgs)) /\
  blen (encode_all Client ex_keys ex_msgs) <= cfg_max_write_buffer_size (ex_cfg 0).
Proof.
  split; [apply rd_okb_ok|split; [apply softb_ok|split; [apply live_rdb_ok|]]]; vm_compute; try reflexivity.
  intros X; discriminate X.
Qed.

(* an accepting transport for C01_writer_accepting / C01_roundtrip_accepting *)
Example C01_ex_accepting_hyps :
  acc_wrs (blen (encode_all Client ex_keys ex_msgs)) (S (length ex_msgs)) (repeat (WrAccept 100000) 7) /\
  acc_fls (S (length ex_msgs)) (repeat FlOk 7).
Proof. vm_compute. repeat split; intros X; discriminate X. Qed.

(* 65535 and 65536 bytes (16-bit / 64-bit length field), chunks of 4096 bytes, sizes above the chunk *)
Fixpoint ex_chunks (fuel : nat) (n : N) (bs : bytes) : list rd_out :=
  match fuel with
  | O => []
  | S f => match bs with [] => [] | _ => RdData (takeN n bs) :: RdErr WouldBlock :: ex_chunks f n (dropN n bs) end
  end.
Definition ex_big : list message :=
  [MBinary (repeat 3 (N.to_nat 65535)); MText (repeat 97 (N.to_nat 65536))].

Example C01_ex_big_client_to_server : ex_round ex_big Client 0 100000 (ex_chunks 100 4096) 100 = true.
Proof. vm_compute. reflexivity. Qed.

Example C01_ex_big_server_to_client : ex_round ex_big Server 131072 100000 (ex_chunks 100 70000) 100 = true.
Proof. vm_compute. reflexivity. Qed.

(* ---------------------------------------------------------------------------------------------- *)
(* Why the size hypothesis is "total encoded size <= max_write_buffer_size" and not "no write
   returned WriteBufferFull" (the wording of the design note): a user pong that does not fit is not
   refused — write returns Ok and parks it in additional_send, where the next user pong REPLACES it,
   and flush returns Ok without sending it.  Witness: server, max_write_buffer_size 10, transport
   first WouldBlock then accepting: write(binary 5 bytes) = WouldBlock (queued, 7 bytes pending);
   write(pong [1;2]) = Ok; write(pong [9;9]) = Ok; flush = Ok.  No call returned WriteBufferFull, the
   final flush returned Ok, yet the wire holds only the binary frame: the first pong is lost for good
   and the second is still parked.  A second flush sends the second pong only.                      *)
Definition ex_small_cfg : config := mkConfig 0 10 None None false.
Definition ex_pong_ops : list op :=
  [OpWrite (MBinary [1; 2; 3; 4; 5]); OpWrite (MPong [1; 2]); OpWrite (MPong [9; 9]); OpFlush].
Definition ex_pong_w : world := mkWorld [] [WrErr WouldBlock; WrAccept 100; WrAccept 100] [FlOk; FlOk] [] [].

Example C01_writer_noerror_refuted :
  exists x0 rs x w,
    ctx_new Server [] ex_small_cfg = Some x0 /\
    run_ops x0 ex_pong_ops ex_pong_w = (rs, x, w) /\
    map fst rs = [ResUnit (RErr (EIo WouldBlock)); ResUnit (ROk tt); ResUnit (ROk tt); ResUnit (ROk tt)] /\
    wire (w_log w) = encode_all Server [] [MBinary [1; 2; 3; 4; 5]] /\
    wire (w_log w) <> encode_all Server [] (written ex_pong_ops) /\
    x_additional x = Some (frame_pong [9; 9]) /\
    (* and after one more flush: the binary and the SECOND pong only *)
    (let '(rs2, x2, w2) := run_ops x [OpFlush] w in
     map fst rs2 = [ResUnit (ROk tt)] /\
     wire (w_log w2) = encode_all Server [] [MBinary [1; 2; 3; 4; 5]; MPong [9; 9]]).
Proof.
  eexists. eexists. eexists. eexists. split; [reflexivity|]. split; [vm_compute; reflexivity|].
  vm_compute. repeat split; try reflexivity. intros X; discriminate X.
Qed.

Print Assumptions C01_writer.
Print Assumptions C01_writer_interleaved.
Print Assumptions C01_writer_accepting.
Print Assumptions C01_reader.
Print Assumptions C01_reader_prefix.
Print Assumptions C01_roundtrip.
Print Assumptions C01_roundtrip_accepting.
Print Assumptions C01_roundtrip_prefix.
