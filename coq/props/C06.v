(* props/C06.v — property theorems for C06 only.
   C06: inbound size limits hold and bound memory before the data arrives.
   Finite limits throughout: cfg_max_frame_size = Some F, cfg_max_message_size = Some M; F, M, the codec,
   the context, the op list and the transport oracle (world) are universally quantified, sizes are
   arbitrary N (announced lengths up to 2^64-1 and beyond are covered).

   Spec definitions used below live in proofs/LimitsP.v:
     running_size x   = size of the accumulator (incmsg_len; for text: decoded bytes + undecoded tail), 0 if none
     data_fits x d    = data opcode d is legal in the fragmentation state of x
                        (Continue with an accumulator; Text/Binary without one)
     reserve_ok F e   = e is not a reservation, or it is EvReserve n with n <= max F 6
     chunk_ok R rd    = rd is not data, or it is RdData bs with |bs| <= R
     ctx_inv M x      = a held frame header announces a non-empty payload, and the accumulator, if any,
                        has size <= M and a well-formed undecoded tail
   Partial by nature (stated in DESIGN.md): physical heap use (BytesMut/Vec growth) is not exhibited by
   any Gallina model; what is proved is the bound on every in_buffer.reserve(n) request and on the
   accumulator and delivered sizes. *)
From TungModel Require Import Base Coding Mask Header Frame Utf8 World Message Codec Protocol.
From TungModel.proofs Require Import LimitsP.

(* ---- size bounds ---- *)

(* every frame returned by read_frame has payload <= F (for every codec state and transport) *)
Theorem C06_frame_bound : forall F um au c w f c' w',
  read_frame (Some F) um au c w = (ROk (Some f), c', w') -> blen (f_payload f) <= F.
Proof. exact read_frame_payload_bound. Qed.

(* every Text/Binary message returned by read has size <= M, from ANY context state: whatever is in the
   accumulator, however the message was fragmented *)
Theorem C06_message_bound : forall F M x w m x' w',
  cfg_max_frame_size (x_cfg x) = Some F -> cfg_max_message_size (x_cfg x) = Some M ->
  read x w = (ROk m, x', w') ->
  match m with MText b | MBinary b => blen b <= M | _ => True end.
Proof. exact read_message_bound. Qed.

(* the same along every op list (reads interleaved with writes, flushes, closes, set_config), plus:
   a capacity error always carries (size, limit) with limit = F or M and size > limit, and the write
   path never reports one *)
Theorem C06_message_bound_ops : forall F M x ops w rs x' w',
  cfg_max_frame_size (x_cfg x) = Some F -> cfg_max_message_size (x_cfg x) = Some M ->
  run_ops x ops w = (rs, x', w') ->
  forall r n, In (r, n) rs ->
    match r with
    | ResMsg (ROk (MText b)) | ResMsg (ROk (MBinary b)) => blen b <= M
    | ResMsg (RErr (ECapacity sz mx)) => (mx = F /\ F < sz) \/ (mx = M /\ M < sz)
    | ResUnit (RErr (ECapacity _ _)) => False
    | _ => True
    end.
Proof. exact ops_bound. Qed.

(* ---- over-limit input is reported as Capacity(MessageTooLong size max) with the right numbers ---- *)

(* a frame whose header announces len > F: read returns Capacity(len, F); the world is returned
   unchanged (no transport call, no event) *)
Theorem C06_capacity_error_frame : forall F x w h len k,
  cfg_max_frame_size (x_cfg x) = Some F ->
  x_additional x = None -> x_unflushed x = false -> can_read (x_state x) = true ->
  c_hdr (x_codec x) = None -> header_parse (c_in (x_codec x)) = POk h len k -> F < len ->
  exists x1, read x w = (RErr (ECapacity len F), x1, w) /\ c_hdr (x_codec x1) = Some (h, len).
Proof. exact read_frame_over. Qed.

(* a data frame that takes the running message size over M (unfragmented: 0 + payload; fragment:
   accumulator + payload, where a text accumulator counts its undecoded tail): Capacity(size, M),
   accumulator unchanged. The bound < 2^64 is the usize range (sizes of data held in memory). *)
Theorem C06_capacity_error_message : forall M x w f c1 w1 d,
  cfg_max_message_size (x_cfg x) = Some M ->
  read_frame (cfg_max_frame_size (x_cfg x)) (role_eqb (x_role x) Server)
             (cfg_accept_unmasked (x_cfg x)) (x_codec x) w = (ROk (Some f), c1, w1) ->
  can_read (x_state x) = true ->
  h_rsv1 (f_hdr f) || h_rsv2 (f_hdr f) || h_rsv3 (f_hdr f) = false ->
  role_eqb (x_role x) Client && (match h_mask (f_hdr f) with Some _ => true | None => false end) = false ->
  h_opcode (f_hdr f) = OData d -> data_fits x d ->
  M < running_size x + blen (f_payload f) -> running_size x + blen (f_payload f) < two64 ->
  exists x2, read_message_frame x w = (RErr (ECapacity (running_size x + blen (f_payload f)) M), x2, w1) /\
             x_incomplete x2 = x_incomplete x.
Proof. exact rmf_message_over. Qed.

(* conversely every capacity error of read has limit F or M and a size above it *)
Theorem C06_capacity_error_numbers : forall F M x w sz mx x' w',
  cfg_max_frame_size (x_cfg x) = Some F -> cfg_max_message_size (x_cfg x) = Some M ->
  read x w = (RErr (ECapacity sz mx), x', w') ->
  (mx = F /\ F < sz) \/ (mx = M /\ M < sz).
Proof. exact read_capacity_numbers. Qed.

(* ---- rejection as soon as the header announces an over-limit length ---- *)

(* header in the buffer: the error is returned by this very call; the world comes back identical, i.e.
   no read outcome is consumed and no event (in particular no EvReserve) is emitted *)
Theorem C06_reject_before_payload : forall F um au c w h len k,
  c_hdr c = None -> header_parse (c_in c) = POk h len k -> F < len ->
  read_frame (Some F) um au c w =
    (RErr (ECapacity len F), set_hdr (set_in c (dropN k (c_in c))) (Some (h, len)), w).
Proof. exact read_frame_reject_now. Qed.

(* header arriving during the call, in any segmentation: whenever read_frame ends with a capacity error,
   the transport reads it made are exactly the non-empty chunks needed to complete the header (every
   proper prefix still parses as incomplete), each preceded by the 6-byte header reservation and by
   nothing else: nothing is reserved or read for the announced payload *)
Theorem C06_reject_before_payload_trace : forall F um au c w sz mx c' w',
  c_hdr c = None ->
  read_frame (Some F) um au c w = (RErr (ECapacity sz mx), c', w') ->
  exists used h k,
    w_rds w = map RdData used ++ w_rds w' /\
    Forall (fun bs => bs <> []) used /\
    w_log w' = w_log w ++ flat_map (fun bs => [EvReserve 6; EvRead (RdData bs)]) used /\
    header_parse (c_in c ++ concat used) = POk h sz k /\
    mx = F /\ F < sz /\
    (forall p q, used = p ++ q -> q <> [] -> header_parse (c_in c ++ concat p) = PIncomplete) /\
    c_hdr c' = Some (h, sz).
Proof. exact read_frame_capacity_trace. Qed.

(* and the rejection is final: later calls return the same error, again without touching the world *)
Theorem C06_reject_sticky : forall F um au c w h len,
  c_hdr c = Some (h, len) -> F < len ->
  read_frame (Some F) um au c w = (RErr (ECapacity len F), c, w).
Proof. exact read_frame_reject_sticky. Qed.

(* ---- what is reserved / accumulated is bounded by the limits, whatever the peer announces ---- *)

(* one read_frame call appends only reservations n <= max F 6 and transport reads *)
Theorem C06_reserve_bound : forall F um au c w r c' w',
  read_frame (Some F) um au c w = (r, c', w') ->
  exists evs, w_log w' = w_log w ++ evs /\
    Forall (fun e => match e with EvReserve n => n <= N.max F 6 | EvRead _ => True | _ => False end) evs.
Proof. exact read_frame_reserve_bound. Qed.

(* along every op list every EvReserve n in the log has n <= max F 6 *)
Theorem C06_reserve_bound_ops : forall F M x ops w rs x' w',
  cfg_max_frame_size (x_cfg x) = Some F -> cfg_max_message_size (x_cfg x) = Some M ->
  run_ops x ops w = (rs, x', w') ->
  Forall (reserve_ok F) (w_log w) -> Forall (reserve_ok F) (w_log w').
Proof. exact ops_reserve_bound. Qed.

(* a transport read is issued only while fewer than max F 14 bytes are buffered (14 = longest frame
   header), with a reservation of at most max F 6 *)
Theorem C06_read_only_when_short : forall F c n c',
  try_take F c = TkNeedMore n c' -> n <= N.max F 6 /\ blen (c_in c') < N.max F 14.
Proof. exact read_issued_only_when_short. Qed.

(* hence the in-buffer is bounded by the frame limit plus what one transport read can return: if every
   read returns at most R bytes (chunk_ok R: R = spare capacity handed to the transport, a physical
   quantity outside the model), in_buffer holds fewer than max F 14 + R bytes after any op list *)
Theorem C06_in_buffer_bound : forall F M R ops x w rs x' w',
  cfg_max_frame_size (x_cfg x) = Some F -> cfg_max_message_size (x_cfg x) = Some M ->
  run_ops x ops w = (rs, x', w') ->
  Forall (chunk_ok R) (w_rds w) -> blen (c_in (x_codec x)) < N.max F 14 + R ->
  blen (c_in (x_codec x')) < N.max F 14 + R.
Proof. exact ops_in_buffer_bound. Qed.

(* the accumulator never exceeds M: invariant of every socket created by ctx_new, after any op list *)
Theorem C06_accumulator_bound : forall F M role part cfg x ops w rs x' w',
  cfg_max_frame_size cfg = Some F -> cfg_max_message_size cfg = Some M ->
  ctx_new role part cfg = Some x ->
  run_ops x ops w = (rs, x', w') ->
  forall m, x_incomplete x' = Some m -> incmsg_len m <= M.
Proof. exact ops_accumulator_bound. Qed.

(* it is inductive: preserved by every single operation from any state satisfying it *)
Theorem C06_accumulator_inductive : forall F M x o w res x' w',
  cfg_max_frame_size (x_cfg x) = Some F -> cfg_max_message_size (x_cfg x) = Some M ->
  ctx_inv M x -> run_op x o w = (res, x', w') -> ctx_inv M x'.
Proof. exact accumulator_step. Qed.

(* PARTIAL (by nature, see header): what stands for "memory held while reading" in the model, together.
   For a socket created by ctx_new whose initial buffer is within the bound, after any op list against
   any transport returning at most R bytes per read: in_buffer < max F 14 + R, accumulator <= M, every
   in_buffer.reserve(n) had n <= max F 6 (and every delivered message is <= M, every frame payload <= F,
   by the theorems above). Missing for the full sentence of C06: the step from these logical sizes to
   allocated bytes (BytesMut/Vec capacity growth, the allocator) and the value of R (spare capacity
   offered to the transport); neither exists in a Gallina model; the harness measures them. *)
Theorem C06_memory_bound_partial : forall F M R role part cfg x ops w rs x' w',
  cfg_max_frame_size cfg = Some F -> cfg_max_message_size cfg = Some M ->
  ctx_new role part cfg = Some x ->
  blen part < N.max F 14 + R -> Forall (chunk_ok R) (w_rds w) -> w_log w = [] ->
  run_ops x ops w = (rs, x', w') ->
  blen (c_in (x_codec x')) < N.max F 14 + R /\
  running_size x' <= M /\
  Forall (reserve_ok F) (w_log w').
Proof. exact ops_memory_bound. Qed.

(* ---- non-vacuity: the limits are reached with equality and exceeded by one ---- *)

Definition ex_cfg (F M : N) : config := mkConfig 0 100 (Some M) (Some F) false.
Definition ex_run (F M : N) (rds : list rd_out) (ops : list op) :=
  match ctx_new Client [] (ex_cfg F M) with
  | Some x => let '(rs, x', w') := run_ops x ops (mkWorld rds [] [] [] []) in
              Some (map fst rs, x_incomplete x', w_log w')
  | None => None
  end.

(* unfragmented, size = F = M: delivered *)
Example C06_ex_equal_accepted :
  ex_run 3 3 [RdData [130; 3; 1; 2; 3]] [OpRead] =
  Some ([ResMsg (ROk (MBinary [1; 2; 3]))], None, [EvReserve 6; EvRead (RdData [130; 3; 1; 2; 3])]).
Proof. vm_compute. reflexivity. Qed.

(* frame of F+1 bytes: Capacity(4, 3), nothing reserved for the payload *)
Example C06_ex_frame_over :
  ex_run 3 9 [RdData [130; 4; 1; 2; 3; 4]] [OpRead] =
  Some ([ResMsg (RErr (ECapacity 4 3))], None, [EvReserve 6; EvRead (RdData [130; 4; 1; 2; 3; 4])]).
Proof. vm_compute. reflexivity. Qed.

(* unfragmented message of M+1 bytes within the frame limit: Capacity(4, 3) *)
Example C06_ex_message_over :
  ex_run 9 3 [RdData [130; 4; 1; 2; 3; 4]] [OpRead] =
  Some ([ResMsg (RErr (ECapacity 4 3))], None, [EvReserve 6; EvRead (RdData [130; 4; 1; 2; 3; 4])]).
Proof. vm_compute. reflexivity. Qed.

(* fragmented 2+1 = M: delivered; 2+2 = M+1: Capacity(4, 3), accumulator unchanged *)
Example C06_ex_fragments_equal :
  ex_run 3 3 [RdData [2; 2; 1; 2; 128; 1; 3]] [OpRead] =
  Some ([ResMsg (ROk (MBinary [1; 2; 3]))], None, [EvReserve 6; EvRead (RdData [2; 2; 1; 2; 128; 1; 3])]).
Proof. vm_compute. reflexivity. Qed.
Example C06_ex_fragments_over :
  ex_run 3 3 [RdData [2; 2; 1; 2; 128; 2; 3; 4]] [OpRead] =
  Some ([ResMsg (RErr (ECapacity 4 3))], Some (IBin [1; 2]),
        [EvReserve 6; EvRead (RdData [2; 2; 1; 2; 128; 2; 3; 4])]).
Proof. vm_compute. reflexivity. Qed.

(* text with a code point (E2 82 AC) split across fragments at the limit: the two undecoded bytes count *)
Example C06_ex_split_codepoint_equal :
  ex_run 3 3 [RdData [1; 2; 226; 130; 128; 1; 172]] [OpRead] =
  Some ([ResMsg (ROk (MText [226; 130; 172]))], None, [EvReserve 6; EvRead (RdData [1; 2; 226; 130; 128; 1; 172])]).
Proof. vm_compute. reflexivity. Qed.
Example C06_ex_split_codepoint_over :
  ex_run 3 2 [RdData [1; 2; 226; 130; 128; 1; 172]] [OpRead] =
  Some ([ResMsg (RErr (ECapacity 3 2))], Some (ITxt (mkCollector [] (Some [226; 130]))),
        [EvReserve 6; EvRead (RdData [1; 2; 226; 130; 128; 1; 172])]).
Proof. vm_compute. reflexivity. Qed.

(* announced length 2^64-1, header cut in two, no payload: rejected with two 6-byte reservations only;
   the second read returns the same error without any transport call (the third chunk is never read) *)
Example C06_ex_announced_u64_max :
  ex_run 1000 1000 [RdData [130; 127; 255; 255; 255]; RdData [255; 255; 255; 255; 255]; RdData [1; 2; 3]]
         [OpRead; OpRead] =
  Some ([ResMsg (RErr (ECapacity 18446744073709551615 1000)); ResMsg (RErr (ECapacity 18446744073709551615 1000))],
        None,
        [EvReserve 6; EvRead (RdData [130; 127; 255; 255; 255]); EvReserve 6; EvRead (RdData [255; 255; 255; 255; 255])]).
Proof. vm_compute. reflexivity. Qed.

(* why "finite limits" is a hypothesis: with max_frame_size = None the same header makes the codec ask
   for in_buffer.reserve(2^64-1) *)
Example C06_ex_unbounded_reserve :
  w_log (snd (read_frame None false false
                (codec_new [130; 127; 255; 255; 255; 255; 255; 255; 255; 255]) (mkWorld [] [] [] [] []))) =
  [EvReserve 18446744073709551615; EvRead (RdErr WouldBlock)].
Proof. vm_compute. reflexivity. Qed.

Print Assumptions C06_frame_bound.
Print Assumptions C06_message_bound.
Print Assumptions C06_message_bound_ops.
Print Assumptions C06_capacity_error_frame.
Print Assumptions C06_capacity_error_message.
Print Assumptions C06_capacity_error_numbers.
Print Assumptions C06_reject_before_payload.
Print Assumptions C06_reject_before_payload_trace.
Print Assumptions C06_reject_sticky.
Print Assumptions C06_reserve_bound.
Print Assumptions C06_reserve_bound_ops.
Print Assumptions C06_read_only_when_short.
Print Assumptions C06_in_buffer_bound.
Print Assumptions C06_accumulator_bound.
Print Assumptions C06_accumulator_inductive.
Print Assumptions C06_memory_bound_partial.
