(* props/C10.v — accepted writes reach the transport exactly once and in order.
   Spec vocabulary (defined in proofs/WritePathP.v):
     wire log / queued log   — World.v: bytes the transport accepted / frames appended to out_buffer
     tracks out evs out'     — per-event monitor: EvQueue f appends frame_format f at the end of the
                               unsent data, EvWrite off acc removes acc from its front and was offered
                               all of it (off = its length), EvWriteErr off _ offered all of it
     data_frame m            — the frame of a Text/Binary/Ping/Frame message (Pong/Close: None, they
                               travel through the additional_send slot)
     sent_frame role w f     — f on a server; f with the next mask key of the oracle on a client
     content_eq f f'         — same payload, opcode and flag bits (mask key may differ)
     after_key role w        — w, minus the mask key a client drew *)
From TungModel Require Import Base Coding Mask Header Frame Utf8 World Message Codec Protocol.
From TungModel.proofs Require Import WritePathP.

(* ---- the invariant ---- *)

(* every reachable state: both roles, any valid config, any leftover bytes, any op list, any
   read/write/flush/key oracles *)
Theorem C10_inv : forall r part cfg x0 ops w0 rs x w,
  ctx_new r part cfg = Some x0 -> w_log w0 = [] -> run_ops x0 ops w0 = (rs, x, w) ->
  wire (w_log w) ++ c_out (x_codec x) = concat (map frame_format (queued (w_log w))).
Proof. exact c10_inv. Qed.

(* it is inductive: preserved by any op list from any state that satisfies it *)
Theorem C10_inv_preserved : forall x ops w rs x' w',
  run_ops x ops w = (rs, x', w') ->
  wire (w_log w) ++ c_out (x_codec x) = concat (map frame_format (queued (w_log w))) ->
  wire (w_log w') ++ c_out (x_codec x') = concat (map frame_format (queued (w_log w'))).
Proof. exact c10_inv_preserved. Qed.

(* strongest form: the whole log replays event by event against the monitor *)
Theorem C10_monitor : forall r part cfg x0 ops w0 rs x w,
  ctx_new r part cfg = Some x0 -> w_log w0 = [] -> run_ops x0 ops w0 = (rs, x, w) ->
  tracks [] (w_log w) (c_out (x_codec x)).
Proof. exact reach_tracked. Qed.

(* the accepted bytes are a prefix of the encoding of the queued frames, in queueing order *)
Theorem C10_prefix : forall r part cfg x0 ops w0 rs x w,
  ctx_new r part cfg = Some x0 -> w_log w0 = [] -> run_ops x0 ops w0 = (rs, x, w) ->
  exists unsent, concat (map frame_format (queued (w_log w))) = wire (w_log w) ++ unsent.
Proof. exact c10_prefix. Qed.

(* ... at every instant, also in the middle of a call (cut the event log anywhere) *)
Theorem C10_prefix_always : forall r part cfg x0 ops w0 rs x w l1 l2,
  ctx_new r part cfg = Some x0 -> w_log w0 = [] -> run_ops x0 ops w0 = (rs, x, w) ->
  w_log w = l1 ++ l2 ->
  exists unsent, concat (map frame_format (queued l1)) = wire l1 ++ unsent.
Proof. exact c10_prefix_always. Qed.

(* every transport write was offered exactly the unsent bytes; whatever number k of the n offered
   it accepted, those are the first k unsent bytes *)
Theorem C10_write_events : forall r part cfg x0 ops w0 rs x w l1 off acc l2,
  ctx_new r part cfg = Some x0 -> w_log w0 = [] -> run_ops x0 ops w0 = (rs, x, w) ->
  w_log w = l1 ++ EvWrite off acc :: l2 ->
  exists unsent rest,
    wire l1 ++ unsent = concat (map frame_format (queued l1)) /\
    off = blen unsent /\ unsent = acc ++ rest.
Proof. exact c10_write_events. Qed.

(* ---- which writes queue what ---- *)

(* data messages (Text, Binary, Ping, Frame), in ANY state x and world w:
   Ok or Err(Io _): exactly the message's frame was queued, first; the only other frame the call may
     queue is the one pending automatic reply (additional_send), after it;
   WriteBufferFull: hands back that same frame, nothing queued, context unchanged;
   SendAfterClosing / AlreadyClosed: nothing happened at all;
   no other result is possible (no panic, no other error). *)
Theorem C10_accept : forall x m f w r x' w',
  data_frame m = Some f -> write x m w = (r, x', w') ->
  let f1 := sent_frame (x_role x) w f in
  match r with
  | ROk _ | RErr (EIo _) =>
      exists evs, w_log w' = w_log w ++ EvQueue f1 :: evs /\
        (queued evs = [] \/
         exists a a', x_additional x = Some a /\ content_eq a a' /\ queued evs = [a'])
  | RErr (EWriteBufferFull f') => f' = f1 /\ x' = x /\ w_log w' = w_log w
  | RErr (EProtocol SendAfterClosing) =>
      x_state x <> Active /\ x_state x <> Terminated /\ x' = x /\ w' = w
  | RErr EAlreadyClosed => x_state x = Terminated /\ x' = x /\ w' = w
  | _ => False
  end.
Proof. exact c10_accept. Qed.

Theorem C10_accept_queued : forall x m f w r x' w',
  data_frame m = Some f -> write x m w = (r, x', w') ->
  let f1 := sent_frame (x_role x) w f in
  match r with
  | ROk _ | RErr (EIo _) =>
      exists auto, queued (w_log w') = queued (w_log w) ++ f1 :: auto /\
        (auto = [] \/ exists a a', x_additional x = Some a /\ content_eq a a' /\ auto = [a'])
  | _ => queued (w_log w') = queued (w_log w)
  end.
Proof. exact c10_accept_queued. Qed.

(* the frame queued is the message's frame: same payload / opcode / flags; identical on a server *)
Theorem C10_sent_frame : forall r w f,
  content_eq f (sent_frame r w f) /\ sent_frame Server w f = f.
Proof. intros r w f. split; [apply sent_frame_content|reflexivity]. Qed.

(* ---- Pong and Close travel through the additional_send slot ---- *)

(* the design's "Ok => the frame was appended to queued" does NOT hold for Pong: with no room in
   out_buffer the pong stays in the slot and the call still returns Ok (nothing queued) *)
Theorem C10_accept_pong_refuted :
  exists x0 w0 x1 w1,
    ctx_new Server [] (mkConfig 0 3 None None false) = Some x0 /\
    write x0 (MPong [1; 2]) w0 = (ROk tt, x1, w1) /\
    queued (w_log w1) = queued (w_log w0) /\ x_additional x1 = Some (frame_pong [1; 2]).
Proof. exact c10_accept_pong_refuted. Qed.

(* corrected statement: whatever the result, the pong was either queued (and nothing else was) or is
   still pending in the slot — never lost, never duplicated *)
Theorem C10_accept_pong : forall x d w r x' w',
  x_state x = Active ->
  (x_additional x = None \/ exists a, x_additional x = Some a /\ h_opcode (f_hdr a) = OCtl Pong) ->
  write x (MPong d) w = (r, x', w') ->
  exists evs, w_log w' = w_log w ++ evs /\
    ((queued evs = [] /\ exists a', x_additional x' = Some a' /\ content_eq (frame_pong d) a') \/
     (exists a', queued evs = [a'] /\ content_eq (frame_pong d) a' /\ x_additional x' = None)).
Proof. exact c10_accept_pong_std. Qed.

(* same for close(code) / write(Close code) on an active connection *)
Theorem C10_accept_close : forall x code w r x' w',
  x_state x = Active -> write x (MClose code) w = (r, x', w') ->
  exists evs, w_log w' = w_log w ++ evs /\
    ((queued evs = [] /\ exists a', x_additional x' = Some a' /\ content_eq (frame_close code) a') \/
     (exists a', queued evs = [a'] /\ content_eq (frame_close code) a' /\ x_additional x' = None)).
Proof. exact c10_accept_close. Qed.

(* and a pending frame is moved to the queue by a later flush (or stays pending), in any state *)
Theorem C10_flush_slot : forall x w r x' w',
  flush x w = (r, x', w') ->
  exists evs, w_log w' = w_log w ++ evs /\
    match x_additional x with
    | None => queued evs = [] /\ x_additional x' = None
    | Some a =>
        (queued evs = [] /\ exists a', x_additional x' = Some a' /\ content_eq a a') \/
        (exists a', queued evs = [a'] /\ content_eq a a' /\ x_additional x' = None)
    end.
Proof. exact c10_flush_slot. Qed.

(* ---- flush ---- *)

Theorem C10_flush : forall x w u x' w',
  wire (w_log w) ++ c_out (x_codec x) = concat (map frame_format (queued (w_log w))) ->
  flush x w = (ROk u, x', w') ->
  c_out (x_codec x') = [] /\
  wire (w_log w') = concat (map frame_format (queued (w_log w'))) /\
  exists l, w_log w' = l ++ [EvFlush FlOk].
Proof. exact c10_flush. Qed.

(* a message whose write reported a transport error is still queued; after any further ops, once a
   flush succeeds its bytes are on the wire right behind everything queued before it *)
Theorem C10_retry : forall x m f w k x1 w1 ops rs x2 w2 u x3 w3,
  wire (w_log w) ++ c_out (x_codec x) = concat (map frame_format (queued (w_log w))) ->
  data_frame m = Some f ->
  write x m w = (RErr (EIo k), x1, w1) ->
  run_ops x1 ops w1 = (rs, x2, w2) ->
  flush x2 w2 = (ROk u, x3, w3) ->
  exists later,
    wire (w_log w3) =
    concat (map frame_format (queued (w_log w))) ++ frame_format (sent_frame (x_role x) w f) ++ later.
Proof. exact c10_retry. Qed.

(* ---- Ok(0) from the transport ---- *)

(* write_out_buffer: one call, ConnectionReset, buffer intact, no loop *)
Theorem C10_zero_write : forall c w n rest,
  c_out c <> [] -> w_wrs w = WrAccept n :: rest -> n = 0 ->
  write_out_buffer c w =
  (RErr (EIo ConnReset), c,
   mkWorld (w_rds w) rest (w_fls w) (w_keys w) (w_log w ++ [EvWrite (blen (c_out c)) []])).
Proof. exact write_out_zero. Qed.

Theorem C10_zero_write_flush : forall x w rest,
  x_additional x = None -> c_out (x_codec x) <> [] -> w_wrs w = WrAccept 0 :: rest ->
  flush x w =
  (RErr (EIo ConnReset), x,
   mkWorld (w_rds w) rest (w_fls w) (w_keys w) (w_log w ++ [EvWrite (blen (c_out (x_codec x))) []])).
Proof. exact flush_zero_write. Qed.

(* when a frame is being buffered: ConnectionReset, or ConnectionClosed (and Terminated) once the
   peer's Close has been received; the buffer keeps everything including the new frame *)
Theorem C10_zero_write_buffer_frame : forall x f w rest,
  let f1 := sent_frame (x_role x) w f in
  let c := x_codec x in
  frame_len f1 + blen (c_out c) <= c_max_out c ->
  c_write_len c < blen (c_out c) + frame_len f1 ->
  w_wrs w = WrAccept 0 :: rest ->
  exists x' w',
    buffer_frame x f w =
      (if closing_done (x_state x) then RErr EConnectionClosed else RErr (EIo ConnReset), x', w') /\
    c_out (x_codec x') = c_out c ++ frame_format f1 /\
    x_state x' = (if closing_done (x_state x) then Terminated else x_state x) /\
    w_wrs w' = rest /\
    w_log w' = w_log w ++ [EvQueue f1; EvWrite (blen (c_out c ++ frame_format f1)) []].
Proof. exact buffer_frame_zero_write. Qed.

(* ---- non-vacuity ---- *)

Definition ex_cfg : config := mkConfig 4 100 None None false.
Definition ex_w0 : world :=
  mkWorld [] [WrAccept 3; WrErr WouldBlock; WrAccept 0; WrAccept 100] [FlOk] [(9, 8, 7, 6)] [].
Definition ex_msg : message := MBinary [1; 2; 3; 4; 5].

(* a partial accept followed by WouldBlock: 3 bytes on the wire, 4 still buffered, error reported *)
Example C10_ex_partial : exists x0 x w,
  ctx_new Server [] ex_cfg = Some x0 /\
  run_ops x0 [OpWrite ex_msg] ex_w0 = ([(ResUnit (RErr (EIo WouldBlock)), 3)], x, w) /\
  wire (w_log w) = [130; 5; 1] /\ c_out (x_codec x) = [2; 3; 4; 5].
Proof.
  eexists. eexists. eexists. split; [reflexivity|]. split; [vm_compute; reflexivity|].
  split; [vm_compute; reflexivity|]. vm_compute; reflexivity.
Qed.

(* C10_retry's hypotheses: Err(Io) on write, then a zero-length accept, then a successful flush *)
Example C10_ex_retry : exists x0 x1 w1 rs x2 w2 x3 w3,
  ctx_new Client [] ex_cfg = Some x0 /\
  write x0 ex_msg ex_w0 = (RErr (EIo WouldBlock), x1, w1) /\
  run_ops x1 [OpFlush; OpRead] w1 = (rs, x2, w2) /\
  flush x2 w2 = (ROk tt, x3, w3) /\
  wire (w_log w3) = [130; 133; 9; 8; 7; 6; 8; 10; 4; 2; 12].
Proof.
  eexists. eexists. eexists. eexists. eexists. eexists. eexists. eexists.
  split; [reflexivity|]. split; [vm_compute; reflexivity|]. split; [vm_compute; reflexivity|].
  split; [vm_compute; reflexivity|]. vm_compute; reflexivity.
Qed.

(* WriteBufferFull and the state errors do occur *)
Example C10_ex_full : exists x0,
  ctx_new Server [] (mkConfig 0 6 None None false) = Some x0 /\
  write x0 ex_msg ex_w0 =
    (RErr (EWriteBufferFull (frame_message [1; 2; 3; 4; 5] (OData Binary) true)), x0, ex_w0).
Proof. eexists. split; [reflexivity|]. vm_compute. reflexivity. Qed.

Example C10_ex_after_close : exists x0 x1 w1,
  ctx_new Server [] ex_cfg = Some x0 /\
  close x0 None ex_w0 = (ROk tt, x1, w1) /\
  write x1 ex_msg w1 = (RErr (EProtocol SendAfterClosing), x1, w1).
Proof.
  eexists. eexists. eexists. split; [reflexivity|]. split; [vm_compute; reflexivity|]. vm_compute; reflexivity.
Qed.

(* a pending automatic Pong is queued right behind the user's frame *)
Example C10_ex_pending_pong : exists x0 x1 w1 r x2 w2,
  ctx_new Server [] ex_cfg = Some x0 /\
  read x0 (mkWorld [RdData [137; 128; 0; 0; 0; 0]] [WrAccept 100; WrAccept 100] [FlOk] [] []) = (ROk (MPing []), x1, w1) /\
  x_additional x1 = Some (frame_pong []) /\
  write x1 ex_msg w1 = (r, x2, w2) /\
  queued (w_log w2) = [frame_message [1; 2; 3; 4; 5] (OData Binary) true; frame_pong []].
Proof.
  eexists. eexists. eexists. eexists. eexists. eexists.
  split; [reflexivity|]. split; [vm_compute; reflexivity|]. split; [reflexivity|].
  split; [vm_compute; reflexivity|]. vm_compute; reflexivity.
Qed.

(* the zero-write hypotheses are satisfiable *)
Example C10_ex_zero : exists x0 x1 w1,
  ctx_new Server [] ex_cfg = Some x0 /\
  write x0 ex_msg (mkWorld [] [WrAccept 3; WrErr WouldBlock; WrAccept 0] [] [] []) =
    (RErr (EIo WouldBlock), x1, w1) /\
  x_additional x1 = None /\ c_out (x_codec x1) = [2; 3; 4; 5] /\ w_wrs w1 = [WrAccept 0].
Proof.
  eexists. eexists. eexists. split; [reflexivity|]. split; [vm_compute; reflexivity|].
  split; [reflexivity|]. split; [vm_compute; reflexivity|]. vm_compute; reflexivity.
Qed.

Print Assumptions C10_inv.
Print Assumptions C10_inv_preserved.
Print Assumptions C10_monitor.
Print Assumptions C10_prefix.
Print Assumptions C10_prefix_always.
Print Assumptions C10_write_events.
Print Assumptions C10_accept.
Print Assumptions C10_accept_queued.
Print Assumptions C10_sent_frame.
Print Assumptions C10_accept_pong_refuted.
Print Assumptions C10_accept_pong.
Print Assumptions C10_accept_close.
Print Assumptions C10_flush_slot.
Print Assumptions C10_flush.
Print Assumptions C10_retry.
Print Assumptions C10_zero_write.
Print Assumptions C10_zero_write_flush.
Print Assumptions C10_zero_write_buffer_frame.
