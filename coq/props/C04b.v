(* props/C04b.v — C04, liveness under EVERY fair interleaving (the generalisation left open in props/C04.v).

   props/C04.v proves: from every reachable state in which the close handshake has started, the CANONICAL
   schedule  rounds n = fair_round n ++ fair_round n  (server: flush, n reads, drop; client: flush, n
   reads, drop; twice) ends with both sides told ConnectionClosed and both transports dropped.
   Here: the scheduler may interleave ANY number of further quiet actions of either side ANYWHERE — reads
   with any delivery granularity (including nothing), flushes and close() calls over a transport whose
   write side blocks or accepts a few bytes at will, can_read / can_write, drops — and the handshake
   still completes, for every n above an explicit bound.

   Vocabulary (proofs/PairFairP.v; the rest as in props/C04.v):
   - [qop op]        : op is OpRead, OpFlush, OpClose _, OpCanRead or OpCanWrite (no data / ping / pong
                       writes, no set_config): what is left once the users have stopped writing;
   - [quiet a]       : a = PDrop _, or a = PDo _ op chunks wrs fls with qop op, uop_ok op (for OpClose c:
                       the reason is UTF-8 and at most 123 bytes — as in act_ok), all of wrs soft_wr, all
                       of fls soft_fl (a write accepts >= 1 byte or answers WouldBlock, a flush succeeds
                       or answers WouldBlock — as in act_ok); chunks arbitrary (also "deliver nothing");
   - [subseq a l]    : the list a is a subsequence of l (inductive: nil / take / skip);
   - [rounds n]      = fair_round n ++ fair_round n, the exact schedule of C04_liveness_rounds;
   - [fair_enough n acts] : Forall quiet acts /\ subseq (rounds n) acts;
   - [inflight p]    : bytes in flight or buffered (PairLiveP);  [tbound p] = w + 140 * (3 + w) with
                       w = 2 * inflight p + 15;  [nbound' p] = 4 * tbound p + 8  (smaller than nbound p);
   - [ord_round b n] : one fair round, server's part first (b = true) or client's part first (b = false). *)
From TungModel Require Import Base Coding Mask Header Frame Utf8 World Message Codec Protocol Pair.
From TungModel.proofs Require Import PairCodecP PairStepP PairInvP PairP PairLiveP PairFairP.

(* ---------------------------------------------------------------------------------------------- *)
(* The theorem: completion under every fair interleaving, from every reachable closing state; the
   extended run is a reachable run (so every safety theorem of props/C04.v applies to it); over the whole
   run no protocol error / panic; the server is told (and has dropped) before the client is told. *)
Theorem C04_liveness_fair : forall cfg_c cfg_s keys acts items p n acts2 items2 p2,
  reach cfg_c cfg_s keys acts items p -> closing p -> (nbound' p <= n)%nat ->
  fair_enough n acts2 -> prun p acts2 = (items2, p2) ->
  both_closed p2 /\ reach cfg_c cfg_s keys (acts ++ acts2) (items ++ items2) p2 /\
  Forall it_clean (items ++ items2) /\
  (forall pre o r post, items ++ items2 = pre ++ PRes Client o r :: post -> is_cc r = true ->
     existsb (it_cc Server) pre = true /\ existsb (it_drop Server) pre = true).
Proof. exact handshake_completes_fair. Qed.

(* the form of C04_liveness_rounds *)
Theorem C04_liveness_fair_reach : forall cfg_c cfg_s keys acts items p n acts2 items2 p2,
  reach cfg_c cfg_s keys acts items p -> closing p -> (nbound' p <= n)%nat ->
  fair_enough n acts2 -> prun p acts2 = (items2, p2) ->
  both_closed p2 /\ reach cfg_c cfg_s keys (acts ++ acts2) (items ++ items2) p2.
Proof. exact liveness_fair. Qed.

(* The order of the two sides within a round is irrelevant: four fair rounds, each in either order,
   complete the handshake.  (The canonical order needs two; with the client's part first in every round
   three are needed and suffice, see below — two are not enough: C04b_two_client_first_rounds_remark.) *)
Theorem C04_liveness_any_order : forall cfg_c cfg_s keys acts items p n b1 b2 b3 b4 items2 p2,
  reach cfg_c cfg_s keys acts items p -> closing p -> (nbound' p <= n)%nat ->
  prun p (ord_round b1 n ++ ord_round b2 n ++ ord_round b3 n ++ ord_round b4 n) = (items2, p2) ->
  both_closed p2 /\
  reach cfg_c cfg_s keys (acts ++ ord_round b1 n ++ ord_round b2 n ++ ord_round b3 n ++ ord_round b4 n)
        (items ++ items2) p2.
Proof. exact liveness_any_order. Qed.

Theorem C04_liveness_client_first : forall cfg_c cfg_s keys acts items p n items2 p2,
  reach cfg_c cfg_s keys acts items p -> closing p -> (nbound' p <= n)%nat ->
  prun p (ord_round false n ++ ord_round false n ++ ord_round false n) = (items2, p2) ->
  both_closed p2 /\
  reach cfg_c cfg_s keys (acts ++ ord_round false n ++ ord_round false n ++ ord_round false n)
        (items ++ items2) p2.
Proof. exact liveness_client_first. Qed.

(* three rounds in any order suffice when the last one is in the canonical order *)
Theorem C04_three_rounds_fair : forall b1 b2 n,
  fair_enough n (ord_round b1 n ++ ord_round b2 n ++ ord_round true n).
Proof. exact three_rounds_fair. Qed.

(* ---------------------------------------------------------------------------------------------- *)
(* Examples (vm_compute on Pair.v). *)
Definition ex_cfg : config := mkConfig 131072 u64_max None None false.
Definition ex_keys : list key := [(1, 2, 3, 4); (5, 6, 7, 8); (9, 10, 11, 12); (13, 14, 15, 16)].
Definition blocked (sd : role) (o : op) : paction := PDo sd o [] [] [].        (* transport blocked *)
Definition drip (sd : role) (o : op) : paction :=                                (* 1 byte per call *)
  PDo sd o [1] [WrAccept 1; WrErr WouldBlock] [FlErr WouldBlock].
Definition ex_run (acts : list paction) : option (list pres_item * pair) :=
  match pair_init ex_cfg ex_cfg ex_keys with Some p0 => Some (prun p0 acts) | None => None end.
Definition done (e : endpoint) : bool :=
  e_told e && e_dropped e && match x_state (e_ctx e) with Terminated => true | _ => false end.
Definition ex_done (acts : list paction) : bool :=
  match ex_run acts with Some (_, p) => done (p_client p) && done (p_server p) | None => false end.
Fixpoint first_pos (f : pres_item -> bool) (l : list pres_item) : option nat :=
  match l with [] => None | x :: r => if f x then Some 0%nat else option_map S (first_pos f r) end.
(* the server is told, then drops, then the client is told *)
Definition ex_order (acts : list paction) : bool :=
  match ex_run acts with
  | Some (items, _) =>
      match first_pos (it_cc Server) items, first_pos (it_drop Server) items, first_pos (it_cc Client) items with
      | Some a, Some b, Some c => Nat.ltb a b && Nat.ltb b c
      | _, _, _ => false
      end
  | None => false
  end.
Definition ex_clean (acts : list paction) : bool :=
  match ex_run acts with
  | Some (items, _) =>
      forallb (fun it => match it with
                         | PRes _ _ (ResMsg (RErr (EProtocol _))) | PRes _ _ (ResUnit (RErr (EProtocol _))) => false
                         | _ => true end) items
  | None => false
  end.
Definition ex_all (acts : list paction) : bool := ex_done acts && ex_order acts && ex_clean acts.

(* the users' part: data both ways, a ping, then the server closes while its transport is blocked *)
Definition user_part : list paction :=
  [blocked Client (OpWrite (MText [104; 105])); blocked Server (OpWrite (MPing [7]));
   blocked Server (OpWrite (MBinary [1; 2; 3])); blocked Server (OpClose (Some (CNormal, [98; 121; 101])))].

(* a fair schedule that is NOT in canonical order: the client flushes and reads first; reads that are
   handed one byte at a time and whose writes accept one byte, blocked reads / flushes and an extra
   close() call of the client sit between (and inside) the canonical parts *)
Definition noise_c : list paction :=
  [drip Client OpRead; drip Client OpRead; blocked Client OpFlush; drip Client OpRead; drip Client OpFlush;
   PDo Client OpCanRead [] [] []; PDrop Client].
Definition noise_s : list paction :=
  [drip Server OpRead; blocked Server OpFlush; drip Server OpRead; PDo Server OpCanWrite [] [] []; PDrop Server;
   drip Server OpFlush].
Definition fair_sched (n : nat) : list paction :=
  fair_side Client n ++ noise_c ++                                   (* the client goes first *)
  (fair_flush Server :: noise_c ++ repeat (fair_read Server) n ++ noise_s ++ [PDrop Server]) ++
  noise_s ++ noise_c ++ [blocked Client (OpClose None)] ++            (* an extra close() of the client *)
  (fair_flush Client :: drip Client OpRead :: repeat (fair_read Client) n ++ noise_c ++ [PDrop Client]) ++
  noise_c ++ noise_s ++
  fair_side Server n ++ noise_c ++ noise_s ++ noise_c ++
  fair_side Client n ++ noise_s.

(* greedy embedding of a concrete schedule *)
Ltac ss_step :=
  match goal with
  | |- subseq [] _ => apply ss_nil
  | |- subseq (?x :: _) (?x :: _) => apply ss_take
  | |- subseq (repeat ?r ?n ++ _) (repeat ?r ?n ++ _) => apply subseq_app; [apply subseq_refl|]
  | |- subseq _ (repeat _ _ ++ _) => apply subseq_app_r
  | |- subseq _ (_ :: _) => apply ss_skip
  end.

Lemma noise_c_quiet : Forall quiet noise_c.
Proof. unfold noise_c, drip, blocked. repeat constructor; cbn; intros; discriminate. Qed.
Lemma noise_s_quiet : Forall quiet noise_s.
Proof. unfold noise_s, drip, blocked. repeat constructor; cbn; intros; discriminate. Qed.

Example C04b_fair_sched_is_fair : forall n, fair_enough n (fair_sched n).
Proof.
  intros n. split.
  - unfold fair_sched.
    repeat first [apply Forall_app; split | apply fair_side_quiet | apply noise_c_quiet | apply noise_s_quiet].
    + constructor; [apply (fair_quiet Server)|].
      repeat first [apply Forall_app; split | apply noise_c_quiet | apply noise_s_quiet].
      * apply Forall_forall. intros a Ha. apply repeat_spec in Ha. subst a. apply (fair_quiet Server).
      * constructor; [exact I|constructor].
    + unfold blocked. repeat constructor.
    + constructor; [apply (fair_quiet Client)|]. constructor; [unfold drip; repeat constructor; cbn; intros; discriminate|].
      repeat first [apply Forall_app; split | apply noise_c_quiet | apply noise_s_quiet].
      * apply Forall_forall. intros a Ha. apply repeat_spec in Ha. subst a. apply (fair_quiet Client).
      * constructor; [exact I|constructor].
  - unfold rounds, fair_round, fair_sched, fair_side, noise_c, noise_s.
    rewrite <- ?app_assoc. cbn [app]. rewrite <- ?app_assoc. cbn [app].
    repeat ss_step.
Qed.

Example C04b_ex_fair_not_canonical : ex_all (user_part ++ fair_sched 4) = true.
Proof. vm_compute. reflexivity. Qed.

(* the same schedule from the state in which the CLIENT closed, and from a simultaneous close *)
Example C04b_ex_fair_client_closes :
  ex_all ([blocked Server (OpWrite (MText [111; 107])); blocked Client (OpWrite (MPing [1; 2]));
           blocked Client (OpClose None)] ++ fair_sched 4) = true.
Proof. vm_compute. reflexivity. Qed.
Example C04b_ex_fair_simultaneous :
  ex_all ([blocked Server (OpClose None); blocked Client (OpClose None)] ++ fair_sched 3) = true.
Proof. vm_compute. reflexivity. Qed.

(* every order of the sides within the rounds *)
Example C04b_ex_any_order :
  forallb (fun b => ex_all (user_part ++ ord_round (fst (fst (fst b))) 4 ++ ord_round (snd (fst (fst b))) 4 ++
                            ord_round (snd (fst b)) 4 ++ ord_round (snd b) 4))
    (list_prod (list_prod (list_prod [true; false] [true; false]) [true; false]) [true; false]) = true.
Proof. vm_compute. reflexivity. Qed.
Example C04b_ex_client_first :
  ex_all (user_part ++ ord_round false 4 ++ ord_round false 4 ++ ord_round false 4) = true.
Proof. vm_compute. reflexivity. Qed.

(* Why "K = 2 rounds" is tied to the canonical order: when the server has initiated the close and the
   client's part comes first in each round, the client learns of the Close only in round 1, the server
   reads the reply (is told, drops) in round 2, and the client would read the end of the transport only
   in a third round: after two client-first rounds the server is done, the client is not told yet. *)
Example C04b_two_client_first_rounds_remark :
  match ex_run (user_part ++ ord_round false 4 ++ ord_round false 4) with
  | Some (_, p) => (done (p_server p), e_told (p_client p))
  | None => (false, false)
  end = (true, false).
Proof. vm_compute. reflexivity. Qed.

(* the hypotheses of the theorems are satisfiable, with a schedule that is not the canonical one: a
   reachable closing state, n = nbound' p, three client-first rounds *)
Example C04b_liveness_nonvacuous :
  exists items p n acts2, reach ex_cfg ex_cfg ex_keys [blocked Client (OpClose None)] items p /\ closing p /\
                          (nbound' p <= n)%nat /\ fair_enough n acts2 /\ acts2 <> rounds n.
Proof.
  destruct (ex_run [blocked Client (OpClose None)]) as [[items p]|] eqn:E; [|vm_compute in E; discriminate E].
  exists items, p, (nbound' p), (ord_round false (nbound' p) ++ ord_round false (nbound' p) ++ ord_round false (nbound' p)).
  split; [|split; [|split; [apply le_n|split; [apply three_client_first_fair|]]]].
  - unfold reach. split; [repeat split|]. split; [repeat split|]. split.
    + repeat constructor.
    + unfold ex_run in E. destruct (pair_init ex_cfg ex_cfg ex_keys) as [p0|] eqn:E0; [|discriminate E].
      exists p0. split; [reflexivity|]. injection E as E. exact E.
  - vm_compute in E. injection E as _ <-. left. cbn. discriminate.
  - intros X. unfold rounds, fair_round, ord_round, fair_side in X. cbn [app] in X. discriminate X.
Qed.

Print Assumptions C04_liveness_fair.
Print Assumptions C04_liveness_fair_reach.
Print Assumptions C04_liveness_any_order.
Print Assumptions C04_liveness_client_first.
Print Assumptions C04_three_rounds_fair.
