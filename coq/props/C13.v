(* props/C13.v — property theorems for C13 only:
   "Close and automatic replies are never lost to back-pressure".

   Vocabulary (defined in proofs/PendingP.v):
   * reachable x w       : (x, w) is the state of an endpoint created by ctx_new (any role, any valid
                           configuration, any pre-read bytes) on an empty log after ANY list of API
                           calls (run_ops; raw frames, set_config included) under ANY transport oracle.
   * strip f             : f without its mask key (what was asked to be sent; a client re-masks).
   * pend base g x log   : queued log = base ++ new, and g (= strip of the frame) is in the pending
                           slot x_additional x, or is one of the frames `new` appended to the write
                           buffer after `base`.
   * fifo x w            : wire (w_log w) ++ out_buffer = encoding of (queued (w_log w))  (C10's
                           invariant; it turns "in queued" into "in the buffer or on the wire, in order").
   * transport_ended evs : evs contains EOF, a connection reset on read or write, or a zero-length write.
   * drain wrs n = Some r: the write oracle wrs takes n bytes offered by one write_out_buffer call
                           (possibly over several partial writes), r is what is left of the oracle.
   * accepts wrs a b     : wrs takes a+b bytes in one call and also a bytes then b bytes in two calls.
   * transport_accepts x w : the pending frame fits an empty buffer (sent_len <= max_out_buffer_len)
                           and the oracle accepts the buffered bytes and the frame; if the slot is
                           empty, the oracle drains the buffer.
   * flush_call x o      : o is flush(), or close() when x is no longer Active (then close = flush).
   * on_wire base g x w  : slot empty, out_buffer empty, wire = encoding of all queued frames, and a
                           frame f with strip f = g is among those queued after `base`.
   * displacing o res    : o is write(Pong), write(Close)/close(), or a read() that returned Ping/Close. *)
From TungModel Require Import Base Coding Mask Header Frame Utf8 World Message Codec Protocol.
From TungModel.proofs Require Import PendingP.

(* ---- C13_close_pending ---------------------------------------------------------------------
   close(code) / write(Close(code)) called on an Active connection: whatever the call returns and
   whatever the transport does, the Close frame is in the slot or has been appended to the write
   buffer by this call; and it stays pending through every later history of calls. *)
Theorem C13_close_pending :
  forall x w o code res x1 w1,
    reachable x w -> x_state x = Active -> close_op o code ->
    run_op x o w = (res, x1, w1) ->
    pend (queued (w_log w)) (frame_close code) x1 (w_log w1) /\
    forall ops rs x2 w2, run_ops x1 ops w1 = (rs, x2, w2) ->
      pend (queued (w_log w)) (frame_close code) x2 (w_log w2) /\ fifo x2 w2.
Proof. exact close_pending. Qed.

(* "pending" spelled out: in the slot, or at a definite position of (bytes accepted by the
   transport ++ write buffer): nothing discards or reorders it. *)
Theorem C13_pending_accounted :
  forall base g x w,
    fifo x w -> pend base g x (w_log w) ->
    (exists f, x_additional x = Some f /\ strip f = g) \/
    (exists pre f post, queued (w_log w) = pre ++ f :: post /\ strip f = g /\
       (length base <= length pre)%nat /\
       wire (w_log w) ++ c_out (x_codec x) = enc pre ++ frame_format f ++ enc post).
Proof. exact pend_accounted. Qed.

(* ---- C13_reply_pending ---------------------------------------------------------------------
   read() on an Active connection returned Close(c): the reply Close(c) is in the slot, and stays
   pending through every later history. *)
Theorem C13_reply_pending :
  forall x w c x1 w1,
    reachable x w -> x_state x = Active ->
    run_op x OpRead w = (ResMsg (ROk (MClose c)), x1, w1) ->
    x_additional x1 = Some (frame_close c) /\ x_state x1 = ClosedByPeer /\
    forall ops rs x2 w2, run_ops x1 ops w1 = (rs, x2, w2) ->
      pend (queued (w_log w1)) (frame_close c) x2 (w_log w2) /\ fifo x2 w2.
Proof. exact reply_pending_close. Qed.

(* read() on an Active connection returned Ping(p): the pong is in the slot, and stays pending
   through every later history in which it is not replaced (newer pong) and closing does not begin. *)
Theorem C13_reply_pending_pong :
  forall x w p x1 w1,
    reachable x w -> x_state x = Active ->
    run_op x OpRead w = (ResMsg (ROk (MPing p)), x1, w1) ->
    x_additional x1 = Some (frame_pong p) /\
    forall ops rs x2 w2, run_ops x1 ops w1 = (rs, x2, w2) -> undisplaced x1 ops w1 ->
      pend (queued (w_log w1)) (frame_pong p) x2 (w_log w2) /\ fifo x2 w2.
Proof. exact reply_pending_pong. Qed.

(* one step, any pending frame g, any state satisfying the slot invariant: g stays pending unless
   g is a pong and the call is a displacing one. *)
Theorem C13_pending_step :
  forall base g x o w res x' w',
    run_op x o w = (res, x', w') -> Inv x -> pend base g x (w_log w) ->
    pend base g x' (w_log w') \/ (f_opcode g = OCtl Pong /\ displacing o res).
Proof. exact run_op_pend. Qed.

(* ---- C13_eventually_sent -------------------------------------------------------------------
   From any reachable state with g pending: if the transport accepts from now on, two consecutive
   flush()/close() calls - whatever they return - leave the slot and the buffer empty with g's
   frame entirely on the wire.  No assumption on the flush oracle, on write_buffer_size, or on how
   full the buffer is; only that the parked frame fits an empty buffer. *)
Theorem C13_eventually_sent :
  forall x w base g o1 o2 res1 x1 w1 res2 x2 w2,
    reachable x w -> pend base g x (w_log w) -> transport_accepts x w ->
    flush_call x o1 -> run_op x o1 w = (res1, x1, w1) ->
    flush_call x1 o2 -> run_op x1 o2 w1 = (res2, x2, w2) ->
    on_wire base g x2 w2.
Proof. exact eventually_sent_two. Qed.

(* one call is enough when the frame fits behind what is already buffered *)
Theorem C13_eventually_sent_one_call :
  forall x w base g o1 res1 x1 w1,
    reachable x w -> pend base g x (w_log w) ->
    match x_additional x with
    | Some f => sent_len (x_role x) f + blen (c_out (x_codec x)) <= c_max_out (x_codec x) /\
                exists wr, drain (w_wrs w) (blen (c_out (x_codec x)) + sent_len (x_role x) f) = Some wr
    | None => exists wr, drain (w_wrs w) (blen (c_out (x_codec x))) = Some wr
    end ->
    flush_call x o1 -> run_op x o1 w = (res1, x1, w1) ->
    on_wire base g x1 w1.
Proof. exact eventually_sent_one. Qed.

(* the transport condition in oracle terms: (a) every write call is accepted whole ... *)
Theorem C13_accepts_whole_writes :
  forall x w,
    match x_additional x with
    | Some f => sent_len (x_role x) f <= c_max_out (x_codec x) /\
                Forall (generous (blen (c_out (x_codec x)) + sent_len (x_role x) f)) (w_wrs w) /\
                (2 <= length (w_wrs w))%nat
    | None => exists k r, w_wrs w = WrAccept k :: r /\ blen (c_out (x_codec x)) <= k
    end -> transport_accepts x w.
Proof. exact transport_accepts_generous. Qed.

(* ... or (b) every write call accepts at least one byte, for long enough *)
Theorem C13_accepts_partial_writes :
  forall x w,
    Forall positive (w_wrs w) ->
    match x_additional x with
    | Some f => sent_len (x_role x) f <= c_max_out (x_codec x) /\
                blen (c_out (x_codec x)) + sent_len (x_role x) f <= blen (w_wrs w)
    | None => blen (c_out (x_codec x)) <= blen (w_wrs w)
    end -> transport_accepts x w.
Proof. exact transport_accepts_positive. Qed.

(* with a Close frame parked the connection is not Active, so close() is a flush call, and it
   remains one after a flush call *)
Theorem C13_close_is_flush_call :
  forall x w f, reachable x w -> x_additional x = Some f -> f_opcode f = OCtl Close ->
    x_state x <> Active.
Proof. exact close_parked_not_active. Qed.

Theorem C13_flush_call_stays :
  forall x o w res x' w' c,
    flush_call x o -> x_state x <> Active -> run_op x o w = (res, x', w') -> flush_call x' (OpClose c).
Proof. exact flush_call_stays. Qed.

(* ---- C13_no_early_close --------------------------------------------------------------------
   In ANY state (reachable or not), a call that returns ConnectionClosed leaves the slot and the
   write buffer empty, unless the transport ended during that very call. *)
Theorem C13_no_early_close :
  forall x o w res x' w',
    run_op x o w = (res, x', w') -> res_closed res ->
    exists evs, w_log w' = w_log w ++ evs /\
      ((x_additional x' = None /\ c_out (x_codec x') = []) \/ transport_ended evs).
Proof. exact no_early_close. Qed.

(* ---- non-vacuity ---------------------------------------------------------------------------- *)
Definition ex_cfg : config := mkConfig 0 19 None None false.
Definition ex_ctx (r : role) : ctx :=
  match ctx_new r [] ex_cfg with Some x => x | None => mkCtx r (codec_new []) Active None None false ex_cfg end.
Definition ex_bin16 : message := MBinary (repeat 7 16).

(* D1's history on the repaired code: max_write_buffer_size = 19, transport blocked, an 18-byte
   frame is queued, then close(None): the Close frame does not fit, close returns an error, and
   the frame is parked; the state is reachable, the Close is pending, the transport (unblocked)
   accepts; two flushes put 88 00 on the wire. *)
Definition ex_world : world := mkWorld [] [WrErr WouldBlock; WrErr WouldBlock; WrAccept 100; WrAccept 100] [] [] [].
Definition ex_st1 := run_ops (ex_ctx Server) [OpWrite ex_bin16] ex_world.
Definition ex_st2 := let '(_, x, w) := ex_st1 in run_op x (OpClose None) w.

Example C13_ex_close_hyps :
  let '(_, x, w) := ex_st1 in
  reachable x w /\ x_state x = Active /\ close_op (OpClose None) None /\
  let '(res, x1, w1) := ex_st2 in
  res = ResUnit (RErr (EIo WouldBlock)) /\ x_additional x1 = Some (frame_close None) /\
  c_out (x_codec x1) <> [] /\ transport_accepts x1 w1 /\ flush_call x1 OpFlush.
Proof.
  vm_compute ex_st2. cbv iota beta. vm_compute ex_st1. cbv iota beta.
  split.
  { exists Server, [], ex_cfg, (ex_ctx Server), ex_world, [OpWrite ex_bin16].
    eexists. split; [reflexivity|]. split; [reflexivity|]. vm_compute. reflexivity. }
  split; [reflexivity|]. split; [now left|]. split; [reflexivity|]. split; [reflexivity|].
  split; [discriminate|]. split; [|now left].
  unfold transport_accepts. cbn [x_additional]. split; [vm_compute; discriminate|].
  split; [eexists; vm_compute; reflexivity|]. eexists; eexists. split; vm_compute; reflexivity.
Qed.

Example C13_ex_close_sent :
  let '(_, x1, w1) := ex_st2 in
  let '(_, x2, w2) := run_ops x1 [OpFlush; OpFlush] w1 in
  x_additional x2 = None /\ c_out (x_codec x2) = [] /\
  wire (w_log w2) = frame_format (frame_message (repeat 7 16) (OData Binary) true) ++ [136; 0].
Proof. vm_compute. auto. Qed.

(* a received Close / Ping in state Active *)
Example C13_ex_reply :
  let w := mkWorld [RdData [136; 128; 0; 0; 0; 0]] [] [] [] [] in
  reachable (ex_ctx Server) w /\ x_state (ex_ctx Server) = Active /\
  exists x1 w1, run_op (ex_ctx Server) OpRead w = (ResMsg (ROk (MClose None)), x1, w1).
Proof.
  cbv zeta. split; [apply (reachable_new Server [] ex_cfg); reflexivity|]. split; [reflexivity|].
  eexists; eexists. vm_compute. reflexivity.
Qed.

Example C13_ex_ping :
  let w := mkWorld [RdData [137; 129; 0; 0; 0; 0; 66]] [] [] [] [] in
  exists x1 w1, run_op (ex_ctx Server) OpRead w = (ResMsg (ROk (MPing [66])), x1, w1) /\
                undisplaced x1 [OpFlush; OpCanRead] w1.
Proof. cbv zeta. eexists; eexists. split; [vm_compute; reflexivity|]. vm_compute. tauto. Qed.

(* ConnectionClosed is returned (server, close handshake finished, reply flushed) *)
Example C13_ex_closed :
  let w := mkWorld [RdData [136; 128; 0; 0; 0; 0]] [WrAccept 100] [FlOk] [] [] in
  let '(_, x1, w1) := run_op (ex_ctx Server) OpRead w in
  let '(res, x2, w2) := run_op x1 OpFlush w1 in
  res_closed res /\ wire (w_log w2) = [136; 0].
Proof. vm_compute. split; [right|]; reflexivity. Qed.

(* ... and with a reset the other disjunct is the one that holds *)
Example C13_ex_closed_reset :
  let w := mkWorld [RdData [136; 128; 0; 0; 0; 0]] [WrErr ConnReset] [] [] [] in
  let '(_, x1, w1) := run_op (ex_ctx Server) OpRead w in
  let '(res, x2, w2) := run_op x1 OpFlush w1 in
  res_closed res /\ c_out (x_codec x2) <> [].
Proof. vm_compute. split; [right; reflexivity|discriminate]. Qed.

Print Assumptions C13_close_pending.
Print Assumptions C13_pending_accounted.
Print Assumptions C13_reply_pending.
Print Assumptions C13_reply_pending_pong.
Print Assumptions C13_pending_step.
Print Assumptions C13_eventually_sent.
Print Assumptions C13_eventually_sent_one_call.
Print Assumptions C13_accepts_whole_writes.
Print Assumptions C13_accepts_partial_writes.
Print Assumptions C13_close_is_flush_call.
Print Assumptions C13_flush_call_stays.
Print Assumptions C13_no_early_close.
