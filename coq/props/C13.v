(* props/C13.v — property theorems for C13 only:
   "Close and automatic replies are never lost to back-pressure".

   Vocabulary (defined in proofs/PendingP.v):
   * reachable x w       : (x, w) is the state of an endpoint created by ctx_new (any role, any valid
                           configuration, any pre-read bytes) on an empty log after ANY list of API
                           calls (run_ops; raw frames, set_config included) under ANY transport oracle.
   * strip f             : f without its mask key (what was asked to be sent; a client re-masks).
   * pend base g x log   : queued log = base ++ new, and g (= strip of the frame) is in the pending
                           slot x_additional x, or is one of the frames `new` appended to the write
                           buffer after `base`.
   * fifo x w            : wire (w_log w) ++ out_buffer = encoding of (queued (w_log w))  (C10's
                           invariant; it turns "in queued" into "in the buffer or on the wire, in order").
   * transport_ended evs : evs contains EOF, a connection reset on read or write, or a zero-length write.
   * drain wrs n = Some r: the write oracle wrs takes n bytes offered by one write_out_buffer call
                           (possibly over several partial writes), r is what is left of the oracle.
   * accepts wrs a b     : wrs takes a+b bytes in one call and also a bytes then b bytes in two calls.
   * transport_accepts x w : the pending frame fits an empty buffer (sent_len <= max_out_buffer_len)
                           and the oracle accepts the buffered bytes and the frame; if the slot is
                           empty, the oracle drains the buffer.
   * flush_call x o      : o is flush(), or close() when x is no longer Active (then close = flush).
   * on_wire base g x w  : slot empty, out_buffer empty, wire = encoding of all queued frames, and a
                           frame f with strip f = g is among those queued after `base`.
   * displacing o res    : o is write(Pong), write(Close)/close(), or a read() that returned Ping/Close.
   * push_call o         : o is flush(), close() or read().
   * read_pushes x       : x_additional x <> None \/ x_unflushed x = true, i.e. read() begins with flush(). *)
From TungModel Require Import Base Coding Mask Header Frame Utf8 World Message Codec Protocol.
From TungModel.proofs Require Import PendingP.

(* ---- C13_close_pending ---------------------------------------------------------------------
   close(code) / write(Close(code)) called on an Active connection: whatever the call returns and
   whatever the transport does, the Close frame is in the slot or has been appended to the write
   buffer by this call; and it stays pending through every later history of calls. *)
Theorem C13_close_pending :
  forall x w o code res x1 w1,
    reachable x w -> x_state x = Active -> close_op o code ->
    run_op x o w = (res, x1, w1) ->
    pend (queued (w_log w)) (frame_close code) x1 (w_log w1) /\
    forall ops rs x2 w2, run_ops x1 ops w1 = (rs, x2, w2) ->
      pend (queued (w_log w)) (frame_close code) x2 (w_log w2) /\ fifo x2 w2.
Proof. exact close_pending. Qed.

(* "pending" spelled out: in the slot, or at a definite position of (bytes accepted by the
   transport ++ write buffer): nothing discards or reorders it. *)
Theorem C13_pending_accounted :
  forall base g x w,
    fifo x w -> pend base g x (w_log w) ->
    (exists f, x_additional x = Some f /\ strip f = g) \/
    (exists pre f post, queued (w_log w) = pre ++ f :: post /\ strip f = g /\
       (length base <= length pre)%nat /\
       wire (w_log w) ++ c_out (x_codec x) = enc pre ++ frame_format f ++ enc post).
Proof. exact pend_accounted. Qed.

(* ---- C13_reply_pending ---------------------------------------------------------------------
   read() on an Active connection returned Close(c): the reply Close(c) is in the slot, and stays
   pending through every later history. *)
Theorem C13_reply_pending :
  forall x w c x1 w1,
    reachable x w -> x_state x = Active ->
    run_op x OpRead w = (ResMsg (ROk (MClose c)), x1, w1) ->
    x_additional x1 = Some (frame_close c) /\ x_state x1 = ClosedByPeer /\
    forall ops rs x2 w2, run_ops x1 ops w1 = (rs, x2, w2) ->
      pend (queued (w_log w1)) (frame_close c) x2 (w_log w2) /\ fifo x2 w2.
Proof. exact reply_pending_close. Qed.

(* read() on an Active connection returned Ping(p): the pong is in the slot, and stays pending
   through every later history in which it is not replaced (newer pong) and closing does not begin. *)
Theorem C13_reply_pending_pong :
  forall x w p x1 w1,
    reachable x w -> x_state x = Active ->
    run_op x OpRead w = (ResMsg (ROk (MPing p)), x1, w1) ->
    x_additional x1 = Some (frame_pong p) /\
    forall ops rs x2 w2, run_ops x1 ops w1 = (rs, x2, w2) -> undisplaced x1 ops w1 ->
      pend (queued (w_log w1)) (frame_pong p) x2 (w_log w2) /\ fifo x2 w2.
Proof. exact reply_pending_pong. Qed.

(* one step, any pending frame g, any state satisfying the slot invariant: g stays pending unless
   g is a pong and the call is a displacing one. *)
Theorem C13_pending_step :
  forall base g x o w res x' w',
    run_op x o w = (res, x', w') -> Inv x -> pend base g x (w_log w) ->
    pend base g x' (w_log w') \/ (f_opcode g = OCtl Pong /\ displacing o res).
Proof. exact run_op_pend. Qed.

(* ---- C13_eventually_sent -------------------------------------------------------------------
   From any reachable state with g pending: if the transport accepts from now on, two consecutive
   flush()/close() calls - whatever they return - leave the slot and the buffer empty with g's
   frame entirely on the wire.  No assumption on the flush oracle, on write_buffer_size, or on how
   full the buffer is; only that the parked frame fits an empty buffer. *)
Theorem C13_eventually_sent :
  forall x w base g o1 o2 res1 x1 w1 res2 x2 w2,
    reachable x w -> pend base g x (w_log w) -> transport_accepts x w ->
    flush_call x o1 -> run_op x o1 w = (res1, x1, w1) ->
    flush_call x1 o2 -> run_op x1 o2 w1 = (res2, x2, w2) ->
    on_wire base g x2 w2.
Proof. exact eventually_sent_two. Qed.

(* one call is enough when the frame fits behind what is already buffered *)
Theorem C13_eventually_sent_one_call :
  forall x w base g o1 res1 x1 w1,
    reachable x w -> pend base g x (w_log w) ->
    match x_additional x with
    | Some f => sent_len (x_role x) f + blen (c_out (x_codec x)) <= c_max_out (x_codec x) /\
                exists wr, drain (w_wrs w) (blen (c_out (x_codec x)) + sent_len (x_role x) f) = Some wr
    | None => exists wr, drain (w_wrs w) (blen (c_out (x_codec x))) = Some wr
    end ->
    flush_call x o1 -> run_op x o1 w = (res1, x1, w1) ->
    on_wire base g x1 w1.
Proof. exact eventually_sent_one. Qed.

(* the transport condition in oracle terms: (a) every write call is accepted whole ... *)
Theorem C13_accepts_whole_writes :
  forall x w,
    match x_additional x with
    | Some f => sent_len (x_role x) f <= c_max_out (x_codec x) /\
                Forall (generous (blen (c_out (x_codec x)) + sent_len (x_role x) f)) (w_wrs w) /\
                (2 <= length (w_wrs w))%nat
    | None => exists k r, w_wrs w = WrAccept k :: r /\ blen (c_out (x_codec x)) <= k
    end -> transport_accepts x w.
Proof. exact transport_accepts_generous. Qed.

(* ... or (b) every write call accepts at least one byte, for long enough *)
Theorem C13_accepts_partial_writes :
  forall x w,
    Forall positive (w_wrs w) ->
    match x_additional x with
    | Some f => sent_len (x_role x) f <= c_max_out (x_codec x) /\
                blen (c_out (x_codec x)) + sent_len (x_role x) f <= blen (w_wrs w)
    | None => blen (c_out (x_codec x)) <= blen (w_wrs w)
    end -> transport_accepts x w.
Proof. exact transport_accepts_positive. Qed.

(* with a Close frame parked the connection is not Active, so close() is a flush call, and it
   remains one after a flush call *)
Theorem C13_close_is_flush_call :
  forall x w f, reachable x w -> x_additional x = Some f -> f_opcode f = OCtl Close ->
    x_state x <> Active.
Proof. exact close_parked_not_active. Qed.

Theorem C13_flush_call_stays :
  forall x o w res x' w' c,
    flush_call x o -> x_state x <> Active -> run_op x o w = (res, x', w') -> flush_call x' (OpClose c).
Proof. exact flush_call_stays. Qed.

(* flush(), close() and read() in any combination, on a connection that is neither Active nor
   Terminated (always the case while a Close frame is pending on a live transport): two calls
   deliver, provided a read() used as FIRST call finds the frame parked in the slot or the
   unflushed flag set - or else the transport ended during the first call.  (The proviso is
   discharged by C13_read_pushes_after_close / _after_reply below.) *)
Theorem C13_eventually_sent_any_call :
  forall x w base g o1 o2 res1 x1 w1 res2 x2 w2,
    reachable x w -> x_state x <> Active -> x_state x <> Terminated ->
    pend base g x (w_log w) -> transport_accepts x w ->
    push_call o1 -> push_call o2 -> (o1 = OpRead -> read_pushes x) ->
    run_op x o1 w = (res1, x1, w1) -> run_op x1 o2 w1 = (res2, x2, w2) ->
    on_wire base g x2 w2 \/ exists evs, w_log w1 = w_log w ++ evs /\ transport_ended evs.
Proof. exact eventually_sent_calls. Qed.

(* ---- read() alone drives the closing handshake ----------------------------------------------
   (formerly C13_eventually_sent_read_refuted: before fix 50d46f1 a blocked close() left the Close
   frame in out_buffer with unflushed_additional = false and later read() calls never flushed it.
   _write now sets the flag whenever it moves the slot into the write buffer, flush() clears it
   only after writing everything, so the statement is TRUE and proved.)

   After close(code) / write(Close(code)) on an Active connection, through ANY later history of
   calls and ANY transport behaviour: the connection is not Active, and read() is a pushing call
   (slot occupied or flag set) - or the Close frame is already entirely on the wire. *)
Theorem C13_read_pushes_after_close :
  forall x w o code res x1 w1,
    reachable x w -> x_state x = Active -> close_op o code -> run_op x o w = (res, x1, w1) ->
    forall ops rs x2 w2, run_ops x1 ops w1 = (rs, x2, w2) ->
      x_state x2 <> Active /\
      (read_pushes x2 \/ on_wire (queued (w_log w)) (frame_close code) x2 w2).
Proof. exact close_read_pushes. Qed.

(* the same for the Close reply parked by a read() that returned Close(c) *)
Theorem C13_read_pushes_after_reply :
  forall x w c x1 w1,
    reachable x w -> x_state x = Active ->
    run_op x OpRead w = (ResMsg (ROk (MClose c)), x1, w1) ->
    forall ops rs x2 w2, run_ops x1 ops w1 = (rs, x2, w2) ->
      x_state x2 <> Active /\
      (read_pushes x2 \/ on_wire (queued (w_log w1)) (frame_close c) x2 w2).
Proof. exact reply_read_pushes. Qed.

(* close() on an Active connection, then any history (e.g. calls that block), then - once the
   transport accepts - two calls among flush()/close()/read(), read() ALONE included, whatever
   they return: the Close frame is entirely on the wire, slot and buffer empty - or else the
   transport ended during the first of the two calls. *)
Theorem C13_eventually_sent_read :
  forall x w o code res x1 w1 ops rs x2 w2 o1 o2 res3 x3 w3 res4 x4 w4,
    reachable x w -> x_state x = Active -> close_op o code -> run_op x o w = (res, x1, w1) ->
    run_ops x1 ops w1 = (rs, x2, w2) ->
    x_state x2 <> Terminated -> transport_accepts x2 w2 ->
    push_call o1 -> push_call o2 ->
    run_op x2 o1 w2 = (res3, x3, w3) -> run_op x3 o2 w3 = (res4, x4, w4) ->
    on_wire (queued (w_log w)) (frame_close code) x4 w4 \/
    exists evs, w_log w3 = w_log w2 ++ evs /\ transport_ended evs.
Proof. exact close_eventually_sent_any_call. Qed.

(* non-vacuity, and the former counterexample: Server, default configuration, transport blocked:
   close(None) queues the Close frame into the write buffer and returns WouldBlock (slot empty,
   unflushed_additional = true).  The transport then accepts, the user only calls read(): the
   first read() (it returns WouldBlock from the read side) puts the Close frame 88 00 on the wire.
   (rr_state = run_ops rr_ctx [OpClose None] rr_world, see proofs/PendingP.v.) *)
Example C13_ex_read_drives_close :
  let '(rs, x, w) := rr_state in
  rs = [(ResUnit (RErr (EIo WouldBlock)), 2)] /\
  reachable x w /\ x_state x = ClosedByUs /\
  pend [] (frame_close None) x (w_log w) /\ c_out (x_codec x) = [136; 0] /\ x_additional x = None /\
  x_unflushed x = true /\ read_pushes x /\
  transport_accepts x w /\ Forall (generous 1000) (w_wrs w) /\
  let '(rs2, x2, w2) := run_ops x [OpRead] w in
  map fst rs2 = [ResMsg (RErr (EIo WouldBlock))] /\
  wire (w_log w2) = [136; 0] /\ c_out (x_codec x2) = [] /\
  on_wire [] (frame_close None) x2 w2.
Proof. exact eventually_sent_read_example. Qed.

(* hypotheses of C13_eventually_sent_read on that history (x = fresh server, o = close(None),
   no intermediate calls, then read(); read()) *)
Example C13_ex_read_hyps :
  reachable rr_ctx rr_world /\ x_state rr_ctx = Active /\ close_op (OpClose None) None /\
  let '(res, x1, w1) := run_op rr_ctx (OpClose None) rr_world in
  x_state x1 <> Terminated /\ transport_accepts x1 w1 /\ push_call OpRead.
Proof.
  split; [apply (reachable_new Server [] rr_cfg); reflexivity|]. split; [reflexivity|].
  split; [now left|]. vm_compute run_op. cbv iota beta.
  split; [discriminate|]. split; [|right; now right].
  unfold transport_accepts. cbn [x_additional]. eexists. vm_compute. reflexivity.
Qed.

(* ---- C13_no_early_close --------------------------------------------------------------------
   In ANY state (reachable or not), a call that returns ConnectionClosed leaves the slot and the
   write buffer empty, unless the transport ended during that very call. *)
Theorem C13_no_early_close :
  forall x o w res x' w',
    run_op x o w = (res, x', w') -> res_closed res ->
    exists evs, w_log w' = w_log w ++ evs /\
      ((x_additional x' = None /\ c_out (x_codec x') = []) \/ transport_ended evs).
Proof. exact no_early_close. Qed.

(* ---- non-vacuity ---------------------------------------------------------------------------- *)
Definition ex_cfg : config := mkConfig 0 19 None None false.
Definition ex_ctx (r : role) : ctx :=
  match ctx_new r [] ex_cfg with Some x => x | None => mkCtx r (codec_new []) Active None None false ex_cfg end.
Definition ex_bin16 : message := MBinary (repeat 7 16).

(* D1's history on the repaired code: max_write_buffer_size = 19, transport blocked, an 18-byte
   frame is queued, then close(None): the Close frame does not fit; close returns an error and
   the frame is parked.  Later the transport accepts; two flushes (or two reads) put 88 00 on
   the wire behind the data frame. *)
Definition ex_world : world :=
  mkWorld [] [WrErr WouldBlock; WrErr WouldBlock; WrAccept 100; WrAccept 100] [] [] [].
Definition ex_run0 := run_ops (ex_ctx Server) [OpWrite ex_bin16] ex_world.
Definition ex_x0 : ctx := snd (fst ex_run0).
Definition ex_w0 : world := snd ex_run0.
Definition ex_run1 := run_op ex_x0 (OpClose None) ex_w0.
Definition ex_x1 : ctx := snd (fst ex_run1).
Definition ex_w1 : world := snd ex_run1.

Example C13_ex_reachable0 : reachable ex_x0 ex_w0 /\ x_state ex_x0 = Active.
Proof.
  split; [|vm_compute; reflexivity].
  exists Server, [], ex_cfg, (ex_ctx Server), ex_world, [OpWrite ex_bin16], (fst (fst ex_run0)).
  split; [reflexivity|]. split; [reflexivity|].
  unfold ex_x0, ex_w0. fold ex_run0. destruct ex_run0 as [[a b] c]. reflexivity.
Qed.

(* hypotheses of C13_close_pending, and what the call did *)
Example C13_ex_close_call :
  close_op (OpClose None) None /\
  run_op ex_x0 (OpClose None) ex_w0 = (ResUnit (RErr (EIo WouldBlock)), ex_x1, ex_w1) /\
  x_additional ex_x1 = Some (frame_close None) /\ c_out (x_codec ex_x1) <> [] /\
  wire (w_log ex_w1) = [].
Proof.
  split; [now left|]. split; [vm_compute; reflexivity|]. split; [vm_compute; reflexivity|].
  split; vm_compute; [discriminate|reflexivity].
Qed.

(* hypotheses of C13_eventually_sent (and of the any-call variant) at that state *)
Example C13_ex_sent_hyps :
  reachable ex_x1 ex_w1 /\ pend [] (frame_close None) ex_x1 (w_log ex_w1) /\
  transport_accepts ex_x1 ex_w1 /\ flush_call ex_x1 OpFlush /\
  x_state ex_x1 <> Active /\ x_state ex_x1 <> Terminated /\ read_pushes ex_x1 /\ push_call OpRead.
Proof.
  split.
  { destruct C13_ex_reachable0 as [Hr _].
    apply (reachable_op ex_x0 ex_w0 (OpClose None) (fst (fst ex_run1)) ex_x1 ex_w1 Hr).
    unfold ex_x1, ex_w1. fold ex_run1. destruct ex_run1 as [[a b] c]. reflexivity. }
  split.
  { exists (queued (w_log ex_w1)). split; [reflexivity|]. left. exists (frame_close None).
    split; vm_compute; reflexivity. }
  split.
  { vm_compute. split; [discriminate|].
    split; [eexists; reflexivity|]. eexists; eexists. split; reflexivity. }
  split; [now left|]. split; [vm_compute; discriminate|]. split; [vm_compute; discriminate|].
  split; [left; vm_compute; discriminate|right; now right].
Qed.

Example C13_ex_close_sent :
  let '(_, x2, w2) := run_ops ex_x1 [OpFlush; OpFlush] ex_w1 in
  x_additional x2 = None /\ c_out (x_codec x2) = [] /\
  wire (w_log w2) = frame_format (frame_message (repeat 7 16) (OData Binary) true) ++ [136; 0].
Proof. vm_compute. auto. Qed.

(* the same parked Close is also delivered by two read() calls (the read side just blocks) *)
Example C13_ex_close_sent_by_read :
  let '(rs, x2, w2) := run_ops ex_x1 [OpRead; OpRead] ex_w1 in
  map fst rs = [ResMsg (RErr (EIo WouldBlock)); ResMsg (RErr (EIo WouldBlock))] /\
  x_additional x2 = None /\ c_out (x_codec x2) = [] /\
  wire (w_log w2) = frame_format (frame_message (repeat 7 16) (OData Binary) true) ++ [136; 0].
Proof. vm_compute. auto. Qed.

(* a received Close / Ping in state Active *)
Example C13_ex_reply :
  let w := mkWorld [RdData [136; 128; 0; 0; 0; 0]] [] [] [] [] in
  reachable (ex_ctx Server) w /\ x_state (ex_ctx Server) = Active /\
  exists x1 w1, run_op (ex_ctx Server) OpRead w = (ResMsg (ROk (MClose None)), x1, w1).
Proof.
  cbv zeta. split; [apply (reachable_new Server [] ex_cfg); reflexivity|]. split; [reflexivity|].
  eexists; eexists. vm_compute. reflexivity.
Qed.

Example C13_ex_ping :
  let w := mkWorld [RdData [137; 129; 0; 0; 0; 0; 66]] [] [] [] [] in
  exists x1 w1, run_op (ex_ctx Server) OpRead w = (ResMsg (ROk (MPing [66])), x1, w1) /\
                undisplaced x1 [OpFlush; OpCanRead] w1.
Proof. cbv zeta. eexists; eexists. split; [vm_compute; reflexivity|]. vm_compute. tauto. Qed.

(* ConnectionClosed is returned (server, close handshake finished, reply flushed) *)
Example C13_ex_closed :
  let w := mkWorld [RdData [136; 128; 0; 0; 0; 0]] [WrAccept 100] [FlOk] [] [] in
  let '(_, x1, w1) := run_op (ex_ctx Server) OpRead w in
  let '(res, x2, w2) := run_op x1 OpFlush w1 in
  res_closed res /\ wire (w_log w2) = [136; 0].
Proof. vm_compute. split; [right|]; reflexivity. Qed.

(* ... and with a reset the other disjunct is the one that holds *)
Example C13_ex_closed_reset :
  let w := mkWorld [RdData [136; 128; 0; 0; 0; 0]] [WrErr ConnReset] [] [] [] in
  let '(_, x1, w1) := run_op (ex_ctx Server) OpRead w in
  let '(res, x2, w2) := run_op x1 OpFlush w1 in
  res_closed res /\ c_out (x_codec x2) <> [].
Proof. vm_compute. split; [right; reflexivity|discriminate]. Qed.

Print Assumptions C13_close_pending.
Print Assumptions C13_pending_accounted.
Print Assumptions C13_reply_pending.
Print Assumptions C13_reply_pending_pong.
Print Assumptions C13_pending_step.
Print Assumptions C13_eventually_sent.
Print Assumptions C13_eventually_sent_one_call.
Print Assumptions C13_eventually_sent_any_call.
Print Assumptions C13_read_pushes_after_close.
Print Assumptions C13_read_pushes_after_reply.
Print Assumptions C13_eventually_sent_read.
Print Assumptions C13_accepts_whole_writes.
Print Assumptions C13_accepts_partial_writes.
Print Assumptions C13_close_is_flush_call.
Print Assumptions C13_flush_call_stays.
Print Assumptions C13_no_early_close.
