(* props/C09.v — property theorems for C09 only:
   every frame the library emits is a well-formed RFC 6455 frame for its role.

   Spec definitions used below (all in proofs/WireP.v, written on bytes, without header_format):
     wkind              := KText | KBinary | KClose | KPing | KPong       (nibbles 1, 2, 8, 9, 10)
     witem              := { it_kind; it_key : option key; it_plain : bytes }   one frame's content
     be_value bs        := unsigned big-endian value of bs
     len_field n l7 ext := n <= 125 /\ l7 = n /\ ext = []
                        \/ 126 <= n <= 65535 /\ l7 = 126 /\ |ext| = 2 /\ bytes < 256 /\ be_value ext = n
                        \/ 65536 <= n < 2^64 /\ l7 = 127 /\ |ext| = 8 /\ bytes < 256 /\ be_value ext = n
                           (only the shortest form is allowed)
     masked_by k p q    := |q| = |p| /\ forall i < |p|, q[i] = p[i] XOR k[i mod 4]
     spec_frame r it fb := fb = [128 + nibble; MASK + l7] ++ ext ++ keyb ++ pay        (FIN = 1, RSV = 0)
                           /\ len_field |it_plain| l7 ext
                           /\ (it_key = Some k: r = Client, MASK = 128, keyb = k, masked_by k plain pay
                               it_key = None  : r = Server, MASK = 0,   keyb = [], pay = plain)
     wf_wire r bs its   := bs is the concatenation of frames fb_i with spec_frame r it_i fb_i
     spec_decode r bs   := a strict reference parser for the same format (option (list witem))
     item_frame it      := the model frame (FIN, no RSV, opcode of it_kind, mask it_key, payload it_plain)
     draws ks d ks'     := generate_mask called |d| times on the oracle ks returns d and leaves ks'
                           (the zero key once the oracle is exhausted)
     subseq a b         := a is b with some elements removed (order kept)
     item_keys its      := the keys of the masked items, in order
   Hypotheses on the user's operations:
     op_no_raw o        := o is not OpWrite (MFrame _)        (raw frames are a documented pass-through)
     op_len_u64 o       := the payload length of the message is < 2^64 (a usize; a Close counts 2 + |reason|)
     op_ctl_small o     := a user-supplied Pong / Close body / raw Pong-Close frame has <= 125 payload bytes *)
From TungModel Require Import Base Coding Mask Header Frame Utf8 World Message Codec Protocol.
From TungModel.proofs Require Import WritePathP WireP.

(* Main theorem.  In every reachable state (either role, any valid configuration, any operations
   other than raw frames, any transport/key oracle) the bytes accepted by the transport followed by
   the bytes still in out_buffer are a concatenation of complete well-formed frames for the role
   (FIN = 1, RSV = 0, opcode in {text, binary, close, ping, pong}, shortest length form, masked iff
   client with payload = plaintext XOR key, unmasked iff server); these frames are exactly the
   frames the protocol layer queued; a server draws no key; a client's frame keys are, in order,
   keys drawn from the oracle, each frame using the key that was next when it was buffered. *)
Theorem C09_wire_wellformed :
  forall (r : role) (part : bytes) (cfg : config) (x0 : ctx) (ops : list op) (w0 : world)
         (rs : list (op_result * N)) (x : ctx) (w : world),
  ctx_new r part cfg = Some x0 -> w_log w0 = [] ->
  Forall op_no_raw ops -> Forall op_len_u64 ops ->
  run_ops x0 ops w0 = (rs, x, w) ->
  exists its : list witem,
    queued (w_log w) = map item_frame its /\
    wf_wire r (wire (w_log w) ++ c_out (x_codec x)) its /\
    exists d, draws (w_keys w0) d (w_keys w) /\ subseq (item_keys its) d /\ (r = Server -> d = []).
Proof. exact wire_wellformed. Qed.

(* The same with raw frames allowed as long as the raw frame is itself canonical (P_wire: FIN, no
   RSV, one of the five opcodes, unmasked when we are the server, length < 2^64). *)
Theorem C09_wire_wellformed_raw :
  forall (r : role) (part : bytes) (cfg : config) (x0 : ctx) (ops : list op) (w0 : world)
         (rs : list (op_result * N)) (x : ctx) (w : world),
  ctx_new r part cfg = Some x0 -> w_log w0 = [] ->
  Forall (op_P (P_wire r)) ops ->
  run_ops x0 ops w0 = (rs, x, w) ->
  exists its : list witem,
    queued (w_log w) = map item_frame its /\
    wf_wire r (wire (w_log w) ++ c_out (x_codec x)) its /\
    exists d, draws (w_keys w0) d (w_keys w) /\ subseq (item_keys its) d /\ (r = Server -> d = []).
Proof. exact wire_wellformed_gen. Qed.

(* At every instant, also in the middle of a call: cut the event log anywhere — the bytes the
   transport had accepted up to that event, followed by what out_buffer held then, are the
   well-formed encoding of the frames queued up to then (so what the peer has received is always a
   prefix of a well-formed frame sequence). *)
Theorem C09_wire_wellformed_always :
  forall (r : role) (part : bytes) (cfg : config) (x0 : ctx) (ops : list op) (w0 : world)
         (rs : list (op_result * N)) (x : ctx) (w : world) (l1 l2 : list event),
  ctx_new r part cfg = Some x0 -> w_log w0 = [] ->
  Forall op_no_raw ops -> Forall op_len_u64 ops ->
  run_ops x0 ops w0 = (rs, x, w) ->
  w_log w = l1 ++ l2 ->
  exists (unsent : bytes) (its1 : list witem),
    queued l1 = map item_frame its1 /\ wf_wire r (wire l1 ++ unsent) its1.
Proof. exact wire_wellformed_always. Qed.

(* "the bytes parse": the strict reference parser accepts them, consuming everything *)
Theorem C09_wire_parses :
  forall (r : role) (part : bytes) (cfg : config) (x0 : ctx) (ops : list op) (w0 : world)
         (rs : list (op_result * N)) (x : ctx) (w : world),
  ctx_new r part cfg = Some x0 -> w_log w0 = [] ->
  Forall op_no_raw ops -> Forall op_len_u64 ops ->
  run_ops x0 ops w0 = (rs, x, w) ->
  exists its : list witem,
    spec_decode r (wire (w_log w) ++ c_out (x_codec x)) = Some its /\
    queued (w_log w) = map item_frame its.
Proof.
  intros r part cfg x0 ops w0 rs x w Hn Hl H1 H2 Hr.
  destruct (wire_wellformed r part cfg x0 ops w0 rs x w Hn Hl H1 H2 Hr) as [its [Eq [Hwf _]]].
  exists its. split; [apply wf_wire_decode; exact Hwf|exact Eq].
Qed.

(* the reference parser decides the specification exactly (it accepts nothing else), and a byte
   string has at most one reading *)
Theorem C09_spec_decides : forall (r : role) (bs : bytes) (its : list witem),
  spec_decode r bs = Some its <-> wf_wire r bs its.
Proof. exact spec_decode_iff. Qed.

Theorem C09_spec_unique : forall (r : role) (bs : bytes) (its its' : list witem),
  wf_wire r bs its -> wf_wire r bs its' -> its = its'.
Proof. exact wf_wire_unique. Qed.

(* Frame::format of one canonical frame is one well-formed frame (any role-consistent key, any
   payload shorter than 2^64) *)
Theorem C09_frame_format_spec : forall (r : role) (it : witem),
  role_key r (it_key it) -> blen (it_plain it) < two64 ->
  spec_frame r it (frame_format (item_frame it)).
Proof. intros r it H1 H2. apply item_frame_spec. split; assumption. Qed.

(* draws in closed form: the i-th key drawn is the i-th key of the oracle (zero key beyond its
   end) and the oracle has lost exactly |d| keys *)
Theorem C09_draws_stream : forall (ks0 d ks : list key),
  draws ks0 d ks ->
  (forall i : nat, (i < length d)%nat -> nth i d zero_key = nth i ks0 zero_key) /\
  ks = skipn (length d) ks0.
Proof. exact draws_stream. Qed.

(* the right opcode: a Text / Binary / Ping message that write accepts (in any state) is queued as
   one frame of its own kind carrying its own payload, masked with the oracle's next key iff we are
   the client; at most one parked automatic reply follows it.  (Pong and Close travel through
   additional_send and are covered by C09_wire_wellformed; msg_kind/msg_body give their item.) *)
Theorem C09_right_opcode :
  forall (x : ctx) (m : message) (w : world) (u : unit) (x' : ctx) (w' : world),
  op_no_raw (OpWrite m) -> data_frame m <> None ->
  write x m w = (ROk u, x', w') ->
  exists auto, queued (w_log w') =
    queued (w_log w) ++ item_frame (mkItem (msg_kind m) (next_mask (x_role x) w) (msg_body m)) :: auto.
Proof. exact write_queues_item. Qed.

(* PARTIAL (named in the design): "every client frame is masked with a FRESH UNPREDICTABLE key".
   Unpredictability is a property of rand::random() and is outside the model; the theorems above
   hold for every key sequence.  What the model does give about freshness: the library never uses
   a drawn key twice — if the generator never repeats a key (NoDup) and has not run dry, no two
   frames on the wire share a key, and the keys used are among the first keys generated.
   Missing: that rand produces such a sequence (statistical support test in the harness only). *)
Theorem C09_fresh_key_partial :
  forall (r : role) (part : bytes) (cfg : config) (x0 : ctx) (ops : list op) (w0 : world)
         (rs : list (op_result * N)) (x : ctx) (w : world),
  ctx_new r part cfg = Some x0 -> w_log w0 = [] ->
  Forall op_no_raw ops -> Forall op_len_u64 ops ->
  run_ops x0 ops w0 = (rs, x, w) ->
  NoDup (w_keys w0) -> w_keys w <> [] ->
  exists its : list witem,
    queued (w_log w) = map item_frame its /\
    wf_wire r (wire (w_log w) ++ c_out (x_codec x)) its /\
    NoDup (item_keys its) /\
    exists d, w_keys w0 = d ++ w_keys w /\ subseq (item_keys its) d.
Proof. exact wire_keys_distinct. Qed.

(* Automatic replies.  If no user-supplied Pong / Close exceeds 125 payload bytes (the excluded
   precondition), then every Pong and every Close frame ever queued, and the one parked in
   additional_send, has at most 125 payload bytes. *)
Theorem C09_auto_reply_size :
  forall (r : role) (part : bytes) (cfg : config) (x0 : ctx) (ops : list op) (w0 : world)
         (rs : list (op_result * N)) (x : ctx) (w : world),
  ctx_new r part cfg = Some x0 -> w_log w0 = [] ->
  Forall op_ctl_small ops ->
  run_ops x0 ops w0 = (rs, x, w) ->
  Forall (fun f => h_opcode (f_hdr f) = OCtl Pong \/ h_opcode (f_hdr f) = OCtl Close ->
                   blen (f_payload f) <= 125) (queued (w_log w)) /\
  match x_additional x with
  | Some f => h_opcode (f_hdr f) = OCtl Pong \/ h_opcode (f_hdr f) = OCtl Close -> blen (f_payload f) <= 125
  | None => True
  end.
Proof. exact auto_reply_size. Qed.

(* Without any size precondition: in histories where the user sends no Pong, no Close and no raw
   frame (reads, text/binary/ping writes, flushes, set_config), every Pong and Close frame is one
   the library created itself, and all of them have at most 125 payload bytes. *)
Theorem C09_auto_reply_size_pure :
  forall (r : role) (part : bytes) (cfg : config) (x0 : ctx) (ops : list op) (w0 : world)
         (rs : list (op_result * N)) (x : ctx) (w : world),
  ctx_new r part cfg = Some x0 -> w_log w0 = [] ->
  Forall op_no_user_reply ops ->
  run_ops x0 ops w0 = (rs, x, w) ->
  Forall (fun f => h_opcode (f_hdr f) = OCtl Pong \/ h_opcode (f_hdr f) = OCtl Close ->
                   blen (f_payload f) <= 125) (queued (w_log w)) /\
  match x_additional x with
  | Some f => h_opcode (f_hdr f) = OCtl Pong \/ h_opcode (f_hdr f) = OCtl Close -> blen (f_payload f) <= 125
  | None => True
  end.
Proof. exact auto_reply_size_pure. Qed.

(* Locally, in any state (reachable or not): read_message_frame — the only place where the library
   creates a reply — either leaves additional_send alone or parks a Pong echoing a Ping of <= 125
   bytes / a Close reply with 2 + |reason| <= 125 (the echoed body or 1002 "Protocol violation");
   such a frame is canonical, unmasked and has at most 125 payload bytes. *)
Theorem C09_auto_reply_local :
  (forall (x : ctx) (w : world) (res : res (option message)) (x' : ctx) (w' : world),
     read_message_frame x w = (res, x', w') ->
     x_additional x' = x_additional x \/ exists f, x_additional x' = Some f /\ auto_reply f) /\
  (forall f : frame, auto_reply f ->
     blen (f_payload f) <= 125 /\ canon f /\ h_mask (f_hdr f) = None).
Proof.
  split; [exact read_message_frame_parks|].
  intros f Hf. split; [apply auto_reply_small; exact Hf|apply auto_reply_canon; exact Hf].
Qed.

(* both together, on the wire: the reference parser reads the emitted bytes, and the Pong and Close
   frames it finds carry at most 125 bytes *)
Theorem C09_wire_replies_small :
  forall (r : role) (part : bytes) (cfg : config) (x0 : ctx) (ops : list op) (w0 : world)
         (rs : list (op_result * N)) (x : ctx) (w : world),
  ctx_new r part cfg = Some x0 -> w_log w0 = [] ->
  Forall op_no_raw ops -> Forall op_len_u64 ops -> Forall op_ctl_small ops ->
  run_ops x0 ops w0 = (rs, x, w) ->
  exists its : list witem,
    spec_decode r (wire (w_log w) ++ c_out (x_codec x)) = Some its /\
    Forall (fun it => it_kind it = KPong \/ it_kind it = KClose -> blen (it_plain it) <= 125) its.
Proof. exact wire_wellformed_small. Qed.

(* ---- non-vacuity: histories that trigger automatic replies ---- *)

Definition ex_cfg : config := mkConfig 0 1000 None None false.

(* a server: reads a masked Ping "hi", writes Text "hi", reads a Close with the forbidden code 1005,
   flushes.  Emitted: Text, Pong "hi", Close 1002 "Protocol violation" — all unmasked. *)
Definition ex_srv_world : world :=
  mkWorld [RdData [137; 130; 1; 2; 3; 4; 105; 107]; RdData [136; 130; 5; 6; 7; 8; 6; 235]]
          [WrAccept 3; WrAccept 100; WrAccept 100; WrAccept 100] [FlOk; FlOk; FlOk] [] [].
Definition ex_srv_ops : list op := [OpRead; OpWrite (MText [104; 105]); OpRead; OpFlush].

Example C09_ex_server :
  exists x0 rs x w,
    ctx_new Server [] ex_cfg = Some x0 /\ w_log ex_srv_world = [] /\
    Forall op_no_raw ex_srv_ops /\ Forall op_len_u64 ex_srv_ops /\ Forall op_no_user_reply ex_srv_ops /\
    run_ops x0 ex_srv_ops ex_srv_world = (rs, x, w) /\
    wire (w_log w) ++ c_out (x_codec x)
    = [129; 2; 104; 105] ++ [138; 2; 104; 105]
      ++ [136; 20; 3; 234; 80; 114; 111; 116; 111; 99; 111; 108; 32; 118; 105; 111; 108; 97; 116; 105; 111; 110] /\
    spec_decode Server (wire (w_log w) ++ c_out (x_codec x))
    = Some [mkItem KText None [104; 105]; mkItem KPong None [104; 105];
            mkItem KClose None [3; 234; 80; 114; 111; 116; 111; 99; 111; 108; 32; 118; 105; 111; 108; 97; 116; 105; 111; 110]].
Proof.
  unfold ex_srv_ops, two64.
  eexists. eexists. eexists. eexists.
  split; [reflexivity|]. split; [reflexivity|].
  split; [repeat constructor|]. split; [repeat constructor|]. split; [repeat constructor|].
  split; [vm_compute; reflexivity|]. split; vm_compute; reflexivity.
Qed.

(* a client with the key oracle k1 k2 k3: writes Text "hi", reads a Ping [7], reads an empty Close,
   flushes.  Emitted: Text masked with k1, Pong masked with k2, Close masked with k3. *)
Definition ex_cli_world : world :=
  mkWorld [RdData [137; 1; 7]; RdData [136; 0]]
          [WrAccept 3; WrAccept 100; WrAccept 100; WrAccept 100] [FlOk; FlOk; FlOk]
          [(1, 2, 3, 4); (5, 6, 7, 8); (9, 10, 11, 12)] [].
Definition ex_cli_ops : list op := [OpWrite (MText [104; 105]); OpRead; OpRead; OpFlush].

Example C09_ex_client :
  exists x0 rs x w,
    ctx_new Client [] ex_cfg = Some x0 /\ w_log ex_cli_world = [] /\
    Forall op_no_raw ex_cli_ops /\ Forall op_len_u64 ex_cli_ops /\
    run_ops x0 ex_cli_ops ex_cli_world = (rs, x, w) /\
    wire (w_log w) ++ c_out (x_codec x)
    = [129; 130; 1; 2; 3; 4; 105; 107] ++ [138; 129; 5; 6; 7; 8; 2] ++ [136; 128; 9; 10; 11; 12] /\
    spec_decode Client (wire (w_log w) ++ c_out (x_codec x))
    = Some [mkItem KText (Some (1, 2, 3, 4)) [104; 105]; mkItem KPong (Some (5, 6, 7, 8)) [7];
            mkItem KClose (Some (9, 10, 11, 12)) []] /\
    w_keys w = [].
Proof.
  unfold ex_cli_ops, two64.
  eexists. eexists. eexists. eexists.
  split; [reflexivity|]. split; [reflexivity|].
  split; [repeat constructor|]. split; [repeat constructor|].
  split; [vm_compute; reflexivity|]. split; [|split]; vm_compute; reflexivity.
Qed.

(* the hypotheses of C09_fresh_key_partial are satisfiable: the same client run with a fourth key *)
Example C09_ex_fresh_sat :
  let w0 := mkWorld (w_rds ex_cli_world) (w_wrs ex_cli_world) (w_fls ex_cli_world)
                    [(1, 2, 3, 4); (5, 6, 7, 8); (9, 10, 11, 12); (13, 14, 15, 16)] [] in
  exists x0 rs x w,
    ctx_new Client [] ex_cfg = Some x0 /\ run_ops x0 ex_cli_ops w0 = (rs, x, w) /\
    NoDup (w_keys w0) /\ w_keys w = [(13, 14, 15, 16)].
Proof.
  eexists. eexists. eexists. eexists.
  split; [reflexivity|]. split; [vm_compute; reflexivity|]. split; [|vm_compute; reflexivity].
  cbn [w_keys].
  repeat (constructor; [cbn [In]; intros H; repeat (destruct H as [H|H]; [discriminate H|]); exact H|]).
  constructor.
Qed.

(* Why "subseq" and not "prefix": a key drawn for a frame that bounces off a full out_buffer
   (WriteBufferFull; the parked Pong is re-masked later) is discarded.  Client, buffer limit 10:
   the Text frame (key k1) stays in out_buffer because the transport would block; the Pong reply
   draws k2, does not fit, is parked again; after the buffer has drained it is sent with k3.
   So "the keys on the wire are the first keys of the oracle" is false; each frame does use the key
   that was next when it was buffered. *)
Definition ex_skip_world : world :=
  mkWorld [RdData [137; 0]; RdData [129; 0]]
          [WrErr WouldBlock; WrAccept 100; WrAccept 100; WrAccept 100] [FlOk; FlOk; FlOk]
          [(1, 2, 3, 4); (5, 6, 7, 8); (9, 10, 11, 12)] [].
Definition ex_skip_ops : list op := [OpWrite (MText [104; 105]); OpRead; OpRead; OpFlush].

Example C09_key_prefix_refuted :
  exists x0 rs x w,
    ctx_new Client [] (mkConfig 0 10 None None false) = Some x0 /\ w_log ex_skip_world = [] /\
    Forall op_no_raw ex_skip_ops /\ Forall op_len_u64 ex_skip_ops /\
    run_ops x0 ex_skip_ops ex_skip_world = (rs, x, w) /\
    spec_decode Client (wire (w_log w) ++ c_out (x_codec x))
    = Some [mkItem KText (Some (1, 2, 3, 4)) [104; 105]; mkItem KPong (Some (9, 10, 11, 12)) []] /\
    fkeys (queued (w_log w)) = [(1, 2, 3, 4); (9, 10, 11, 12)] /\
    fkeys (queued (w_log w)) <> firstn 2 (w_keys ex_skip_world) /\
    w_keys w = [].
Proof.
  unfold ex_skip_ops, two64.
  eexists. eexists. eexists. eexists.
  split; [reflexivity|]. split; [reflexivity|].
  split; [repeat constructor|]. split; [repeat constructor|].
  split; [vm_compute; reflexivity|]. split; [vm_compute; reflexivity|].
  split; [vm_compute; reflexivity|]. split; [vm_compute; discriminate|vm_compute; reflexivity].
Qed.

(* The excluded preconditions are real: the library does not check user-supplied control frames.
   A 126-byte user Pong goes out as is (16-bit length form) ... *)
Example C09_user_pong_not_checked :
  exists x0 rs x w,
    ctx_new Server [] ex_cfg = Some x0 /\
    run_ops x0 [OpWrite (MPong (repeat 0 126)); OpFlush]
            (mkWorld [] [WrAccept 1000] [FlOk] [] []) = (rs, x, w) /\
    wire (w_log w) = [138; 126; 0; 126] ++ repeat 0 126.
Proof.
  eexists. eexists. eexists. eexists.
  split; [reflexivity|]. split; vm_compute; reflexivity.
Qed.

(* ... and a raw frame is passed through untouched (here with RSV1 set: first byte 0xC1), which is
   why OpWrite (MFrame _) is excluded from C09_wire_wellformed *)
Example C09_raw_frame_passthrough :
  exists x0 rs x w,
    ctx_new Server [] ex_cfg = Some x0 /\
    run_ops x0 [OpWrite (MFrame (mkFrame (mkHeader true true false false (OData Text) None) [104])); OpFlush]
            (mkWorld [] [WrAccept 1000] [FlOk] [] []) = (rs, x, w) /\
    wire (w_log w) = [193; 1; 104] /\
    spec_decode Server (wire (w_log w)) = None.
Proof.
  eexists. eexists. eexists. eexists.
  split; [reflexivity|]. split; [vm_compute; reflexivity|]. split; vm_compute; reflexivity.
Qed.

(* why op_len_u64 is there (the same bound as in C18): the wire field is a u64, so a payload of 2^64
   bytes — which no Rust Vec can hold — would be announced as 0 bytes by the model's encoder *)
Example C09_len_u64_needed :
  header_format (mkHeader true false false false (OData Binary) None) two64
  = [130; 127; 0; 0; 0; 0; 0; 0; 0; 0] /\
  ~ len_field two64 127 [0; 0; 0; 0; 0; 0; 0; 0].
Proof.
  split; [vm_compute; reflexivity|].
  unfold len_field, two64. intros [[H _]|[[[_ H] _]|[_ [_ [_ [_ H]]]]]].
  - vm_compute in H. apply H. reflexivity.
  - vm_compute in H. apply H. reflexivity.
  - vm_compute in H. discriminate H.
Qed.

(* the three length forms at their boundaries (server; the client list stops at 2000 because the
   reference parser's unary index arithmetic is quadratic): Frame::format of an n-byte binary frame
   is read back by the reference parser as exactly that frame *)
Definition ex_roundtrip (r : role) (mk : option key) (n : N) : bool :=
  let p := repeat 7 (N.to_nat n) in
  match spec_decode r (frame_format (item_frame (mkItem KBinary mk p))) with
  | Some [it] =>
      bytes_eqb (it_plain it) p
      && match it_kind it with KBinary => true | _ => false end
      && match it_key it, mk with
         | Some k, Some k' => key_eqb k k'
         | None, None => true
         | _, _ => false
         end
  | _ => false
  end.

Example C09_ex_length_forms :
  forallb (ex_roundtrip Server None) [0; 1; 125; 126; 127; 65535; 65536; 70000] = true /\
  forallb (ex_roundtrip Client (Some (1, 2, 3, 4))) [0; 1; 2; 3; 4; 5; 125; 126; 127; 300; 2000] = true.
Proof. split; vm_compute; reflexivity. Qed.

Print Assumptions C09_wire_wellformed.
Print Assumptions C09_wire_wellformed_raw.
Print Assumptions C09_wire_wellformed_always.
Print Assumptions C09_wire_parses.
Print Assumptions C09_spec_decides.
Print Assumptions C09_spec_unique.
Print Assumptions C09_frame_format_spec.
Print Assumptions C09_draws_stream.
Print Assumptions C09_right_opcode.
Print Assumptions C09_fresh_key_partial.
Print Assumptions C09_auto_reply_size.
Print Assumptions C09_auto_reply_size_pure.
Print Assumptions C09_auto_reply_local.
Print Assumptions C09_wire_replies_small.
