(* props/C07cfg.v — property theorems for C07 (socket part) along histories that contain set_config calls
   changing the inbound limits (ProtocolCfg.run_xops), at any point of the history, also in the middle of
   a fragmented message or of a frame.

   What changes with respect to props/C07.v:
   - bounded work needs no hypothesis on the limits at all (they may be None, and change arbitrarily);
   - no-panic: the limits installed along the history are finite and globally bounded: every
     max_message_size <= Mx, every max_frame_size <= Fx, Mx + Fx < 2^64 (the overflow site
     `my_size + portion_size` sees an accumulator filled under an EARLIER, possibly larger, message limit
     and a payload admitted under the CURRENT frame limit, so the bound relates the largest limits of the
     history, not the pair in force); every installed configuration passes assert_valid.

   Spec definitions from proofs/ProtocolCfgP.v (see props/C06b.v): limits_within, cfg_within, xop_within,
   xops_within, and
     xop_valid x o   = o is XOp o' with op_ok o', or a set_config whose resulting configuration passes
                       assert_valid
     cfg_inv Mx Fx x = the configuration of x is valid and within the bounds, and ctx_inv Mx x
   is_panic, is_out_of_fuel, op_ok, ctx_inv from proofs/LimitsP.v (props/C07.v). *)
From TungModel Require Import Base Coding Mask Header Frame Utf8 World Message Codec Protocol ProtocolCfg.
From TungModel.proofs Require Import LimitsP ProtocolCfgP.
From Coq Require Import Lia.

(* no operation of any history returns OutOfFuel: the fuel computed inside Protocol.read always
   suffices, for ANY initial configuration and ANY configuration changes (finite limits or not, valid
   or not) *)
Theorem C07cfg_bounded_work : forall role part cfg x ops w rs x' w',
  ctx_new role part cfg = Some x ->
  run_xops x ops w = (rs, x', w') ->
  forall r n c, In (r, n, c) rs -> ~ is_out_of_fuel r.
Proof. exact xops_no_fuel. Qed.

(* no operation of the history panics, at any site *)
Theorem C07cfg_no_panic : forall Mx Fx role part cfg x ops w rs x' w',
  Mx + Fx < two64 -> cfg_within Mx Fx cfg ->
  ctx_new role part cfg = Some x ->
  xops_within Mx Fx ops ->
  run_xops x ops w = (rs, x', w') ->
  forall r n c s, In (r, n, c) rs -> ~ is_panic r s.
Proof. exact xops_no_panic. Qed.

(* the same from any state satisfying the invariant, with the invariant re-established at the end; every
   configuration in force along the history is within the bounds *)
Theorem C07cfg_safe_from_invariant : forall Mx Fx ops x w rs x' w',
  Mx + Fx < two64 -> cfg_inv Mx Fx x -> xops_within Mx Fx ops ->
  run_xops x ops w = (rs, x', w') ->
  cfg_inv Mx Fx x' /\
  Forall (fun t : op_result * N * config =>
            (forall s, ~ opres_panic (fst (fst t)) s) /\ cfg_within Mx Fx (snd t)) rs.
Proof. exact xops_safe. Qed.

(* complete list of the panics one operation of a history can produce, from a state whose accumulator is
   within Mx >= the message limit in force: the overflow site when Mx + F >= 2^64, and assert_valid on a
   set_config that leaves an invalid configuration *)
Theorem C07cfg_panic_sites : forall F M Mx x o w res x' w' s,
  cfg_max_frame_size (x_cfg x) = Some F -> cfg_max_message_size (x_cfg x) = Some M -> M <= Mx ->
  ctx_inv Mx x -> run_xop x o w = (res, x', w') -> is_panic res s ->
  (s = site_overflow /\ two64 <= Mx + F) \/ (s = site_config_invalid /\ ~ xop_valid x o).
Proof. exact xop_panic_sites. Qed.

(* WebSocketConfig::assert_valid (documented panic) is an explicit branch of set_config: the new
   configuration is stored, the codec, the accumulator and the world are not touched *)
Theorem C07cfg_invalid_config_explicit : forall x cfg' w,
  config_valid cfg' = false ->
  exists x1, run_xop x (XSetConfig cfg') w = (ResUnit (RPanic site_config_invalid), x1, w) /\
             x_cfg x1 = cfg' /\ x_codec x1 = x_codec x /\ x_incomplete x1 = x_incomplete x.
Proof. exact set_config_invalid. Qed.

(* ---- non-vacuity ---- *)

Definition exc_cfg (M : N) : config := mkConfig 0 100 (Some M) (Some 1000) false.
Definition exc_lowered : list xop := [XOp OpRead; XSetLimits (Some 50) (Some 1000) false; XOp OpRead].
Definition exc_run (cfg : config) (rds : list rd_out) (ops : list xop) :=
  match ctx_new Client [] cfg with
  | Some x => let '(rs, x', w') := run_xops x ops (mkWorld rds [] [] [] []) in
              Some (map (fun t : op_result * N * config => fst (fst t)) rs, option_map incmsg_len (x_incomplete x'))
  | None => None
  end.

(* the hypotheses of C07cfg_no_panic are satisfiable by a history that lowers the message limit below the
   size already accumulated (the history of C06b_lowered_mid_message) ... *)
Example C07cfg_ex_hyps :
  1000 + 1000 < two64 /\ cfg_within 1000 1000 (exc_cfg 1000) /\ xops_within 1000 1000 exc_lowered /\
  ctx_new Client [] (exc_cfg 1000) <> None.
Proof.
  split; [reflexivity|]. split; [exists 1000, 1000; repeat split; lia|]. split; [|discriminate].
  repeat constructor. exists 50, 1000. repeat split; lia.
Qed.
(* ... and that history does reach the state "accumulator (100) above the limit in force (50)" and
   answers the final fragment with a capacity error, not a panic *)
Example C07cfg_ex_run :
  exc_run (exc_cfg 1000)
          [RdData (2 :: 100 :: repeat 7 100); RdErr WouldBlock; RdData (128 :: 10 :: repeat 9 10)] exc_lowered =
  Some ([ResMsg (RErr (EIo WouldBlock)); ResUnit (ROk tt); ResMsg (RErr (ECapacity 110 50))], Some 100).
Proof. vm_compute. reflexivity. Qed.

(* bounded work without any limit: both limits removed in the middle of a fragmented message; the message
   is completed and delivered *)
Example C07cfg_ex_unlimited :
  exc_run (exc_cfg 50)
          [RdData (1 :: 3 :: [104; 101; 108]); RdErr WouldBlock; RdData (128 :: 2 :: [108; 111])]
          [XOp OpRead; XSetLimits None None true; XOp OpRead] =
  Some ([ResMsg (RErr (EIo WouldBlock)); ResUnit (ROk tt); ResMsg (ROk (MText [104; 101; 108; 108; 111]))], None).
Proof. vm_compute. reflexivity. Qed.

(* the global bound cannot be replaced by the bound on the pair in force: with Mx + F >= 2^64 the
   overflow site is reachable after lowering the limit. Accumulator of 2^64 - 1 bytes is not
   constructible by vm_compute; the site is exhibited on the function itself *)
Example C07cfg_ex_overflow_site :
  forall m, incmsg_len m = u64_max ->
  fst (incmsg_extend m [1] (Some 50)) = RPanic site_overflow.
Proof.
  intros m H. unfold incmsg_extend. cbn [limit_of]. rewrite H.
  replace (50 <? u64_max) with true by reflexivity. cbn [orb].
  replace (two64 <=? u64_max + blen [1]) with true by reflexivity. reflexivity.
Qed.

(* an invalid set_config in the middle of a history: explicit panic result, the history goes on *)
Example C07cfg_ex_invalid :
  exc_run (exc_cfg 1000) [RdData (130 :: 2 :: [1; 2])]
          [XSetConfig (mkConfig 10 10 (Some 5) (Some 5) false); XOp OpRead; XOp OpCanRead] =
  Some ([ResUnit (RPanic site_config_invalid); ResMsg (ROk (MBinary [1; 2])); ResBool true], None).
Proof. vm_compute. reflexivity. Qed.

Print Assumptions C07cfg_bounded_work.
Print Assumptions C07cfg_no_panic.
Print Assumptions C07cfg_safe_from_invariant.
Print Assumptions C07cfg_panic_sites.
Print Assumptions C07cfg_invalid_config_explicit.
