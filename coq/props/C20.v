(* props/C20.v — property theorems for C20 only. *)
From TungModel Require Import Base Coding.
From TungModel.proofs Require Import CodingP.

(* u16 -> CloseCode -> u16 is the identity (for every N, in particular every 16-bit code) *)
Theorem C20_to_of : forall c : N, c < 65536 -> close_to_u16 (close_of_u16 c) = c.
Proof. intros c _. exact (close_to_of c). Qed.

(* every value the decoder can produce survives CloseCode -> u16 -> CloseCode *)
Theorem C20_of_to_of : forall v : close_code,
  (exists c, c < 65536 /\ v = close_of_u16 c) -> close_of_u16 (close_to_u16 v) = v.
Proof. exact close_roundtrip_image. Qed.

(* is_allowed is true exactly on 1000-1003, 1007-1013, 3000-4999 *)
Theorem C20_allowed : forall c : N, c < 65536 ->
  (close_allowed (close_of_u16 c) = true <->
   (1000 <= c <= 1003) \/ (1007 <= c <= 1013) \/ (3000 <= c <= 4999)).
Proof. intros c _. exact (close_allowed_iff c). Qed.

(* non-vacuity: both sides of the iff are inhabited *)
Example C20_allowed_yes : close_allowed (close_of_u16 3000) = true. Proof. reflexivity. Qed.
Example C20_allowed_no : close_allowed (close_of_u16 1005) = false. Proof. reflexivity. Qed.

Print Assumptions C20_to_of.
Print Assumptions C20_of_to_of.
Print Assumptions C20_allowed.
