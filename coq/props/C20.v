(* props/C20.v — property theorems for C20 only. *)
From TungModel Require Import Base Coding.
From TungModel.proofs Require Import CodingP.

(* u16 -> CloseCode -> u16 is the identity (for every N, in particular every 16-bit code) *)
Theorem C20_to_of : forall c : N, c < 65536 -> close_to_u16 (close_of_u16 c) = c.
Proof. intros c _. exact (close_to_of c). Qed.

(* every value the decoder can produce survives CloseCode -> u16 -> CloseCode *)
Theorem C20_of_to_of : forall v : close_code,
  (exists c, c < 65536 /\ v = close_of_u16 c) -> close_of_u16 (close_to_u16 v) = v.
Proof. exact close_roundtrip_image. Qed.

(* is_allowed is true exactly on 1000-1003, 1007-1013, 3000-4999 *)
Theorem C20_allowed : forall c : N, c < 65536 ->
  (close_allowed (close_of_u16 c) = true <->
   (1000 <= c <= 1003) \/ (1007 <= c <= 1013) \/ (3000 <= c <= 4999)).
Proof. intros c _. exact (close_allowed_iff c). Qed.

(* "without loss", stated as injectivity: two different 16-bit codes never decode to the same CloseCode *)
Theorem C20_of_inj : forall a b : N, a < 65536 -> b < 65536 -> close_of_u16 a = close_of_u16 b -> a = b.
Proof. intros a b _ _ H. rewrite <- (close_to_of a), <- (close_to_of b), H. reflexivity. Qed.

(* ... and two different decodable CloseCodes never encode to the same number *)
Theorem C20_to_inj : forall v w : close_code,
  (exists c, c < 65536 /\ v = close_of_u16 c) -> (exists c, c < 65536 /\ w = close_of_u16 c) ->
  close_to_u16 v = close_to_u16 w -> v = w.
Proof.
  intros v w Hv Hw H. rewrite <- (close_roundtrip_image v Hv), <- (close_roundtrip_image w Hw), H. reflexivity.
Qed.

(* is_allowed depends only on the numeric value: the named variants and the range variants agree with the table *)
Theorem C20_allowed_by_value : forall v : close_code,
  (exists c, c < 65536 /\ v = close_of_u16 c) ->
  (close_allowed v = true <->
   (1000 <= close_to_u16 v <= 1003) \/ (1007 <= close_to_u16 v <= 1013) \/ (3000 <= close_to_u16 v <= 4999)).
Proof.
  intros v [c [Hc ->]]. rewrite close_to_of. exact (close_allowed_iff c).
Qed.

(* non-vacuity: both sides of the iff are inhabited *)
Example C20_allowed_yes : close_allowed (close_of_u16 3000) = true. Proof. reflexivity. Qed.
Example C20_allowed_no : close_allowed (close_of_u16 1005) = false. Proof. reflexivity. Qed.

Print Assumptions C20_to_of.
Print Assumptions C20_of_to_of.
Print Assumptions C20_allowed.
Print Assumptions C20_of_inj.
Print Assumptions C20_to_inj.
Print Assumptions C20_allowed_by_value.
