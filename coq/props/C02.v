(* props/C02.v — C02: reading accepts exactly the RFC 6455 frame sequences and rejects all others.

   Specification: proofs/SpecRfc.v (rfc_frames, rfc_step, rfc_assemble / rfc_outcomes, rfc_read), written from
   the RFC and independent of the model's control flow.  Proofs: proofs/RfcRefineP.v.

   Vocabulary (all defined in SpecRfc.v / RfcRefineP.v)
     benign w           the write side of the transport never fails hard: every write accepts >= 1 byte or answers
                        WouldBlock, every flush succeeds or answers WouldBlock (an exhausted oracle = WouldBlock);
                        "accepts everything" is a special case
     sched_data/sched_end (CodecReadP) the bytes a read oracle delivers and how it ends (TEof = end of file)
     observe rs         the non-WouldBlock results of the read operations in rs, up to and including the first
                        error or Message::Close
     outcome_of r       Ok(m) -> OMsg m; Err(ResetWithoutClosingHandshake) -> OEnd; Err(e) -> OReject (class of e)
                        with class in {KProtocol, KCapacity, KUtf8}; anything else (panic, out of fuel, other
                        errors) has no outcome, so the equations below exclude it
     rfc_read           the outcomes the specification prescribes for a byte stream that ends after its last byte *)
From TungModel Require Import Base Coding Mask Header Frame Utf8 World Message Codec Protocol.
From TungModel.proofs Require Import CodecReadP SpecRfc RfcRefineP.
From Coq Require Import Lia.

(* ------------------------------------------------------------------------------------------- *)
(** * The main theorem *)

(* For every role, configuration (accept_unmasked_frames, max_frame_size, max_message_size, buffer sizes), bytes
   already read during the handshake [part], read oracle (any cutting of the stream into chunks, any number of
   WouldBlocks, ending in end-of-file), benign write side, and any sufficient number n of read operations:
   what the user observes is exactly what the specification prescribes for the byte stream. *)
Theorem C02_read_refines_rfc (rl : role) (cfg : config) (part : bytes) (x : ctx) (w : world) (n : nat) :
  ctx_new rl part cfg = Some x ->
  benign w ->
  wf_bytes (part ++ sched_data (w_rds w)) = true ->
  sched_end (w_rds w) = TEof ->
  blen (part ++ sched_data (w_rds w)) < two64 ->
  (length part + rd_bytes (w_rds w) + length (w_rds w) < n)%nat ->
  map outcome_of (observe (op_results x (repeat OpRead n) w)) =
  map Some (rfc_read rl (cfg_accept_unmasked cfg) (cfg_max_frame_size cfg) (cfg_max_message_size cfg)
                     (part ++ sched_data (w_rds w))).
Proof. exact (read_refines_rfc rl cfg part x w n). Qed.

(* the same, quantified over the byte stream first: every schedule of bs gives the outcomes of bs *)
Theorem C02_read_refines_rfc_stream (rl : role) (cfg : config) (bs : bytes) (x : ctx) (w : world) (n : nat) :
  ctx_new rl [] cfg = Some x ->
  benign w ->
  sched_data (w_rds w) = bs -> sched_end (w_rds w) = TEof ->
  wf_bytes bs = true -> blen bs < two64 ->
  (rd_bytes (w_rds w) + length (w_rds w) < n)%nat ->
  map outcome_of (observe (op_results x (repeat OpRead n) w)) =
  map Some (rfc_read rl (cfg_accept_unmasked cfg) (cfg_max_frame_size cfg) (cfg_max_message_size cfg) bs).
Proof.
  intros Hx Hb Hd He Hwf Hlen Hn. subst bs.
  exact (read_refines_rfc rl cfg [] x w n Hx Hb Hwf He Hlen Hn).
Qed.

(* consequently the observation does not depend on the schedule, the write oracle or the number of reads *)
Theorem C02_schedule_independent (rl : role) (cfg : config) (bs : bytes) (x : ctx) (w1 w2 : world) (n1 n2 : nat) :
  ctx_new rl [] cfg = Some x -> benign w1 -> benign w2 ->
  sched_data (w_rds w1) = bs -> sched_data (w_rds w2) = bs ->
  sched_end (w_rds w1) = TEof -> sched_end (w_rds w2) = TEof ->
  wf_bytes bs = true -> blen bs < two64 ->
  (rd_bytes (w_rds w1) + length (w_rds w1) < n1)%nat -> (rd_bytes (w_rds w2) + length (w_rds w2) < n2)%nat ->
  map outcome_of (observe (op_results x (repeat OpRead n1) w1)) =
  map outcome_of (observe (op_results x (repeat OpRead n2) w2)).
Proof.
  intros Hx B1 B2 D1 D2 E1 E2 Hwf Hlen N1 N2.
  rewrite (C02_read_refines_rfc_stream rl cfg bs x w1 n1), (C02_read_refines_rfc_stream rl cfg bs x w2 n2);
    auto.
Qed.

(* with any number of reads (too few included) the observation is a prefix of what the specification prescribes *)
Theorem C02_read_prefix (rl : role) (cfg : config) (part : bytes) (x : ctx) (w : world) (n : nat) :
  ctx_new rl part cfg = Some x -> benign w ->
  wf_bytes (part ++ sched_data (w_rds w)) = true -> sched_end (w_rds w) = TEof ->
  blen (part ++ sched_data (w_rds w)) < two64 ->
  exists rest,
    map Some (rfc_read rl (cfg_accept_unmasked cfg) (cfg_max_frame_size cfg) (cfg_max_message_size cfg)
                       (part ++ sched_data (w_rds w))) =
    map outcome_of (observe (op_results x (repeat OpRead n) w)) ++ rest.
Proof. exact (read_prefix_rfc rl cfg part x w n). Qed.

(* the main theorem in the shape of the design note: the items of rfc_assemble on the frames of the stream, then,
   when the specification rejected nothing and saw no Close, the terminal result for the end of the stream
   (or the header-level rejection of a truncated last frame) *)
Theorem C02_read_refines_assemble (rl : role) (cfg : config) (part : bytes) (x : ctx) (w : world) (n : nat) :
  ctx_new rl part cfg = Some x -> benign w ->
  wf_bytes (part ++ sched_data (w_rds w)) = true -> sched_end (w_rds w) = TEof ->
  blen (part ++ sched_data (w_rds w)) < two64 ->
  (length part + rd_bytes (w_rds w) + length (w_rds w) < n)%nat ->
  let mfs := cfg_max_frame_size cfg in
  let fs := fst (rfc_frames (part ++ sched_data (w_rds w))) in
  let t := snd (rfc_frames (part ++ sched_data (w_rds w))) in
  let run := rfc_run rl (cfg_accept_unmasked cfg) mfs (cfg_max_message_size cfg) None fs in
  map outcome_of (observe (op_results x (repeat OpRead n) w)) =
  map Some (map item_outcome (rfc_assemble rl (cfg_accept_unmasked cfg) mfs (cfg_max_message_size cfg) fs)
            ++ match snd run with Some _ => [rfc_ending mfs t] | None => [] end).
Proof. exact (read_refines_assemble rl cfg part x w n). Qed.

(* ------------------------------------------------------------------------------------------- *)
(** * The two halves the main theorem is composed of *)

(* frames: on a well-formed byte stream the whole-stream reference decoder of C05 (= what successive
   read_frame_loop calls return under every schedule, CodecReadP.drive_raw_ref) cuts exactly the frames of the
   declarative framing, and fails exactly on a reserved opcode / oversized frame once the header is complete *)
Theorem C02_frames_refine (max : N) (bs : bytes) :
  wf_bytes bs = true ->
  ref_all max bs [ROk None] = raw_view max (fst (rfc_frames bs)) (snd (rfc_frames bs)).
Proof. exact (ref_all_rfc max bs). Qed.

(* one step: read_message_frame on a frame delivered by the codec is one step of the specification, for every
   context in state Active (any codec buffers, any pending additional_send, any reassembly state related to the
   specification's by acc_rel), every frame of the framing and every world *)
Theorem C02_step_refines (x : ctx) (w : world) (f : raw_frame) (c' : codec) (rds' : list rd_out) (a : partial)
        (rm : res (option message)) (x' : ctx) (w' : world) :
  x_state x = Active ->
  rfl (limit_of (cfg_max_frame_size (x_cfg x))) (w_rds w) (x_codec x) =
    (ROk (Some (hdr_of (rf_hdr f), rh_len (rf_hdr f), rf_payload f)), c', rds') ->
  raw_of_check (limit_of (cfg_max_frame_size (x_cfg x))) (rf_hdr f) = None ->
  frame_ok f -> acc_rel (x_incomplete x) a -> partial_len a + blen (rf_payload f) < two64 ->
  read_message_frame x w = (rm, x', w') ->
  step_ok (set_codec x c')
    (rfc_step (x_role x) (cfg_accept_unmasked (x_cfg x)) (cfg_max_frame_size (x_cfg x))
              (cfg_max_message_size (x_cfg x)) a f)
    (rm, x') /\ w_rds w' = rds'.
Proof. exact (rmf_step_refines x w f c' rds' a rm x' w'). Qed.

(* the same step as a pure function of context and frame, header-level rules included *)
Theorem C02_step_refines_model (mfs : option N) (x1 : ctx) (f : raw_frame) (a : partial) :
  frame_ok f -> x_state x1 = Active -> acc_rel (x_incomplete x1) a ->
  partial_len a + blen (rf_payload f) < two64 ->
  step_ok x1
    (rfc_step (x_role x1) (cfg_accept_unmasked (x_cfg x1)) mfs (cfg_max_message_size (x_cfg x1)) a f)
    (model_frame (limit_of mfs) x1 f).
Proof. exact (step_refines mfs x1 f a). Qed.

(* ------------------------------------------------------------------------------------------- *)
(** * One corollary per rule

   Setting (read_setup): the hypotheses of the main theorem.  The stream's frames are fs1 ++ f :: fs2 (plus a
   tail t): a prefix fs1 that the specification accepts completely (it ends in reassembly state a and yields the
   messages [items]), one offending frame f, then anything.  Observed: the prefix's messages, then an error —
   never a message for f, nothing after it.  The error's class is Protocol unless a header-level rule fires
   first (the frame is also larger than max_frame_size: Capacity). *)

Definition violation_result (rl : role) (cfg : config) (x : ctx) (w : world) (n : nat)
           (items : list item) (f : raw_frame) : Prop :=
  exists c, observed x w n = map Some (map item_outcome items ++ [OReject c]) /\
            (rfc_header_check (cfg_max_frame_size cfg) (rf_hdr f) = None -> c = KProtocol).

Theorem C02_rsv rl cfg part x w n fs1 f fs2 t items a :
  read_setup rl cfg part x w n ->
  rfc_frames (stream_of part w) = (fs1 ++ f :: fs2, t) ->
  spec_run rl cfg None fs1 = (items, Some a) ->
  rh_rsv1 (rf_hdr f) || rh_rsv2 (rf_hdr f) || rh_rsv3 (rf_hdr f) = true ->
  violation_result rl cfg x w n items f.
Proof.
  intros Hs Hf Hr H. exact (rejected_observed rl cfg part x w n fs1 f fs2 t items a Hs Hf Hr (rule_rsv rl cfg a f H)).
Qed.

Theorem C02_reserved_opcode rl cfg part x w n fs1 f fs2 t items a :
  read_setup rl cfg part x w n ->
  rfc_frames (stream_of part w) = (fs1 ++ f :: fs2, t) ->
  spec_run rl cfg None fs1 = (items, Some a) ->
  reserved_opcode (rh_opcode (rf_hdr f)) = true ->
  violation_result rl cfg x w n items f.
Proof.
  intros Hs Hf Hr H.
  exact (rejected_observed rl cfg part x w n fs1 f fs2 t items a Hs Hf Hr (rule_reserved_opcode rl cfg a f H)).
Qed.

Theorem C02_control_fin rl cfg part x w n fs1 f fs2 t items a :
  read_setup rl cfg part x w n ->
  rfc_frames (stream_of part w) = (fs1 ++ f :: fs2, t) ->
  spec_run rl cfg None fs1 = (items, Some a) ->
  8 <= rh_opcode (rf_hdr f) -> rh_fin (rf_hdr f) = false ->
  violation_result rl cfg x w n items f.
Proof.
  intros Hs Hf Hr H1 H2.
  exact (rejected_observed rl cfg part x w n fs1 f fs2 t items a Hs Hf Hr (rule_control_fin rl cfg a f H1 H2)).
Qed.

Theorem C02_control_size rl cfg part x w n fs1 f fs2 t items a :
  read_setup rl cfg part x w n ->
  rfc_frames (stream_of part w) = (fs1 ++ f :: fs2, t) ->
  spec_run rl cfg None fs1 = (items, Some a) ->
  8 <= rh_opcode (rf_hdr f) -> 125 < blen (rf_payload f) ->
  violation_result rl cfg x w n items f.
Proof.
  intros Hs Hf Hr H1 H2.
  exact (rejected_observed rl cfg part x w n fs1 f fs2 t items a Hs Hf Hr (rule_control_size rl cfg a f H1 H2)).
Qed.

(* a continuation frame when the prefix left no message open *)
Theorem C02_orphan_continuation rl cfg part x w n fs1 f fs2 t items :
  read_setup rl cfg part x w n ->
  rfc_frames (stream_of part w) = (fs1 ++ f :: fs2, t) ->
  spec_run rl cfg None fs1 = (items, Some None) ->
  rh_opcode (rf_hdr f) = 0 ->
  violation_result rl cfg x w n items f.
Proof.
  intros Hs Hf Hr H.
  exact (rejected_observed rl cfg part x w n fs1 f fs2 t items None Hs Hf Hr (rule_orphan_continuation rl cfg f H)).
Qed.

(* a Text or Binary frame when the prefix left a message open *)
Theorem C02_nested_data rl cfg part x w n fs1 f fs2 t items p :
  read_setup rl cfg part x w n ->
  rfc_frames (stream_of part w) = (fs1 ++ f :: fs2, t) ->
  spec_run rl cfg None fs1 = (items, Some (Some p)) ->
  rh_opcode (rf_hdr f) = 1 \/ rh_opcode (rf_hdr f) = 2 ->
  violation_result rl cfg x w n items f.
Proof.
  intros Hs Hf Hr H.
  exact (rejected_observed rl cfg part x w n fs1 f fs2 t items (Some p) Hs Hf Hr (rule_nested_data rl cfg p f H)).
Qed.

(* masked towards a client; unmasked towards a server that did not set accept_unmasked_frames *)
Theorem C02_mask_direction rl cfg part x w n fs1 f fs2 t items a :
  read_setup rl cfg part x w n ->
  rfc_frames (stream_of part w) = (fs1 ++ f :: fs2, t) ->
  spec_run rl cfg None fs1 = (items, Some a) ->
  mask_direction_ok rl (cfg_accept_unmasked cfg) (rh_key (rf_hdr f)) = false ->
  violation_result rl cfg x w n items f.
Proof.
  intros Hs Hf Hr H.
  exact (rejected_observed rl cfg part x w n fs1 f fs2 t items a Hs Hf Hr (rule_mask_direction rl cfg a f H)).
Qed.

(* a Close frame whose payload is one byte, or whose reason is not UTF-8: an error (class Protocol for the one
   byte, Utf8 for the reason, unless another rule fires first), never a Close message *)
Theorem C02_close_payload rl cfg part x w n fs1 f fs2 t items a :
  read_setup rl cfg part x w n ->
  rfc_frames (stream_of part w) = (fs1 ++ f :: fs2, t) ->
  spec_run rl cfg None fs1 = (items, Some a) ->
  rh_opcode (rf_hdr f) = 8 ->
  (blen (rf_payload f) = 1 \/
   exists c1 c2 reason, frame_data f = c1 :: c2 :: reason /\ utf8_valid reason = false) ->
  exists c, observed x w n = map Some (map item_outcome items ++ [OReject c]).
Proof.
  intros Hs Hf Hr H1 H2.
  exact (rejected_observed_any rl cfg part x w n fs1 f fs2 t items a Hs Hf Hr (rule_close_payload rl cfg a f H1 H2)).
Qed.

(* byte-level form, for any rule: a cleanly framed accepted prefix bs1, the bytes bf of one frame that the
   specification rejects, then ANY bytes *)
Theorem C02_violation_bytes rl cfg part x w n bs1 bf rest fs1 f items a c :
  read_setup rl cfg part x w n ->
  stream_of part w = bs1 ++ bf ++ rest ->
  rfc_frames bs1 = (fs1, TBytes []) -> rfc_frames bf = ([f], TBytes []) ->
  spec_run rl cfg None fs1 = (items, Some a) ->
  spec_step rl cfg a f = VReject c ->
  observed x w n = map Some (map item_outcome items ++ [OReject c]).
Proof. exact (violation_observed_bytes rl cfg part x w n bs1 bf rest fs1 f items a c). Qed.

(* what an accepted prefix yields are messages, none of them a Close *)
Theorem C02_prefix_items_are_messages rl cfg fs a items a' :
  spec_run rl cfg a fs = (items, Some a') ->
  Forall (fun i => exists m, i = IMsg m /\ is_close m = false) items.
Proof. exact (rfc_run_clean _ _ _ _ fs a items a'). Qed.

(* ------------------------------------------------------------------------------------------- *)
(** * Control frames interleaved in a fragmented message

   After an accepted prefix fs0 that leaves no message open: a first fragment (Text or Binary, FIN = 0), then any
   mix [mid] of well-formed Pings / Pongs and non-final continuation frames, then the final continuation frame.
   Observed: the prefix's messages, every Ping / Pong of [mid] at its position, then ONE message whose payload
   is the concatenation of the data fragments (control frames do not disturb the reassembly), then whatever
   the rest of the stream yields. *)
Theorem C02_interleaved_control rl cfg part x w n fs0 items0 first mid last fs2 t :
  read_setup rl cfg part x w n ->
  rfc_frames (stream_of part w) = (fs0 ++ (first :: mid ++ [last]) ++ fs2, t) ->
  spec_run rl cfg None fs0 = (items0, Some None) ->
  passes rl cfg first -> (rh_opcode (rf_hdr first) = 1 \/ rh_opcode (rf_hdr first) = 2) ->
  rh_fin (rf_hdr first) = false ->
  Forall (fun f => is_ctl rl cfg f \/ is_cont rl cfg f) mid ->
  passes rl cfg last -> rh_opcode (rf_hdr last) = 0 -> rh_fin (rf_hdr last) = true ->
  let k := kind_of_op (rh_opcode (rf_hdr first)) in
  let all := frame_data first ++ mid_data mid ++ frame_data last in
  over (cfg_max_message_size cfg) (blen all) = false ->
  (k = KText -> utf8_valid all = true) ->
  observed x w n =
  map Some (map item_outcome items0 ++ map item_outcome (mid_msgs mid) ++ [OMsg (data_msg k all)]
            ++ spec_outcomes rl cfg None fs2 t).
Proof. exact (interleaved_observed rl cfg part x w n fs0 items0 first mid last fs2 t). Qed.

(* ------------------------------------------------------------------------------------------- *)
(** * Non-vacuity: concrete instances (model and specification both computed) *)

Definition ex_cfg : config := mkConfig 1024 2048 None None false.
Definition ex_world (rds : list rd_out) : world := mkWorld rds [] [] [] [].
Definition ex_ctx (rl : role) : ctx :=
  match ctx_new rl [] ex_cfg with Some x => x | None => mkCtx rl (codec_new []) Terminated None None false ex_cfg end.

(* "Hi" as an unmasked text frame cut in the middle of the header's payload, a WouldBlock, then a frame with
   RSV1 set, then garbage; read by a client *)
Definition ex_rds1 : list rd_out :=
  [RdData [129; 2; 72]; RdErr WouldBlock; RdData [105; 193; 0; 255; 255]; RdEof].

Example ex_setup1 : read_setup Client ex_cfg [] (ex_ctx Client) (ex_world ex_rds1) 20.
Proof.
  unfold read_setup. split; [reflexivity|]. split; [split; constructor|].
  split; [reflexivity|]. split; [reflexivity|]. split; [vm_compute; reflexivity|]. apply PeanoNat.Nat.ltb_lt. vm_compute. reflexivity.
Qed.

(* the hypotheses of C02_rsv are satisfiable, and the conclusion is what both sides compute *)
Example ex_rsv_instance :
  exists fs1 f fs2 t items a,
    rfc_frames (stream_of [] (ex_world ex_rds1)) = (fs1 ++ f :: fs2, t) /\
    spec_run Client ex_cfg None fs1 = (items, Some a) /\
    rh_rsv1 (rf_hdr f) || rh_rsv2 (rf_hdr f) || rh_rsv3 (rf_hdr f) = true /\
    items = [IMsg (MText [72; 105])] /\
    observed (ex_ctx Client) (ex_world ex_rds1) 20 = [Some (OMsg (MText [72; 105])); Some (OReject KProtocol)].
Proof.
  exists [mkRaw (mkRawHeader true false false false 1 None 2) [72; 105]],
         (mkRaw (mkRawHeader true true false false 1 None 0) []), [], (TBytes [255; 255]),
         [IMsg (MText [72; 105])], None.
  repeat split; vm_compute; reflexivity.
Qed.

(* a server reading a fragmented masked text with a masked Ping in the middle, then a Close, then garbage:
   H | ping "!" | i(fin) | close 1000 *)
Definition ex_rds2 : list rd_out :=
  [RdData [1; 129; 1; 2; 3; 4; 73]; RdData [137; 129; 1; 2; 3; 4; 32];
   RdData [128; 129; 1; 2; 3; 4; 104; 136; 130; 0; 0; 0; 0; 3; 232; 9; 9]; RdEof].

Example ex_setup2 : read_setup Server ex_cfg [] (ex_ctx Server) (ex_world ex_rds2) 50.
Proof.
  unfold read_setup. split; [reflexivity|]. split; [split; constructor|].
  split; [reflexivity|]. split; [reflexivity|]. split; [vm_compute; reflexivity|]. apply PeanoNat.Nat.ltb_lt. vm_compute. reflexivity.
Qed.

Example ex_interleaved_instance :
  observed (ex_ctx Server) (ex_world ex_rds2) 50 =
  [Some (OMsg (MPing [33])); Some (OMsg (MText [72; 105])); Some (OMsg (MClose (Some (CNormal, []))))] /\
  spec_read Server ex_cfg (stream_of [] (ex_world ex_rds2)) =
  [OMsg (MPing [33]); OMsg (MText [72; 105]); OMsg (MClose (Some (CNormal, [])))].
Proof. split; vm_compute; reflexivity. Qed.

(* the hypotheses of C02_step_refines are satisfiable: a client context, the frame "Hi" delivered by the codec *)
Example ex_step_instance :
  let x := ex_ctx Client in
  let w := ex_world [RdData [129; 2; 72; 105]] in
  let f := mkRaw (mkRawHeader true false false false 1 None 2) [72; 105] in
  x_state x = Active /\
  (exists c' rds', rfl (limit_of (cfg_max_frame_size (x_cfg x))) (w_rds w) (x_codec x) =
                   (ROk (Some (hdr_of (rf_hdr f), rh_len (rf_hdr f), rf_payload f)), c', rds')) /\
  raw_of_check (limit_of (cfg_max_frame_size (x_cfg x))) (rf_hdr f) = None /\
  frame_ok f /\ acc_rel (x_incomplete x) None /\ partial_len None + blen (rf_payload f) < two64 /\
  fst (fst (read_message_frame x w)) = ROk (Some (MText [72; 105])).
Proof.
  cbv zeta. split; [reflexivity|]. split; [eexists; eexists; vm_compute; reflexivity|].
  split; [reflexivity|]. split; [split; vm_compute; reflexivity|]. split; [exact I|].
  split; vm_compute; reflexivity.
Qed.

(* NOTE on the property's wording "a malformed close payload [is a] protocol error": a Close frame whose reason is
   not UTF-8 is rejected with Error::Utf8, not Error::Protocol (a 1-byte close payload is Error::Protocol).  The
   specification records this (class KUtf8); read literally as "class Protocol" the wording is refuted by: *)
Lemma C02_close_reason_protocol_class_refuted :
  exists rds : list rd_out,
    read_setup Client ex_cfg [] (ex_ctx Client) (ex_world rds) 20 /\
    sched_data rds = [136; 3; 3; 232; 255] /\
    observe (op_results (ex_ctx Client) (repeat OpRead 20) (ex_world rds)) = [RErr EUtf8].
Proof.
  exists [RdData [136; 3; 3; 232; 255]; RdEof]. split; [|split; vm_compute; reflexivity].
  unfold read_setup. split; [reflexivity|]. split; [split; constructor|].
  split; [reflexivity|]. split; [reflexivity|]. split; [vm_compute; reflexivity|].
  apply PeanoNat.Nat.ltb_lt. vm_compute. reflexivity.
Qed.

(* a write side that accepts everything is benign *)
Example ex_accept_all_benign rds :
  benign (mkWorld rds (repeat (WrAccept 1000000) 5) (repeat FlOk 5) [] []).
Proof. split; cbn; repeat constructor. Qed.

Print Assumptions C02_read_refines_rfc.
Print Assumptions C02_read_refines_rfc_stream.
Print Assumptions C02_schedule_independent.
Print Assumptions C02_read_prefix.
Print Assumptions C02_read_refines_assemble.
Print Assumptions C02_frames_refine.
Print Assumptions C02_step_refines.
Print Assumptions C02_step_refines_model.
Print Assumptions C02_rsv.
Print Assumptions C02_reserved_opcode.
Print Assumptions C02_control_fin.
Print Assumptions C02_control_size.
Print Assumptions C02_orphan_continuation.
Print Assumptions C02_nested_data.
Print Assumptions C02_mask_direction.
Print Assumptions C02_close_payload.
Print Assumptions C02_violation_bytes.
Print Assumptions C02_prefix_items_are_messages.
Print Assumptions C02_interleaved_control.
Print Assumptions C02_close_reason_protocol_class_refuted.
