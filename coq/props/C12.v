(* props/C12.v — property theorems for C12: a received Close is answered once, echoing its status
   code or 1002.  Proofs are in proofs/ReplyP.v; the spec vocabulary used here is defined there:

     the_read_frame x w      the call `self.frame.read_frame(...)` made by read_message_frame
     close_frame_ok r f      f is a Close frame an endpoint of role r accepts: opcode Close, FIN, no RSV
                             bits, not masked if r = Client, payload <= 125 bytes
     peer_close_payload p    [] for p = None, be16(c) ++ reason for p = Some (c, reason)
     peer_close_ok p         c < 65536 and the reason is valid UTF-8 (so reason <= 123 bytes by the above)
     decoded_close p         None | Some (close_of_u16 c, reason)          (what into_close yields)
     wire_allowed c          c in 1000-1003, 1007-1013, 3000-4999
     expected_reply p        None | Some (close_of_u16 c, reason) if wire_allowed c
                                  | Some (1002, "Protocol violation") otherwise
     pend_free a             additional_send is empty or holds a Pong
     close_frames x w        the Close frames in `queued (w_log w)` followed by the one parked in
                             additional_send (if any)
     no_raw_ctl o            o is not `write(Message::Frame f)` with a control opcode
     is_close_op o           o is `close(..)` or `write(Message::Close ..)`                            *)
From TungModel Require Import Base Coding Mask Header Frame Utf8 World Message Codec Protocol.
From TungModel.proofs Require Import CodingP ReplyP.
From Coq Require Import Lia.

(* the boolean range test is exactly is_allowed on the decoded code (C20) *)
Theorem C12_wire_allowed : forall c : N,
  wire_allowed c = true <-> (1000 <= c <= 1003) \/ (1007 <= c <= 1013) \/ (3000 <= c <= 4999).
Proof. intros c. rewrite wire_allowed_spec. exact (close_allowed_iff c). Qed.

(* Frame::close followed by Frame::into_close is the identity on every CloseFrame whose reason is
   valid UTF-8 and whose code is a 16-bit value in the image of CloseCode::from(u16) *)
Theorem C12_close_roundtrip : forall x : option close_frame,
  wf_close x -> frame_into_close (f_payload (frame_close x)) = ROk x.
Proof. exact close_payload_roundtrip. Qed.

(* C12_reply: an Active endpoint (pending pong or not) that reads a Close frame with payload
   [] / be16(c) ++ reason reports Close(x) and parks exactly frame_close x as its reply, where x is the
   peer's code and reason if the code may appear on the wire, 1002 "Protocol violation" otherwise, None
   for an empty Close; the parked frame decodes to the reported x.  All c < 65536, all valid reasons. *)
Theorem C12_reply : forall x w f c1 w1 (p : option (N * bytes)),
  x_state x = Active ->
  pend_free (x_additional x) ->
  the_read_frame x w = (ROk (Some f), c1, w1) ->
  close_frame_ok (x_role x) f ->
  f_payload f = peer_close_payload p -> peer_close_ok p ->
  exists x',
    read_message_frame x w = (ROk (Some (MClose (expected_reply p))), x', w1) /\
    x_state x' = ClosedByPeer /\
    x_additional x' = Some (frame_close (expected_reply p)) /\
    frame_into_close (f_payload (frame_close (expected_reply p))) = ROk (expected_reply p).
Proof. exact reply_full. Qed.

(* C12_reply end to end: the same, starting from the bytes of the peer's Close frame at the head of
   in_buffer (`close_bytes m pl` is the model's Frame::format of a FIN Close frame with payload pl,
   masked with key m for a server endpoint, unmasked for a client endpoint).  Nothing is read from the
   transport (the world is unchanged) and the frame's bytes are consumed. *)
Theorem C12_reply_bytes : forall x w m rest (p : option (N * bytes)),
  x_state x = Active -> pend_free (x_additional x) ->
  c_hdr (x_codec x) = None ->
  c_in (x_codec x) = close_bytes m (peer_close_payload p) ++ rest ->
  blen (peer_close_payload p) <= 125 ->
  blen (peer_close_payload p) <= limit_of (cfg_max_frame_size (x_cfg x)) ->
  peer_mask_ok (x_role x) m -> peer_close_ok p ->
  exists x',
    read_message_frame x w = (ROk (Some (MClose (expected_reply p))), x', w) /\
    x_state x' = ClosedByPeer /\
    x_additional x' = Some (frame_close (expected_reply p)) /\
    c_in (x_codec x') = rest /\
    frame_into_close (f_payload (frame_close (expected_reply p))) = ROk (expected_reply p).
Proof. exact reply_from_bytes. Qed.

(* C12_reply over whole runs: for every op list without raw control frames and without a user close,
   every transport oracle: if some read reported Close(c), then at the end of the run exactly one Close
   frame has been queued or is still parked, and its payload decodes to the reported c. *)
Theorem C12_reply_run : forall r part cfg x0 w0 ops rs x' w' c n,
  ctx_new r part cfg = Some x0 -> filter is_close (queued (w_log w0)) = [] ->
  Forall no_raw_ctl ops -> Forall (fun o => ~ is_close_op o) ops ->
  run_ops x0 ops w0 = (rs, x', w') ->
  In (ResMsg (ROk (MClose c)), n) rs ->
  exists f, close_frames x' w' = [f] /\ frame_into_close (f_payload f) = ROk c.
Proof. exact reply_matches_report. Qed.

(* C12_once: over all op lists (no raw control frames) and all oracles, at most one Close frame is ever
   queued or parked by this endpoint — in particular at most one is in `queued`. *)
Theorem C12_once : forall r part cfg x0 w0 ops rs x' w',
  ctx_new r part cfg = Some x0 -> filter is_close (queued (w_log w0)) = [] ->
  Forall no_raw_ctl ops ->
  run_ops x0 ops w0 = (rs, x', w') ->
  (length (close_frames x' w') <= 1)%nat.
Proof. exact close_once. Qed.

Theorem C12_once_queued : forall r part cfg x0 w0 ops rs x' w',
  ctx_new r part cfg = Some x0 -> filter is_close (queued (w_log w0)) = [] ->
  Forall no_raw_ctl ops ->
  run_ops x0 ops w0 = (rs, x', w') ->
  (length (filter is_close (queued (w_log w'))) <= 1)%nat.
Proof.
  intros r part cfg x0 w0 ops rs x' w' Hn Hq Hraw H.
  pose proof (close_once _ _ _ _ _ _ _ _ _ Hn Hq Hraw H) as Hle.
  unfold close_frames in Hle. rewrite filter_app, app_length in Hle. lia.
Qed.

(* no Close frame is invented: the one Close frame of a run is the user's own or answers a reported one *)
Theorem C12_close_origin : forall r part cfg x0 w0 ops rs x' w',
  ctx_new r part cfg = Some x0 -> filter is_close (queued (w_log w0)) = [] ->
  Forall no_raw_ctl ops ->
  run_ops x0 ops w0 = (rs, x', w') ->
  close_frames x' w' = [] \/
  exists f c, close_frames x' w' = [f] /\ f_payload f = f_payload (frame_close c) /\
    (In (OpClose c) ops \/ In (OpWrite (MClose c)) ops \/ exists n, In (ResMsg (ROk (MClose c)), n) rs).
Proof. exact close_has_origin. Qed.

(* C12_not_displaced: set_additional never replaces a parked Close (by a pong or anything else) ... *)
Theorem C12_not_displaced : forall x f g,
  x_additional x = Some f -> is_close f = true -> set_additional x g = x.
Proof. exact set_additional_keeps_close. Qed.

(* ... while a parked pong (or nothing) gives way to the reply *)
Theorem C12_pong_gives_way : forall x g,
  pend_free (x_additional x) -> x_additional (set_additional x g) = Some g.
Proof. exact set_additional_replaces. Qed.

(* C12_ack: in state ClosedByUs the received Close is reported unchanged — whatever its code — and
   additional_send is not touched; the state becomes CloseAcknowledged. *)
Theorem C12_ack : forall x w f c1 w1 (p : option (N * bytes)),
  x_state x = ClosedByUs ->
  the_read_frame x w = (ROk (Some f), c1, w1) ->
  close_frame_ok (x_role x) f ->
  f_payload f = peer_close_payload p -> peer_close_ok p ->
  exists x',
    read_message_frame x w = (ROk (Some (MClose (decoded_close p))), x', w1) /\
    x_state x' = CloseAcknowledged /\ x_additional x' = x_additional x.
Proof. exact ack_full. Qed.

(* the remaining states: once the peer's Close has been seen (ClosedByPeer, CloseAcknowledged) or the
   connection is Terminated, a further frame — Close or not — is refused, nothing is reported or parked *)
Theorem C12_after_close : forall x w f c1 w1,
  can_read (x_state x) = false ->
  the_read_frame x w = (ROk (Some f), c1, w1) ->
  read_message_frame x w = (RErr (EProtocol ReceivedAfterClosing), set_codec x c1, w1).
Proof. exact rmf_after_close. Qed.

(* ---- non-vacuity ---- *)
Definition ex_cfg : config := mkConfig 131072 u64_max (Some 67108864) (Some 16777216) false.
Definition ex_ctx (r : role) : ctx :=
  match ctx_new r [] ex_cfg with
  | Some x => x
  | None => mkCtx r (codec_new []) Terminated None None false ex_cfg
  end.
Definition ex_world (bs : bytes) : world := mkWorld [RdData bs] [WrAccept 1000] [FlOk; FlOk] [] [].
Definition ex_close_frame (pl : bytes) : frame := mkFrame default_header pl.

Example ex_ctx_new : ctx_new Server [] ex_cfg = Some (ex_ctx Server). Proof. reflexivity. Qed.

(* hypotheses of C12_reply: a server reads the masked Close frame 88 82 00000000 03E8 (code 1000) *)
Example C12_reply_hyps :
  x_state (ex_ctx Server) = Active /\ pend_free (x_additional (ex_ctx Server)) /\
  (exists c1 w1, the_read_frame (ex_ctx Server) (ex_world [136; 130; 0; 0; 0; 0; 3; 232])
                 = (ROk (Some (ex_close_frame [3; 232])), c1, w1)) /\
  close_frame_ok Server (ex_close_frame [3; 232]) /\
  f_payload (ex_close_frame [3; 232]) = peer_close_payload (Some (1000, [])) /\
  peer_close_ok (Some (1000, [])).
Proof.
  split; [reflexivity|]. split; [left; reflexivity|]. split; [eexists; eexists; vm_compute; reflexivity|].
  split; [|split; [reflexivity|split; [reflexivity|reflexivity]]].
  unfold close_frame_ok. cbn. repeat split; try discriminate; try lia.
Qed.

(* hypotheses of C12_reply_bytes: a server with the masked frame 88 82 01020304 02EA (code 1000) buffered *)
Example C12_reply_bytes_hyps :
  exists x, ctx_new Server (close_bytes (Some (1, 2, 3, 4)) (peer_close_payload (Some (1000, []))) ++ [9]) ex_cfg
            = Some x /\
    x_state x = Active /\ pend_free (x_additional x) /\ c_hdr (x_codec x) = None /\
    c_in (x_codec x) = close_bytes (Some (1, 2, 3, 4)) (peer_close_payload (Some (1000, []))) ++ [9] /\
    close_bytes (Some (1, 2, 3, 4)) (peer_close_payload (Some (1000, []))) = [136; 130; 1; 2; 3; 4; 2; 234] /\
    peer_mask_ok (x_role x) (Some (1, 2, 3, 4)) /\ peer_close_ok (Some (1000, [])).
Proof.
  eexists. split; [reflexivity|]. split; [reflexivity|]. split; [left; reflexivity|].
  split; [reflexivity|]. split; [reflexivity|]. split; [vm_compute; reflexivity|].
  split; [exact I|split; reflexivity].
Qed.

(* the same for a client (unmasked frame from the server), code 1005 which may not appear on the wire *)
Example C12_reply_hyps_client :
  (exists c1 w1, the_read_frame (ex_ctx Client) (ex_world [136; 3; 3; 237; 120])
                 = (ROk (Some (ex_close_frame [3; 237; 120])), c1, w1)) /\
  close_frame_ok Client (ex_close_frame [3; 237; 120]) /\
  f_payload (ex_close_frame [3; 237; 120]) = peer_close_payload (Some (1005, [120])) /\
  peer_close_ok (Some (1005, [120])) /\
  expected_reply (Some (1005, [120])) = Some (CProtocol, pv_reason).
Proof.
  split; [eexists; eexists; vm_compute; reflexivity|].
  split; [|split; [reflexivity|split; [split; reflexivity|reflexivity]]].
  unfold close_frame_ok. cbn. repeat split; try discriminate; try lia.
Qed.

(* hypotheses of C12_reply_run / C12_once: a run in which a Close (code 1005) is read, reported as 1002
   and answered; the reply is the only Close frame *)
Example C12_run_example :
  exists rs x' w' f,
    run_ops (ex_ctx Server) [OpRead; OpFlush] (ex_world [136; 130; 0; 0; 0; 0; 3; 237]) = (rs, x', w') /\
    In (ResMsg (ROk (MClose (Some (CProtocol, pv_reason)))), 2) rs /\
    close_frames x' w' = [f] /\ queued (w_log w') = [f] /\
    f_payload f = to_be 2 1002 ++ pv_reason.
Proof. do 4 eexists. vm_compute. repeat split. left. reflexivity. Qed.

(* hypotheses of C12_ack: the user closed first; the peer's answer carries 1005 and is reported as is *)
Example C12_ack_example :
  exists rs x' w',
    run_ops (ex_ctx Server) [OpClose (Some (CNormal, [])); OpRead]
            (ex_world [136; 130; 0; 0; 0; 0; 3; 237]) = (rs, x', w') /\
    In (ResMsg (ROk (MClose (Some (CStatus, [])))), 5) rs /\
    x_state x' = CloseAcknowledged /\
    map f_payload (close_frames x' w') = [to_be 2 1000].
Proof. do 3 eexists. vm_compute. repeat split. right. left. reflexivity. Qed.

Example C12_wf_close_example : wf_close (Some (CNormal, [104; 105])) /\ wf_close None.
Proof. split; [|exact I]. repeat split. Qed.

Print Assumptions C12_wire_allowed.
Print Assumptions C12_close_roundtrip.
Print Assumptions C12_reply.
Print Assumptions C12_reply_bytes.
Print Assumptions C12_reply_run.
Print Assumptions C12_once.
Print Assumptions C12_once_queued.
Print Assumptions C12_close_origin.
Print Assumptions C12_not_displaced.
Print Assumptions C12_pong_gives_way.
Print Assumptions C12_ack.
Print Assumptions C12_after_close.
