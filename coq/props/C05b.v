(* props/C05b.v — C05, message level, with "max_write_buffer_size is unlimited" instead of
   "out_buffer is empty when reading starts".

   props/C05.v: the message-level statement of C05 is false when only "the write side accepts" is
   assumed (C05_messages_refuted: a momentarily FULL bounded out_buffer re-parks the Close reply), and
   true under [ctx_ready B x], which contains [c_out = []].  The property's own quantifier puts no bound
   on max_write_buffer_size (its default is usize::MAX).  Here the empty-buffer hypothesis is replaced by

     [ctx_unlim x]  (proofs/CodecReadUnlimP.v):
       c_max_out (x_codec x) = u64_max                    max_write_buffer_size = usize::MAX (64 bit)
       out_room x : |out_buffer| + max 125 |payload of additional_send| + 14 <= u64_max
                                                          so that buffer_frame cannot answer WriteBufferFull
       codec_rest (x_codec x)                             as in C05 (true of every reachable codec state)

   ([C05b_room_slack]: |out_buffer| + |payload of additional_send| + 2^20 < 2^64 is enough for out_room.)
   NO hypothesis on the content of out_buffer, on additional_send, on the unflushed flag, on the state,
   the role, the configuration, the mask-key oracle or the schedule.  125 = largest control payload (the
   automatic Pong / Close reply copies the payload of a control frame that passed that check), 14 = the
   longest frame header.  additional_send set by [close] with a long reason is covered by |payload|.

   Write side: [supply u64_max x w] — every write entry accepts everything offered (WrAccept n with
   n >= u64_max >= |out_buffer|), every flush entry is Ok, and there are at least 2*(mu+1) write and mu+1
   flush entries (an exhausted oracle means WouldBlock).

   Result: TRUE.  No refutation: with an unlimited buffer the C05 counterexample disappears
   (C05b_ex_refutation_unlimited).                                                                  *)
From TungModel Require Import Base Coding Mask Header Frame World Message Codec Protocol.
From TungModel.proofs Require Import CodecReadP CodecReadUnlimP.

(* under EVERY schedule the results of read are those of the reference machine [mloop] run over the
   whole-stream frame reference [fview x w] — whatever is queued in out_buffer / parked in additional_send *)
Theorem C05b_messages_ref_unlimited : forall fuel x w,
  c_max_out (x_codec x) = u64_max -> out_room x -> codec_rest (x_codec x) ->
  supply u64_max x w -> (xmu x w < fuel)%nat ->
  reads fuel x w = if is_terminated (x_state x) then [RErr EAlreadyClosed] else mloop (fview x w) x.
Proof. exact reads_ref_unlim. Qed.

(* two read schedules with the same data and the same terminal give the same messages and final error *)
Theorem C05b_messages_unlimited : forall x w1 w2 f1 f2,
  ctx_unlim x -> supply u64_max x w1 -> supply u64_max x w2 ->
  sched_data (w_rds w1) = sched_data (w_rds w2) ->
  sched_end (w_rds w1) = sched_end (w_rds w2) ->
  (xmu x w1 < f1)%nat -> (xmu x w2 < f2)%nat ->
  reads f1 x w1 = reads f2 x w2.
Proof. exact reads_sched_indep_unlim. Qed.

(* a read that returns WouldBlock leaves a context (again unlimited, with room) from which the remaining
   results are exactly the results that were due before the call *)
Theorem C05b_wouldblock_noop_unlimited : forall x w x' w',
  ctx_unlim x -> supply u64_max x w ->
  read x w = (RErr (EIo WouldBlock), x', w') ->
  ctx_unlim x' /\ x_state x' <> Terminated /\
  forall f f', supply u64_max x' w' -> (xmu x' w' < f')%nat -> (xmu x w < f)%nat ->
               reads f' x' w' = reads f x w.
Proof. exact reads_wouldblock_noop_unlim. Qed.

(* the room condition in readable form: a mebibyte of slack below 2^64 *)
Theorem C05b_room_slack : forall x,
  c_max_out (x_codec x) = u64_max -> codec_rest (x_codec x) ->
  blen (c_out (x_codec x)) + pend_len x + 1048576 < two64 -> ctx_unlim x.
Proof. exact ctx_unlim_slack. Qed.

(* why the room condition is the right one: under it buffer_frame's fullness test is false for the
   parked frame, whatever mask key the client draws *)
Theorem C05b_never_full : forall x k msg,
  c_max_out (x_codec x) = u64_max -> out_room x -> x_additional x = Some msg ->
  (c_max_out (x_codec x) <? frame_len (mask_for (x_role x) k msg) + blen (c_out (x_codec x))) = false.
Proof. exact never_full. Qed.

(* ---- non-vacuity ---- *)
Definition exu_cfg : config := mkConfig 0 u64_max None None false.
Definition exu_x0 : ctx := mkCtx Server (mkCodec [] [] u64_max 0 None) Active None None false exu_cfg.
(* out_buffer after a blocked write of Text "Hi": the 4-byte frame stays queued *)
Definition exu_xb : ctx := mkCtx Server (mkCodec [] [129; 2; 72; 105] u64_max 0 None) Active None None false exu_cfg.
Definition exu_ping : bytes := [137; 129; 0; 0; 0; 0; 7].
Definition exu_close : bytes := [136; 130; 0; 0; 0; 0; 3; 232].
Definition exu_w (rds : list rd_out) : world :=
  mkWorld rds (repeat (WrAccept u64_max) 200) (repeat FlOk 100) [(1, 2, 3, 4); (5, 6, 7, 8)] [].
Definition exu_rds1 : list rd_out := [RdData (exu_ping ++ exu_ping ++ exu_close); RdEof].
Definition exu_rds2 : list rd_out :=
  drip exu_ping ++ [RdData exu_ping; RdErr WouldBlock; RdErr WouldBlock] ++ drip exu_close ++ [RdEof].

(* a context with a NON-EMPTY out_buffer, produced by a write that met WouldBlock on an unlimited
   buffer: ctx_unlim holds (ctx_ready of C05 does not), and the two schedules give the same results *)
Example C05b_ex_messages :
  ctx_new Server [] exu_cfg = Some exu_x0 /\
  (exists w', write exu_x0 (MText [72; 105]) (mkWorld [] [WrErr WouldBlock] [] [] [])
              = (RErr (EIo WouldBlock), exu_xb, w')) /\
  c_out (x_codec exu_xb) <> [] /\
  ctx_unlim exu_xb /\ supply u64_max exu_xb (exu_w exu_rds1) /\ supply u64_max exu_xb (exu_w exu_rds2) /\
  sched_data exu_rds1 = sched_data exu_rds2 /\ sched_end exu_rds1 = sched_end exu_rds2 /\
  (xmu exu_xb (exu_w exu_rds1) < 100)%nat /\ (xmu exu_xb (exu_w exu_rds2) < 100)%nat /\
  reads 100 exu_xb (exu_w exu_rds2)
  = [ROk (MPing [7]); ROk (MPing [7]); ROk (MClose (Some (CNormal, []))); RErr EConnectionClosed].
Proof.
  split; [reflexivity|].
  split; [eexists; vm_compute; reflexivity|].
  split; [discriminate|].
  split. { unfold ctx_unlim, out_room, codec_rest. vm_compute. repeat split; discriminate. }
  split. { apply supplyb_sound. vm_compute. reflexivity. }
  split. { apply supplyb_sound. vm_compute. reflexivity. }
  vm_compute. repeat split; try reflexivity; repeat constructor.
Qed.

(* after the first read (it returned the first Ping) the context has a non-empty out_buffer AND a Pong
   parked in additional_send AND buffered input; it is still ctx_unlim, and a read that returns
   WouldBlock (here: in the middle of the next frame) satisfies the hypotheses of the no-op theorem *)
Example C05b_ex_pending_wouldblock :
  exists x1 w1 x2 w2,
    read exu_xb (exu_w [RdData exu_ping; RdData [137; 129; 0]; RdErr WouldBlock; RdData [0; 0; 0; 9]])
    = (ROk (MPing [7]), x1, w1) /\
    c_out (x_codec x1) = [129; 2; 72; 105] /\ x_additional x1 = Some (frame_pong [7]) /\
    ctx_unlim x1 /\ supply u64_max x1 w1 /\
    read x1 w1 = (RErr (EIo WouldBlock), x2, w2) /\ c_in (x_codec x2) = [137; 129; 0] /\
    c_out (x_codec x2) = [] /\ w_rds w2 = [RdData [0; 0; 0; 9]].
Proof.
  eexists. eexists. eexists. eexists.
  split; [vm_compute; reflexivity|].
  split; [reflexivity|]. split; [reflexivity|].
  split. { unfold ctx_unlim, out_room, codec_rest. vm_compute. repeat split; discriminate. }
  split. { apply supplyb_sound. vm_compute. reflexivity. }
  split; [vm_compute; reflexivity|].
  repeat split; reflexivity.
Qed.

(* the counterexample of C05_messages_refuted (server, write_buffer_size 100, a 96-byte Binary queued,
   inbound Close then Text, whole vs. cut by a WouldBlock) with max_write_buffer_size unlimited instead of
   101: the 98 bytes are still queued when reading starts, but both schedules now give the same list *)
Definition exu_cfg100 : config := mkConfig 100 u64_max None None false.
Definition exu_cw (rds : list rd_out) : world :=
  mkWorld rds (repeat (WrAccept u64_max) 100) (repeat FlOk 50) [] [].

Example C05b_ex_refutation_unlimited :
  exists x0 x w1 w2,
    ctx_new Server [] exu_cfg100 = Some x0 /\
    write x0 (MBinary (repeat 0 96%nat)) (exu_cw cx_whole) = (ROk tt, x, w1) /\
    write x0 (MBinary (repeat 0 96%nat)) (exu_cw cx_cut) = (ROk tt, x, w2) /\
    blen (c_out (x_codec x)) = 98 /\ ctx_unlim x /\
    supply u64_max x w1 /\ supply u64_max x w2 /\
    sched_data (w_rds w1) = sched_data (w_rds w2) /\ sched_end (w_rds w1) = sched_end (w_rds w2) /\
    reads 50 x w1 = [ROk (MClose (Some (CNormal, []))); RErr EConnectionClosed] /\
    reads 50 x w2 = [ROk (MClose (Some (CNormal, []))); RErr EConnectionClosed].
Proof.
  eexists. eexists. eexists. eexists.
  split; [reflexivity|].
  split; [vm_compute; reflexivity|].
  split; [vm_compute; reflexivity|].
  split; [reflexivity|].
  split. { unfold ctx_unlim, out_room, codec_rest. vm_compute. repeat split; discriminate. }
  split. { apply supplyb_sound. vm_compute. reflexivity. }
  split. { apply supplyb_sound. vm_compute. reflexivity. }
  vm_compute. repeat split; reflexivity.
Qed.

Print Assumptions C05b_messages_ref_unlimited.
Print Assumptions C05b_messages_unlimited.
Print Assumptions C05b_wouldblock_noop_unlimited.
Print Assumptions C05b_room_slack.
Print Assumptions C05b_never_full.
