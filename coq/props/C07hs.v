(* props/C07hs.v — the handshake half of C07: for every parser, every inbound byte stream and every
   transport behaviour (any segmentation, WouldBlock, short or zero-length writes, errors and EOF at
   any point) a handshake in either role returns a value or an error after a bounded amount of work;
   it never panics and never spins.
   The Rust code was repaired (D4): a zero-length handshake write is an Io ConnReset error; the only
   panic site left in the machine, site_hs_write_nothing (assert!(buf.has_remaining())), is
   unreachable because write_response / generate_request never produce an empty byte string.
   Spec definitions used below (proofs/MachineP.v):
     hs_res / hs_world / hs_log := the three components of a handshake run
     oracle_exhausted w    := w_rds w = [] \/ w_wrs w = [] \/ w_fls w = []
     hs_calls log          := number of transport calls (HsEv events) in a handshake log
     oracle_len w          := length (w_rds w) + length (w_wrs w) + length (w_fls w)
     calls_accounted w x   := hs_calls (hs_log x) + oracle_len (hs_world x) = oracle_len w
     work_bounded x        := hs_calls (strip_ev (hs_log x)) <= 516 + length (hs_wire (hs_log x))
     strip_ev              := removal of the WouldBlock calls and Interrupted markers of a log *)
From TungModel Require Import Base Coding Mask Header Frame Utf8 World Message Codec Protocol Sha1 Handshake.
From TungModel.proofs Require Import MachineP.

(* never a panic, never out of fuel (hs_fuel is enough); the run stops as Blocked only when one of
   the transport oracles is exhausted, i.e. the caller holds an Interrupted handshake to resume *)
Theorem C07_no_panic_handshake : forall oreq oresp,
  (forall cb w,
     let x := server_handshake oreq oresp cb w in
     (forall s, hs_res x <> HsPanic s) /\ hs_res x <> HsOutOfFuel /\
     (hs_res x = HsBlocked -> oracle_exhausted (hs_world x))) /\
  (forall scheme_ok path hs w,
     let x := client_handshake oreq oresp scheme_ok path hs w in
     (forall s, hs_res x <> HsPanic s) /\ hs_res x <> HsOutOfFuel /\
     (hs_res x = HsBlocked -> oracle_exhausted (hs_world x))).
Proof. exact no_panic_handshake. Qed.

(* the data handed to the writing stage is never empty *)
Theorem C07_handshake_output_nonempty :
  (forall cb req tail out pend, server_done_reading cb req tail = HOk (out, pend) -> out <> []) /\
  (forall path hs req key, generate_request path hs = HOk (req, key) -> req <> []).
Proof. exact (conj server_done_reading_nonempty generate_request_nonempty). Qed.

(* bounded work, no spinning: every iteration of the machine is one transport call that consumes one
   oracle entry (so a run makes at most oracle_len w calls); and the calls that were not answered
   WouldBlock (after which control is back with the caller) number at most 513 + 1 reads, one write
   per byte written + 1, one flush: <= 516 + bytes written, whatever the peer and transport do *)
Theorem C07_handshake_work_server : forall oreq oresp cb w,
  let x := server_handshake oreq oresp cb w in calls_accounted w x /\ work_bounded x.
Proof. exact server_work. Qed.

Theorem C07_handshake_work_client : forall oreq oresp scheme_ok path hs w,
  let x := client_handshake oreq oresp scheme_ok path hs w in
  calls_accounted w x /\ work_bounded x.
Proof. exact client_work. Qed.

(* non-vacuity: the zero-length write (formerly a panic, D4) is now the ConnReset error *)
Example C07_zero_write_is_error : forall oreq oresp req,
  req <> [] ->
  hs_res (hs_loop oreq oresp 5 (RClient [] None) (HWriting req)
            (mkWorld [] [WrAccept 0] [] [] []) []) = HsFail (HEIo ConnReset).
Proof. intros oreq oresp [|b r] H; [congruence|reflexivity]. Qed.

Print Assumptions C07_no_panic_handshake.
Print Assumptions C07_handshake_output_nonempty.
Print Assumptions C07_handshake_work_server.
Print Assumptions C07_handshake_work_client.
