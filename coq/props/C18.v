(* props/C18.v — property theorems for C18 only:
   frame headers encode and decode as exact inverses in canonical form.
   Spec definitions used below (all in proofs/HeaderP.v):
     wf_header h      := is_reserved (h_opcode h) = false /\ key bytes < 256 (wf_key)
     bytes_ok bs      := Forall (fun b => b < 256) bs
     announced_len bs := 2 + (0|2|8 as selected by second & 0x7F) + (4 if second & 0x80), or 2 if |bs| < 2
     reserved_nibble c := 3 <= c <= 7 \/ 11 <= c <= 15
     has_mask h       := h_mask h is Some *)
From TungModel Require Import Base Coding Mask Header Frame.
From TungModel.proofs Require Import HeaderP.

(* decode (encode h n ++ rest) = (h, n), consuming exactly header_len h n bytes *)
Theorem C18_parse_format : forall (h : header) (n : N) (rest : bytes),
  wf_header h -> n < two64 ->
  header_parse (header_format h n ++ rest) = POk h n (header_len h n).
Proof. exact header_parse_format. Qed.

(* the encoder emits exactly header_len bytes (every header, every n), all of them < 256 *)
Theorem C18_format_len : forall (h : header) (n : N),
  blen (header_format h n) = header_len h n /\
  length (header_format h n) = N.to_nat (header_len h n) /\
  (wf_header h -> bytes_ok (header_format h n)).
Proof. exact header_format_len_all. Qed.

(* the encoder uses the shortest form: 2/4/10 (+4 with key) by length class, and no byte string
   decoding to (h, n) consumes fewer bytes *)
Theorem C18_shortest : forall (h : header) (n : N),
  header_len h n =
    (if n <? 126 then 2 else if n <? 65536 then 4 else 10) + (if has_mask h then 4 else 0) /\
  forall (bs : bytes) (k : N),
    bytes_ok bs -> header_parse bs = POk h n k -> header_len h n <= k.
Proof. exact header_shortest_all. Qed.

(* decoding any byte string: Ok, InvalidOpcode (reserved nibble only) or Incomplete — never a
   panic; Incomplete (which consumes nothing) exactly when bs is shorter than the header its first
   two bytes announce; InvalidOpcode exactly for complete headers with a reserved opcode nibble *)
Theorem C18_trichotomy_incomplete : forall bs : bytes,
  ((exists h n k, header_parse bs = POk h n k) \/
   (exists c, header_parse bs = PErr c /\ reserved_nibble c) \/
   header_parse bs = PIncomplete) /\
  header_parse bs <> PPanic /\
  (header_parse bs = PIncomplete <-> blen bs < announced_len bs) /\
  (forall c, header_parse bs = PErr c <->
     announced_len bs <= blen bs /\ reserved_nibble c /\
     exists f r, bs = f :: r /\ c = N.land f 15).
Proof. exact header_parse_classify. Qed.

(* a successful decode consumes exactly the announced size, 2..14 bytes, all inside the input,
   and depends only on the bytes consumed *)
Theorem C18_consumed : forall (bs : bytes) (h : header) (n k : N),
  header_parse bs = POk h n k ->
  k = announced_len bs /\ 2 <= k <= blen bs /\ k <= 14 /\
  header_parse (takeN k bs) = POk h n k /\ blen (takeN k bs) = k.
Proof. exact header_parse_ok_consumed_all. Qed.

(* Ok and Err results persist when more bytes arrive *)
Theorem C18_prefix_stable : forall (bs more : bytes),
  (forall h n k, header_parse bs = POk h n k -> header_parse (bs ++ more) = POk h n k) /\
  (forall c, header_parse bs = PErr c -> header_parse (bs ++ more) = PErr c).
Proof. exact header_parse_prefix_stable. Qed.

(* re-encoding a decoded header: the result is well formed, decodes back to the same (h, n) using
   exactly header_len bytes, is never longer than what was consumed, and equals the consumed bytes
   iff those used the minimal length form *)
Theorem C18_reencode : forall (bs : bytes) (h : header) (n k : N),
  bytes_ok bs -> header_parse bs = POk h n k ->
  wf_header h /\ n < two64 /\
  header_parse (header_format h n) = POk h n (header_len h n) /\
  header_len h n <= k /\
  (header_format h n = takeN k bs <-> k = header_len h n).
Proof. exact header_parse_reencode. Qed.

(* Frame::len = number of bytes Frame::format emits *)
Theorem C18_frame_len : forall f : frame,
  frame_len f = blen (frame_format f) /\
  forall pre, blen (frame_format_into_buf pre f) = blen pre + frame_len f.
Proof. exact frame_len_all. Qed.

(* Frame::format_into_buf appends exactly the bytes of Frame::format *)
Theorem C18_encoders_agree : forall (pre : bytes) (f : frame),
  frame_format_into_buf pre f = pre ++ frame_format f.
Proof. exact frame_encoders_agree. Qed.

(* the header code is injective and prefix-free: two encodings of which one is a prefix of the other (in
   particular two equal encodings) come from the same header and the same length - so a byte stream can be
   cut into headers in only one way *)
Theorem C18_format_prefix_free : forall (h1 h2 : header) (n1 n2 : N) (rest1 rest2 : bytes),
  wf_header h1 -> wf_header h2 -> n1 < two64 -> n2 < two64 ->
  header_format h1 n1 ++ rest1 = header_format h2 n2 ++ rest2 ->
  h1 = h2 /\ n1 = n2 /\ rest1 = rest2.
Proof.
  intros h1 h2 n1 n2 r1 r2 W1 W2 L1 L2 E.
  pose proof (header_parse_format h1 n1 r1 W1 L1) as P1.
  pose proof (header_parse_format h2 n2 r2 W2 L2) as P2.
  rewrite E, P2 in P1. injection P1 as Eh En _. subst h2 n2.
  repeat split. exact (app_inv_head _ _ _ E).
Qed.

Theorem C18_format_inj : forall (h1 h2 : header) (n1 n2 : N),
  wf_header h1 -> wf_header h2 -> n1 < two64 -> n2 < two64 ->
  header_format h1 n1 = header_format h2 n2 -> h1 = h2 /\ n1 = n2.
Proof.
  intros h1 h2 n1 n2 W1 W2 L1 L2 E.
  destruct (C18_format_prefix_free h1 h2 n1 n2 [] [] W1 W2 L1 L2) as [A [B _]]; [rewrite E; reflexivity | auto].
Qed.

(* ---- non-vacuity / sanity ---- *)
Definition ex_hdr : header := mkHeader true false true false (OData Binary) (Some (1, 2, 254, 255)).

Example C18_wf_header_sat : wf_header ex_hdr.
Proof. split; reflexivity. Qed.

(* u64::MAX round-trips through the 8-byte form *)
Example C18_parse_format_max :
  header_parse (header_format ex_hdr u64_max ++ [7]) = POk ex_hdr u64_max 14.
Proof. vm_compute. reflexivity. Qed.

(* the bound n < 2^64 is needed (the wire field is a u64): 2^64 would be emitted as 0 *)
Example C18_parse_format_needs_u64 :
  header_parse (header_format ex_hdr two64) = POk ex_hdr 0 14.
Proof. vm_compute. reflexivity. Qed.

(* a non-minimal encoding (length 5 in the 2-byte form) is accepted: k = 4 > header_len = 2, and
   re-encoding gives the 2-byte canonical header instead of the 4 bytes consumed *)
Definition ex_nonmin : bytes := [129; 126; 0; 5; 99].
Example C18_nonminimal_ok :
  bytes_ok ex_nonmin /\
  header_parse ex_nonmin = POk (mkHeader true false false false (OData Text) None) 5 4 /\
  header_len (mkHeader true false false false (OData Text) None) 5 = 2 /\
  header_format (mkHeader true false false false (OData Text) None) 5 = [129; 5].
Proof.
  split; [|vm_compute; auto].
  unfold ex_nonmin, bytes_ok. repeat constructor.
Qed.

(* the three outcomes are all inhabited *)
Example C18_incomplete_sat : header_parse [130; 254; 1; 0; 1; 2; 3] = PIncomplete /\
                             blen [130; 254; 1; 0; 1; 2; 3] < announced_len [130; 254; 1; 0; 1; 2; 3].
Proof. vm_compute. auto. Qed.
Example C18_err_sat : header_parse [131; 0] = PErr 3.
Proof. vm_compute. reflexivity. Qed.
(* a reserved opcode on a truncated header is Incomplete first, InvalidOpcode once complete *)
Example C18_err_after_incomplete :
  header_parse [131; 126; 0] = PIncomplete /\ header_parse [131; 126; 0; 0] = PErr 3.
Proof. vm_compute. auto. Qed.

Print Assumptions C18_parse_format.
Print Assumptions C18_format_len.
Print Assumptions C18_shortest.
Print Assumptions C18_trichotomy_incomplete.
Print Assumptions C18_consumed.
Print Assumptions C18_prefix_stable.
Print Assumptions C18_reencode.
Print Assumptions C18_frame_len.
Print Assumptions C18_encoders_agree.
Print Assumptions C18_format_prefix_free.
Print Assumptions C18_format_inj.
