(* props/C08.v — C08: delivered text is always valid UTF-8 and valid text is always accepted.
   Spec: valid_utf8 (Unicode Table 3-7), defined in proofs/Utf8P.v. *)
From TungModel Require Import Base Coding Mask Header Frame Utf8 World Message Codec Protocol.
From TungModel.proofs Require Import Utf8P.

(* ---- (1) std::str::from_utf8 against the grammar ------------------------------------------------ *)
(* Ok iff well-formed; on error valid_up_to is the length of the longest valid prefix, error_len is None
   exactly when the rest is a proper prefix of a valid sequence, and Some l is the "maximal subpart". *)
Theorem C08_from_utf8_spec : forall bs : bytes,
  (from_utf8 bs = UOk <-> valid_utf8 bs) /\
  (forall v el, from_utf8 bs = UErr v el ->
     v < blen bs /\
     valid_utf8 (takeN v bs) /\
     (forall n, valid_utf8 (firstn n bs) -> N.of_nat n <= v) /\
     (el = None <-> exists t, t <> [] /\ valid_utf8 (dropN v bs ++ t)) /\
     (forall l, el = Some l ->
        1 <= l <= 3 /\ v + l <= blen bs /\
        (forall t, ~ valid_utf8 (dropN v bs ++ t)) /\
        (l = 1 \/ exists t, valid_utf8 (takeN l (dropN v bs) ++ t)) /\
        (forall k, l < k -> forall t, ~ valid_utf8 (takeN k (dropN v bs) ++ t)))).
Proof. intros bs. split; [exact (from_utf8_ok_iff bs) | exact (from_utf8_err_spec bs)]. Qed.

Example C08_from_utf8_ok : from_utf8 [0x61; 0xE2; 0x82; 0xAC; 0xF0; 0x9F; 0x98; 0x80] = UOk.
Proof. reflexivity. Qed.
Example C08_from_utf8_truncated : from_utf8 [0x61; 0xE2; 0x82] = UErr 1 None.
Proof. reflexivity. Qed.
Example C08_from_utf8_overlong : from_utf8 [0x61; 0xC0; 0x80] = UErr 1 (Some 1).
Proof. reflexivity. Qed.
Example C08_from_utf8_surrogate : from_utf8 [0xED; 0xA0; 0x80] = UErr 0 (Some 1).
Proof. reflexivity. Qed.
Example C08_from_utf8_too_big : from_utf8 [0xF4; 0x90; 0x80; 0x80] = UErr 0 (Some 1).
Proof. reflexivity. Qed.
Example C08_from_utf8_subpart : from_utf8 [0xF0; 0x9F; 0x98; 0x41] = UErr 0 (Some 3).
Proof. reflexivity. Qed.

(* ---- (2) StringCollector over any fragmentation ------------------------------------------------- *)
(* collector_run = fold of StringCollector::extend over the fragments stopping at the first error,
   collect = that followed by into_string. *)
Theorem C08_collector : forall fs : list bytes,
  collector_run collector_new fs <> CPanic /\
  forall s, collect fs = Some s <-> valid_utf8 (concat fs) /\ s = concat fs.
Proof. exact collect_correct. Qed.

(* the answer is a function of the concatenation only *)
Theorem C08_collector_closed_form : forall fs : list bytes,
  collect fs = if is_utf8 (concat fs) then Some (concat fs) else None.
Proof. exact collect_closed_form. Qed.

Theorem C08_collector_cut_independent : forall fs1 fs2 : list bytes,
  concat fs1 = concat fs2 -> collect fs1 = collect fs2.
Proof. exact collect_cut_independent. Qed.

(* extend reports an error exactly when what was received so far can no longer become valid *)
Theorem C08_collector_failfast : forall fs : list bytes,
  collector_run collector_new fs <> CPanic /\
  ((exists c, collector_run collector_new fs = COk c) <-> exists t, valid_utf8 (concat fs ++ t)).
Proof. exact collector_run_failfast. Qed.

(* the invariant: data ++ incomplete.buffer = fragments so far, data valid, buffer a proper non-empty
   prefix of one character *)
Theorem C08_collector_invariant : forall (fs : list bytes) (c : collector),
  collector_run collector_new fs = COk c ->
  sc_data c ++ inc_bytes c = concat fs /\ valid_utf8 (sc_data c) /\
  match sc_inc c with Some i => proper_char_prefix i | None => True end.
Proof. exact collector_invariant. Qed.

(* a cut inside a 3-byte character, and a dangling incomplete character *)
Example C08_collector_yes : collect [[0x61; 0xE2]; [0x82]; []; [0xAC; 0x62]] = Some [0x61; 0xE2; 0x82; 0xAC; 0x62].
Proof. reflexivity. Qed.
Example C08_collector_dangling : collect [[0x61; 0xE2]; [0x82]] = None.
Proof. reflexivity. Qed.
Example C08_collector_pending :
  collector_run collector_new [[0x61; 0xE2]; [0x82]] = COk (mkCollector [0x61] (Some [0xE2; 0x82])).
Proof. reflexivity. Qed.
Example C08_collector_no :
  collector_run collector_new [[0x61; 0xE2]; [0x41]; [0x62]] = CErrUtf8 (mkCollector [0x61] None).
Proof. reflexivity. Qed.

(* ---- (3) unfragmented text and close reasons ---------------------------------------------------- *)
(* the test used for single-frame text and for close reasons *)
Theorem C08_is_utf8 : forall bs : bytes, is_utf8 bs = true <-> valid_utf8 bs.
Proof. exact is_utf8_iff. Qed.

(* read_message_frame on an unfragmented Text frame that passes the checks preceding the opcode dispatch *)
Theorem C08_single_frame : forall (x : ctx) (w : world) (f : frame) (c1 : codec) (w1 : world),
  read_frame (cfg_max_frame_size (x_cfg x)) (role_eqb (x_role x) Server) (cfg_accept_unmasked (x_cfg x))
             (x_codec x) w = (ROk (Some f), c1, w1) ->
  guards_pass x f -> h_opcode (f_hdr f) = OData Text -> h_fin (f_hdr f) = true ->
  x_incomplete x = None -> blen (f_payload f) <= limit_of (cfg_max_message_size (x_cfg x)) ->
  (valid_utf8 (f_payload f) ->
     read_message_frame x w = (ROk (Some (MText (f_payload f))), set_codec x c1, w1)) /\
  (~ valid_utf8 (f_payload f) -> read_message_frame x w = (RErr EUtf8, set_codec x c1, w1)).
Proof. exact rmf_single_text. Qed.

Definition ex_cfg : config := mkConfig 131072 u64_max (Some 67108864) (Some 16777216) false.
Definition ex_ctx (r : role) : ctx :=
  mkCtx r (set_limits (codec_new []) u64_max 131072) Active None None false ex_cfg.
Definition ex_world (wire : bytes) : world := mkWorld [RdData wire] [] [] [] [].

(* hypotheses of C08_single_frame are satisfiable: a server reads the masked (key 0) text frame "é" *)
Example C08_single_frame_nonvacuous :
  let x := ex_ctx Server in
  let w := ex_world [0x81; 0x82; 0; 0; 0; 0; 0xC3; 0xA9] in
  exists f c1 w1,
    read_frame (cfg_max_frame_size (x_cfg x)) (role_eqb (x_role x) Server) (cfg_accept_unmasked (x_cfg x))
               (x_codec x) w = (ROk (Some f), c1, w1) /\
    guards_pass x f /\ h_opcode (f_hdr f) = OData Text /\ h_fin (f_hdr f) = true /\
    x_incomplete x = None /\ blen (f_payload f) <= limit_of (cfg_max_message_size (x_cfg x)) /\
    f_payload f = [0xC3; 0xA9] /\ fst (fst (read_message_frame x w)) = ROk (Some (MText [0xC3; 0xA9])).
Proof.
  eexists _, _, _. split; [vm_compute; reflexivity|].
  repeat split; try reflexivity; try discriminate.
Qed.

(* Frame::into_close on a payload with a reason *)
Theorem C08_close_reason : forall (a b : N) (reason : bytes),
  (frame_into_close (a :: b :: reason) = ROk (Some (close_of_u16 (from_be [a; b]), reason)) <-> valid_utf8 reason) /\
  (frame_into_close (a :: b :: reason) = RErr EUtf8 <-> ~ valid_utf8 reason).
Proof. exact close_reason_accept_iff. Qed.

(* ... and through the protocol layer (on_frame = the part of read_message_frame after read_frame, see
   rmf_unfold / rmf_on_frame in Utf8P.v) *)
Theorem C08_close_reason_frame : forall (x : ctx) (f : frame) (a b : N) (reason : bytes),
  guards_pass x f -> h_opcode (f_hdr f) = OCtl Close -> h_fin (f_hdr f) = true ->
  blen (f_payload f) <= 125 -> f_payload f = a :: b :: reason ->
  let code := close_of_u16 (from_be [a; b]) in
  (~ valid_utf8 reason -> on_frame x f = (RErr EUtf8, x)) /\
  (valid_utf8 reason ->
     (x_state x = ClosedByUs -> fst (on_frame x f) = ROk (Some (MClose (Some (code, reason))))) /\
     (x_state x = Active -> close_allowed code = true ->
        fst (on_frame x f) = ROk (Some (MClose (Some (code, reason))))) /\
     (x_state x = Active -> close_allowed code = false ->
        fst (on_frame x f) = ROk (Some (MClose (Some (CProtocol, protocol_violation_text)))))).
Proof. exact on_frame_close_reason. Qed.

Theorem C08_on_frame_is_read_message_frame : forall (x : ctx) (w : world) (f : frame) (c1 : codec) (w1 : world),
  read_frame (cfg_max_frame_size (x_cfg x)) (role_eqb (x_role x) Server) (cfg_accept_unmasked (x_cfg x))
             (x_codec x) w = (ROk (Some f), c1, w1) ->
  read_message_frame x w = (fst (on_frame (set_codec x c1) f), snd (on_frame (set_codec x c1) f), w1).
Proof. exact rmf_on_frame. Qed.

Example C08_close_reason_nonvacuous :
  let f := mkFrame (mkHeader true false false false (OCtl Close) None) [0x03; 0xE8; 0xC3; 0xA9] in
  guards_pass (ex_ctx Client) f /\
  fst (on_frame (ex_ctx Client) f) = ROk (Some (MClose (Some (CNormal, [0xC3; 0xA9])))).
Proof. split; [repeat split; try reflexivity | vm_compute; reflexivity]. Qed.

(* ---- fragmented text through the protocol layer -------------------------------------------------- *)
(* feed = successive read_message_frame bodies on the frames, stopping at the first answer that is not
   "no message yet"; frag_shape true fs = Text, Continue*, FIN on the last frame only. *)
Theorem C08_fragmented_frames : forall (x : ctx) (fs : list frame),
  x_incomplete x = None ->
  Forall (guards_pass x) fs -> frag_shape true fs ->
  blen (payloads fs) <= limit_of (cfg_max_message_size (x_cfg x)) ->
  fst (feed x fs) =
  if is_utf8 (payloads fs) then ROk (Some (MText (payloads fs))) else RErr EUtf8.
Proof. exact feed_text_message. Qed.

Definition ex_frag (opc : data_op) (fin : bool) (p : bytes) : frame :=
  mkFrame (mkHeader fin false false false (OData opc) None) p.

Example C08_fragmented_frames_nonvacuous :
  let fs := [ex_frag Text false [0x61; 0xE2]; ex_frag Continue false [0x82]; ex_frag Continue true [0xAC]] in
  x_incomplete (ex_ctx Client) = None /\ Forall (guards_pass (ex_ctx Client)) fs /\ frag_shape true fs /\
  blen (payloads fs) <= limit_of (cfg_max_message_size (x_cfg (ex_ctx Client))) /\
  fst (feed (ex_ctx Client) fs) = ROk (Some (MText [0x61; 0xE2; 0x82; 0xAC])).
Proof.
  split; [reflexivity|]. split; [repeat constructor; discriminate|]. split; [repeat split|].
  split; [vm_compute; discriminate | vm_compute; reflexivity].
Qed.

(* ---- (4) nothing read returns is invalid UTF-8 --------------------------------------------------- *)
(* msg_ok m: the text of MText / the reason of MClose is valid; ctx_wf: the collector invariant on the
   incomplete message held by the context (true of every context made by ctx_new). *)
Theorem C08_exposed_read_message_frame : forall x w r x' w',
  ctx_wf x -> read_message_frame x w = (r, x', w') ->
  ctx_wf x' /\ match r with ROk (Some m) => msg_ok m | _ => True end.
Proof. exact rmf_exposed. Qed.

Theorem C08_exposed_read : forall x w r x' w',
  ctx_wf x -> read x w = (r, x', w') ->
  ctx_wf x' /\ match r with ROk m => msg_ok m | _ => True end.
Proof. exact read_exposed. Qed.

(* any history of API calls on a fresh connection, any transport oracle *)
Theorem C08_exposed : forall (r : role) (part : bytes) (cfg : config) (x : ctx),
  ctx_new r part cfg = Some x ->
  forall (ops : list op) (w : world),
  Forall (fun p => match fst p with
                   | ResMsg (ROk (MText s)) => valid_utf8 s
                   | ResMsg (ROk (MClose (Some (_, reason)))) => valid_utf8 reason
                   | _ => True
                   end) (fst (fst (run_ops x ops w))).
Proof. exact run_ops_exposed_new. Qed.

Example C08_exposed_nonvacuous :
  exists x, ctx_new Server [] ex_cfg = Some x /\
  fst (fst (run_ops x [OpRead] (ex_world [0x81; 0x82; 0; 0; 0; 0; 0xC3; 0xA9]))) = [(ResMsg (ROk (MText [0xC3; 0xA9])), 2)].
Proof. eexists. split; [reflexivity | vm_compute; reflexivity]. Qed.

(* the checked_sub().unwrap() sites of utf8::Incomplete::try_complete_offsets and the copy in
   Incomplete::new (model site_utf8_checked_sub) are unreachable in any history *)
Theorem C08_no_utf8_unwrap_panic : forall (r : role) (part : bytes) (cfg : config) (x : ctx),
  ctx_new r part cfg = Some x ->
  forall (ops : list op) (w : world),
  Forall (fun p => match fst p with
                   | ResMsg res => res <> RPanic site_utf8_checked_sub
                   | ResUnit res => res <> RPanic site_utf8_checked_sub
                   | ResBool _ => True
                   end) (fst (fst (run_ops x ops w))).
Proof. intros r part cfg x Hx ops w. exact (run_ops_no_utf8_panic ops x w (ctx_new_wf _ _ _ _ Hx)). Qed.

(* ---- finding: a Utf8 error does not discard the partial message ---------------------------------- *)
(* The statement "every delivered text is the concatenation of the fragments received since the previous
   message" is FALSE if the caller keeps reading after Error::Utf8: the rejected fragment is dropped, the
   IncompleteMessage stays, and a later FIN fragment completes a text made of the other fragments only.
   (The delivered text is still valid UTF-8: C08_exposed.)  C08_fragmented_frames above is the corrected
   statement: it stops at the first answer that is not "no message yet". *)
Theorem C08_delivered_is_concat_after_error_refuted :
  exists (x : ctx) (f1 f2 f3 : frame),
    let '(r1, x1) := on_frame x f1 in
    let '(r2, x2) := on_frame x1 f2 in
    let '(r3, x3) := on_frame x2 f3 in
    r1 = ROk None /\ r2 = RErr EUtf8 /\ r3 = ROk (Some (MText [0x61; 0x62])) /\
    f_payload f1 ++ f_payload f2 ++ f_payload f3 = [0x61; 0xFF; 0x62].
Proof.
  exists (ex_ctx Client), (ex_frag Text false [0x61]), (ex_frag Continue false [0xFF]), (ex_frag Continue true [0x62]).
  vm_compute. repeat split.
Qed.

Print Assumptions C08_from_utf8_spec.
Print Assumptions C08_collector.
Print Assumptions C08_collector_closed_form.
Print Assumptions C08_collector_cut_independent.
Print Assumptions C08_collector_failfast.
Print Assumptions C08_collector_invariant.
Print Assumptions C08_is_utf8.
Print Assumptions C08_single_frame.
Print Assumptions C08_close_reason.
Print Assumptions C08_close_reason_frame.
Print Assumptions C08_on_frame_is_read_message_frame.
Print Assumptions C08_fragmented_frames.
Print Assumptions C08_exposed_read_message_frame.
Print Assumptions C08_exposed_read.
Print Assumptions C08_exposed.
Print Assumptions C08_no_utf8_unwrap_panic.
Print Assumptions C08_delivered_is_concat_after_error_refuted.
