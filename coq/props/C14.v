(* props/C14.v — the write buffer respects its configured bound and batching threshold.
   Spec vocabulary (defined in proofs/WritePathP.v):
     data_frame m, sent_frame role w f, content_eq, after_key   — see props/C10.v
     is_setbuf o                 — o is an OpSetBuf (set_config)
     setbuf_nondecreasing m ops  — no valid OpSetBuf in ops lowers max_write_buffer_size (m = current)
     max_hist m ops              — the largest max_write_buffer_size in force at any time
     is_wr_ev e / wr_offered e   — e is a transport write attempt (EvWrite/EvWriteErr) / bytes offered *)
From TungModel Require Import Base Coding Mask Header Frame Utf8 World Message Codec Protocol.
From TungModel.proofs Require Import WritePathP.

(* ---- Frame::len is exact (C18) and format_into_buf appends exactly that ---- *)

Theorem C14_len_exact : forall f, frame_len f = blen (frame_format f).
Proof. exact frame_len_exact. Qed.

Theorem C14_format_into_buf : forall buf f, frame_format_into_buf buf f = buf ++ frame_format f.
Proof. exact frame_format_into_buf_eq. Qed.

(* ---- the bound ---- *)

(* all histories in which set_config never lowers the limit (in particular: a fixed config), all
   oracles, both roles: |out_buffer| <= max_write_buffer_size.  The pending slot x_additional is
   an [option frame]: at most one further frame. *)
Theorem C14_bound : forall r part cfg x0 ops w0 rs x w,
  ctx_new r part cfg = Some x0 -> run_ops x0 ops w0 = (rs, x, w) ->
  setbuf_nondecreasing (cfg_max_write_buffer_size cfg) ops ->
  blen (c_out (x_codec x)) <= c_max_out (x_codec x) /\
  c_max_out (x_codec x) = cfg_max_write_buffer_size (x_cfg x).
Proof. exact c14_bound. Qed.

Theorem C14_bound_fixed_config : forall r part cfg x0 ops w0 rs x w,
  ctx_new r part cfg = Some x0 -> run_ops x0 ops w0 = (rs, x, w) ->
  Forall (fun o => is_setbuf o = false) ops ->
  blen (c_out (x_codec x)) <= cfg_max_write_buffer_size cfg.
Proof. exact c14_bound_fixed_config. Qed.

(* one call at a time, from any bounded state: the bound is kept by every op, set_config included as
   long as the new limit is not below what the buffer holds *)
Theorem C14_bound_step : forall x o w res x' w',
  run_op x o w = (res, x', w') ->
  (forall wbs max, o = OpSetBuf wbs max -> wbs < max -> blen (c_out (x_codec x)) <= max) ->
  blen (c_out (x_codec x)) <= c_max_out (x_codec x) ->
  blen (c_out (x_codec x')) <= c_max_out (x_codec x').
Proof.
  intros x o w res x' w' H Hf. apply (run_op_bounded x o w res x' w' H).
  destruct o; cbn [setbuf_fits]; auto. intros Hv. exact (Hf _ _ eq_refl Hv).
Qed.

(* all histories without exception: never more than the largest limit ever configured *)
Theorem C14_bound_hist : forall r part cfg x0 ops w0 rs x w,
  ctx_new r part cfg = Some x0 -> run_ops x0 ops w0 = (rs, x, w) ->
  blen (c_out (x_codec x)) <= max_hist (cfg_max_write_buffer_size cfg) ops.
Proof. exact c14_bound_hist. Qed.

(* any state, any single call other than set_config: out_buffer does not grow beyond
   max(what it held, the limit) *)
Theorem C14_no_growth : forall x o w res x' w',
  run_op x o w = (res, x', w') -> is_setbuf o = false ->
  blen (c_out (x_codec x')) <= N.max (blen (c_out (x_codec x))) (c_max_out (x_codec x)).
Proof. exact c14_no_growth. Qed.

(* the bound quantified over ALL op lists is false: set_config does not look at the buffer *)
Theorem C14_bound_shrink_refuted :
  exists cfg x0 ops w0 rs x w,
    ctx_new Server [] cfg = Some x0 /\ run_ops x0 ops w0 = (rs, x, w) /\
    c_max_out (x_codec x) < blen (c_out (x_codec x)).
Proof. exact c14_bound_shrink_refuted. Qed.

(* the pending slot is empty or holds exactly one automatic control frame (a Pong or a Close) *)
Theorem C14_slot_ctl : forall r part cfg x0 ops w0 rs x w,
  ctx_new r part cfg = Some x0 -> run_ops x0 ops w0 = (rs, x, w) ->
  match x_additional x with
  | None => True
  | Some a => h_opcode (f_hdr a) = OCtl Pong \/ h_opcode (f_hdr a) = OCtl Close
  end.
Proof. exact c14_slot_ctl. Qed.

(* ---- WriteBufferFull ---- *)

(* would exceed the limit: the call is exactly "return WriteBufferFull(frame)"; the context is
   unchanged, nothing is logged or queued; the frame has the message's payload/opcode/flags (on a
   client it carries the mask key that was drawn, which is all that changed in the world) *)
Theorem C14_full : forall x m f w,
  data_frame m = Some f -> x_state x = Active ->
  let f1 := sent_frame (x_role x) w f in
  c_max_out (x_codec x) < frame_len f1 + blen (c_out (x_codec x)) ->
  write x m w = (RErr (EWriteBufferFull f1), x, after_key (x_role x) w) /\
  content_eq f f1 /\ w_log (after_key (x_role x) w) = w_log w /\
  (x_role x = Server -> f1 = f /\ after_key (x_role x) w = w).
Proof.
  intros x m f w Hd Hs f1 Hfull. split; [exact (c14_full x m f w Hd Hs Hfull)|].
  split; [apply sent_frame_content|]. split; [apply after_key_log|].
  intros Hr. unfold f1. rewrite Hr. split; reflexivity.
Qed.

(* WriteBufferFull happens in exactly that case *)
Theorem C14_full_iff : forall x m f w r x' w',
  data_frame m = Some f -> x_state x = Active -> write x m w = (r, x', w') ->
  let f1 := sent_frame (x_role x) w f in
  (exists f', r = RErr (EWriteBufferFull f')) <->
  c_max_out (x_codec x) < frame_len f1 + blen (c_out (x_codec x)).
Proof. exact c14_full_iff. Qed.

(* ... so the same message is accepted (queued) by any later write made when there is room *)
Theorem C14_accept_when_room : forall x m f w,
  data_frame m = Some f -> x_state x = Active ->
  let f1 := sent_frame (x_role x) w f in
  frame_len f1 + blen (c_out (x_codec x)) <= c_max_out (x_codec x) ->
  exists r x' w' evs,
    write x m w = (r, x', w') /\ (r = ROk tt \/ exists k, r = RErr (EIo k)) /\
    w_log w' = w_log w ++ EvQueue f1 :: evs.
Proof. exact c14_accept_when_room. Qed.

(* room does not depend on the mask key drawn *)
Theorem C14_len_key_indep : forall h k k' p,
  frame_len (mkFrame (mkHeader (h_fin h) (h_rsv1 h) (h_rsv2 h) (h_rsv3 h) (h_opcode h) (Some k)) p) =
  frame_len (mkFrame (mkHeader (h_fin h) (h_rsv1 h) (h_rsv2 h) (h_rsv3 h) (h_opcode h) (Some k')) p).
Proof. exact frame_len_mask_indep. Qed.

(* ---- batching threshold ---- *)

(* at or below write_buffer_size with no automatic reply pending: Ok, and the only event of the call
   is the ghost EvQueue — no transport write, no transport flush *)
Theorem C14_batching : forall x m f w,
  data_frame m = Some f -> x_state x = Active -> x_additional x = None -> x_unflushed x = false ->
  let f1 := sent_frame (x_role x) w f in
  blen (c_out (x_codec x)) + frame_len f1 <= c_write_len (x_codec x) ->
  c_write_len (x_codec x) <= c_max_out (x_codec x) ->
  exists x' w',
    write x m w = (ROk tt, x', w') /\ w_log w' = w_log w ++ [EvQueue f1] /\
    c_out (x_codec x') = c_out (x_codec x) ++ frame_format f1.
Proof. exact c14_batching. Qed.

(* above the threshold: the transport is offered the whole buffer in the same call, right away *)
Theorem C14_threshold : forall x m f w,
  data_frame m = Some f -> x_state x = Active ->
  let f1 := sent_frame (x_role x) w f in
  frame_len f1 + blen (c_out (x_codec x)) <= c_max_out (x_codec x) ->
  c_write_len (x_codec x) < blen (c_out (x_codec x)) + frame_len f1 ->
  exists r x' w' e rest,
    write x m w = (r, x', w') /\ w_log w' = w_log w ++ EvQueue f1 :: e :: rest /\
    is_wr_ev e /\ wr_offered e = blen (c_out (x_codec x) ++ frame_format f1).
Proof. exact c14_threshold. Qed.

(* write_buffer_size = 0: every accepted write goes to the transport in the same call *)
Theorem C14_eager : forall x m f w,
  data_frame m = Some f -> x_state x = Active -> c_write_len (x_codec x) = 0 ->
  let f1 := sent_frame (x_role x) w f in
  frame_len f1 + blen (c_out (x_codec x)) <= c_max_out (x_codec x) ->
  exists r x' w' e rest,
    write x m w = (r, x', w') /\ w_log w' = w_log w ++ EvQueue f1 :: e :: rest /\
    is_wr_ev e /\ wr_offered e = blen (c_out (x_codec x) ++ frame_format f1).
Proof. exact c14_eager. Qed.

(* ---- configuration ---- *)

Theorem C14_config_new : forall r part cfg x,
  ctx_new r part cfg = Some x ->
  c_max_out (x_codec x) = cfg_max_write_buffer_size cfg /\
  c_write_len (x_codec x) = cfg_write_buffer_size cfg /\ x_cfg x = cfg /\
  cfg_write_buffer_size cfg < cfg_max_write_buffer_size cfg.
Proof. exact c14_config_new. Qed.

(* the invalid pair is the documented panic of the constructor ... *)
Theorem C14_config_new_invalid : forall r part cfg,
  ctx_new r part cfg = None <-> cfg_max_write_buffer_size cfg <= cfg_write_buffer_size cfg.
Proof. exact ctx_new_none. Qed.

(* ... and of set_config, which otherwise propagates both sizes and touches nothing else *)
Theorem C14_config_set : forall x wbs max w res x' w',
  run_op x (OpSetBuf wbs max) w = (res, x', w') ->
  (wbs < max /\ res = ResUnit (ROk tt) /\ w' = w /\
   c_max_out (x_codec x') = max /\ c_write_len (x_codec x') = wbs /\
   cfg_max_write_buffer_size (x_cfg x') = max /\ cfg_write_buffer_size (x_cfg x') = wbs /\
   c_out (x_codec x') = c_out (x_codec x) /\ x_state x' = x_state x /\
   x_additional x' = x_additional x) \/
  (max <= wbs /\ res = ResUnit (RPanic site_config_invalid) /\ x' = x /\ w' = w).
Proof. exact c14_config_set. Qed.

(* in every reachable state the codec limits are the configured ones and the pair is valid *)
Theorem C14_config_inv : forall r part cfg x0 ops w0 rs x w,
  ctx_new r part cfg = Some x0 -> run_ops x0 ops w0 = (rs, x, w) ->
  c_max_out (x_codec x) = cfg_max_write_buffer_size (x_cfg x) /\
  c_write_len (x_codec x) = cfg_write_buffer_size (x_cfg x) /\
  cfg_write_buffer_size (x_cfg x) < cfg_max_write_buffer_size (x_cfg x).
Proof. exact c14_config_inv. Qed.

(* ---- non-vacuity ---- *)

Definition ex_w : world := mkWorld [] [WrAccept 4; WrAccept 100] [FlOk] [(9, 8, 7, 6)] [].
Definition ex_bin (n : N) : message := MBinary (range_from 1 (N.to_nat n)).

(* wbs 10, max 12: a 7-byte frame is batched; the next one would exceed max and is handed back;
   after a flush the same message is accepted *)
Example C14_ex_full_then_room : exists x0 x1 w1 x2 w2 x3 w3,
  ctx_new Server [] (mkConfig 10 12 None None false) = Some x0 /\
  write x0 (ex_bin 5) ex_w = (ROk tt, x1, w1) /\ w_log w1 = [EvQueue (frame_message [1;2;3;4;5] (OData Binary) true)] /\
  write x1 (ex_bin 5) w1 = (RErr (EWriteBufferFull (frame_message [1;2;3;4;5] (OData Binary) true)), x1, w1) /\
  flush x1 w1 = (ROk tt, x2, w2) /\
  write x2 (ex_bin 5) w2 = (ROk tt, x3, w3) /\ c_out (x_codec x3) = [130; 5; 1; 2; 3; 4; 5].
Proof.
  eexists. eexists. eexists. eexists. eexists. eexists. eexists.
  split; [reflexivity|]. split; [vm_compute; reflexivity|]. split; [vm_compute; reflexivity|].
  split; [vm_compute; reflexivity|]. split; [vm_compute; reflexivity|].
  split; [vm_compute; reflexivity|]. vm_compute; reflexivity.
Qed.

(* client, wbs 0: the masked frame (key in the returned frame) goes to the transport at once *)
Example C14_ex_eager_client : exists x0 x1 w1,
  ctx_new Client [] (mkConfig 0 100 None None false) = Some x0 /\
  write x0 (ex_bin 2) ex_w = (ROk tt, x1, w1) /\
  w_log w1 = [EvQueue (mkFrame (mkHeader true false false false (OData Binary) (Some (9, 8, 7, 6))) [1; 2]);
              EvWrite 8 [130; 130; 9; 8]; EvWrite 4 [7; 6; 8; 10]].
Proof.
  eexists. eexists. eexists. split; [reflexivity|]. split; [vm_compute; reflexivity|].
  vm_compute; reflexivity.
Qed.

Example C14_ex_full_client : exists x0,
  ctx_new Client [] (mkConfig 0 7 None None false) = Some x0 /\
  write x0 (ex_bin 2) ex_w =
    (RErr (EWriteBufferFull (mkFrame (mkHeader true false false false (OData Binary) (Some (9, 8, 7, 6))) [1; 2])),
     x0, mkWorld [] [WrAccept 4; WrAccept 100] [FlOk] [] []).
Proof. eexists. split; [reflexivity|]. vm_compute; reflexivity. Qed.

(* a ping flood while the transport refuses everything: the bound holds, the pong stays in the slot *)
Example C14_ex_ping_flood : exists x0 rs x w,
  ctx_new Server [] (mkConfig 0 3 None None false) = Some x0 /\
  run_ops x0 [OpRead; OpRead; OpRead]
    (mkWorld [RdData [137; 128; 0; 0; 0; 0; 137; 128; 0; 0; 0; 0; 137; 128; 0; 0; 0; 0]] [] [] [] [])
    = (rs, x, w) /\
  map fst rs = [ResMsg (ROk (MPing [])); ResMsg (ROk (MPing [])); ResMsg (ROk (MPing []))] /\
  c_out (x_codec x) = [138; 0] /\ x_additional x = Some (frame_pong []).
Proof.
  eexists. eexists. eexists. eexists. split; [reflexivity|]. split; [vm_compute; reflexivity|].
  split; [vm_compute; reflexivity|]. split; [vm_compute; reflexivity|]. vm_compute; reflexivity.
Qed.

(* C14_bound's side condition is satisfiable with a set_config in the history *)
Example C14_ex_nondecreasing :
  setbuf_nondecreasing 12 [OpWrite (ex_bin 5); OpSetBuf 5 20; OpSetBuf 30 20; OpFlush; OpSetBuf 0 20].
Proof. cbn. repeat split; discriminate. Qed.

Print Assumptions C14_len_exact.
Print Assumptions C14_format_into_buf.
Print Assumptions C14_bound.
Print Assumptions C14_bound_fixed_config.
Print Assumptions C14_bound_step.
Print Assumptions C14_bound_hist.
Print Assumptions C14_no_growth.
Print Assumptions C14_bound_shrink_refuted.
Print Assumptions C14_slot_ctl.
Print Assumptions C14_full.
Print Assumptions C14_full_iff.
Print Assumptions C14_accept_when_room.
Print Assumptions C14_len_key_indep.
Print Assumptions C14_batching.
Print Assumptions C14_threshold.
Print Assumptions C14_eager.
Print Assumptions C14_config_new.
Print Assumptions C14_config_new_invalid.
Print Assumptions C14_config_set.
Print Assumptions C14_config_inv.
