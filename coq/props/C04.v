(* props/C04.v — C04: two endpoints of this library (a client and a server), joined by a reliable ordered
   transport, always complete the close handshake cleanly.

   Model: Pair.v — [pair] = a client endpoint and a server endpoint (Protocol.v contexts), each with the
   bytes in flight towards it; a schedule is a list of [paction]s:
     PDo side op chunks wrs fls : call [op] on [side]; its transport reads return the bytes in flight cut
                                  into [chunks] (byte-granular delivery), then WouldBlock — or end-of-file
                                  when the peer has dropped the transport and nothing is in flight; its
                                  transport writes / flushes answer as [wrs] / [fls] say (partial accepts,
                                  WouldBlock windows), then WouldBlock; the bytes accepted are appended to
                                  the peer's in-flight bytes (nothing lost, duplicated or reordered);
     PDrop side                 : [side] drops the transport — honoured only after a call on that side
                                  returned ConnectionClosed.
   [prun p acts = (items, p')]: running the schedule gives one [pres_item] per action ([PRes side op
   result], [PDropped side], or [PSkipped side] for an action on a dropped endpoint / a premature drop).

   Vocabulary (proofs/PairStepP.v, PairInvP.v, PairP.v):
   - [cfg_free cfg]  : no message / frame size limit, max_write_buffer_size = usize::MAX ("default-like");
   - [uop_ok op]     : the user's side of the documented contract: OpRead, OpFlush, OpCanRead, OpCanWrite,
                       OpClose c / OpWrite (MClose c) with a UTF-8 reason of at most 123 bytes,
                       OpWrite (MText d) with d UTF-8 (true by type in Rust) and |d| < 2^64,
                       OpWrite (MBinary d) with |d| < 2^64, OpWrite (MPing d | MPong d) with |d| <= 125;
                       no raw frames, no set_config;
   - [soft_wr], [soft_fl] : the write side of the transport never fails hard: a write accepts >= 1 byte
                       or answers WouldBlock, a flush succeeds or answers WouldBlock (the reliable
                       transport of the property, with write-side WouldBlock windows);
   - [act_ok a]      : a = PDrop _, or a = PDo _ op _ wrs fls with uop_ok op, all of wrs soft_wr, all of
                       fls soft_fl — chunk sizes are arbitrary;
   - [reach cfg_c cfg_s keys acts items p] : both configurations are cfg_free, every action is act_ok,
                       and running [acts] from [pair_init cfg_c cfg_s keys] gives the trace [items] and
                       the pair [p].  ALL interleavings, ALL delivery schedules, any number of messages.
   - [res_clean op r]: if r is Err(Protocol p) then p = SendAfterClosing and op is a write (a write after
                       the close is refused — the only protocol error that can occur);
     [res_total r]   : r is not a panic and not the model's out-of-fuel;
     [it_clean item] : for item = PRes _ op r: res_clean op r /\ res_total r;
   - [dmsg m]        : [m] if m is a Text or Binary message, else [];
     [accepted op r] : dmsg m if op = OpWrite m and r = Ok or Err(Io _) (the frame is queued), else [];
     [acc_of side items] : the data messages [side] wrote (accepted), in order;
     [del_of side items] : the data messages delivered to [side] by its reads (results Ok(Text|Binary)), in
                       order;
   - [gotc r]        : r = Ok(Message::Close _);   [is_cc r] : r = Err(ConnectionClosed);
     [it_cc side item], [it_drop side item] : item reports ConnectionClosed to [side] / item = PDropped side;
   - [opp side]      : the other side.                                                                 *)
From TungModel Require Import Base Coding Mask Header Frame Utf8 World Message Codec Protocol Pair.
From TungModel.proofs Require Import PairCodecP PairStepP PairInvP PairP PairLiveP.

(* ---------------------------------------------------------------------------------------------- *)
(* Safety 1: for every schedule, no call on either side returns a protocol error — never
   ReceivedAfterClosing, ResetWithoutClosingHandshake or a framing error; the only exception is a user
   write after the close, refused with SendAfterClosing — nor panics. *)
Theorem C04_safety_no_protocol_error : forall cfg_c cfg_s keys acts items p,
  reach cfg_c cfg_s keys acts items p -> Forall it_clean items.
Proof. exact safety_clean. Qed.

(* the same, spelled out for one item of the trace *)
Theorem C04_safety : forall cfg_c cfg_s keys acts items p sd o r,
  reach cfg_c cfg_s keys acts items p -> In (PRes sd o r) items ->
  (forall e, r = ResMsg (RErr (EProtocol e)) \/ r = ResUnit (RErr (EProtocol e)) ->
             e = SendAfterClosing /\ exists m, o = OpWrite m) /\
  (forall s, r <> ResMsg (RPanic s) /\ r <> ResUnit (RPanic s)).
Proof.
  intros cfg_c cfg_s keys acts items p sd o r H Hin.
  pose proof (safety_clean _ _ _ _ _ _ H) as Hc. rewrite Forall_forall in Hc.
  destruct (Hc _ Hin) as [A [B _]]. split; [exact A|exact B].
Qed.

(* Safety 2: the data messages delivered to a side are a prefix of those the other side wrote, in order
   (nothing invented, dropped, duplicated, reordered, split or merged) *)
Theorem C04_safety_prefix : forall cfg_c cfg_s keys acts items p,
  reach cfg_c cfg_s keys acts items p ->
  (exists rest, acc_of Server items = del_of Client items ++ rest) /\
  (exists rest, acc_of Client items = del_of Server items ++ rest).
Proof. exact safety_prefix. Qed.

(* Order: the server is told first, the client only once the transport has ended — in every reachable
   state, if the client has been told then the server has been told and has dropped the transport *)
Theorem C04_order : forall cfg_c cfg_s keys acts items p,
  reach cfg_c cfg_s keys acts items p ->
  e_told (p_client p) = true -> e_told (p_server p) = true /\ e_dropped (p_server p) = true.
Proof. exact safety_order. Qed.

(* the same on the trace: a ConnectionClosed reported to the client is preceded by a ConnectionClosed
   reported to the server and by the server's drop *)
Theorem C04_order_trace : forall cfg_c cfg_s keys acts items p pre o r post,
  reach cfg_c cfg_s keys acts items p ->
  items = pre ++ PRes Client o r :: post -> is_cc r = true ->
  existsb (it_cc Server) pre = true /\ existsb (it_drop Server) pre = true.
Proof. exact safety_order_trace. Qed.

(* Delivery before close: when a read of [sd] returns the peer's Close, [sd] has already been delivered
   every data message the peer ever writes (all those written before its close(); later writes are
   refused) — flushed or not. *)
Theorem C04_delivery_before_close : forall cfg_c cfg_s keys acts items p pre sd o r post,
  reach cfg_c cfg_s keys acts items p ->
  items = pre ++ PRes sd o r :: post -> gotc r = true ->
  del_of sd pre = acc_of (opp sd) items.
Proof. exact delivery_before_close. Qed.

(* ---------------------------------------------------------------------------------------------- *)
(* Liveness, canonical fair rounds.
   Vocabulary (Pair.v, proofs/PairP.v, PairLiveP.v):
   - [fair_flush sd]  = PDo sd OpFlush [] accept_all [FlOk; FlOk]   : a flush over an accepting transport;
     [fair_read sd]   = PDo sd OpRead [u64_max] accept_all [FlOk; FlOk] : a read that is handed everything
                        in flight (up to 2^64-1 bytes per call);
   - [fair_side sd n] = fair_flush sd :: n times fair_read sd ++ [PDrop sd]  (drop if told closed);
     [fair_round n]   = fair_side Server n ++ fair_side Client n;
   - [closing p]      : the handshake has started — the client's or the server's state is not Active
                        (that side has called close, or has received the peer's Close);
   - [both_closed p]  : both sides have been told ConnectionClosed and both have dropped the transport;
   - [inflight p]     : the number of bytes in flight or buffered: both in-flight queues, both in_buffers,
                        both out_buffers;  [nbound p] : an explicit (generous) polynomial in inflight p.
   From EVERY reachable state (any schedule before) in which the handshake has started, K = 2 fair rounds
   with n reads per side and round complete it, for every n >= nbound p (further reads answer
   WouldBlock / AlreadyClosed and change nothing, so "read until WouldBlock" is covered) — and the
   extended run is again a reachable run, so all the safety theorems above apply to it. *)
Theorem C04_liveness_rounds : forall cfg_c cfg_s keys acts items p n items2 p2,
  reach cfg_c cfg_s keys acts items p -> closing p -> (nbound p <= n)%nat ->
  prun p (fair_round n ++ fair_round n) = (items2, p2) ->
  both_closed p2 /\
  reach cfg_c cfg_s keys (acts ++ fair_round n ++ fair_round n) (items ++ items2) p2.
Proof. exact liveness_rounds_explicit. Qed.

(* the property in one statement: both told and dropped; no protocol error and no panic over the whole
   run; the server is told (and drops) before the client is told *)
Theorem C04_handshake_completes : forall cfg_c cfg_s keys acts items p n items2 p2,
  reach cfg_c cfg_s keys acts items p -> closing p -> (nbound p <= n)%nat ->
  prun p (fair_round n ++ fair_round n) = (items2, p2) ->
  both_closed p2 /\ Forall it_clean (items ++ items2) /\
  (forall pre o r post, items ++ items2 = pre ++ PRes Client o r :: post -> is_cc r = true ->
     existsb (it_cc Server) pre = true /\ existsb (it_drop Server) pre = true).
Proof. exact handshake_completes. Qed.

(* NOT proved (the generalisation of the design note): completion under EVERY fair interleaving of
   flush / read / drop actions (a rank argument over arbitrary interleaved actions).  The theorems above
   are for the canonical rounds, from every reachable state. *)

(* ---------------------------------------------------------------------------------------------- *)
(* Non-vacuity and the examples of complete handshakes (vm_compute on Pair.v).
   Each scenario: some user actions, then fair rounds (PairP.fair_round n = server: flush, n reads, drop;
   client: flush, n reads, drop).  [summary] = per side (told, dropped, state) at the end. *)
Definition ex_cfg : config := mkConfig 131072 u64_max None None false.
Definition ex_keys : list key := [(1, 2, 3, 4); (5, 6, 7, 8); (9, 10, 11, 12); (13, 14, 15, 16)].
Definition blocked (sd : role) (o : op) : paction := PDo sd o [] [] [].       (* transport blocked *)
Definition drip (sd : role) (o : op) : paction :=                               (* 1 byte per call *)
  PDo sd o [1; 1; 1] [WrAccept 1; WrErr WouldBlock] [FlErr WouldBlock].
Definition ex_run (acts : list paction) : option (list pres_item * pair) :=
  match pair_init ex_cfg ex_cfg ex_keys with Some p0 => Some (prun p0 acts) | None => None end.
Definition done (e : endpoint) : bool :=
  e_told e && e_dropped e && match x_state (e_ctx e) with Terminated => true | _ => false end.
Definition ex_done (acts : list paction) : bool :=
  match ex_run acts with Some (_, p) => done (p_client p) && done (p_server p) | None => false end.
(* position of the first item satisfying f *)
Fixpoint first_pos (f : pres_item -> bool) (l : list pres_item) : option nat :=
  match l with [] => None | x :: r => if f x then Some 0%nat else option_map S (first_pos f r) end.
Definition ex_order (acts : list paction) : bool :=
  match ex_run acts with
  | Some (items, _) =>
      match first_pos (it_cc Server) items, first_pos (it_drop Server) items, first_pos (it_cc Client) items with
      | Some a, Some b, Some c => Nat.ltb a b && Nat.ltb b c
      | _, _, _ => false
      end
  | None => false
  end.
Definition ex_clean (acts : list paction) : bool :=
  match ex_run acts with
  | Some (items, _) =>
      forallb (fun it => match it with
                         | PRes _ _ (ResMsg (RErr (EProtocol _))) | PRes _ _ (ResUnit (RErr (EProtocol _))) => false
                         | _ => true end) items
  | None => false
  end.
Definition ex_all (acts : list paction) : bool := ex_done acts && ex_order acts && ex_clean acts.

Definition sc_client_first : list paction :=
  [blocked Client (OpWrite (MText [104; 105])); blocked Client (OpClose None)] ++ fair_round 3 ++ fair_round 3.
Definition sc_server_first : list paction :=
  [blocked Server (OpWrite (MBinary [1; 2; 3])); blocked Server (OpClose (Some (CNormal, [98; 121; 101])))]
  ++ fair_round 3 ++ fair_round 3.
Definition sc_simultaneous : list paction :=
  [blocked Server (OpClose None); blocked Client (OpClose None)] ++ fair_round 2 ++ fair_round 2.
Definition sc_ping_in_flight : list paction :=
  [blocked Server (OpWrite (MPing [7])); blocked Client (OpWrite (MPing [8; 9])); blocked Client (OpClose None)]
  ++ fair_round 4 ++ fair_round 4.
Definition sc_data_in_flight : list paction :=
  [drip Client (OpWrite (MText [97; 98; 99])); drip Server (OpWrite (MBinary [0; 255]));
   drip Server OpRead; drip Client (OpClose (Some (CAway, []))); drip Server OpRead; drip Client OpFlush]
  ++ fair_round 5 ++ fair_round 5.

Example C04_ex_client_first : ex_all sc_client_first = true.
Proof. vm_compute. reflexivity. Qed.
Example C04_ex_server_first : ex_all sc_server_first = true.
Proof. vm_compute. reflexivity. Qed.
Example C04_ex_simultaneous : ex_all sc_simultaneous = true.
Proof. vm_compute. reflexivity. Qed.
Example C04_ex_ping_in_flight : ex_all sc_ping_in_flight = true.
Proof. vm_compute. reflexivity. Qed.
Example C04_ex_data_in_flight : ex_all sc_data_in_flight = true.
Proof. vm_compute. reflexivity. Qed.

(* the trace of the client-initiated handshake, in full *)
Example C04_ex_client_first_trace :
  option_map fst (ex_run sc_client_first) = Some
    [PRes Client (OpWrite (MText [104; 105])) (ResUnit (ROk tt));
     PRes Client (OpClose None) (ResUnit (RErr (EIo WouldBlock)));
     PRes Server OpFlush (ResUnit (ROk tt));
     PRes Server OpRead (ResMsg (RErr (EIo WouldBlock)));
     PRes Server OpRead (ResMsg (RErr (EIo WouldBlock)));
     PRes Server OpRead (ResMsg (RErr (EIo WouldBlock)));
     PSkipped Server;
     PRes Client OpFlush (ResUnit (ROk tt));
     PRes Client OpRead (ResMsg (RErr (EIo WouldBlock)));
     PRes Client OpRead (ResMsg (RErr (EIo WouldBlock)));
     PRes Client OpRead (ResMsg (RErr (EIo WouldBlock)));
     PSkipped Client;
     PRes Server OpFlush (ResUnit (ROk tt));
     PRes Server OpRead (ResMsg (ROk (MText [104; 105])));
     PRes Server OpRead (ResMsg (ROk (MClose None)));
     PRes Server OpRead (ResMsg (RErr EConnectionClosed));
     PDropped Server;
     PRes Client OpFlush (ResUnit (ROk tt));
     PRes Client OpRead (ResMsg (ROk (MClose None)));
     PRes Client OpRead (ResMsg (RErr EConnectionClosed));
     PRes Client OpRead (ResMsg (RErr EAlreadyClosed));
     PDropped Client].
Proof. vm_compute. reflexivity. Qed.

(* the hypotheses of the theorems are satisfiable: the scenarios are reachable runs *)
Example C04_reach_nonvacuous :
  exists items p, reach ex_cfg ex_cfg ex_keys sc_data_in_flight items p /\
                  e_told (p_client p) = true /\ acc_of Client items = [MText [97; 98; 99]] /\
                  del_of Server items = [MText [97; 98; 99]] /\ del_of Client items = [MBinary [0; 255]].
Proof.
  destruct (ex_run sc_data_in_flight) as [[items p]|] eqn:E; [|vm_compute in E; discriminate E].
  exists items, p. split.
  - unfold reach. split; [repeat split|]. split; [repeat split|]. split.
    + unfold sc_data_in_flight. apply Forall_app. split; [|apply Forall_app; split; apply fair_round_ok].
      unfold drip. repeat constructor; cbn; try reflexivity; try exact I; unfold two64; vm_compute; try reflexivity;
        try (intros X; discriminate X).
    + unfold ex_run in E. destruct (pair_init ex_cfg ex_cfg ex_keys) as [p0|] eqn:E0; [|discriminate E].
      exists p0. split; [reflexivity|]. injection E as E. exact E.
  - vm_compute in E. injection E as <- <-. vm_compute. repeat split; reflexivity.
Qed.

(* Why the transport's write side must be "soft" (reliable transport): a hard transport error is outside
   the property's assumption and does break the handshake.  Witness (write_buffer_size 0): the server
   closes; the client reads the Close; the client's flush of its reply hits ConnectionReset, which the
   library reports as ConnectionClosed (documented: the peer is gone); the client drops; the server,
   still waiting for the reply, reads end-of-file and reports ResetWithoutClosingHandshake. *)
Definition ex_cfg0 : config := mkConfig 0 u64_max None None false.
Example C04_hard_transport_error_remark :
  option_map (fun p0 => fst (prun p0
    [PDo Server (OpClose None) [] accept_all [FlOk]; fair_read Client;
     PDo Client OpFlush [] [WrErr ConnReset] []; PDrop Client; fair_read Server]))
    (pair_init ex_cfg0 ex_cfg0 ex_keys)
  = Some [PRes Server (OpClose None) (ResUnit (ROk tt));
          PRes Client OpRead (ResMsg (ROk (MClose None)));
          PRes Client OpFlush (ResUnit (RErr EConnectionClosed));
          PDropped Client;
          PRes Server OpRead (ResMsg (RErr (EProtocol ResetWithoutClosingHandshake)))].
Proof. vm_compute. reflexivity. Qed.

(* the hypotheses of the liveness theorems are satisfiable: a reachable state in which the client has
   called close while its transport was blocked (nothing sent yet); n = nbound p *)
Example C04_liveness_nonvacuous :
  exists items p n, reach ex_cfg ex_cfg ex_keys [blocked Client (OpClose None)] items p /\ closing p /\
                    (nbound p <= n)%nat.
Proof.
  destruct (ex_run [blocked Client (OpClose None)]) as [[items p]|] eqn:E; [|vm_compute in E; discriminate E].
  exists items, p, (nbound p). split; [|split; [|apply le_n]].
  - unfold reach. split; [repeat split|]. split; [repeat split|]. split.
    + repeat constructor.
    + unfold ex_run in E. destruct (pair_init ex_cfg ex_cfg ex_keys) as [p0|] eqn:E0; [|discriminate E].
      exists p0. split; [reflexivity|]. injection E as E. exact E.
  - vm_compute in E. injection E as _ <-. left. cbn. discriminate.
Qed.

Print Assumptions C04_safety_no_protocol_error.
Print Assumptions C04_safety.
Print Assumptions C04_safety_prefix.
Print Assumptions C04_order.
Print Assumptions C04_order_trace.
Print Assumptions C04_delivery_before_close.
Print Assumptions C04_liveness_rounds.
Print Assumptions C04_handshake_completes.
