(* props/C16.v — C16: the client sends a correct upgrade request and accepts only the matching 101.

   Model: Handshake.v.  Header names in a header list are lower-case (HeaderMap); [hget] = first value.
   The response parser is an oracle; machine theorems quantify over ALL oracles and transport worlds.

   Vocabulary (definitions in proofs/HandshakeP.v):
   - extra_headers hs   : the headers whose name is not one of the five required ones, in list order
   - extra_lines hs     : their lines "<fix_name name>: <value>\r\n" (fix_name restores the two names
                          the crate writes capitalised: Sec-WebSocket-Protocol, Origin)
   - values_visible hs  : every value is visible ASCII (HeaderValue::to_str succeeds)
   - spec_parse_request : reference reader (lines end in CRLF, name/value cut at the first ':', one
                          optional space skipped) returning (method, target, version, lines, rest)
   - written_headers    : the five required lines with the names as written ++ the extra lines
   - upg_ok / resp_conn_ok / resp_subproto_ok : the response tests as propositions
   - wr_stage / fl_stage / rd_stage, client_run : the stages of the machine and their composition
   - hs_wire hlog / hs_data_read hlog : bytes accepted by / delivered by the transport
   KEY FRESHNESS (16 fresh random bytes) is not expressible in the model (the key is an input of
   into_client_request); what is proved is the shape: base64 of 16 bytes = 24 visible characters. *)
From Coq Require Import String Ascii.
From TungModel Require Import Base Coding Mask Header Frame World Message Codec Protocol Sha1 Handshake.
From TungModel.proofs Require Import HandshakeP CodecReadP.

(* ---- the request ---- *)

(* generate_request succeeds iff the five required headers are present, all used values are visible
   ASCII; the bytes are then exactly: request line, the five required lines in the fixed order with
   the FIRST value of each name, the remaining headers in list order, blank line; key = the key value *)
Theorem C16_request_shape : forall (p : bytes) (hs : headers) (bytes key : bytes),
  generate_request (Some p) hs = HOk (bytes, key) <->
  exists vh vc vu vv,
    hget B"host" hs = Some vh /\ hget B"connection" hs = Some vc /\ hget B"upgrade" hs = Some vu /\
    hget B"sec-websocket-version" hs = Some vv /\ hget B"sec-websocket-key" hs = Some key /\
    forallb visible vh = true /\ forallb visible vc = true /\ forallb visible vu = true /\
    forallb visible vv = true /\ forallb visible key = true /\
    values_visible (extra_headers hs) = true /\
    bytes = B"GET " ++ p ++ B" HTTP/1.1" ++ crlf ++
            B"Host: " ++ vh ++ crlf ++
            B"Connection: " ++ vc ++ crlf ++
            B"Upgrade: " ++ vu ++ crlf ++
            B"Sec-WebSocket-Version: " ++ vv ++ crlf ++
            B"Sec-WebSocket-Key: " ++ key ++ crlf ++
            extra_lines (extra_headers hs) ++ crlf.
Proof. exact generate_request_ok_iff. Qed.

(* the reference reader reads exactly that back (the request is one well-formed HTTP/1.1 GET) *)
Theorem C16_request_reads_back : forall (p : bytes) (hs : headers) (req key tail : bytes),
  ~ In 32 p -> ~ In 13 p -> Forall (fun nv => name_wire_ok (fst nv)) hs ->
  generate_request (Some p) hs = HOk (req, key) ->
  exists vh vc vu vv,
    hget B"host" hs = Some vh /\ hget B"connection" hs = Some vc /\ hget B"upgrade" hs = Some vu /\
    hget B"sec-websocket-version" hs = Some vv /\ hget B"sec-websocket-key" hs = Some key /\
    spec_parse_request (req ++ tail) =
    Some (B"GET", p, B"HTTP/1.1",
          [(B"Host", vh); (B"Connection", vc); (B"Upgrade", vu); (B"Sec-WebSocket-Version", vv);
           (B"Sec-WebSocket-Key", key)] ++ map (fun nv => (fix_name (fst nv), snd nv)) (extra_headers hs),
          tail).
Proof. exact generate_request_reads_back. Qed.

(* each required header exactly once: no line after the five has a required name (ignoring case),
   and none of the remaining headers had one (duplicates of a required name are dropped) *)
Theorem C16_required_once : forall hs : headers,
  Forall (fun nv => is_required (fst nv) = false) (extra_headers hs) /\
  (Forall (fun nv => map lower (fst nv) = fst nv) hs ->
   Forall (fun nv => forall q, In q required_headers -> eq_ic (fst nv) (snd q) = false)
          (map (fun nv => (fix_name (fst nv), snd nv)) (extra_headers hs))).
Proof. intro hs. exact (conj (extra_headers_not_required hs) (written_extras_not_required hs)). Qed.

(* a missing required header => InvalidHeader of a missing name (Utf8 if a non-ASCII value is met first) *)
Theorem C16_request_missing : forall (p : bytes) (hs : headers) (l : bytes),
  In l required_names -> hget l hs = None ->
  (exists e, generate_request (Some p) hs = HErr e /\
     (e = HEUtf8 \/ exists l', In l' required_names /\ hget l' hs = None /\ e = HEProto (InvalidHeader l'))) /\
  (values_visible hs = true ->
   exists l', In l' required_names /\ hget l' hs = None /\
              generate_request (Some p) hs = HErr (HEProto (InvalidHeader l'))).
Proof.
  intros p hs l Hl Hn. exact (conj (generate_request_missing p hs l Hl Hn) (generate_request_missing_ascii p hs l Hl Hn)).
Qed.

Theorem C16_request_no_path : forall hs : headers, generate_request None hs = HErr HEUrlNoPath.
Proof. exact generate_request_no_path. Qed.

(* ---- built from a URI ---- *)

(* Host = authority after its LAST '@' (no '@' left in it), the other four as required *)
Theorem C16_from_uri : forall (authority : option bytes) (key : bytes) (hs : headers),
  into_client_request authority key = HOk hs ->
  exists a host, authority = Some a /\ host = host_of_authority a /\ host <> [] /\ ~ In 64 host /\
    ((~ In 64 a /\ host = a) \/ exists userinfo, a = userinfo ++ 64 :: host) /\
    hs = [(B"host", host); (B"connection", B"Upgrade"); (B"upgrade", B"websocket");
          (B"sec-websocket-version", B"13"); (B"sec-websocket-key", key)].
Proof. exact into_client_request_shape. Qed.

(* the decomposition determines the host: whatever the userinfo (even with '@' in it) *)
Theorem C16_from_uri_host : forall userinfo host : bytes,
  ~ In 64 host -> host_of_authority (userinfo ++ 64 :: host) = host.
Proof. exact host_of_authority_unique. Qed.

Theorem C16_from_uri_errors : forall (authority : option bytes) (key : bytes),
  (authority = None -> into_client_request authority key = HErr HEUrlNoHost) /\
  (forall a, authority = Some a -> host_of_authority a = [] -> into_client_request authority key = HErr HEUrlEmptyHost).
Proof. exact into_client_request_errors. Qed.

(* generate_key: base64 of 16 bytes is 24 visible characters *)
Theorem C16_key_shape : forall rnd : bytes, length rnd = 16%nat ->
  length (base64 rnd) = 24%nat /\ forallb visible (base64 rnd) = true.
Proof. exact base64_key_shape. Qed.

(* a server endpoint of this library accepts it: on the header set ... *)
Theorem C16_self_accept : forall (authority : option bytes) (key : bytes) (hs : headers),
  into_client_request authority key = HOk hs ->
  create_parts true true hs = HOk (accept_headers key) /\
  (forall p, forallb visible key = true -> forallb visible (first_value B"host" hs) = true ->
     generate_request (Some p) hs =
     HOk (request_bytes p (first_value B"host" hs) B"Upgrade" B"websocket" B"13" key [], key)).
Proof. exact into_client_request_accepted. Qed.

(* ... and through the bytes: request bytes -> reference reader -> lower-cased names -> create_parts *)
Theorem C16_self_accept_bytes : forall (p host key req k tail : bytes),
  ~ In 32 p -> ~ In 13 p -> forallb visible host = true -> forallb visible key = true ->
  generate_request (Some p) (client_headers host key) = HOk (req, k) ->
  k = key /\
  exists L, spec_parse_request (req ++ tail) = Some (B"GET", p, B"HTTP/1.1", L, tail) /\
            lower_names L = client_headers host key /\
            create_parts true true (lower_names L) = HOk (accept_headers key).
Proof. exact uri_request_self_accept. Qed.

(* ---- the response ---- *)

Theorem C16_verify_iff : forall (akey : bytes) (subs : option (list bytes)) (r r' : response),
  verify_response akey subs r = HOk r' <->
  r' = r /\ resp_status r = 101 /\ upg_ok (resp_headers r) /\ resp_conn_ok (resp_headers r) /\
  hget B"sec-websocket-accept" (resp_headers r) = Some akey /\
  resp_subproto_ok (resp_headers r) subs.
Proof. exact verify_response_ok_iff. Qed.

(* any accept value other than the expected one is refused — in particular every single-character change *)
Theorem C16_accept_mismatch : forall (akey : bytes) (subs : option (list bytes)) (r : response) (v : bytes),
  hget B"sec-websocket-accept" (resp_headers r) = Some v -> v <> akey ->
  exists e, verify_response akey subs r = HErr e /\
    (resp_status r = 101 -> upg_ok (resp_headers r) -> resp_conn_ok (resp_headers r) ->
     e = HEProto SecWebSocketAcceptKeyMismatch).
Proof. exact verify_response_accept_mismatch. Qed.

Theorem C16_accept_single_char : forall akey subs r (pre post : bytes) (c c' : N),
  akey = pre ++ c :: post -> c' <> c ->
  hget B"sec-websocket-accept" (resp_headers r) = Some (pre ++ c' :: post) ->
  exists e, verify_response akey subs r = HErr e /\
    (resp_status r = 101 -> upg_ok (resp_headers r) -> resp_conn_ok (resp_headers r) ->
     e = HEProto SecWebSocketAcceptKeyMismatch).
Proof. exact verify_response_single_char. Qed.

(* the errors verify_response can give *)
Theorem C16_verify_errors : forall akey subs r e, verify_response akey subs r = HErr e ->
  e = HEHttp (resp_status r) None \/ e = HEUtf8 \/
  exists p, e = HEProto p /\
    (p = MissingUpgradeWebSocketHeader \/ p = MissingConnectionUpgradeHeader \/ p = SecWebSocketAcceptKeyMismatch \/
     p = SubNoSubProtocol \/ p = SubServerSentNoneRequested \/ p = SubInvalidSubProtocol).
Proof. exact verify_response_err_class. Qed.

(* ---- the machine ---- *)

Theorem C16_client_stages : forall oracle_req oracle_resp scheme_ok path hs w,
  client_handshake oracle_req oracle_resp scheme_ok path hs w = client_run oracle_resp scheme_ok path hs w.
Proof. exact client_handshake_run. Qed.

(* a WebSocket only if: the one request was written in full and flushed, the bytes read parse as a
   complete HTTP/1.1+ head that verify_response accepts against the key that was sent; the tail handed
   to the new socket = everything read after the n bytes of the head (C16_tail) *)
Theorem C16_tail : forall oracle_req oracle_resp scheme_ok path hs w r tail w' hlog,
  client_handshake oracle_req oracle_resp scheme_ok path hs w = (HsDone r tail, w', hlog) ->
  r = Client /\ scheme_ok = true /\
  exists subs req key n raw,
    extract_subprotocols hs = HOk subs /\ generate_request path hs = HOk (req, key) /\
    hs_wire hlog = req /\ has_flush_ev hlog = true /\
    oracle_resp (hs_data_read hlog) = OComplete n raw /\ 1 <= rs_version raw /\ rs_fmt_ok raw = true /\
    verify_response (derive_accept_key key) subs (mkResponse (rs_code raw) (rs_headers raw))
      = HOk (mkResponse (rs_code raw) (rs_headers raw)) /\
    tail = dropN n (hs_data_read hlog) /\
    hs_data_read hlog = takeN n (hs_data_read hlog) ++ tail.
Proof. exact client_done_shape. Qed.

(* Parser hypotheses (premises, not axioms): P1 the consumed length lies inside the buffer; P2 a
   complete head stays the same head when more bytes follow.  Then nothing that followed the head is
   lost: tail ++ whatever arrives later = the stream minus the n bytes of the head ... *)
Theorem C16_tail_stream : forall oracle_req oracle_resp,
  (forall buf n a, oracle_resp buf = OComplete n a -> n <= blen buf) ->
  forall scheme_ok path hs w tail w' hlog,
  client_handshake oracle_req oracle_resp scheme_ok path hs w = (HsDone Client tail, w', hlog) ->
  exists n raw, oracle_resp (hs_data_read hlog) = OComplete n raw /\ n <= blen (hs_data_read hlog) /\
    forall later, tail ++ later = dropN n (hs_data_read hlog ++ later).
Proof. intros oreq oresp P1. exact (client_tail_stream oreq oresp P1). Qed.

(* ... and two handshakes over two segmentations of the same byte stream hand the same bytes to the
   new socket (whatever part of the frames each saw together with the head) *)
Theorem C16_tail_segmentation : forall oracle_req oracle_resp,
  (forall buf n a, oracle_resp buf = OComplete n a -> n <= blen buf) ->
  (forall buf more n a, oracle_resp buf = OComplete n a -> oracle_resp (buf ++ more) = OComplete n a) ->
  forall s1 s2 path1 path2 hs1 hs2 w1 w2 tail1 tail2 w1' w2' hlog1 hlog2 later1 later2,
  client_handshake oracle_req oracle_resp s1 path1 hs1 w1 = (HsDone Client tail1, w1', hlog1) ->
  client_handshake oracle_req oracle_resp s2 path2 hs2 w2 = (HsDone Client tail2, w2', hlog2) ->
  hs_data_read hlog1 ++ later1 = hs_data_read hlog2 ++ later2 ->
  tail1 ++ later1 = tail2 ++ later2.
Proof. intros oreq oresp P1 P2. exact (client_tail_segmentation oreq oresp P1 P2). Qed.

(* the frame bytes that came with the head are the first thing the new socket decodes, however the
   transport cuts what follows: frames read from from_partially_read(tail) = reference decoding of
   (stream after the head) = tail ++ later data (C05) *)
Theorem C16_tail_first_read : forall oracle_req oracle_resp,
  (forall buf n a, oracle_resp buf = OComplete n a -> n <= blen buf) ->
  forall scheme_ok path hs w tail w' hlog ms acc fuel,
  client_handshake oracle_req oracle_resp scheme_ok path hs w = (HsDone Client tail, w', hlog) ->
  (mu (codec_new tail) (w_rds w') < fuel)%nat ->
  exists n raw, oracle_resp (hs_data_read hlog) = OComplete n raw /\
    drive fuel ms false acc (codec_new tail) w' =
    frames_ref ms false acc None (dropN n (hs_data_read hlog ++ sched_data (w_rds w'))) (sched_end (w_rds w')).
Proof.
  intros oreq oresp P1 s path hs w tail w' hlog ms acc fuel H Hf.
  destruct (client_tail_stream oreq oresp P1 _ _ _ _ _ _ _ H) as (n & raw & Ho & _ & Hs).
  exists n, raw. split; [exact Ho|]. rewrite <- Hs. exact (drive_ref ms false acc fuel (codec_new tail) w' Hf).
Qed.

(* the wire only ever carries a prefix of the one request; nothing is read before it is out and flushed *)
Theorem C16_wire_prefix : forall oracle_req oracle_resp scheme_ok path hs w res w' hlog,
  client_handshake oracle_req oracle_resp scheme_ok path hs w = (res, w', hlog) ->
  (forall e, generate_request path hs = HErr e -> hlog = []) /\
  (forall req key, generate_request path hs = HOk (req, key) ->
     (exists rem, hs_wire hlog ++ rem = req) /\
     (has_read_ev hlog = true -> hs_wire hlog = req /\ has_flush_ev hlog = true)).
Proof. exact client_wire_prefix. Qed.

(* with a transport that takes the request (any partial-write pattern), the outcome is decided by the
   reading stage and verify_response alone ... *)
Theorem C16_completes : forall oracle_req oracle_resp path hs w subs req key pre post j fpost o rds' ev3,
  extract_subprotocols hs = HOk subs -> generate_request path hs = HOk (req, key) ->
  w_wrs w = pre ++ post -> Forall wr_friendly pre -> blen req <= wr_capacity pre ->
  w_fls w = repeat (FlErr WouldBlock) j ++ FlOk :: fpost ->
  rd_stage (resp_parser oracle_resp) (w_rds w) [] 0 0 = (o, rds', ev3) ->
  exists w' hlog,
    client_handshake oracle_req oracle_resp true path hs w
    = (client_read_result (derive_accept_key key) subs o, w', hlog) /\
    hs_wire hlog = req /\ hs_data_read hlog = hs_data_read ev3 /\ w_rds w' = rds'.
Proof. exact client_completes. Qed.

(* ... WebSocket with tail = buffer after the head when it accepts, failure otherwise *)
Theorem C16_read_result : forall akey subs n resp buf,
  (forall r', verify_response akey subs resp = HOk r' ->
     client_read_result akey subs (RDone n resp buf) = HsDone Client (dropN n buf)) /\
  (forall e, verify_response akey subs resp = HErr e ->
     exists e', client_read_result akey subs (RDone n resp buf) = HsFail e' /\
                ((forall s b, e <> HEHttp s b) -> e' = e) /\
                (forall s b, e = HEHttp s b -> e' = HEHttp s (Some (dropN n buf)))).
Proof. exact client_read_result_complete. Qed.

(* ---- non-vacuity ---- *)
Definition ex_key : bytes := B"dGhlIHNhbXBsZSBub25jZQ==".
Definition ex_resp_hdrs : headers :=
  [(B"upgrade", B"WebSocket"); (B"connection", B"upgrade"); (B"sec-websocket-accept", B"s3pPLMBiTxaQ9kYGzzhZRbK+xOo=")].
Definition ex_resp_bytes : bytes := B"<the response head>".
Definition ex_frames : bytes := [129; 2; 104; 105].
Definition ex_oresp (buf : bytes) : oracle_out raw_resp :=
  if bytes_eqb (takeN (blen ex_resp_bytes) buf) ex_resp_bytes
  then OComplete (blen ex_resp_bytes) (mkRawResp 1 101 true ex_resp_hdrs) else OPartial.
Definition ex_oreq (buf : bytes) : oracle_out raw_req := OPartial.

(* D7 (repaired): two '@' in the authority: Host is what follows the last one *)
Example C16_ex_from_uri :
  into_client_request (Some B"user@evil.example:pw@good.example:8080") ex_key
  = HOk (client_headers B"good.example:8080" ex_key) /\
  into_client_request (Some B"user@") ex_key = HErr HEUrlEmptyHost.
Proof. vm_compute. split; reflexivity. Qed.

(* extra headers, a subprotocol offer, a duplicated required header (collapsed to its first value) *)
Example C16_ex_request :
  generate_request (Some B"/chat?x=1")
    ([(B"origin", B"http://o"); (B"connection", B"Upgrade-first")] ++ client_headers B"h:80" ex_key ++
     [(B"sec-websocket-protocol", B"a, b"); (B"x-y", B"z")])
  = HOk (B"GET /chat?x=1 HTTP/1.1" ++ crlf ++ B"Host: h:80" ++ crlf ++ B"Connection: Upgrade-first" ++ crlf ++
         B"Upgrade: websocket" ++ crlf ++ B"Sec-WebSocket-Version: 13" ++ crlf ++
         B"Sec-WebSocket-Key: dGhlIHNhbXBsZSBub25jZQ==" ++ crlf ++
         B"Origin: http://o" ++ crlf ++ B"Sec-WebSocket-Protocol: a, b" ++ crlf ++ B"x-y: z" ++ crlf ++ crlf, ex_key).
Proof. vm_compute. reflexivity. Qed.

Example C16_ex_missing :
  generate_request (Some B"/") [(B"host", B"h"); (B"sec-websocket-key", ex_key)]
  = HErr (HEProto (InvalidHeader B"connection")).
Proof. vm_compute. reflexivity. Qed.

Example C16_ex_verify :
  verify_response (derive_accept_key ex_key) None (mkResponse 101 ex_resp_hdrs) = HOk (mkResponse 101 ex_resp_hdrs) /\
  verify_response (derive_accept_key ex_key) (Some [B"a"; B"b"]) (mkResponse 101 (ex_resp_hdrs ++ [(B"sec-websocket-protocol", B"b")]))
    = HOk (mkResponse 101 (ex_resp_hdrs ++ [(B"sec-websocket-protocol", B"b")])) /\
  verify_response (derive_accept_key ex_key) (Some [B"a"]) (mkResponse 101 ex_resp_hdrs) = HErr (HEProto SubNoSubProtocol) /\
  verify_response (derive_accept_key ex_key) None (mkResponse 101 (ex_resp_hdrs ++ [(B"sec-websocket-protocol", B"b")]))
    = HErr (HEProto SubServerSentNoneRequested) /\
  verify_response (derive_accept_key ex_key) (Some [B"a"]) (mkResponse 101 (ex_resp_hdrs ++ [(B"sec-websocket-protocol", B"b")]))
    = HErr (HEProto SubInvalidSubProtocol) /\
  verify_response (derive_accept_key ex_key) None (mkResponse 200 ex_resp_hdrs) = HErr (HEHttp 200 None) /\
  verify_response (derive_accept_key ex_key) None
    (mkResponse 101 [(B"upgrade", B"websocket"); (B"connection", B"upgrade"); (B"sec-websocket-accept", B"s3pPLMBiTxaQ9kYGzzhZRbK+xOp=")])
    = HErr (HEProto SecWebSocketAcceptKeyMismatch).
Proof. vm_compute. repeat split; reflexivity. Qed.

(* a whole client handshake: request written in three pieces, response head and a frame arriving
   split across two reads — the frame bytes are the tail of the new socket *)
Example C16_ex_handshake :
  let w := mkWorld [RdData (takeN 5 ex_resp_bytes); RdData (dropN 5 ex_resp_bytes ++ ex_frames)]
                   [WrAccept 10; WrErr WouldBlock; WrAccept 7; WrAccept 1000] [FlOk] [] [] in
  let '(res, w', hlog) := client_handshake ex_oreq ex_oresp true (Some B"/") (client_headers B"h" ex_key) w in
  res = HsDone Client ex_frames /\
  hs_wire hlog = request_bytes B"/" B"h" B"Upgrade" B"websocket" B"13" ex_key [] /\
  hs_data_read hlog = ex_resp_bytes ++ ex_frames.
Proof. vm_compute. repeat split; reflexivity. Qed.

(* a wrong accept value arriving the same way: the handshake fails *)
Example C16_ex_handshake_mismatch :
  let w := mkWorld [RdData ex_resp_bytes] [WrAccept 1000] [FlOk] [] [] in
  let '(res, w', hlog) := client_handshake ex_oreq ex_oresp true (Some B"/") (client_headers B"h" B"AAAAAAAAAAAAAAAAAAAAAA==") w in
  res = HsFail (HEProto SecWebSocketAcceptKeyMismatch).
Proof. vm_compute. reflexivity. Qed.


(* the example oracle satisfies the parser hypotheses P1 and P2 of C16_tail_stream / _segmentation *)
Example C16_ex_P1P2 :
  (forall buf n a, ex_oresp buf = OComplete n a -> n <= blen buf) /\
  (forall buf more n a, ex_oresp buf = OComplete n a -> ex_oresp (buf ++ more) = OComplete n a).
Proof. exact (prefix_oracle_P1P2 raw_resp ex_resp_bytes (mkRawResp 1 101 true ex_resp_hdrs)). Qed.

(* the new socket of C16_ex_handshake decodes the frame that came with the head *)
Example C16_ex_first_read :
  drive 20 None false false (codec_new ex_frames) (mkWorld [] [] [] [] [])
  = frames_ref None false false None (ex_frames ++ []) (sched_end []).
Proof. vm_compute. reflexivity. Qed.

Print Assumptions C16_request_shape.
Print Assumptions C16_request_reads_back.
Print Assumptions C16_required_once.
Print Assumptions C16_request_missing.
Print Assumptions C16_request_no_path.
Print Assumptions C16_from_uri.
Print Assumptions C16_from_uri_host.
Print Assumptions C16_from_uri_errors.
Print Assumptions C16_key_shape.
Print Assumptions C16_self_accept.
Print Assumptions C16_self_accept_bytes.
Print Assumptions C16_verify_iff.
Print Assumptions C16_accept_mismatch.
Print Assumptions C16_accept_single_char.
Print Assumptions C16_verify_errors.
Print Assumptions C16_client_stages.
Print Assumptions C16_tail.
Print Assumptions C16_tail_stream.
Print Assumptions C16_tail_segmentation.
Print Assumptions C16_tail_first_read.
Print Assumptions C16_wire_prefix.
Print Assumptions C16_completes.
Print Assumptions C16_read_result.
