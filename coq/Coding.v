(* Coding.v — model of src/protocol/frame/coding.rs: OpCode <-> u8, CloseCode <-> u16, is_allowed. *)
From TungModel Require Export Base.

Inductive data_op := Continue | Text | Binary | DReserved (i : N).
Inductive ctl_op := Close | Ping | Pong | CReserved (i : N).
Inductive opcode := OData (d : data_op) | OCtl (c : ctl_op).

(* impl From<OpCode> for u8 *)
Definition opcode_to_u8 (o : opcode) : N :=
  match o with
  | OData Continue => 0 | OData Text => 1 | OData Binary => 2 | OData (DReserved i) => i
  | OCtl Close => 8 | OCtl Ping => 9 | OCtl Pong => 10 | OCtl (CReserved i) => i
  end.

(* impl From<u8> for OpCode; None = the `panic!("Bug: OpCode out of range")` arm *)
Definition opcode_of_u8 (b : N) : option opcode :=
  if b =? 0 then Some (OData Continue)
  else if b =? 1 then Some (OData Text)
  else if b =? 2 then Some (OData Binary)
  else if b <=? 7 then Some (OData (DReserved b))
  else if b =? 8 then Some (OCtl Close)
  else if b =? 9 then Some (OCtl Ping)
  else if b =? 10 then Some (OCtl Pong)
  else if b <=? 15 then Some (OCtl (CReserved b))
  else None.

Definition is_reserved (o : opcode) : bool :=
  match o with OData (DReserved _) | OCtl (CReserved _) => true | _ => false end.
Definition is_control (o : opcode) : bool := match o with OCtl _ => true | _ => false end.

Definition data_op_eqb (a b : data_op) : bool :=
  match a, b with
  | Continue, Continue | Text, Text | Binary, Binary => true
  | DReserved i, DReserved j => i =? j
  | _, _ => false
  end.
Definition ctl_op_eqb (a b : ctl_op) : bool :=
  match a, b with
  | Close, Close | Ping, Ping | Pong, Pong => true
  | CReserved i, CReserved j => i =? j
  | _, _ => false
  end.
Definition opcode_eqb (a b : opcode) : bool :=
  match a, b with
  | OData x, OData y => data_op_eqb x y
  | OCtl x, OCtl y => ctl_op_eqb x y
  | _, _ => false
  end.

Inductive close_code :=
| CNormal | CAway | CProtocol | CUnsupported | CStatus | CAbnormal | CInvalid | CPolicy | CSize
| CExtension | CError | CRestart | CAgain | CTls
| CReservedC (c : N) | CIana (c : N) | CLibrary (c : N) | CBad (c : N).

(* impl From<u16> for CloseCode — the match arms in source order *)
Definition close_of_u16 (c : N) : close_code :=
  if c =? 1000 then CNormal else if c =? 1001 then CAway else if c =? 1002 then CProtocol
  else if c =? 1003 then CUnsupported else if c =? 1005 then CStatus else if c =? 1006 then CAbnormal
  else if c =? 1007 then CInvalid else if c =? 1008 then CPolicy else if c =? 1009 then CSize
  else if c =? 1010 then CExtension else if c =? 1011 then CError else if c =? 1012 then CRestart
  else if c =? 1013 then CAgain else if c =? 1015 then CTls
  else if (1 <=? c) && (c <=? 999) then CBad c
  else if (1016 <=? c) && (c <=? 2999) then CReservedC c
  else if (3000 <=? c) && (c <=? 3999) then CIana c
  else if (4000 <=? c) && (c <=? 4999) then CLibrary c
  else CBad c.

(* impl From<CloseCode> for u16 *)
Definition close_to_u16 (c : close_code) : N :=
  match c with
  | CNormal => 1000 | CAway => 1001 | CProtocol => 1002 | CUnsupported => 1003 | CStatus => 1005
  | CAbnormal => 1006 | CInvalid => 1007 | CPolicy => 1008 | CSize => 1009 | CExtension => 1010
  | CError => 1011 | CRestart => 1012 | CAgain => 1013 | CTls => 1015
  | CReservedC c | CIana c | CLibrary c | CBad c => c
  end.

(* CloseCode::is_allowed *)
Definition close_allowed (c : close_code) : bool :=
  match c with
  | CBad _ | CReservedC _ | CStatus | CAbnormal | CTls => false
  | _ => true
  end.
