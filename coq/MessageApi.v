(* MessageApi.v — the accessor / conversion API of `Message` and `Frame`
   (src/protocol/message.rs `impl Message`, `From` impls, `Display`; src/protocol/frame/frame.rs
   `Frame::{len,is_empty,payload,into_payload,into_text,to_text,message,ping,pong,close}`).
   A Rust `Utf8Bytes` is a byte string that is valid UTF-8 by construction; in the model it is a
   plain `bytes` and the validity is the predicate `wf_msg` below. *)
From TungModel Require Import Base Coding Mask Header Frame Utf8 World Message.

Definition msg_is_text (m : message) : bool := match m with MText _ => true | _ => false end.
Definition msg_is_binary (m : message) : bool := match m with MBinary _ => true | _ => false end.
Definition msg_is_ping (m : message) : bool := match m with MPing _ => true | _ => false end.
Definition msg_is_pong (m : message) : bool := match m with MPong _ => true | _ => false end.
Definition msg_is_close (m : message) : bool := match m with MClose _ => true | _ => false end.

(* Message::len *)
Definition msg_len (m : message) : N :=
  match m with
  | MText b | MBinary b | MPing b | MPong b => blen b
  | MClose None => 0
  | MClose (Some (_, reason)) => blen reason
  | MFrame f => frame_len f
  end.

Definition msg_is_empty (m : message) : bool := msg_len m =? 0.

(* Message::into_data, From<Message> for Bytes *)
Definition msg_into_data (m : message) : bytes :=
  match m with
  | MText b | MBinary b | MPing b | MPong b => b
  | MClose None => []
  | MClose (Some (_, reason)) => reason
  | MFrame f => f_payload f
  end.

(* Utf8Bytes::try_from(Bytes) : Ok iff std::str::from_utf8 accepts *)
Definition utf8_try_from (b : bytes) : option bytes := if is_utf8 b then Some b else None.

(* Frame::into_text / Frame::to_text *)
Definition frame_into_text (f : frame) : option bytes := utf8_try_from (f_payload f).

(* Message::into_text and Message::to_text (same function on the model: one moves, one borrows) *)
Definition msg_into_text (m : message) : option bytes :=
  match m with
  | MText b => Some b
  | MBinary b | MPing b | MPong b => utf8_try_from b
  | MClose None => Some []
  | MClose (Some (_, reason)) => Some reason
  | MFrame f => frame_into_text f
  end.

(* decimal digits of n, most significant first (usize Display) *)
Fixpoint dec_digits_aux (fuel : nat) (n : N) (acc : bytes) : bytes :=
  match fuel with
  | O => acc
  | S k => let acc' := (48 + n mod 10) :: acc in
           if n <? 10 then acc' else dec_digits_aux k (n / 10) acc'
  end.
Definition dec_digits (n : N) : bytes := dec_digits_aux (S (N.to_nat (N.log2 n))) n [].

(* "Binary Data<length=" and ">" *)
Definition display_prefix : bytes :=
  [66;105;110;97;114;121;32;68;97;116;97;60;108;101;110;103;116;104;61].
Definition display_suffix : bytes := [62].

(* impl Display for Message *)
Definition msg_display (m : message) : bytes :=
  match msg_into_text m with
  | Some s => s
  | None => display_prefix ++ dec_digits (msg_len m) ++ display_suffix
  end.

(* constructors: Message::text / From<String> / From<&str> build Text from a (valid) string;
   Message::binary / From<&[u8]> / From<Vec<u8>> / From<Bytes> build Binary *)
Definition msg_text (s : bytes) : message := MText s.
Definition msg_binary (b : bytes) : message := MBinary b.

(* a Rust value of type Message: its Utf8Bytes fields hold valid UTF-8 *)
Definition wf_msg (m : message) : bool :=
  match m with
  | MText b => is_utf8 b
  | MClose (Some (_, reason)) => is_utf8 reason
  | _ => true
  end.

(* Frame::is_empty: len() == 0 (a frame is never empty: its header has at least two bytes) *)
Definition frame_is_empty (f : frame) : bool := frame_len f =? 0.
