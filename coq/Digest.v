(* Digest.v — a canonical serialisation of everything a socket run produces (per-op results and the full
   event log) and a digest of it. Extracted with the model; the same function is evaluated inside Coq
   (vm_compute) on a sample of the cases of every check and compared with the extracted driver's value:
   a cross-check of extraction + OCaml compilation + driver glue (tools/kernel_xcheck.py). *)
From TungModel Require Export Protocol.

Definition ser_bytes (b : bytes) : list N := blen b :: b.
Definition ser_opt {A} (f : A -> list N) (o : option A) : list N :=
  match o with None => [0] | Some a => 1 :: f a end.
Definition ser_bool (b : bool) : N := if b then 1 else 0.
Definition ser_key (k : key) : list N := key_bytes k.
Definition ser_header (h : header) : list N :=
  [ser_bool (h_fin h); ser_bool (h_rsv1 h); ser_bool (h_rsv2 h); ser_bool (h_rsv3 h); opcode_to_u8 (h_opcode h)]
  ++ ser_opt ser_key (h_mask h).
Definition ser_frame (f : frame) : list N := ser_header (f_hdr f) ++ ser_bytes (f_payload f).
Definition ser_close (c : close_frame) : list N := close_to_u16 (fst c) :: ser_bytes (snd c).
Definition ser_message (m : message) : list N :=
  match m with
  | MText b => 1 :: ser_bytes b | MBinary b => 2 :: ser_bytes b | MPing b => 3 :: ser_bytes b
  | MPong b => 4 :: ser_bytes b | MClose c => 5 :: ser_opt ser_close c | MFrame f => 6 :: ser_frame f
  end.
Definition ser_io (k : io_kind) : N :=
  match k with WouldBlock => 1 | ConnReset => 2 | Interrupted => 3 | IoOther => 4 end.
Definition ser_data_op (d : data_op) : N :=
  match d with Continue => 0 | Text => 1 | Binary => 2 | DReserved i => i end.
Definition ser_proto (p : proto_err) : list N :=
  match p with
  | ResetWithoutClosingHandshake => [1] | SendAfterClosing => [2] | ReceivedAfterClosing => [3]
  | NonZeroReservedBits => [4] | UnmaskedFrameFromClient => [5] | MaskedFrameFromServer => [6]
  | FragmentedControlFrame => [7] | ControlFrameTooBig => [8] | UnknownControlFrameType i => [9; i]
  | UnknownDataFrameType i => [10; i] | UnexpectedContinueFrame => [11] | ExpectedFragment d => [12; ser_data_op d]
  | InvalidCloseSequence => [13] | InvalidOpcode i => [14; i]
  end.
Definition ser_error (e : error) : list N :=
  match e with
  | EConnectionClosed => [1] | EAlreadyClosed => [2] | EIo k => [3; ser_io k] | ECapacity s m => [4; s; m]
  | EProtocol p => 5 :: ser_proto p | EWriteBufferFull f => 6 :: ser_frame f | EUtf8 => [7]
  end.
Definition ser_res {A} (f : A -> list N) (r : res A) : list N :=
  match r with
  | ROk a => 1 :: f a | RErr e => 2 :: ser_error e | RPanic s => [3; s] | ROutOfFuel => [4]
  end.
Definition ser_op_result (r : op_result) : list N :=
  match r with
  | ResMsg m => 1 :: ser_res ser_message m
  | ResUnit u => 2 :: ser_res (fun _ => []) u
  | ResBool b => [3; ser_bool b]
  end.
Definition ser_rd (r : rd_out) : list N :=
  match r with RdData b => 1 :: ser_bytes b | RdEof => [2] | RdErr k => [3; ser_io k] end.
Definition ser_event (e : event) : list N :=
  match e with
  | EvRead r => 1 :: ser_rd r
  | EvWrite off acc => 2 :: off :: ser_bytes acc
  | EvWriteErr off k => [3; off; ser_io k]
  | EvFlush FlOk => [4]
  | EvFlush (FlErr k) => [5; ser_io k]
  | EvQueue f => 6 :: ser_frame f
  | EvReserve n => [7; n]
  end.

Definition digest_mod : N := 2305843009213693951.   (* 2^61 - 1 *)
Definition digest_list (l : list N) : N :=
  fold_left (fun h x => (h * 1000003 + x + 1) mod digest_mod) l 7.

(* the whole observable outcome of a socket case *)
Definition ser_run (out : list (op_result * N) * ctx * world) : list N :=
  let '(rs, x, w) := out in
  concat (map (fun rn => ser_op_result (fst rn) ++ [snd rn]) rs)
  ++ concat (map ser_event (w_log w))
  ++ ser_bytes (c_in (x_codec x)) ++ ser_bytes (c_out (x_codec x)).

Definition run_digest (r : role) (part : bytes) (cfg : config) (ops : list op) (w : world) : N :=
  match ctx_new r part cfg with
  | None => 0
  | Some x => digest_list (ser_run (run_ops x ops w))
  end.
