(* World.v — messages, errors, the transport oracle ("world"), the event log and the result type. *)
From TungModel Require Export Base Coding Mask Header Frame Utf8.

(* Message (src/protocol/message.rs). MText carries the bytes of a Utf8Bytes. *)
Inductive message :=
| MText (b : bytes) | MBinary (b : bytes) | MPing (b : bytes) | MPong (b : bytes)
| MClose (c : option close_frame) | MFrame (f : frame).

Inductive io_kind := WouldBlock | ConnReset | Interrupted | IoOther.

Inductive proto_err :=
| ResetWithoutClosingHandshake | SendAfterClosing | ReceivedAfterClosing | NonZeroReservedBits
| UnmaskedFrameFromClient | MaskedFrameFromServer | FragmentedControlFrame | ControlFrameTooBig
| UnknownControlFrameType (i : N) | UnknownDataFrameType (i : N) | UnexpectedContinueFrame
| ExpectedFragment (d : data_op) | InvalidCloseSequence | InvalidOpcode (i : N).

Inductive error :=
| EConnectionClosed | EAlreadyClosed | EIo (k : io_kind)
| ECapacity (size max : N)            (* CapacityError::MessageTooLong *)
| EProtocol (p : proto_err)
| EWriteBufferFull (f : frame)        (* Error::WriteBufferFull(Message::Frame(f)) *)
| EUtf8.

(* Outcome of a modelled call. Each expect/unwrap/unreachable!/assert!/panic! of the modelled Rust
   is a distinct site; OutOfFuel is the model's own "ran out of fuel" and is never a normal answer. *)
Inductive res (A : Type) := ROk (a : A) | RErr (e : error) | RPanic (site : N) | ROutOfFuel.
Arguments ROk {A} a. Arguments RErr {A} e. Arguments RPanic {A} site. Arguments ROutOfFuel {A}.

(* panic sites *)
Definition site_no_frame_header : N := 1.     (* read_frame: expect("Bug: no frame header") *)
Definition site_do_close_unreachable : N := 2.
Definition site_not_text_nor_binary : N := 3.
Definition site_incomplete_unwrap : N := 4.
Definition site_opcode_range : N := 5.        (* OpCode::from / parse_internal assert *)
Definition site_utf8_checked_sub : N := 6.    (* utf-8 crate unwraps, Incomplete::new copy *)
Definition site_overflow : N := 7.            (* usize arithmetic overflow *)
Definition site_config_invalid : N := 8.      (* WebSocketConfig::assert_valid (documented) *)
Definition site_payload_len_assert : N := 9.  (* debug_assert_eq!(payload.len(), length) *)

(* transport oracle *)
Inductive rd_out := RdData (bs : bytes) | RdEof | RdErr (k : io_kind).
Inductive wr_out := WrAccept (n : N) | WrErr (k : io_kind).
Inductive fl_out := FlOk | FlErr (k : io_kind).

Inductive event :=
| EvRead (r : rd_out)
| EvWrite (offered : N) (accepted : bytes)     (* stream.write(buf) returned Ok(|accepted|); buf had `offered` bytes *)
| EvWriteErr (offered : N) (k : io_kind)
| EvFlush (r : fl_out)
| EvQueue (f : frame)                          (* ghost: f was appended to out_buffer *)
| EvReserve (n : N).                           (* ghost: in_buffer.reserve(n) *)

Record world := mkWorld {
  w_rds : list rd_out; w_wrs : list wr_out; w_fls : list fl_out; w_keys : list key;
  w_log : list event }.

Definition w_emit (w : world) (e : event) : world :=
  mkWorld (w_rds w) (w_wrs w) (w_fls w) (w_keys w) (w_log w ++ [e]).
Definition w_set_rds (w : world) (r : list rd_out) : world :=
  mkWorld r (w_wrs w) (w_fls w) (w_keys w) (w_log w).
Definition w_set_wrs (w : world) (r : list wr_out) : world :=
  mkWorld (w_rds w) r (w_fls w) (w_keys w) (w_log w).
Definition w_set_fls (w : world) (r : list fl_out) : world :=
  mkWorld (w_rds w) (w_wrs w) r (w_keys w) (w_log w).

(* generate_mask(): next key of the oracle; an exhausted oracle yields the zero key *)
Definition w_next_key (w : world) : key * world :=
  match w_keys w with
  | k :: ks => (k, mkWorld (w_rds w) (w_wrs w) (w_fls w) ks (w_log w))
  | [] => ((0, 0, 0, 0), w)
  end.

(* stream.flush() *)
Definition w_flush (w : world) : res unit * world :=
  match w_fls w with
  | FlOk :: r => (ROk tt, w_emit (w_set_fls w r) (EvFlush FlOk))
  | FlErr k :: r => (RErr (EIo k), w_emit (w_set_fls w r) (EvFlush (FlErr k)))
  | [] => (RErr (EIo WouldBlock), w_emit w (EvFlush (FlErr WouldBlock)))
  end.

(* the bytes the transport has accepted so far *)
Fixpoint wire (log : list event) : bytes :=
  match log with
  | [] => []
  | EvWrite _ acc :: r => acc ++ wire r
  | _ :: r => wire r
  end.
(* ghost: frames appended to out_buffer so far, in order *)
Fixpoint queued (log : list event) : list frame :=
  match log with
  | [] => []
  | EvQueue f :: r => f :: queued r
  | _ :: r => queued r
  end.
