(* Handshake.v — model of src/handshake/{machine,mod,server,client,headers}.rs, src/buffer.rs,
   src/client.rs (IntoClientRequest for Uri) and src/server.rs.
   The HTTP head parser (httparse + the http crate's validation) is NOT modelled: it is the
   parameter `oracle` (bytes -> raw parse outcome). Everything applied to the parsed head, the
   round machine, the DoS guard, the buffers and the serialisers are modelled. *)
From Coq Require Import String Ascii.
From TungModel Require Export World Message Codec Protocol Sha1.
Open Scope N_scope.

Fixpoint ascii_bytes (s : string) : bytes :=
  match s with
  | EmptyString => []
  | String c r => N_of_ascii c :: ascii_bytes r
  end.
Notation "'B' s" := (ascii_bytes s) (at level 0, s at level 0).

(* ---- ASCII helpers (Rust: eq_ignore_ascii_case, HeaderValue::to_str, str::trim, str::split) ---- *)
Definition lower (b : N) : N := if (65 <=? b) && (b <=? 90) then b + 32 else b.
Definition eq_ic (a b : bytes) : bool := bytes_eqb (map lower a) (map lower b).
Definition visible (b : N) : bool := ((32 <=? b) && (b <? 127)) || (b =? 9).
Definition to_str (v : bytes) : option bytes := if forallb visible v then Some v else None.
Definition is_ws (b : N) : bool := (b =? 32) || ((9 <=? b) && (b <=? 13)).
Fixpoint trim_start (s : bytes) : bytes :=
  match s with b :: r => if is_ws b then trim_start r else s | [] => [] end.
Definition trim (s : bytes) : bytes := rev (trim_start (rev (trim_start s))).
(* split on a separator predicate, keeping empty pieces (str::split) *)
Fixpoint split_on (sep : N -> bool) (s : bytes) (cur : bytes) : list bytes :=
  match s with
  | [] => [rev cur]
  | b :: r => if sep b then rev cur :: split_on sep r [] else split_on sep r (b :: cur)
  end.

Definition headers := list (bytes * bytes).       (* names already lower-case (HeaderMap) *)
Fixpoint hget (name : bytes) (hs : headers) : option bytes :=
  match hs with
  | [] => None
  | (n, v) :: r => if bytes_eqb n name then Some v else hget name r
  end.
Definition hremove (name : bytes) (hs : headers) : headers :=
  filter (fun nv => negb (bytes_eqb (fst nv) name)) hs.

(* ---- errors of the handshake API ---- *)
Inductive hs_proto :=
| WrongHttpMethod | WrongHttpVersion | MissingConnectionUpgradeHeader | MissingUpgradeWebSocketHeader
| MissingSecWebSocketVersionHeader | MissingSecWebSocketKey | SecWebSocketAcceptKeyMismatch
| SubNoSubProtocol | SubServerSentNoneRequested | SubInvalidSubProtocol
| JunkAfterRequest | CustomResponseSuccessful | InvalidHeader (name : bytes) | HandshakeIncomplete.
Inductive hs_error :=
| HEProto (p : hs_proto) | HEHttparse | HETooManyHeaders | HEHttpFormat | HEAttack | HEIo (k : io_kind)
| HEHttp (status : N) (body : option bytes) | HEUtf8 | HEUrlNoPath | HEUrlScheme | HEUrlNoHost | HEUrlEmptyHost.

Inductive hres (A : Type) := HOk (a : A) | HErr (e : hs_error).
Arguments HOk {A} a. Arguments HErr {A} e.

(* ---- the parser oracle ---- *)
Record raw_req := mkRawReq {
  rq_method : bytes; rq_version : N; rq_path : bytes; rq_fmt_ok : bool; rq_headers : headers }.
Record raw_resp := mkRawResp {
  rs_version : N; rs_code : N; rs_fmt_ok : bool; rs_headers : headers }.
Inductive oracle_out (A : Type) := OPartial | OComplete (n : N) (a : A) | OErrHttparse | OErrTooMany.
Arguments OPartial {A}. Arguments OComplete {A} n a. Arguments OErrHttparse {A}. Arguments OErrTooMany {A}.

Inductive parsed (A : Type) := PPartial | PComplete (n : N) (a : A) | PFail (e : hs_error).
Arguments PPartial {A}. Arguments PComplete {A} n a. Arguments PFail {A} e.

(* impl TryParse for server::Request  (+ from_httparse) *)
Record request := mkRequest { req_path : bytes; req_headers : headers }.
Definition try_parse_request (o : oracle_out raw_req) : parsed request :=
  match o with
  | OPartial => PPartial
  | OErrHttparse => PFail HEHttparse
  | OErrTooMany => PFail HETooManyHeaders
  | OComplete n r =>
      if negb (bytes_eqb (rq_method r) B"GET") then PFail (HEProto WrongHttpMethod)
      else if rq_version r <? 1 then PFail (HEProto WrongHttpVersion)
      else if negb (rq_fmt_ok r) then PFail HEHttpFormat
      else PComplete n (mkRequest (rq_path r) (rq_headers r))
  end.

(* impl TryParse for client::Response (+ from_httparse) *)
Record response := mkResponse { resp_status : N; resp_headers : headers }.
Definition try_parse_response (o : oracle_out raw_resp) : parsed response :=
  match o with
  | OPartial => PPartial
  | OErrHttparse => PFail HEHttparse
  | OErrTooMany => PFail HETooManyHeaders
  | OComplete n r =>
      if rs_version r <? 1 then PFail (HEProto WrongHttpVersion)
      else if negb (rs_fmt_ok r) then PFail HEHttpFormat
      else PComplete n (mkResponse (rs_code r) (rs_headers r))
  end.

(* ---- server decision: create_parts / create_response ---- *)
Definition has_upgrade_token (v : bytes) : bool :=
  existsb (fun p => eq_ic p B"Upgrade") (split_on (fun b => (b =? 32) || (b =? 44)) v []).

Definition create_parts (method_get version_ge_11 : bool) (hs : headers) : hres headers :=
  if negb method_get then HErr (HEProto WrongHttpMethod) else
  if negb version_ge_11 then HErr (HEProto WrongHttpVersion) else
  if negb (match hget B"connection" hs with
           | Some h => match to_str h with Some s => has_upgrade_token s | None => false end
           | None => false end)
  then HErr (HEProto MissingConnectionUpgradeHeader) else
  if negb (match hget B"upgrade" hs with
           | Some h => match to_str h with Some s => eq_ic s B"websocket" | None => false end
           | None => false end)
  then HErr (HEProto MissingUpgradeWebSocketHeader) else
  if negb (match hget B"sec-websocket-version" hs with Some h => bytes_eqb h B"13" | None => false end)
  then HErr (HEProto MissingSecWebSocketVersionHeader) else
  match hget B"sec-websocket-key" hs with
  | None => HErr (HEProto MissingSecWebSocketKey)
  | Some key =>
      HOk [(B"connection", B"Upgrade"); (B"upgrade", B"websocket");
           (B"sec-websocket-accept", derive_accept_key key)]
  end.

(* StatusCode Display: "<code> <canonical reason>" for the codes the generators use *)
Definition status_text (code : N) : bytes :=
  if code =? 101 then B"101 Switching Protocols" else if code =? 200 then B"200 OK"
  else if code =? 100 then B"100 Continue" else if code =? 301 then B"301 Moved Permanently"
  else if code =? 302 then B"302 Found" else if code =? 304 then B"304 Not Modified"
  else if code =? 204 then B"204 No Content"
  else if code =? 400 then B"400 Bad Request" else if code =? 401 then B"401 Unauthorized"
  else if code =? 403 then B"403 Forbidden" else if code =? 404 then B"404 Not Found"
  else if code =? 500 then B"500 Internal Server Error" else if code =? 503 then B"503 Service Unavailable"
  else B"<unsupported by model>".

Definition crlf : bytes := [13; 10].
(* write_response; None = a header value that is not visible ASCII (ToStrError -> Error::Utf8) *)
Fixpoint write_headers (hs : headers) : option bytes :=
  match hs with
  | [] => Some []
  | (n, v) :: r =>
      match to_str v, write_headers r with
      | Some s, Some rest => Some (n ++ B": " ++ s ++ crlf ++ rest)
      | _, _ => None
      end
  end.
Definition write_response (status : N) (hs : headers) : option bytes :=
  match write_headers hs with
  | Some h => Some (B"HTTP/1.1 " ++ status_text status ++ crlf ++ h ++ crlf)
  | None => None
  end.

Inductive callback :=
| CbNone
| CbAdd (extra : headers)                                   (* Ok(response with extra headers appended) *)
| CbReject (status : N) (hs : headers) (body : option bytes). (* Err(ErrorResponse) *)

(* ---- client: generate_request, verify_response, IntoClientRequest for Uri ---- *)
Definition required_headers : list (bytes * bytes) :=   (* lower-case name, name as written *)
  [(B"host", B"Host"); (B"connection", B"Connection"); (B"upgrade", B"Upgrade");
   (B"sec-websocket-version", B"Sec-WebSocket-Version"); (B"sec-websocket-key", B"Sec-WebSocket-Key")].

Fixpoint write_required (req : list (bytes * bytes)) (hs : headers) : hres (bytes * headers) :=
  match req with
  | [] => HOk ([], hs)
  | (lname, wname) :: r =>
      match hget lname hs with
      | None => HErr (HEProto (InvalidHeader lname))
      | Some v =>
          match to_str v with
          | None => HErr HEUtf8
          | Some s =>
              match write_required r (hremove lname hs) with
              | HErr e => HErr e
              | HOk (rest, hs') => HOk (wname ++ B": " ++ s ++ crlf ++ rest, hs')
              end
          end
      end
  end.

Definition fix_name (n : bytes) : bytes :=
  if bytes_eqb n B"sec-websocket-protocol" then B"Sec-WebSocket-Protocol"
  else if bytes_eqb n B"origin" then B"Origin" else n.

Fixpoint write_extra (hs : headers) : hres bytes :=
  match hs with
  | [] => HOk []
  | (n, v) :: r =>
      if existsb (fun q => bytes_eqb (fst q) n) required_headers then HErr (HEProto (InvalidHeader n)) else
      match to_str v with
      | None => HErr HEUtf8
      | Some s => match write_extra r with
                  | HErr e => HErr e
                  | HOk rest => HOk (fix_name n ++ B": " ++ s ++ crlf ++ rest)
                  end
      end
  end.

(* generate_request: (request bytes, key). path = None models a URI without path_and_query *)
Definition generate_request (path : option bytes) (hs : headers) : hres (bytes * bytes) :=
  match path with
  | None => HErr HEUrlNoPath
  | Some p =>
      match hget B"sec-websocket-key" hs with
      | None => HErr (HEProto (InvalidHeader B"sec-websocket-key"))
      | Some kv =>
          match to_str kv with
          | None => HErr HEUtf8
          | Some key =>
              match write_required required_headers hs with
              | HErr e => HErr e
              | HOk (reqd, rest) =>
                  match write_extra rest with
                  | HErr e => HErr e
                  | HOk extra => HOk (B"GET " ++ p ++ B" HTTP/1.1" ++ crlf ++ reqd ++ extra ++ crlf, key)
                  end
              end
          end
      end
  end.

(* extract_subprotocols_from_request *)
Definition extract_subprotocols (hs : headers) : hres (option (list bytes)) :=
  match hget B"sec-websocket-protocol" hs with
  | None => HOk None
  | Some v => match to_str v with
              | None => HErr HEUtf8
              | Some s => HOk (Some (map trim (split_on (fun b => b =? 44) s [])))
              end
  end.

(* VerifyData::verify_response *)
Definition verify_response (accept_key : bytes) (subprotocols : option (list bytes)) (r : response)
  : hres response :=
  if negb (resp_status r =? 101) then HErr (HEHttp (resp_status r) None) else
  let hs := resp_headers r in
  if negb (match hget B"upgrade" hs with
           | Some h => match to_str h with Some s => eq_ic s B"websocket" | None => false end
           | None => false end)
  then HErr (HEProto MissingUpgradeWebSocketHeader) else
  if negb (match hget B"connection" hs with
           | Some h => match to_str h with Some s => eq_ic s B"Upgrade" | None => false end
           | None => false end)
  then HErr (HEProto MissingConnectionUpgradeHeader) else
  if negb (match hget B"sec-websocket-accept" hs with Some h => bytes_eqb h accept_key | None => false end)
  then HErr (HEProto SecWebSocketAcceptKeyMismatch) else
  match hget B"sec-websocket-protocol" hs, subprotocols with
  | None, Some _ => HErr (HEProto SubNoSubProtocol)
  | Some _, None => HErr (HEProto SubServerSentNoneRequested)
  | Some ret, Some offered =>
      match to_str ret with
      | None => HErr HEUtf8
      | Some s => if existsb (bytes_eqb s) offered then HOk r else HErr (HEProto SubInvalidSubProtocol)
      end
  | None, None => HOk r
  end.

(* IntoClientRequest for Uri: Host = authority after the LAST '@' (userinfo stripped) *)
Fixpoint after_last_at (s : bytes) (acc : bytes) : bytes :=
  match s with
  | [] => acc
  | b :: r => if b =? 64 then after_last_at r r else after_last_at r acc
  end.
Definition host_of_authority (authority : bytes) : bytes := after_last_at authority authority.

Definition into_client_request (authority : option bytes) (key : bytes) : hres headers :=
  match authority with
  | None => HErr HEUrlNoHost
  | Some a =>
      match host_of_authority a with
      | [] => HErr HEUrlEmptyHost
      | host => HOk [(B"host", host); (B"connection", B"Upgrade"); (B"upgrade", B"websocket");
                     (B"sec-websocket-version", B"13"); (B"sec-websocket-key", key)]
      end
  end.

(* ---- AttackCheck ---- *)
Definition attack_check (packets nbytes size : N) : option (N * N) :=
  let p := packets + 1 in
  let b := nbytes + size in
  if 65536 <? b then None
  else if 512 <? p then None
  else if (64 <? p) && (b <? p * 128) then None
  else Some (p, b).

(* ---- the round machine ---- *)
Inductive hs_state :=
| HReading (buf : bytes) (packets nbytes : N)
| HWriting (rest : bytes)
| HFlushing.

Inductive hs_event := HsEv (e : event) | HsInterrupted.

Definition site_hs_write_nothing : N := 20.   (* assert!(buf.has_remaining()) *)
Definition site_hs_write_zero : N := 21.      (* assert!(size > 0) *)

Inductive role_data :=
| RServer (cb : callback) (pending_error : option (N * option bytes))
| RClient (accept_key : bytes) (subprotocols : option (list bytes)).

Inductive hs_result :=
| HsDone (r : role) (tail : bytes)           (* WebSocket::from_raw_socket / from_partially_read(tail) *)
| HsFail (e : hs_error)
| HsPanic (site : N)
| HsBlocked                                   (* oracle exhausted: the handshake stays Interrupted *)
| HsOutOfFuel.

Section Machine.
  Variable oracle_req : bytes -> oracle_out raw_req.
  Variable oracle_resp : bytes -> oracle_out raw_resp.

  (* ServerHandshake::stage_finished(DoneReading) *)
  Definition server_done_reading (cb : callback) (req : request) (tail : bytes)
    : hres (bytes * option (N * option bytes)) :=
    match tail with
    | _ :: _ => HErr (HEProto JunkAfterRequest)
    | [] =>
        match create_parts true true (req_headers req) with
        | HErr e => HErr e
        | HOk resp_hs =>
            match cb with
            | CbNone =>
                match write_response 101 resp_hs with Some out => HOk (out, None) | None => HErr HEUtf8 end
            | CbAdd extra =>
                match write_response 101 (resp_hs ++ extra) with Some out => HOk (out, None) | None => HErr HEUtf8 end
            | CbReject status hs body =>
                if (200 <=? status) && (status <? 300) then HErr (HEProto CustomResponseSuccessful) else
                match write_response status hs with
                | Some out => HOk (out ++ match body with Some b => b | None => [] end, Some (status, body))
                | None => HErr HEUtf8
                end
            end
        end
    end.

  Fixpoint hs_loop (fuel : nat) (rd : role_data) (st : hs_state) (w : world) (hlog : list hs_event)
    : hs_result * world * list hs_event :=
    match fuel with
    | O => (HsOutOfFuel, w, hlog)
    | S fuel' =>
      match st with
      | HReading buf packets nbytes =>
          match w_rds w with
          | [] => (HsBlocked, w, hlog)
          | RdErr WouldBlock :: r =>
              hs_loop fuel' rd st (w_set_rds w r) (hlog ++ [HsEv (EvRead (RdErr WouldBlock)); HsInterrupted])
          | RdErr k :: r => (HsFail (HEIo k), w_set_rds w r, hlog ++ [HsEv (EvRead (RdErr k))])
          | RdEof :: r => (HsFail (HEProto HandshakeIncomplete), w_set_rds w r, hlog ++ [HsEv (EvRead RdEof)])
          | RdData [] :: r => (HsFail (HEProto HandshakeIncomplete), w_set_rds w r, hlog ++ [HsEv (EvRead RdEof)])
          | RdData bs :: r =>
              let w1 := w_set_rds w r in
              let hlog1 := hlog ++ [HsEv (EvRead (RdData bs))] in
              match attack_check packets nbytes (blen bs) with
              | None => (HsFail HEAttack, w1, hlog1)
              | Some (p', b') =>
                  let buf' := buf ++ bs in
                  match rd with
                  | RServer cb _ =>
                      match try_parse_request (oracle_req buf') with
                      | PPartial => hs_loop fuel' rd (HReading buf' p' b') w1 hlog1
                      | PFail e => (HsFail e, w1, hlog1)
                      | PComplete n req =>
                          match server_done_reading cb req (dropN n buf') with
                          | HErr e => (HsFail e, w1, hlog1)
                          | HOk (out, pend) => hs_loop fuel' (RServer cb pend) (HWriting out) w1 hlog1
                          end
                      end
                  | RClient accept_key subs =>
                      match try_parse_response (oracle_resp buf') with
                      | PPartial => hs_loop fuel' rd (HReading buf' p' b') w1 hlog1
                      | PFail e => (HsFail e, w1, hlog1)
                      | PComplete n resp =>
                          let tail := dropN n buf' in
                          match verify_response accept_key subs resp with
                          | HErr (HEHttp s _) => (HsFail (HEHttp s (Some tail)), w1, hlog1)
                          | HErr e => (HsFail e, w1, hlog1)
                          | HOk _ => (HsDone Client tail, w1, hlog1)
                          end
                      end
                  end
              end
          end
      | HWriting rest =>
          match rest with
          | [] => (HsPanic site_hs_write_nothing, w, hlog)
          | _ :: _ =>
            match w_wrs w with
            | [] => (HsBlocked, w, hlog)
            | WrErr WouldBlock :: r =>
                hs_loop fuel' rd st (w_set_wrs w r) (hlog ++ [HsEv (EvWriteErr (blen rest) WouldBlock); HsInterrupted])
            | WrErr k :: r => (HsFail (HEIo k), w_set_wrs w r, hlog ++ [HsEv (EvWriteErr (blen rest) k)])
            | WrAccept n :: r =>
                let n' := N.min n (blen rest) in
                let w1 := w_set_wrs w r in
                let hlog1 := hlog ++ [HsEv (EvWrite (blen rest) (takeN n' rest))] in
                if n' =? 0 then (HsFail (HEIo ConnReset), w1, hlog1)
                else
                  let rest' := dropN n' rest in
                  match rest' with
                  | [] => hs_loop fuel' rd HFlushing w1 hlog1
                  | _ :: _ => hs_loop fuel' rd (HWriting rest') w1 hlog1
                  end
            end
          end
      | HFlushing =>
          match w_fls w with
          | [] => (HsBlocked, w, hlog)
          | FlErr WouldBlock :: r =>
              hs_loop fuel' rd st (w_set_fls w r) (hlog ++ [HsEv (EvFlush (FlErr WouldBlock)); HsInterrupted])
          | FlErr k :: r => (HsFail (HEIo k), w_set_fls w r, hlog ++ [HsEv (EvFlush (FlErr k))])
          | FlOk :: r =>
              let w1 := w_set_fls w r in
              let hlog1 := hlog ++ [HsEv (EvFlush FlOk)] in
              match rd with
              | RServer _ (Some (status, body)) => (HsFail (HEHttp status body), w1, hlog1)
              | RServer _ None => (HsDone Server [], w1, hlog1)
              | RClient _ _ => hs_loop fuel' rd (HReading [] 0 0) w1 hlog1
              end
          end
      end
    end.

  Definition hs_fuel (w : world) : nat :=
    S (S (length (w_rds w) + length (w_wrs w) + length (w_fls w))).

  (* accept_hdr_with_config *)
  Definition server_handshake (cb : callback) (w : world) : hs_result * world * list hs_event :=
    hs_loop (hs_fuel w) (RServer cb None) (HReading [] 0 0) w [].

  (* client_with_config on an http::Request given as (scheme is ws/wss, path, headers); the method/version
     checks of ClientHandshake::start are outside (the harness only builds GET / HTTP/1.1 requests) *)
  Definition client_handshake (scheme_ok : bool) (path : option bytes) (hs : headers) (w : world)
    : hs_result * world * list hs_event :=
    if negb scheme_ok then (HsFail HEUrlScheme, w, []) else
    match extract_subprotocols hs with
    | HErr e => (HsFail e, w, [])
    | HOk subs =>
        match generate_request path hs with
        | HErr e => (HsFail e, w, [])
        | HOk (req, key) => hs_loop (hs_fuel w) (RClient (derive_accept_key key) subs) (HWriting req) w []
        end
    end.
End Machine.
