(* ReadBuf.v — src/buffer.rs: ReadBuffer<CHUNK_SIZE>, the FIFO the handshake machine reads the peer's
   head into (storage: Cursor<Vec<u8>> = a vector plus a read position; chunk: a scratch array).

     new / with_capacity / from_partially_read(part)   storage = part, position 0
     Buf::remaining / Buf::chunk                       what lies behind the position
     Buf::advance(cnt)                                 position += cnt  (panics past the end: bytes' Cursor impl)
     clean_up()                                        drain(0..position), position = 0          (private)
     read_from(stream)                                 clean_up(); n = stream.read(&mut chunk)?; storage.extend(chunk[..n])
     into_vec()                                        clean_up(); storage

   Handshake.v works with the abstract FIFO (a plain byte list: HReading buf ...); proofs/ReadBufP.v shows
   that this structure refines it: abs rb = the bytes behind the position. *)
From TungModel Require Import Base World.

Record rbuf := mkRbuf { rb_storage : bytes; rb_pos : N }.

Definition rb_from_partially_read (part : bytes) : rbuf := mkRbuf part 0.
Definition rb_new : rbuf := rb_from_partially_read [].

Definition rb_remaining (rb : rbuf) : N := blen (rb_storage rb) - rb_pos rb.
Definition rb_chunk (rb : rbuf) : bytes := dropN (rb_pos rb) (rb_storage rb).

(* None = the panic of <Cursor<_> as Buf>::advance when cnt exceeds what remains *)
Definition rb_advance (rb : rbuf) (cnt : N) : option rbuf :=
  if cnt <=? rb_remaining rb then Some (mkRbuf (rb_storage rb) (rb_pos rb + cnt)) else None.

Definition rb_clean_up (rb : rbuf) : rbuf := mkRbuf (dropN (rb_pos rb) (rb_storage rb)) 0.

Definition rb_into_vec (rb : rbuf) : bytes := rb_storage (rb_clean_up rb).

(* one transport read into the CHUNK_SIZE scratch array: `offered` is what the transport has ready; it hands over
   at most chunk_size bytes of it.  Returns the read result, the buffer, and what the transport keeps. *)
Definition rb_read_from (chunk_size : N) (rb : rbuf) (r : rd_out) : res N * rbuf * option bytes :=
  let rb' := rb_clean_up rb in
  match r with
  | RdData offered =>
      let got := takeN chunk_size offered in
      (ROk (blen got), mkRbuf (rb_storage rb' ++ got) 0,
       match dropN chunk_size offered with [] => None | rest => Some rest end)
  | RdEof => (ROk 0, rb', None)
  | RdErr k => (RErr (EIo k), rb', None)
  end.

(* a little machine for the correspondence check *)
Inductive rb_op := RbRead | RbAdvance (n : N) | RbChunk | RbRemaining.
Inductive rb_out := RbN (r : res N) | RbBytes (b : bytes) | RbPanic.

Fixpoint rb_run (chunk_size : N) (rb : rbuf) (ops : list rb_op) (rds : list rd_out) : list rb_out * option rbuf :=
  match ops with
  | [] => ([], Some rb)
  | o :: rest =>
      match o with
      | RbRead =>
          match rds with
          | [] => let '(outs, fin) := rb_run chunk_size (rb_clean_up rb) rest [] in
                  (RbN (RErr (EIo WouldBlock)) :: outs, fin)          (* exhausted script: WouldBlock *)
          | r :: rds' =>
              let '(res1, rb1, keep) := rb_read_from chunk_size rb r in
              let rds'' := match keep with Some k => RdData k :: rds' | None => rds' end in
              let '(outs, fin) := rb_run chunk_size rb1 rest rds'' in
              (RbN res1 :: outs, fin)
          end
      | RbAdvance n =>
          match rb_advance rb n with
          | Some rb1 => let '(outs, fin) := rb_run chunk_size rb1 rest rds in (RbN (ROk n) :: outs, fin)
          | None => ([RbPanic], None)
          end
      | RbChunk => let '(outs, fin) := rb_run chunk_size rb rest rds in (RbBytes (rb_chunk rb) :: outs, fin)
      | RbRemaining => let '(outs, fin) := rb_run chunk_size rb rest rds in (RbN (ROk (rb_remaining rb)) :: outs, fin)
      end
  end.
