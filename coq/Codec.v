(* Codec.v — model of FrameCodec in src/protocol/frame/mod.rs *)
From TungModel Require Export World Message.

Record codec := mkCodec {
  c_in : bytes;                        (* in_buffer *)
  c_out : bytes;                       (* out_buffer *)
  c_max_out : N;                       (* max_out_buffer_len *)
  c_write_len : N;                     (* out_buffer_write_len *)
  c_hdr : option (header * N) }.       (* header and payload length of the frame in progress *)

(* FrameCodec::new / from_partially_read *)
Definition codec_new (part : bytes) : codec := mkCodec part [] u64_max 0 None.

Definition set_in (c : codec) (i : bytes) : codec := mkCodec i (c_out c) (c_max_out c) (c_write_len c) (c_hdr c).
Definition set_out (c : codec) (o : bytes) : codec := mkCodec (c_in c) o (c_max_out c) (c_write_len c) (c_hdr c).
Definition set_hdr (c : codec) (h : option (header * N)) : codec := mkCodec (c_in c) (c_out c) (c_max_out c) (c_write_len c) h.
Definition set_limits (c : codec) (max wl : N) : codec := mkCodec (c_in c) (c_out c) max wl (c_hdr c).

(* One pass of the body of read_frame's loop before the transport read:
   parse a header if none is held, enforce the frame size limit, split off the payload if present. *)
Inductive take_res :=
| TkPayload (h : header) (len : N) (payload : bytes) (c : codec)   (* break: payload split off, header taken *)
| TkNeedMore (reserve : N) (c : codec)
| TkErr (e : error) (c : codec)
| TkPanic (site : N).

Definition try_take (max_size : N) (c : codec) : take_res :=
  let after_parse :=
    match c_hdr c with
    | Some _ => ROk c
    | None =>
        match header_parse (c_in c) with
        | POk h len k => ROk (set_hdr (set_in c (dropN k (c_in c))) (Some (h, len)))
        | PIncomplete => ROk c
        | PErr i => RErr (EProtocol (InvalidOpcode i))
        | PPanic => RPanic site_opcode_range
        end
    end in
  match after_parse with
  | ROk c1 =>
      match c_hdr c1 with
      | Some (h, len) =>
          if max_size <? len then TkErr (ECapacity len max_size) c1
          else if len <=? blen (c_in c1) then
            TkPayload h len (takeN len (c_in c1)) (set_hdr (set_in c1 (dropN len (c_in c1))) None)
          else TkNeedMore len c1
      | None => TkNeedMore 6 c1
      end
  | RErr e => TkErr e c
  | RPanic s => TkPanic s
  | ROutOfFuel => TkPanic 0
  end.

(* Result<Option<Frame>> *)
Fixpoint read_frame_loop (max_size : N) (rds : list rd_out) (c : codec) (log : list event)
  : res (option (header * N * bytes)) * codec * list rd_out * list event :=
  match try_take max_size c with
  | TkPayload h len p c' => (ROk (Some (h, len, p)), c', rds, log)
  | TkErr e c' => (RErr e, c', rds, log)
  | TkPanic s => (RPanic s, c, rds, log)
  | TkNeedMore n c' =>
      let log1 := log ++ [EvReserve n] in
      match rds with
      | [] => (RErr (EIo WouldBlock), c', [], log1 ++ [EvRead (RdErr WouldBlock)])
      | RdData [] :: r => (ROk None, c', r, log1 ++ [EvRead RdEof])   (* Ok(0) *)
      | RdData bs :: r => read_frame_loop max_size r (set_in c' (c_in c' ++ bs)) (log1 ++ [EvRead (RdData bs)])
      | RdEof :: r => (ROk None, c', r, log1 ++ [EvRead RdEof])
      | RdErr k :: r => (RErr (EIo k), c', r, log1 ++ [EvRead (RdErr k)])
      end
  end.

(* FrameCodec::read_frame *)
Definition read_frame (max_size : option N) (unmask accept_unmasked : bool) (c : codec) (w : world)
  : res (option frame) * codec * world :=
  let '(r, c', rds', log') := read_frame_loop (limit_of max_size) (w_rds w) c (w_log w) in
  let w' := mkWorld rds' (w_wrs w) (w_fls w) (w_keys w) log' in
  match r with
  | ROk (Some (h, len, payload)) =>
      if negb (blen payload =? len) then (RPanic site_payload_len_assert, c', w') else
      if unmask then
        match h_mask h with
        | Some k =>
            (ROk (Some (mkFrame (mkHeader (h_fin h) (h_rsv1 h) (h_rsv2 h) (h_rsv3 h) (h_opcode h) None)
                                (apply_mask k payload))), c', w')
        | None =>
            if accept_unmasked then (ROk (Some (mkFrame h payload)), c', w')
            else (RErr (EProtocol UnmaskedFrameFromClient), c', w')
        end
      else (ROk (Some (mkFrame h payload)), c', w')
  | ROk None => (ROk None, c', w')
  | RErr e => (RErr e, c', w')
  | RPanic s => (RPanic s, c', w')
  | ROutOfFuel => (ROutOfFuel, c', w')
  end.

(* FrameCodec::write_out_buffer: structural recursion on the write oracle *)
Fixpoint write_out_loop (wrs : list wr_out) (out : bytes) (log : list event)
  : res unit * bytes * list wr_out * list event :=
  match out with
  | [] => (ROk tt, out, wrs, log)
  | _ :: _ =>
      match wrs with
      | [] => (RErr (EIo WouldBlock), out, [], log ++ [EvWriteErr (blen out) WouldBlock])
      | WrErr k :: r => (RErr (EIo k), out, r, log ++ [EvWriteErr (blen out) k])
      | WrAccept n :: r =>
          let n' := N.min n (blen out) in
          if n' =? 0 then (RErr (EIo ConnReset), out, r, log ++ [EvWrite (blen out) []])
          else write_out_loop r (dropN n' out) (log ++ [EvWrite (blen out) (takeN n' out)])
      end
  end.

Definition write_out_buffer (c : codec) (w : world) : res unit * codec * world :=
  let '(r, out', wrs', log') := write_out_loop (w_wrs w) (c_out c) (w_log w) in
  (r, set_out c out', mkWorld (w_rds w) wrs' (w_fls w) (w_keys w) log').

(* FrameCodec::buffer_frame *)
Definition codec_buffer_frame (c : codec) (f : frame) (w : world) : res unit * codec * world :=
  if c_max_out c <? frame_len f + blen (c_out c) then (RErr (EWriteBufferFull f), c, w)
  else
    let c1 := set_out c (frame_format_into_buf (c_out c) f) in
    let w1 := w_emit w (EvQueue f) in
    if c_write_len c <? blen (c_out c1) then write_out_buffer c1 w1
    else (ROk tt, c1, w1).
