(* ProtocolCfg.v — WebSocket::set_config / WebSocketContext::set_config with an arbitrary new
   configuration, on a live connection (src/protocol/mod.rs):

     pub fn set_config(&mut self, set_func: impl FnOnce(&mut WebSocketConfig)) {
         set_func(&mut self.config);
         self.config.assert_valid();
         self.frame.set_max_out_buffer_len(self.config.max_write_buffer_size);
         self.frame.set_out_buffer_write_len(self.config.write_buffer_size);
     }

   Protocol.OpSetBuf is the special case that leaves the inbound limits alone.  Here the inbound
   limits (max_message_size, max_frame_size, accept_unmasked_frames) may change too, at any point of
   a history - in particular in the middle of a fragmented message or of a frame.
   read_buffer_size is not in the model (it only sizes the initial allocation). *)
From TungModel Require Import Base Coding Mask Header Frame Utf8 World Message Codec Protocol.

Inductive xop :=
| XOp (o : op)                                             (* any operation of Protocol.op *)
| XSetConfig (cfg : config)                                (* set_config(|c| *c = cfg) *)
| XSetLimits (mms mfs : option N) (au : bool).             (* set_config changing only the inbound limits *)

(* the assert fires after the new values were stored: the configuration is replaced, the codec's
   copies of the write-buffer sizes are not *)
Definition set_config (x : ctx) (cfg' : config) : res unit * ctx :=
  if config_valid cfg' then
    (ROk tt,
     mkCtx (x_role x)
           (set_limits (x_codec x) (cfg_max_write_buffer_size cfg') (cfg_write_buffer_size cfg'))
           (x_state x) (x_incomplete x) (x_additional x) (x_unflushed x) cfg')
  else
    (RPanic site_config_invalid,
     mkCtx (x_role x) (x_codec x) (x_state x) (x_incomplete x) (x_additional x) (x_unflushed x) cfg').

Definition limits_cfg (x : ctx) (mms mfs : option N) (au : bool) : config :=
  mkConfig (cfg_write_buffer_size (x_cfg x)) (cfg_max_write_buffer_size (x_cfg x)) mms mfs au.

Definition run_xop (x : ctx) (o : xop) (w : world) : op_result * ctx * world :=
  match o with
  | XOp o => run_op x o w
  | XSetConfig cfg => let '(r, x') := set_config x cfg in (ResUnit r, x', w)
  | XSetLimits mms mfs au => let '(r, x') := set_config x (limits_cfg x mms mfs au) in (ResUnit r, x', w)
  end.

(* per op: the result, the log length after it, and the configuration in force when it ran *)
Fixpoint run_xops (x : ctx) (ops : list xop) (w : world)
  : list (op_result * N * config) * ctx * world :=
  match ops with
  | [] => ([], x, w)
  | o :: r =>
      let '(res1, x1, w1) := run_xop x o w in
      let '(rs, x2, w2) := run_xops x1 r w1 in
      ((res1, blen (w_log w1), x_cfg x) :: rs, x2, w2)
  end.
