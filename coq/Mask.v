(* Mask.v — model of src/protocol/frame/mask.rs.
   xor_cyc is the specification (byte i XOR key[i mod 4], key rotated as we go);
   mask_fast32 mirrors apply_mask_fast32: a prefix of p bytes handled bytewise, 32-bit
   little-endian words XORed with the key rotated right by 8*(p land 3) bits, suffix handled
   bytewise with the rotated key's bytes.  p is what align_to_mut returned (an address fact),
   so it is a parameter; the theorems hold for every p. *)
From TungModel Require Export Base.

Definition key := (N * N * N * N)%type.
Definition rot1 (k : key) : key := let '(a, b, c, d) := k in (b, c, d, a).
Definition key0 (k : key) : N := let '(a, _, _, _) := k in a.
Definition key_bytes (k : key) : bytes := let '(a, b, c, d) := k in [a; b; c; d].
Definition key_eqb (k1 k2 : key) : bool :=
  let '(a, b, c, d) := k1 in let '(a', b', c', d') := k2 in
  (a =? a') && (b =? b') && (c =? c') && (d =? d').
Definition wf_key (k : key) : bool := wf_bytes (key_bytes k).

(* specification: apply_mask_fallback *)
Fixpoint xor_cyc (k : key) (bs : bytes) : bytes :=
  match bs with
  | [] => []
  | b :: r => N.lxor b (key0 k) :: xor_cyc (rot1 k) r
  end.

(* ---- the word-wise fast path ---- *)
Definition le32 (a b c d : N) : N :=
  N.lor a (N.lor (N.shiftl b 8) (N.lor (N.shiftl c 16) (N.shiftl d 24))).
Definition key_u32 (k : key) : N := let '(a, b, c, d) := k in le32 a b c d.
Definition two32 : N := 4294967296.
(* u32::rotate_right *)
Definition rotr32 (x r : N) : N :=
  N.lor (N.shiftr x r) (N.shiftl x (32 - r) mod two32).
Definition u32_le_bytes (x : N) : key :=
  (x mod 256, (N.shiftr x 8) mod 256, (N.shiftr x 16) mod 256, (N.shiftr x 24) mod 256).

(* XOR every complete 4-byte word with m; return the processed words and the suffix *)
Fixpoint xor_words (m : N) (bs : bytes) : bytes * bytes :=
  match bs with
  | a :: b :: c :: d :: r =>
      let w := N.lxor (le32 a b c d) m in
      let '(x0, x1, x2, x3) := u32_le_bytes w in
      let '(ws, suf) := xor_words m r in
      (x0 :: x1 :: x2 :: x3 :: ws, suf)
  | suf => ([], suf)
  end.

Definition mask_fast32 (p : N) (k : key) (buf : bytes) : bytes :=
  let prefix := takeN p buf in
  let rest := dropN p buf in
  let head := N.land (blen prefix) 3 in
  let m0 := key_u32 k in
  let m := if 0 <? head then rotr32 m0 (8 * head) else m0 in
  let '(ws, suf) := xor_words m rest in
  xor_cyc k prefix ++ ws ++ xor_cyc (u32_le_bytes m) suf.

(* what the rest of the model uses: the result is the same for every p (Theorem in proofs/MaskP.v) *)
Definition apply_mask (k : key) (buf : bytes) : bytes := xor_cyc k buf.
