(* Sha1.v — executable SHA-1 (FIPS 180-4) and Base64 (RFC 4648, standard alphabet with padding),
   written from the standards; used to model derive_accept_key / generate_key (src/handshake). *)
From TungModel Require Export Base.

Definition two32 : N := 4294967296.
Definition add32 (a b : N) : N := (a + b) mod two32.
Definition rotl32 (x r : N) : N := N.lor (N.shiftl x r mod two32) (N.shiftr x (32 - r)).
Definition not32 (x : N) : N := N.lxor x (two32 - 1).

(* message padding: 0x80, zeros to 56 mod 64, 64-bit big-endian bit length *)
Definition sha1_pad (msg : bytes) : bytes :=
  let l := blen msg in
  let k := (119 - (l mod 64)) mod 64 in     (* number of zero bytes: (55 - l) mod 64 *)
  msg ++ [128] ++ repeat 0 (N.to_nat k) ++ to_be 8 (8 * l).

Fixpoint words_be (bs : bytes) (n : nat) : list N :=
  match n with
  | O => []
  | S n' => match bs with
            | a :: b :: c :: d :: r => from_be [a; b; c; d] :: words_be r n'
            | _ => []
            end
  end.

(* message schedule: W_t for t = 0..79, kept as a list with the most recent word first *)
Fixpoint schedule_ext (n : nat) (w : list N) : list N :=
  match n with
  | O => w
  | S n' =>
      let x := N.lxor (N.lxor (nth 2 w 0) (nth 7 w 0)) (N.lxor (nth 13 w 0) (nth 15 w 0)) in
      schedule_ext n' (rotl32 x 1 :: w)
  end.

Definition sha1_f (t : N) (b c d : N) : N :=
  if t <? 20 then N.lor (N.land b c) (N.land (not32 b) d)
  else if t <? 40 then N.lxor (N.lxor b c) d
  else if t <? 60 then N.lor (N.lor (N.land b c) (N.land b d)) (N.land c d)
  else N.lxor (N.lxor b c) d.
Definition sha1_k (t : N) : N :=
  if t <? 20 then 0x5A827999 else if t <? 40 then 0x6ED9EBA1 else if t <? 60 then 0x8F1BBCDC else 0xCA62C1D6.

Definition state5 := (N * N * N * N * N)%type.

Fixpoint sha1_rounds (ws : list N) (t : N) (s : state5) : state5 :=
  match ws with
  | [] => s
  | w :: r =>
      let '(a, b, c, d, e) := s in
      let tmp := add32 (add32 (add32 (add32 (rotl32 a 5) (sha1_f t b c d)) e) (sha1_k t)) w in
      sha1_rounds r (t + 1) (tmp, a, rotl32 b 30, c, d)
  end.

Definition sha1_block (s : state5) (block : bytes) : state5 :=
  let w16 := words_be block 16 in
  let ws := rev (schedule_ext 64 (rev w16)) in
  let '(a, b, c, d, e) := s in
  let '(a', b', c', d', e') := sha1_rounds ws 0 s in
  (add32 a a', add32 b b', add32 c c', add32 d d', add32 e e').

Fixpoint sha1_blocks (n : nat) (s : state5) (bs : bytes) : state5 :=
  match n with
  | O => s
  | S n' => match bs with
            | [] => s
            | _ => sha1_blocks n' (sha1_block s (firstn 64 bs)) (skipn 64 bs)
            end
  end.

Definition sha1 (msg : bytes) : bytes :=
  let p := sha1_pad msg in
  let '(a, b, c, d, e) :=
    sha1_blocks (S (Nat.div (length p) 64)) (0x67452301, 0xEFCDAB89, 0x98BADCFE, 0x10325476, 0xC3D2E1F0) p in
  to_be 4 a ++ to_be 4 b ++ to_be 4 c ++ to_be 4 d ++ to_be 4 e.

(* ---- Base64 ---- *)
Definition b64_char (v : N) : N :=
  if v <? 26 then 65 + v            (* A-Z *)
  else if v <? 52 then 97 + (v - 26) (* a-z *)
  else if v <? 62 then 48 + (v - 52) (* 0-9 *)
  else if v =? 62 then 43 else 47.   (* + / *)

Fixpoint base64_aux (fuel : nat) (bs : bytes) : bytes :=
  match fuel with
  | O => []
  | S f =>
    match bs with
    | [] => []
    | [a] => [b64_char (a / 4); b64_char ((a mod 4) * 16); 61; 61]
    | [a; b] => [b64_char (a / 4); b64_char ((a mod 4) * 16 + b / 16); b64_char ((b mod 16) * 4); 61]
    | a :: b :: c :: r =>
        b64_char (a / 4) :: b64_char ((a mod 4) * 16 + b / 16) :: b64_char ((b mod 16) * 4 + c / 64)
        :: b64_char (c mod 64) :: base64_aux f r
    end
  end.
Definition base64 (bs : bytes) : bytes := base64_aux (S (length bs)) bs.

(* derive_accept_key: base64(sha1(key ++ "258EAFA5-E914-47DA-95CA-C5AB0DC85B11")) *)
Definition ws_guid : bytes :=
  [50;53;56;69;65;70;65;53;45;69;57;49;52;45;52;55;68;65;45;57;53;67;65;45;67;53;65;66;48;68;67;56;53;66;49;49].
Definition derive_accept_key (key : bytes) : bytes := base64 (sha1 (key ++ ws_guid)).
