//! Handshake engine (E3) and handshake-related pure cases.

pub fn run(_kind: &str, _f: &[&str]) -> Option<(String, String)> {
    None
}
