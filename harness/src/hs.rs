//! Handshake engine (E3) and handshake-related pure cases (E1).

use crate::transport::{hex, unhex, Rd, Script, Snapshot};
use crate::{error_s, join_or_dash, list, op_of, opt_usize, parse_usize_or_inf, run_ops_on};
use std::panic::{catch_unwind, AssertUnwindSafe};
use tungstenite::client::{ClientRequestBuilder, IntoClientRequest};
use tungstenite::handshake::client::generate_request;
use tungstenite::handshake::derive_accept_key;
use tungstenite::handshake::machine::TryParse;
use tungstenite::handshake::server::{create_response, ErrorResponse, Request, Response};
use tungstenite::handshake::HandshakeError;
use tungstenite::http;
use tungstenite::protocol::{WebSocket, WebSocketConfig};

const MAX_HEADERS: usize = 124;

fn headers_of(s: &str) -> Vec<(Vec<u8>, Vec<u8>)> {
    if s == "-" || s.is_empty() {
        return vec![];
    }
    s.split(';')
        .map(|nv| {
            let mut p = nv.split('=');
            (unhex(p.next().unwrap()), unhex(p.next().unwrap()))
        })
        .collect()
}

fn headers_s<'a>(it: impl Iterator<Item = (&'a [u8], &'a [u8])>) -> String {
    let v: Vec<String> = it.map(|(n, v)| format!("{}={}", hex(n), hex(v))).collect();
    if v.is_empty() {
        "-".into()
    } else {
        v.join(";")
    }
}

fn headermap_s(h: &http::HeaderMap) -> String {
    headers_s(h.iter().map(|(k, v)| (k.as_str().as_bytes(), v.as_bytes())))
}

/// Header list of a client request in the order generate_request will see it: the five required
/// headers (all their values) first, then what `HeaderMap` iterates over after those five names were
/// removed in generate_request's order (removal permutes the map's internal order: an `http` crate detail
/// that the model takes as given).
fn client_headers_s(h: &http::HeaderMap) -> String {
    const REQ: [&str; 5] = ["host", "connection", "upgrade", "sec-websocket-version", "sec-websocket-key"];
    let mut v: Vec<(Vec<u8>, Vec<u8>)> = vec![];
    for (k, val) in h.iter() {
        if REQ.contains(&k.as_str()) {
            v.push((k.as_str().as_bytes().to_vec(), val.as_bytes().to_vec()));
        }
    }
    let mut rest = h.clone();
    for r in REQ {
        rest.remove(r);
    }
    for (k, val) in rest.iter() {
        v.push((k.as_str().as_bytes().to_vec(), val.as_bytes().to_vec()));
    }
    headers_s(v.iter().map(|(n, x)| (&n[..], &x[..])))
}

fn config_of(f: &[&str], i: usize) -> WebSocketConfig {
    let mut cfg = WebSocketConfig::default();
    cfg.write_buffer_size = f[i].parse().unwrap();
    cfg.max_write_buffer_size = parse_usize_or_inf(f[i + 1]);
    cfg.max_message_size = opt_usize(f[i + 2]);
    cfg.max_frame_size = opt_usize(f[i + 3]);
    cfg.accept_unmasked_frames = f[i + 4] == "1";
    cfg.read_buffer_size = f[i + 5].parse().unwrap();
    cfg
}

/// raw parse outcome of a request head, as the model's oracle sees it
fn oracle_req(buf: &[u8]) -> String {
    let mut hbuf = [httparse::EMPTY_HEADER; MAX_HEADERS];
    let mut req = httparse::Request::new(&mut hbuf);
    match req.parse(buf) {
        Ok(httparse::Status::Partial) => "P".into(),
        Err(httparse::Error::TooManyHeaders) => "M".into(),
        Err(_) => "E".into(),
        Ok(httparse::Status::Complete(n)) => {
            let fmt_ok = !matches!(Request::try_parse(buf), Err(tungstenite::Error::HttpFormat(_)));
            let hs: Vec<(Vec<u8>, Vec<u8>)> = req
                .headers
                .iter()
                .map(|h| (h.name.to_ascii_lowercase().into_bytes(), h.value.to_vec()))
                .collect();
            format!(
                "C:{}:{}:{}:{}:{}:{}",
                n,
                hex(req.method.unwrap_or("").as_bytes()),
                req.version.unwrap_or(9),
                hex(req.path.unwrap_or("").as_bytes()),
                if fmt_ok { 1 } else { 0 },
                headers_s(hs.iter().map(|(n, v)| (&n[..], &v[..])))
            )
        }
    }
}

fn oracle_resp(buf: &[u8]) -> String {
    let mut hbuf = [httparse::EMPTY_HEADER; MAX_HEADERS];
    let mut resp = httparse::Response::new(&mut hbuf);
    match resp.parse(buf) {
        Ok(httparse::Status::Partial) => "P".into(),
        Err(httparse::Error::TooManyHeaders) => "M".into(),
        Err(_) => "E".into(),
        Ok(httparse::Status::Complete(n)) => {
            let fmt_ok = !matches!(
                tungstenite::handshake::client::Response::try_parse(buf),
                Err(tungstenite::Error::HttpFormat(_))
            );
            let hs: Vec<(Vec<u8>, Vec<u8>)> = resp
                .headers
                .iter()
                .map(|h| (h.name.to_ascii_lowercase().into_bytes(), h.value.to_vec()))
                .collect();
            format!(
                "C:{}:{}:{}:{}:{}",
                n,
                resp.version.unwrap_or(9),
                resp.code.unwrap_or(0),
                if fmt_ok { 1 } else { 0 },
                headers_s(hs.iter().map(|(n, v)| (&n[..], &v[..])))
            )
        }
    }
}

/// table of oracle outcomes for every cumulative buffer the reading stage saw
fn table(chunks: &[Vec<u8>], is_req: bool) -> String {
    let mut cum: Vec<u8> = vec![];
    let mut out: Vec<String> = vec![];
    for c in chunks {
        cum.extend_from_slice(c);
        let o = if is_req { oracle_req(&cum) } else { oracle_resp(&cum) };
        if o != "P" {
            out.push(format!("{}={}", cum.len(), o));
        }
    }
    join_or_dash(&out)
}

enum Cb {
    None,
    Add(Vec<(Vec<u8>, Vec<u8>)>),
    Rej(u16, Option<Vec<u8>>, Vec<(Vec<u8>, Vec<u8>)>),
}

fn cb_of(s: &str) -> Result<Cb, String> {
    let p: Vec<&str> = s.split(':').collect();
    Ok(match p.as_slice() {
        ["none"] => Cb::None,
        ["add", hs] => Cb::Add(headers_of(hs)),
        ["rej", st, body, hs] => Cb::Rej(
            st.parse().map_err(|_| "status")?,
            if *body == "none" { None } else { Some(unhex(body)) },
            headers_of(hs),
        ),
        _ => return Err("callback".into()),
    })
}

fn drive<R: tungstenite::handshake::HandshakeRole>(
    first: Result<R::FinalResult, HandshakeError<R>>,
    peek: impl Fn(&tungstenite::handshake::MidHandshake<R>) -> bool,
    log_i: impl Fn(&mut tungstenite::handshake::MidHandshake<R>),
) -> Result<R::FinalResult, Result<tungstenite::Error, tungstenite::handshake::MidHandshake<R>>> {
    let mut cur = first;
    let mut rounds = 0usize;
    loop {
        rounds += 1;
        if rounds > 5000 {
            // a handshake that keeps getting Interrupted for ever is reported by the caller's transport budget
            if let Err(HandshakeError::Interrupted(mid)) = cur {
                return Err(Err(mid));
            }
        }
        match cur {
            Ok(v) => return Ok(v),
            Err(HandshakeError::Failure(e)) => return Err(Ok(e)),
            Err(HandshakeError::Interrupted(mut mid)) => {
                log_i(&mut mid);
                if peek(&mid) {
                    return Err(Err(mid));
                }
                cur = mid.handshake();
            }
        }
    }
}

/// HS id cb wbs max mms mfs au rbs seed ops rds wrs fls
fn run_server(f: &[&str]) -> Result<(String, String), String> {
    let cb = cb_of(f[2])?;
    let cfg = config_of(f, 3);
    let seed: u32 = f[9].parse().unwrap();
    let mut ops = Vec::new();
    for o in list(f[10]) {
        ops.push(op_of(o)?);
    }
    let mut script = Script::parse(&list(f[11]), &list(f[12]), &list(f[13]))?;
    script.hs_phase = true;
    let mirror = std::rc::Rc::new(std::cell::RefCell::new(Snapshot::default()));
    script.mirror = Some(mirror.clone());
    let callback = move |_req: &Request, mut resp: Response| -> Result<Response, ErrorResponse> {
        match &cb {
            Cb::None => Ok(resp),
            Cb::Add(hs) => {
                for (n, v) in hs {
                    resp.headers_mut().append(
                        http::HeaderName::from_bytes(n).unwrap(),
                        http::HeaderValue::from_bytes(v).unwrap(),
                    );
                }
                Ok(resp)
            }
            Cb::Rej(st, body, hs) => {
                let mut b = http::Response::builder().status(*st);
                for (n, v) in hs {
                    b = b.header(
                        http::HeaderName::from_bytes(n).unwrap(),
                        http::HeaderValue::from_bytes(v).unwrap(),
                    );
                }
                Err(b.body(body.as_ref().map(|x| String::from_utf8(x.clone()).unwrap())).unwrap())
            }
        }
    };
    let r = catch_unwind(AssertUnwindSafe(|| {
        drive(
            tungstenite::accept_hdr_with_config(script, callback, Some(cfg)),
            |mid| mid.get_ref().get_ref().exhausted_read,
            |mid| mid.get_mut().get_mut().log.push("I".into()),
        )
    }));
    let mut out = String::new();
    let mut g: Vec<String> = f.iter().map(|x| x.to_string()).collect();
    match r {
        Err(_) => {
            out.push_str("panic:rust");
            let snap = mirror.borrow().clone();
            for ev in &snap.log {
                out.push(' ');
                out.push_str(ev);
            }
            fill(&mut g, &snap, 11, true);
        }
        Ok(Ok(mut ws)) => {
            out.push_str("ok");
            for ev in &ws.get_ref().log {
                out.push(' ');
                out.push_str(ev);
            }
            let upto = ws.get_ref().log.len();
            ws.get_mut().hs_phase = false;
            #[cfg(tungstenite_verif)]
            tungstenite::protocol::frame::verif_set_mask_seed(seed);
            #[cfg(not(tungstenite_verif))]
            let _ = seed;
            run_ops_on(&mut ws, ops, upto, &mut out, false);
            fill(&mut g, &ws.get_ref().snapshot(), 11, true);
        }
        Ok(Err(Ok(e))) => {
            out.push_str(&error_s(&e));
            // transport lost with the error: recover the log from the shared snapshot
            let snap = mirror.borrow().clone();
            for ev in &snap.log {
                out.push(' ');
                out.push_str(ev);
            }
            fill(&mut g, &snap, 11, true);
        }
        Ok(Err(Err(mid))) => {
            out.push_str("blocked");
            let s = mid.get_ref().get_ref().snapshot();
            for ev in &s.log {
                out.push(' ');
                out.push_str(ev);
            }
            fill(&mut g, &s, 11, true);
        }
    }
    Ok((g.join(" "), out))
}

fn fill(g: &mut Vec<String>, s: &Snapshot, i: usize, is_req: bool) {
    g[i] = join_or_dash(&s.actual_rds);
    g[i + 1] = join_or_dash(&s.actual_wrs);
    g[i + 2] = join_or_dash(&s.actual_fls);
    g.push(table(&s.hs_chunks, is_req));
}

/// marker "ACCEPT" NN c padded with '=' to 28 bytes -> the real accept value with char NN replaced by c (NN=99: unchanged)
fn substitute_accept(data: &mut Vec<u8>, accept: &str) {
    let mut i = 0;
    while i + 28 <= data.len() {
        if &data[i..i + 6] == b"ACCEPT"
            && data[i + 6].is_ascii_digit()
            && data[i + 7].is_ascii_digit()
            && data[i + 9..i + 28].iter().all(|b| *b == b'=')
        {
            let nn = (data[i + 6] - b'0') as usize * 10 + (data[i + 7] - b'0') as usize;
            let c = data[i + 8];
            let mut a = accept.as_bytes().to_vec();
            match nn {
                90 => a.extend_from_slice(b"junk"),
                91 => {
                    a.pop();
                }
                92 => a.clear(),
                93 => {
                    let b = a.clone();
                    a.extend_from_slice(&b);
                }
                94 => a.push(b' '),
                95 => a.insert(0, b'x'),
                _ => {}
            }
            if nn < a.len() && nn < 90 {
                if c == b'^' {
                    // flip the ASCII case of the character (a digit/symbol becomes a different symbol)
                    a[nn] = if a[nn].is_ascii_alphabetic() { a[nn] ^ 0x20 } else if a[nn] == b'A' { b'B' } else { b'A' };
                } else {
                    a[nn] = if a[nn] == c { if c == b'A' { b'B' } else { b'A' } } else { c };
                }
            }
            let alen = a.len();
            data.splice(i..i + 28, a.iter().copied());
            i += alen.max(1);
        } else {
            i += 1;
        }
    }
}

/// HC id uri subprotos extra wbs max mms mfs au rbs seed ops rds wrs fls
/// M line: HCM id path hdrs wbs max mms mfs au rbs seed ops rds wrs fls table
fn run_client(f: &[&str]) -> Result<(String, String), String> {
    let uri_s = String::from_utf8(unhex(f[2])).map_err(|_| "uri utf8")?;
    let uri: http::Uri = uri_s.parse().map_err(|_| "bad-uri")?;
    let mut b = ClientRequestBuilder::new(uri);
    for sp in list(f[3]) {
        b = b.with_sub_protocol(String::from_utf8(unhex(sp)).map_err(|_| "sp")?);
    }
    for (n, v) in headers_of(f[4]) {
        b = b.with_header(String::from_utf8(n).map_err(|_| "hn")?, String::from_utf8(v).map_err(|_| "hv")?);
    }
    let cfg = config_of(f, 5);
    let seed: u32 = f[11].parse().unwrap();
    let mut ops = Vec::new();
    for o in list(f[12]) {
        ops.push(op_of(o)?);
    }
    let mut script = Script::parse(&list(f[13]), &list(f[14]), &list(f[15]))?;
    script.hs_phase = true;
    let mirror = std::rc::Rc::new(std::cell::RefCell::new(Snapshot::default()));
    script.mirror = Some(mirror.clone());
    let mut g: Vec<String> = vec!["HCM".into(), f[1].into(), "1:none".into(), "-".into()];
    for x in &f[5..16] {
        g.push(x.to_string());
    }
    let req = match b.into_client_request() {
        Ok(r) => r,
        Err(e) => {
            g.push("-".into());
            return Ok((g.join(" "), format!("bad-case:request:{}", error_s(&e))));
        }
    };
    g[2] = format!(
        "{}:{}",
        if matches!(req.uri().scheme_str(), Some("ws") | Some("wss")) { 1 } else { 0 },
        match req.uri().path_and_query() {
            Some(p) => hex(p.as_str().as_bytes()),
            None => "none".into(),
        }
    );
    g[3] = client_headers_s(req.headers());
    let key = req.headers().get("sec-websocket-key").map(|k| k.as_bytes().to_vec()).unwrap_or_default();
    let accept = derive_accept_key(&key);
    // the marker may be cut by the segmentation: substitute on the concatenation (same length), then re-split
    let mut all: Vec<u8> = vec![];
    for r in script.rds.iter() {
        if let Rd::Data(d) = r {
            all.extend_from_slice(d);
        }
    }
    substitute_accept(&mut all, &accept);
    // re-split at the original chunk lengths (a length-changing substitution lands in the last chunk)
    let ndata = script.rds.iter().filter(|r| matches!(r, Rd::Data(_))).count();
    let mut pos = 0;
    let mut seen = 0;
    for r in script.rds.iter_mut() {
        if let Rd::Data(d) = r {
            seen += 1;
            let n = if seen == ndata { all.len().saturating_sub(pos) } else { d.len().min(all.len().saturating_sub(pos)) };
            *d = all[pos..pos + n].to_vec();
            pos += n;
        }
    }
    let r = catch_unwind(AssertUnwindSafe(|| {
        drive(
            tungstenite::client::client_with_config(req, script, Some(cfg)),
            |mid| mid.get_ref().get_ref().exhausted_read,
            |mid| mid.get_mut().get_mut().log.push("I".into()),
        )
    }));
    let mut out = String::new();
    match r {
        Err(_) => {
            out.push_str("panic:rust");
            let snap = mirror.borrow().clone();
            for ev in &snap.log {
                out.push(' ');
                out.push_str(ev);
            }
            fill(&mut g, &snap, 12, false);
        }
        Ok(Ok((mut ws, _resp))) => {
            out.push_str("ok");
            for ev in &ws.get_ref().log {
                out.push(' ');
                out.push_str(ev);
            }
            let upto = ws.get_ref().log.len();
            ws.get_mut().hs_phase = false;
            #[cfg(tungstenite_verif)]
            tungstenite::protocol::frame::verif_set_mask_seed(seed);
            #[cfg(not(tungstenite_verif))]
            let _ = seed;
            run_ops_on(&mut ws, ops, upto, &mut out, false);
            fill(&mut g, &ws.get_ref().snapshot(), 12, false);
        }
        Ok(Err(Ok(e))) => {
            out.push_str(&error_s(&e));
            let snap = mirror.borrow().clone();
            for ev in &snap.log {
                out.push(' ');
                out.push_str(ev);
            }
            fill(&mut g, &snap, 12, false);
        }
        Ok(Err(Err(mid))) => {
            out.push_str("blocked");
            let s = mid.get_ref().get_ref().snapshot();
            for ev in &s.log {
                out.push(' ');
                out.push_str(ev);
            }
            fill(&mut g, &s, 12, false);
        }
    }
    Ok((g.join(" "), out))
}

// ------------------------------------------------------------------------------------------
// pure cases

/// URI id urihex  ->  M: URI id authority|none path key
fn run_uri(f: &[&str]) -> (String, String) {
    let uri_s = match String::from_utf8(unhex(f[2])) {
        Ok(s) => s,
        Err(_) => return (f.join(" "), "bad-case:utf8".into()),
    };
    let uri: http::Uri = match uri_s.parse() {
        Ok(u) => u,
        Err(_) => return (format!("URI {} none - -", f[1]), "bad-case:uri".into()),
    };
    let auth = uri.authority().map(|a| hex(a.as_str().as_bytes())).unwrap_or_else(|| "none".into());
    let path = uri.path_and_query().map(|p| hex(p.as_str().as_bytes())).unwrap_or_else(|| "-".into());
    match uri.into_client_request() {
        Ok(req) => {
            let key = req.headers().get("sec-websocket-key").map(|k| hex(k.as_bytes())).unwrap_or_else(|| "-".into());
            (format!("URI {} {} {} {}", f[1], auth, path, key), format!("ok:{}:{}", path, headermap_s(req.headers())))
        }
        Err(e) => (format!("URI {} {} {} -", f[1], auth, path), error_s(&e)),
    }
}

fn build_request(method: &str, version: &str, path: &[u8], hs: &[(Vec<u8>, Vec<u8>)]) -> Result<Request, String> {
    let mut b = http::Request::builder()
        .method(method)
        .version(match version {
            "10" => http::Version::HTTP_10,
            "11" => http::Version::HTTP_11,
            "20" => http::Version::HTTP_2,
            _ => http::Version::HTTP_09,
        })
        .uri(format!("ws://localhost{}", String::from_utf8_lossy(path)));
    for (n, v) in hs {
        b = b.header(
            http::HeaderName::from_bytes(n).map_err(|_| "bad header name")?,
            http::HeaderValue::from_bytes(v).map_err(|_| "bad header value")?,
        );
    }
    b.body(()).map_err(|_| "bad request".into())
}

/// SD id method version hdrs -> M: SD id method_is_get version_ge_11 hdrs(lowercase, map order)
fn run_server_decide(f: &[&str]) -> (String, String) {
    let method = String::from_utf8(unhex(f[2])).unwrap_or_default();
    let req = match build_request(&method, f[3], b"/", &headers_of(f[4])) {
        Ok(r) => r,
        Err(e) => return (f.join(" "), format!("bad-case:{e}")),
    };
    let m = format!(
        "SD {} {} {} {}",
        f[1],
        if req.method() == http::Method::GET { 1 } else { 0 },
        if req.version() >= http::Version::HTTP_11 { 1 } else { 0 },
        headermap_s(req.headers())
    );
    let t = match create_response(&req) {
        Ok(resp) => format!("ok:{}:{}", resp.status().as_u16(), headermap_s(resp.headers())),
        Err(e) => error_s(&e),
    };
    (m, t)
}

/// GR id path hdrs -> M: GR id path|none hdrs(map order)
fn run_generate_request(f: &[&str]) -> (String, String) {
    let req = match build_request("GET", "11", &unhex(f[2]), &headers_of(f[3])) {
        Ok(r) => r,
        Err(e) => return (f.join(" "), format!("bad-case:{e}")),
    };
    let m = format!(
        "GR {} {} {}",
        f[1],
        req.uri().path_and_query().map(|p| hex(p.as_str().as_bytes())).unwrap_or_else(|| "none".into()),
        client_headers_s(req.headers())
    );
    let t = match generate_request(req) {
        Ok((bytes, key)) => format!("ok:{}:{}", hex(&bytes), hex(key.as_bytes())),
        Err(e) => error_s(&e),
    };
    (m, t)
}

/// TP id req|resp hex : outcome of the real parser (for the P1-P3 assumption tests)
fn run_try_parse(f: &[&str]) -> (String, String) {
    let buf = unhex(f[3]);
    let t = if f[2] == "req" { oracle_req(&buf) } else { oracle_resp(&buf) };
    (f.join(" "), t)
}

/// KR id n : build n client requests from a URL and report statistics of their Sec-WebSocket-Key values
pub fn run_request_key_stats(f: &[&str]) -> String {
    let n: usize = f[2].parse().unwrap();
    let mut keys: Vec<Vec<u8>> = vec![];
    let mut ok16 = 0usize;
    for _ in 0..n {
        let req = match "ws://example.com/".into_client_request() {
            Ok(r) => r,
            Err(_) => return "error".into(),
        };
        let k = req.headers().get("sec-websocket-key").map(|k| k.as_bytes().to_vec()).unwrap_or_default();
        // standard base64 with padding, 16 bytes -> 24 chars ending in "=="
        let good = k.len() == 24
            && k.ends_with(b"==")
            && k[..22].iter().all(|c| c.is_ascii_alphanumeric() || *c == b'+' || *c == b'/');
        if good {
            ok16 += 1;
        }
        keys.push(k);
    }
    let mut sorted = keys.clone();
    sorted.sort();
    sorted.dedup();
    // structure of the 24 base64 characters: distinct values per character position (the 22 data positions) and
    // keys whose decoded 16 bytes would repeat a 3-byte group (base64 quartets 0..4 == 4..8 == ...)
    let mut minpos = usize::MAX;
    for pos in 0..21 {
        let mut seen = [false; 256];
        for k in &keys {
            if k.len() == 24 {
                seen[k[pos] as usize] = true;
            }
        }
        minpos = minpos.min(seen.iter().filter(|x| **x).count());
    }
    // decode (standard alphabet) and look for structure inside one key: repeated 4-byte or 8-byte words, constant bytes
    let dec = |c: u8| -> u32 {
        match c {
            b'A'..=b'Z' => (c - b'A') as u32,
            b'a'..=b'z' => (c - b'a' + 26) as u32,
            b'0'..=b'9' => (c - b'0' + 52) as u32,
            b'+' => 62,
            b'/' => 63,
            _ => 0,
        }
    };
    let raw_of = |k: &Vec<u8>| -> Vec<u8> {
        let mut out = vec![];
        for q in k.chunks(4) {
            if q.len() < 4 {
                break;
            }
            let v = (dec(q[0]) << 18) | (dec(q[1]) << 12) | (dec(q[2]) << 6) | dec(q[3]);
            out.push((v >> 16) as u8);
            out.push((v >> 8) as u8);
            out.push(v as u8);
        }
        out.truncate(16);
        out
    };
    let repeated = keys
        .iter()
        .filter(|k| {
            if k.len() != 24 {
                return false;
            }
            let r = raw_of(k);
            r.len() == 16 && (r[0..4] == r[4..8] || r[4..8] == r[8..12] || r[8..12] == r[12..16] || r[0..8] == r[8..16] || r.iter().all(|b| *b == r[0]))
        })
        .count();
    format!("requests={} distinct={} wellformed16={} minposvals={} repeated={}", n, sorted.len(), ok16, minpos, repeated)
}

/// CB id urihex subprotos extra -> M: CB id authority|none path|none key extra(lower-case names) subprotos
fn run_builder(f: &[&str]) -> (String, String) {
    let uri_s = String::from_utf8(unhex(f[2])).unwrap_or_default();
    let uri: http::Uri = match uri_s.parse() {
        Ok(u) => u,
        Err(_) => return (f.join(" "), "bad-case:uri".into()),
    };
    let auth = uri.authority().map(|a| hex(a.as_str().as_bytes())).unwrap_or_else(|| "none".into());
    let path = uri.path_and_query().map(|p| hex(p.as_str().as_bytes())).unwrap_or_else(|| "none".into());
    let mut b = ClientRequestBuilder::new(uri);
    let extra = headers_of(f[4]);
    for (n, v) in &extra {
        b = b.with_header(String::from_utf8_lossy(n).to_string(), String::from_utf8_lossy(v).to_string());
    }
    for sp in list(f[3]) {
        b = b.with_sub_protocol(String::from_utf8_lossy(&unhex(sp)).to_string());
    }
    let lower: Vec<(Vec<u8>, Vec<u8>)> = extra.iter().map(|(n, v)| (n.to_ascii_lowercase(), v.clone())).collect();
    let req = match b.into_client_request() {
        Ok(r) => r,
        Err(e) => return (format!("CB {} {} {} - {} {}", f[1], auth, path, headers_s(lower.iter().map(|(n, v)| (&n[..], &v[..]))), f[3]), format!("bad-case:{}", error_s(&e))),
    };
    let key = req.headers().get("sec-websocket-key").map(|k| hex(k.as_bytes())).unwrap_or_else(|| "-".into());
    let m = format!("CB {} {} {} {} {} {}", f[1], auth, path, key, headers_s(lower.iter().map(|(n, v)| (&n[..], &v[..]))), f[3]);
    let t = match generate_request(req) {
        Ok((bytes, k)) => format!("ok:{}:{}", hex(&bytes), hex(k.as_bytes())),
        Err(e) => error_s(&e),
    };
    (m, t)
}

pub fn run(kind: &str, f: &[&str]) -> Option<(String, String)> {
    let line = f.join(" ");
    Some(match kind {
        "HS" => run_server(f).unwrap_or_else(|e| (line, format!("bad-case:{e}"))),
        "HC" => run_client(f).unwrap_or_else(|e| (line, format!("bad-case:{e}"))),
        "AK" => (line, hex(derive_accept_key(&unhex(f[2])).as_bytes())),
        "URI" => run_uri(f),
        "SD" => run_server_decide(f),
        "GR" => run_generate_request(f),
        "CB" => run_builder(f),
        "TP" => run_try_parse(f),
        "AC" => (line, "model-only".into()),
        _ => return None,
    })
}

#[allow(dead_code)]
fn _unused(_: WebSocket<Script>) {}
