//! Scripted in-memory transport with a full log of what every call did.

use std::collections::VecDeque;
use std::io::{self, ErrorKind, Read, Write};

pub fn hex(b: &[u8]) -> String {
    if b.is_empty() {
        return "-".into();
    }
    const D: &[u8; 16] = b"0123456789abcdef";
    let mut s = String::with_capacity(b.len() * 2);
    for x in b {
        s.push(D[(x >> 4) as usize] as char);
        s.push(D[(x & 15) as usize] as char);
    }
    s
}

pub fn unhex(s: &str) -> Vec<u8> {
    if s == "-" {
        return vec![];
    }
    let b = s.as_bytes();
    let v = |c: u8| match c {
        b'0'..=b'9' => c - b'0',
        b'a'..=b'f' => c - b'a' + 10,
        b'A'..=b'F' => c - b'A' + 10,
        _ => 0,
    };
    (0..b.len() / 2).map(|i| v(b[2 * i]) * 16 + v(b[2 * i + 1])).collect()
}

fn kind_of(s: &str) -> ErrorKind {
    match s {
        "wb" => ErrorKind::WouldBlock,
        "reset" => ErrorKind::ConnectionReset,
        "intr" => ErrorKind::Interrupted,
        // further kinds: all are "other hard errors" for the model; the library must not treat them specially
        "ueof" => ErrorKind::UnexpectedEof,
        "aborted" => ErrorKind::ConnectionAborted,
        "timedout" => ErrorKind::TimedOut,
        "notconn" => ErrorKind::NotConnected,
        "wzero" => ErrorKind::WriteZero,
        _ => ErrorKind::BrokenPipe,
    }
}

pub enum Rd {
    Data(Vec<u8>),
    Eof,
    Err(ErrorKind),
}
pub enum Wr {
    Accept(usize),
    Err(ErrorKind),
}
pub enum Fl {
    Ok,
    Err(ErrorKind),
}

/// The transport: three queues of intended outcomes. Exhausted queues: read -> WouldBlock,
/// write -> accept everything, flush -> Ok. `log` holds one string per call (trace format),
/// `actual_*` the per-call outcomes in the model's oracle syntax.
pub struct Script {
    pub rds: VecDeque<Rd>,
    pub wrs: VecDeque<Wr>,
    pub fls: VecDeque<Fl>,
    pub log: Vec<String>,
    pub actual_rds: Vec<String>,
    pub actual_wrs: Vec<String>,
    pub actual_fls: Vec<String>,
    pub accepted: Vec<u8>,
    pub read_calls: usize,
    pub read_bytes: usize,
    pub max_read_buf: usize,
    /// handshake phase: data chunks read are recorded (the cumulative buffers the parser saw)
    pub hs_phase: bool,
    pub hs_chunks: Vec<Vec<u8>>,
    /// a read found the script exhausted (the transport stays silent from now on)
    pub exhausted_read: bool,
    pub mirror: Option<std::rc::Rc<std::cell::RefCell<Snapshot>>>,
}

/// Snapshot of the observable state, shared with the harness so that it survives the transport being
/// dropped inside the library (failed or panicking handshake).
#[derive(Default, Clone)]
pub struct Snapshot {
    pub log: Vec<String>,
    pub actual_rds: Vec<String>,
    pub actual_wrs: Vec<String>,
    pub actual_fls: Vec<String>,
    pub hs_chunks: Vec<Vec<u8>>,
    pub exhausted_read: bool,
}

impl std::fmt::Debug for Script {
    fn fmt(&self, f: &mut std::fmt::Formatter) -> std::fmt::Result {
        write!(f, "Script")
    }
}

impl Script {
    pub fn parse(rds: &[&str], wrs: &[&str], fls: &[&str]) -> Result<Script, String> {
        let mut s = Script {
            rds: VecDeque::new(),
            wrs: VecDeque::new(),
            fls: VecDeque::new(),
            log: vec![],
            actual_rds: vec![],
            actual_wrs: vec![],
            actual_fls: vec![],
            accepted: vec![],
            read_calls: 0,
            read_bytes: 0,
            max_read_buf: 0,
            hs_phase: false,
            hs_chunks: vec![],
            exhausted_read: false,
            mirror: None,
        };
        for r in rds {
            let p: Vec<&str> = r.split(':').collect();
            s.rds.push_back(match p.as_slice() {
                ["eof"] => Rd::Eof,
                ["e", k] => Rd::Err(kind_of(k)),
                ["d", h] => Rd::Data(unhex(h)),
                _ => return Err(format!("bad rd {r}")),
            });
        }
        for r in wrs {
            let p: Vec<&str> = r.split(':').collect();
            s.wrs.push_back(match p.as_slice() {
                ["a", n] => Wr::Accept(n.parse().map_err(|_| "bad accept")?),
                ["e", k] => Wr::Err(kind_of(k)),
                _ => return Err(format!("bad wr {r}")),
            });
        }
        for r in fls {
            let p: Vec<&str> = r.split(':').collect();
            s.fls.push_back(match p.as_slice() {
                ["ok"] => Fl::Ok,
                ["e", k] => Fl::Err(kind_of(k)),
                _ => return Err(format!("bad fl {r}")),
            });
        }
        Ok(s)
    }
}

impl Script {
    pub fn sync(&self) {
        if let Some(m) = &self.mirror {
            let mut g = m.borrow_mut();
            g.log = self.log.clone();
            g.actual_rds = self.actual_rds.clone();
            g.actual_wrs = self.actual_wrs.clone();
            g.actual_fls = self.actual_fls.clone();
            g.hs_chunks = self.hs_chunks.clone();
            g.exhausted_read = self.exhausted_read;
        }
    }
    pub fn snapshot(&self) -> Snapshot {
        Snapshot {
            log: self.log.clone(),
            actual_rds: self.actual_rds.clone(),
            actual_wrs: self.actual_wrs.clone(),
            actual_fls: self.actual_fls.clone(),
            hs_chunks: self.hs_chunks.clone(),
            exhausted_read: self.exhausted_read,
        }
    }
}

impl Read for Script {
    fn read(&mut self, buf: &mut [u8]) -> io::Result<usize> {
        let prev = crate::alloc::pause();
        let r = self.read_inner(buf);
        self.sync();
        crate::alloc::resume(prev);
        r
    }
}

impl Script {
    fn read_inner(&mut self, buf: &mut [u8]) -> io::Result<usize> {
        self.read_calls += 1;
        if self.read_calls > 20000 {
            // watchdog: no modelled call makes this many transport reads; a spin would otherwise hang the harness
            self.log.push("R:BUDGET".into());
            panic!("transport read budget exceeded (unbounded work)");
        }
        self.max_read_buf = self.max_read_buf.max(buf.len());
        match self.rds.pop_front() {
            None => {
                self.exhausted_read = true;
                self.log.push("R:e:wb".into());
                self.actual_rds.push("e:wb".into());
                Err(ErrorKind::WouldBlock.into())
            }
            Some(Rd::Eof) => {
                self.log.push("R:eof".into());
                self.actual_rds.push("eof".into());
                Ok(0)
            }
            Some(Rd::Err(k)) => {
                let ks = crate::io_kind_s(k);
                self.log.push(format!("R:e:{ks}"));
                self.actual_rds.push(format!("e:{ks}"));
                Err(k.into())
            }
            Some(Rd::Data(mut d)) => {
                let n = d.len().min(buf.len());
                if n == 0 {
                    if !d.is_empty() {
                        // The library offered a zero-length buffer while data is available: `Read::read`
                        // must return Ok(0), which the caller will take for end of stream. Logged as a
                        // distinct event so that this is never mistaken for a real EOF of the transport.
                        self.rds.push_front(Rd::Data(d));
                        self.log.push("R:EMPTYBUF".into());
                        self.actual_rds.push("eof".into());
                        return Ok(0);
                    }
                    // empty chunk: behaves as Ok(0)
                    self.log.push("R:eof".into());
                    self.actual_rds.push("eof".into());
                    return Ok(0);
                }
                buf[..n].copy_from_slice(&d[..n]);
                let h = hex(&d[..n]);
                self.log.push(format!("R:{h}"));
                self.actual_rds.push(format!("d:{h}"));
                self.read_bytes += n;
                if self.hs_phase {
                    self.hs_chunks.push(d[..n].to_vec());
                }
                if n < d.len() {
                    let rest = d.split_off(n);
                    self.rds.push_front(Rd::Data(rest));
                }
                Ok(n)
            }
        }
    }
}

impl Write for Script {
    fn write(&mut self, buf: &[u8]) -> io::Result<usize> {
        let prev = crate::alloc::pause();
        let r = self.write_inner(buf);
        self.sync();
        crate::alloc::resume(prev);
        r
    }
    fn flush(&mut self) -> io::Result<()> {
        let prev = crate::alloc::pause();
        let r = self.flush_inner();
        self.sync();
        crate::alloc::resume(prev);
        r
    }
}

impl Script {
    fn write_inner(&mut self, buf: &[u8]) -> io::Result<usize> {
        let offered = buf.len();
        match self.wrs.pop_front().unwrap_or(Wr::Accept(usize::MAX)) {
            Wr::Accept(n) => {
                let n = n.min(offered);
                self.accepted.extend_from_slice(&buf[..n]);
                self.log.push(format!("W:{}:{}", offered, hex(&buf[..n])));
                self.actual_wrs.push(format!("a:{n}"));
                Ok(n)
            }
            Wr::Err(k) => {
                let ks = crate::io_kind_s(k);
                self.log.push(format!("W:{offered}:e:{ks}"));
                self.actual_wrs.push(format!("e:{ks}"));
                Err(k.into())
            }
        }
    }
    fn flush_inner(&mut self) -> io::Result<()> {
        match self.fls.pop_front().unwrap_or(Fl::Ok) {
            Fl::Ok => {
                self.log.push("F:ok".into());
                self.actual_fls.push("ok".into());
                Ok(())
            }
            Fl::Err(k) => {
                let ks = crate::io_kind_s(k);
                self.log.push(format!("F:e:{ks}"));
                self.actual_fls.push(format!("e:{ks}"));
                Err(k.into())
            }
        }
    }
}
