//! Counting global allocator: while a library call is in progress (flag set by the harness, cleared inside the scripted
//! transport), records the largest single allocation request and the peak of bytes allocated-and-not-yet-freed.
//! Supporting runtime test for C06 ("memory is bounded before the data arrives"); not part of the model.

use std::alloc::{GlobalAlloc, Layout, System};
use std::cell::Cell;

thread_local! {
    static ON: Cell<bool> = const { Cell::new(false) };
    static MAX_REQ: Cell<usize> = const { Cell::new(0) };
    static LIVE: Cell<usize> = const { Cell::new(0) };
    static PEAK: Cell<usize> = const { Cell::new(0) };
}

pub struct Counting;

fn note_alloc(size: usize) {
    let _ = ON.try_with(|on| {
        if on.get() {
            let _ = MAX_REQ.try_with(|m| {
                if size > m.get() {
                    m.set(size)
                }
            });
            let _ = LIVE.try_with(|l| {
                l.set(l.get().saturating_add(size));
                let _ = PEAK.try_with(|p| {
                    if l.get() > p.get() {
                        p.set(l.get())
                    }
                });
            });
        }
    });
}

fn note_free(size: usize) {
    let _ = ON.try_with(|on| {
        if on.get() {
            let _ = LIVE.try_with(|l| l.set(l.get().saturating_sub(size)));
        }
    });
}

unsafe impl GlobalAlloc for Counting {
    unsafe fn alloc(&self, layout: Layout) -> *mut u8 {
        note_alloc(layout.size());
        System.alloc(layout)
    }
    unsafe fn dealloc(&self, ptr: *mut u8, layout: Layout) {
        note_free(layout.size());
        System.dealloc(ptr, layout)
    }
    unsafe fn realloc(&self, ptr: *mut u8, layout: Layout, new_size: usize) -> *mut u8 {
        note_alloc(new_size);
        note_free(layout.size());
        System.realloc(ptr, layout, new_size)
    }
}

/// start counting (fresh counters)
pub fn begin() {
    MAX_REQ.with(|m| m.set(0));
    LIVE.with(|l| l.set(0));
    PEAK.with(|p| p.set(0));
    ON.with(|o| o.set(true));
}
/// pause / resume around harness-side work (scripted transport, logging)
pub fn pause() -> bool {
    ON.with(|o| o.replace(false))
}
pub fn resume(prev: bool) {
    ON.with(|o| o.set(prev));
}
/// stop and return (largest single request, peak live bytes)
pub fn end() -> (usize, usize) {
    ON.with(|o| o.set(false));
    (MAX_REQ.with(|m| m.get()), PEAK.with(|p| p.get()))
}
