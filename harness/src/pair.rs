//! Engine E4: a client and a server endpoint of the library joined by two reliable ordered in-memory
//! byte channels, driven by a deterministic schedule. Each endpoint's run is also emitted as an
//! ordinary `S` case (with the transport outcomes as they happened) so that the model replays it.

use crate::transport::{hex, Fl, Rd, Script, Wr};
use crate::{error_s, join_or_dash, message_s, op_of, Op};
use std::io::ErrorKind;
use tungstenite::protocol::{Role, WebSocket, WebSocketConfig};

struct Side {
    ws: WebSocket<Script>,
    inbox: Vec<u8>,
    dropped: bool,
    ops: Vec<String>,
    told_closed: bool,
    seen_accepted: usize,
    seen_read: usize,
}

fn run_one(s: &mut Side, op_s: &str, seed_note: &mut ()) -> String {
    let _ = seed_note;
    let op = match op_of(op_s) {
        Ok(o) => o,
        Err(e) => return format!("bad-op:{e}"),
    };
    s.ops.push(op_s.to_string());
    let r = std::panic::catch_unwind(std::panic::AssertUnwindSafe(|| match op {
        Op::Read => match s.ws.read() {
            Ok(m) => message_s(&m),
            Err(e) => error_s(&e),
        },
        Op::Write(m) => match s.ws.write(m) {
            Ok(()) => "ok".into(),
            Err(e) => error_s(&e),
        },
        Op::Flush => match s.ws.flush() {
            Ok(()) => "ok".into(),
            Err(e) => error_s(&e),
        },
        Op::Close(c) => match s.ws.close(c) {
            Ok(()) => "ok".into(),
            Err(e) => error_s(&e),
        },
        Op::CanRead => format!("{}", s.ws.can_read()),
        Op::CanWrite => format!("{}", s.ws.can_write()),
        Op::SetBuf(..) => "ok".into(),
        Op::SetLimits(..) => "ok".into(),
    }));
    match r {
        Ok(x) => x,
        Err(_) => "panic:rust".into(),
    }
}

/// PR id wbs max rbs seed tail actions
/// action = side;op[;d<n>+<n>..][;w<k>]  |  side;drop      (side = c | s)
pub fn run_pair(f: &[&str]) -> Vec<(String, String)> {
    let wbs: usize = f[2].parse().unwrap();
    let max = crate::parse_usize_or_inf(f[3]);
    let rbs: usize = f[4].parse().unwrap();
    let seed: u32 = f[5].parse().unwrap();
    let tail: usize = f[6].parse().unwrap();
    let mk = |role: Role| {
        let mut cfg = WebSocketConfig::default();
        cfg.write_buffer_size = wbs;
        cfg.max_write_buffer_size = max;
        cfg.read_buffer_size = rbs;
        Side {
            ws: WebSocket::from_raw_socket(Script::parse(&[], &[], &[]).unwrap(), role, Some(cfg)),
            inbox: vec![],
            dropped: false,
            ops: vec![],
            told_closed: false,
            seen_accepted: 0,
            seen_read: 0,
        }
    };
    #[cfg(tungstenite_verif)]
    tungstenite::protocol::frame::verif_set_mask_seed(seed);
    let mut c = mk(Role::Client);
    let mut s = mk(Role::Server);
    let mut trace: Vec<String> = vec![];
    let mut unit = ();

    // one scheduled step on side `who`
    fn step(me: &mut Side, peer: &mut Side, op_s: &str, chunks: &[usize], wb: usize, unit: &mut ()) -> String {
        // offer the scheduled chunks of the inbox; EOF if the peer is gone and nothing is left
        {
            let sc = me.ws.get_mut();
            sc.rds.clear();
            sc.wrs.clear();
            let mut pos = 0;
            for n in chunks {
                let n = (*n).min(me.inbox.len() - pos);
                if n == 0 {
                    break;
                }
                sc.rds.push_back(Rd::Data(me.inbox[pos..pos + n].to_vec()));
                pos += n;
            }
            if peer.dropped && pos == me.inbox.len() {
                sc.rds.push_back(Rd::Eof);
            }
            for _ in 0..wb {
                sc.wrs.push_back(Wr::Err(ErrorKind::WouldBlock));
            }
            let _ = Fl::Ok;
        }
        let res = run_one(me, op_s, unit);
        let sc = me.ws.get_mut();
        sc.rds.clear();
        sc.wrs.clear();
        let consumed = sc.read_bytes - me.seen_read;
        me.seen_read = sc.read_bytes;
        me.inbox.drain(0..consumed);
        let written = sc.accepted[me.seen_accepted..].to_vec();
        me.seen_accepted = sc.accepted.len();
        if !peer.dropped {
            peer.inbox.extend_from_slice(&written);
        }
        if res == "err:closed" {
            me.told_closed = true;
        }
        res
    }

    for a in crate::list(f[7]) {
        let p: Vec<&str> = a.split(';').collect();
        let (me, peer) = if p[0] == "c" { (&mut c, &mut s) } else { (&mut s, &mut c) };
        if p[1] == "drop" {
            if me.told_closed {
                me.dropped = true;
                trace.push(format!("{};drop", p[0]));
            } else {
                trace.push(format!("{};drop-refused", p[0]));
            }
            continue;
        }
        if me.dropped {
            trace.push(format!("{};{};skipped-dropped", p[0], p[1]));
            continue;
        }
        let mut chunks: Vec<usize> = vec![];
        let mut wb = 0usize;
        for x in &p[2..] {
            if let Some(d) = x.strip_prefix('d') {
                chunks = d.split('+').filter_map(|n| n.parse().ok()).collect();
            } else if let Some(k) = x.strip_prefix('w') {
                wb = k.parse().unwrap_or(0);
            }
        }
        let res = step(me, peer, p[1], &chunks, wb, &mut unit);
        trace.push(format!("{};{};{}", p[0], p[1], res));
    }
    // fair tail: both keep flushing and reading everything; each drops the transport when told closed
    for _ in 0..tail {
        for who in ["c", "s"] {
            let (me, peer) = if who == "c" { (&mut c, &mut s) } else { (&mut s, &mut c) };
            if me.dropped {
                continue;
            }
            let r = step(me, peer, "f", &[], 0, &mut unit);
            trace.push(format!("{who};f;{r}"));
            for _ in 0..64 {
                if me.told_closed {
                    break;
                }
                let n = me.inbox.len();
                let r = step(me, peer, "r", &[n.max(1)], 0, &mut unit);
                trace.push(format!("{who};r;{r}"));
                if r.starts_with("err:") {
                    break;
                }
            }
            if me.told_closed {
                me.dropped = true;
                trace.push(format!("{who};drop"));
            }
        }
    }
    let cfgs = format!("{} {} none none 0 {}", wbs, f[3], rbs);
    let mut out = vec![];
    let mut key_seed_c = seed;
    let _ = &mut key_seed_c;
    for (tag, side, role) in [("c", &mut c, "c"), ("s", &mut s, "s")] {
        let sc = side.ws.get_ref();
        // per-op trace in the E2 format: results are in `trace`, events in the script log; rebuild by replaying is
        // unnecessary: emit the S line and let the harness re-run it as an ordinary S case
        let line = format!(
            "S {}{} {} {} {} - {} {} {} {}",
            f[1],
            tag,
            role,
            cfgs,
            // client keys interleave with nothing else: the server draws no keys, so the client's sequence starts at seed
            seed,
            join_or_dash(&side.ops),
            join_or_dash(&sc.actual_rds),
            join_or_dash(&sc.actual_wrs),
            join_or_dash(&sc.actual_fls)
        );
        out.push((line, String::new()));
    }
    let _ = hex(&[]);
    out.push((f.join(" "), trace.join(" ")));
    out
}
