//! Differential harness: runs case lines on the real tungstenite crate (built from /repo's working
//! tree with `--cfg tungstenite_verif`) and prints, per case, a model-input line `M ...` (the same
//! case with the transport outcomes *as they actually happened*) and a trace line `T ...`.
//! Line protocol: see DESIGN.md Appendix B and extract/driver.ml (which prints the same `T` format).

mod alloc;
mod hs;
mod pair;
mod transport;

#[global_allocator]
static GLOBAL: alloc::Counting = alloc::Counting;

use bytes::Bytes;
use std::io::{BufRead, BufWriter, Write};
use std::panic::{catch_unwind, AssertUnwindSafe};
use transport::{hex, unhex, Script};
use tungstenite::error::{CapacityError, Error, ProtocolError};
use tungstenite::protocol::frame::coding::{CloseCode, Data, OpCode};
use tungstenite::protocol::frame::{CloseFrame, Frame, FrameHeader, FrameSocket, Utf8Bytes};
use tungstenite::protocol::{Message, Role, WebSocket, WebSocketConfig};

pub fn io_kind_s(k: std::io::ErrorKind) -> &'static str {
    use std::io::ErrorKind::*;
    match k {
        WouldBlock => "wb",
        ConnectionReset => "reset",
        Interrupted => "intr",
        _ => "other",
    }
}

fn mask_s(m: &Option<[u8; 4]>) -> String {
    match m {
        None => "-".into(),
        Some(k) => hex(k),
    }
}

fn header_s(h: &FrameHeader) -> String {
    let b = |x: bool| if x { '1' } else { '0' };
    format!(
        "{}{}{}{}:{}:{}",
        b(h.is_final),
        b(h.rsv1),
        b(h.rsv2),
        b(h.rsv3),
        u8::from(h.opcode),
        mask_s(&h.mask)
    )
}

fn frame_s(f: &Frame) -> String {
    format!("{}:{}", header_s(f.header()), hex(f.payload()))
}

fn close_s(c: &Option<CloseFrame>) -> String {
    match c {
        None => "-".into(),
        Some(cf) => format!("{}:{}", u16::from(cf.code), hex(cf.reason.as_bytes())),
    }
}

fn proto_s(p: &ProtocolError) -> String {
    use ProtocolError::*;
    match p {
        UnknownControlFrameType(i) => format!("UnknownControlFrameType:{i}"),
        UnknownDataFrameType(i) => format!("UnknownDataFrameType:{i}"),
        ExpectedFragment(d) => format!("ExpectedFragment:{}", u8::from(OpCode::Data(*d))),
        InvalidOpcode(i) => format!("InvalidOpcode:{i}"),
        InvalidHeader(h) => format!("InvalidHeader:{}", hex(h.as_str().as_bytes())),
        HttparseError(_) => "HttparseError".into(),
        SecWebSocketSubProtocolError(e) => format!("SubProtocol:{e:?}"),
        other => format!("{other:?}"),
    }
}

pub fn error_s(e: &Error) -> String {
    match e {
        Error::ConnectionClosed => "err:closed".into(),
        Error::AlreadyClosed => "err:already".into(),
        Error::Io(e) => format!("err:io:{}", io_kind_s(e.kind())),
        Error::Capacity(CapacityError::MessageTooLong { size, max_size }) => {
            format!("err:cap:{size}:{max_size}")
        }
        Error::Capacity(CapacityError::TooManyHeaders) => "err:cap:headers".into(),
        Error::Protocol(p) => format!("err:proto:{}", proto_s(p)),
        Error::WriteBufferFull(Message::Frame(f)) => format!("err:full:{}", frame_s(f)),
        Error::WriteBufferFull(m) => format!("err:fullmsg:{}", message_s(m)),
        Error::Utf8(_) => "err:utf8".into(),
        Error::AttackAttempt => "err:attack".into(),
        Error::Url(u) => format!("err:url:{u:?}"),
        Error::Http(r) => format!(
            "err:http:{}:{}",
            r.status().as_u16(),
            match r.body() {
                Some(b) => hex(b),
                None => "none".into(),
            }
        ),
        Error::HttpFormat(_) => "err:httpformat".into(),
        #[allow(unreachable_patterns)]
        _ => "err:unknown".into(),
    }
}

pub fn message_s(m: &Message) -> String {
    match m {
        Message::Text(t) => format!("ok:T:{}", hex(t.as_bytes())),
        Message::Binary(b) => format!("ok:B:{}", hex(b)),
        Message::Ping(b) => format!("ok:PI:{}", hex(b)),
        Message::Pong(b) => format!("ok:PO:{}", hex(b)),
        Message::Close(c) => format!("ok:C:{}", close_s(c)),
        Message::Frame(f) => format!("ok:F:{}", frame_s(f)),
    }
}

fn close_of(code: &str, h: &str) -> Result<Option<CloseFrame>, String> {
    if code == "-" {
        return Ok(None);
    }
    let c: u16 = code.parse().map_err(|_| "code")?;
    let reason = String::from_utf8(unhex(h)).map_err(|_| "close reason not utf8")?;
    Ok(Some(CloseFrame { code: CloseCode::from(c), reason: Utf8Bytes::from(reason) }))
}

fn header_of(flags: &str, opc: &str, mask: &str) -> Result<FrameHeader, String> {
    let fb = flags.as_bytes();
    let o: u8 = opc.parse().map_err(|_| "opc")?;
    if o > 15 {
        return Err("opcode>15".into());
    }
    let mut h = FrameHeader::default();
    h.is_final = fb[0] == b'1';
    h.rsv1 = fb[1] == b'1';
    h.rsv2 = fb[2] == b'1';
    h.rsv3 = fb[3] == b'1';
    h.opcode = OpCode::from(o);
    h.mask = if mask == "-" {
        None
    } else {
        let m = unhex(mask);
        Some([m[0], m[1], m[2], m[3]])
    };
    Ok(h)
}

pub enum Op {
    Read,
    Write(Message),
    Flush,
    Close(Option<CloseFrame>),
    CanRead,
    CanWrite,
    SetBuf(usize, usize, Option<usize>),
    /// set_config(max_message_size, max_frame_size, accept_unmasked_frames) — not in the model (impl-only cases)
    SetLimits(Option<usize>, Option<usize>, bool),
}

pub fn parse_usize_or_inf(s: &str) -> usize {
    if s == "inf" {
        usize::MAX
    } else {
        s.parse().unwrap()
    }
}

pub fn op_of(s: &str) -> Result<Op, String> {
    let p: Vec<&str> = s.split(':').collect();
    Ok(match p.as_slice() {
        ["r"] => Op::Read,
        ["f"] => Op::Flush,
        ["cr"] => Op::CanRead,
        ["cw"] => Op::CanWrite,
        ["wt", h] => Op::Write(Message::Text(Utf8Bytes::from(
            String::from_utf8(unhex(h)).map_err(|_| "text not utf8")?,
        ))),
        ["wb", h] => Op::Write(Message::Binary(Bytes::from(unhex(h)))),
        ["wpi", h] => Op::Write(Message::Ping(Bytes::from(unhex(h)))),
        ["wpo", h] => Op::Write(Message::Pong(Bytes::from(unhex(h)))),
        ["wc", "-"] => Op::Write(Message::Close(None)),
        ["wc", c, h] => Op::Write(Message::Close(close_of(c, h)?)),
        ["wf", fl, o, m, h] => {
            Op::Write(Message::Frame(Frame::from_payload(header_of(fl, o, m)?, Bytes::from(unhex(h)))))
        }
        ["c", "-"] => Op::Close(None),
        ["c", c, h] => Op::Close(close_of(c, h)?),
        ["sb", a, b] => Op::SetBuf(a.parse().unwrap(), parse_usize_or_inf(b), None),
        // sb:<wbs>:<max>:<rbs> also changes read_buffer_size (not in the model: it only sizes an allocation)
        ["sb", a, b, r] | ["sn", a, b, r] => Op::SetBuf(a.parse().unwrap(), parse_usize_or_inf(b), Some(r.parse().unwrap())),
        ["sl", a, b, c] => Op::SetLimits(opt_usize(a), opt_usize(b), *c == "1"),
        _ => return Err(format!("bad op {s}")),
    })
}

pub fn list(s: &str) -> Vec<&str> {
    if s == "-" || s.is_empty() {
        vec![]
    } else {
        s.split(',').collect()
    }
}

pub fn opt_usize(s: &str) -> Option<usize> {
    if s == "none" {
        None
    } else {
        Some(s.parse().unwrap())
    }
}

thread_local! {
    /// (largest single allocation request, peak live bytes) seen inside `read` calls of the current case
    pub static ALLOC_STATS: std::cell::Cell<(usize, usize)> = const { std::cell::Cell::new((0, 0)) };
}

/// run socket ops on an established WebSocket; appends `res ev ev | res ev ...` to `out`
pub fn run_ops_on(ws: &mut WebSocket<Script>, ops: Vec<Op>, mut upto: usize, out: &mut String, first: bool) {
    for (i, op) in ops.into_iter().enumerate() {
        let r = catch_unwind(AssertUnwindSafe(|| match op {
            Op::Read => {
                alloc::begin();
                let res = ws.read();
                let (mx, pk) = alloc::end();
                ALLOC_STATS.with(|a| {
                    let (m0, p0) = a.get();
                    a.set((m0.max(mx), p0.max(pk)));
                });
                match res {
                    Ok(m) => message_s(&m),
                    Err(e) => error_s(&e),
                }
            }
            Op::Write(m) => match ws.write(m) {
                Ok(()) => "ok".into(),
                Err(e) => error_s(&e),
            },
            Op::Flush => match ws.flush() {
                Ok(()) => "ok".into(),
                Err(e) => error_s(&e),
            },
            Op::Close(c) => match ws.close(c) {
                Ok(()) => "ok".into(),
                Err(e) => error_s(&e),
            },
            Op::CanRead => format!("{}", ws.can_read()),
            Op::CanWrite => format!("{}", ws.can_write()),
            Op::SetBuf(a, b, r) => {
                ws.set_config(|c| {
                    c.write_buffer_size = a;
                    c.max_write_buffer_size = b;
                    if let Some(r) = r {
                        c.read_buffer_size = r;
                    }
                });
                "ok".into()
            }
            Op::SetLimits(a, b, c) => {
                ws.set_config(|cfg| {
                    cfg.max_message_size = a;
                    cfg.max_frame_size = b;
                    cfg.accept_unmasked_frames = c;
                });
                "ok".into()
            }
        }));
        if i > 0 || !first {
            out.push_str(" | ");
        }
        let panicked = r.is_err();
        match r {
            Ok(s) => out.push_str(&s),
            Err(_) => out.push_str("panic:rust"),
        }
        let log = &ws.get_ref().log;
        for ev in &log[upto..] {
            out.push(' ');
            out.push_str(ev);
        }
        upto = log.len();
        if panicked {
            break;
        }
    }
}

/// S id role wbs max mms mfs au rbs seed pre ops rds wrs fls
fn run_socket(f: &[&str]) -> Result<(String, String), String> {
    let role = if f[2] == "s" { Role::Server } else { Role::Client };
    let mut cfg = WebSocketConfig::default();
    cfg.write_buffer_size = f[3].parse().unwrap();
    cfg.max_write_buffer_size = parse_usize_or_inf(f[4]);
    cfg.max_message_size = opt_usize(f[5]);
    cfg.max_frame_size = opt_usize(f[6]);
    cfg.accept_unmasked_frames = f[7] == "1";
    let via_set_config = f[8].ends_with("@sc");
    cfg.read_buffer_size = f[8].trim_end_matches("@sc").parse().unwrap();
    let seed: u32 = f[9].parse().unwrap();
    let pre = unhex(f[10]);
    let mut ops = Vec::new();
    for o in list(f[11]) {
        ops.push(op_of(o)?);
    }
    let script = Script::parse(&list(f[12]), &list(f[13]), &list(f[14]))?;
    #[cfg(tungstenite_verif)]
    tungstenite::protocol::frame::verif_set_mask_seed(seed);
    #[cfg(not(tungstenite_verif))]
    let _ = seed;

    let mut out = String::new();
    let created = catch_unwind(AssertUnwindSafe(|| {
        // "@sc": build with the default configuration (only read_buffer_size given) and install the case's
        // configuration with set_config before the first op: every field must be propagated at run time
        let initial = if via_set_config { WebSocketConfig::default().read_buffer_size(cfg.read_buffer_size) } else { cfg };
        let mut ws = if pre.is_empty() {
            WebSocket::from_raw_socket(script, role, Some(initial))
        } else {
            WebSocket::from_partially_read(script, pre.clone(), role, Some(initial))
        };
        if via_set_config {
            ws.set_config(|c| *c = cfg);
        }
        ws
    }));
    let mut ws = match created {
        Ok(ws) => ws,
        Err(_) => return Ok((model_line(f, None), "panic:config".into())),
    };
    ALLOC_STATS.with(|a| a.set((0, 0)));
    run_ops_on(&mut ws, ops, 0, &mut out, true);
    let (mx, pk) = ALLOC_STATS.with(|a| a.get());
    out.push_str(&format!(" ## A:{mx}:{pk}"));
    let m = model_line(f, Some(ws.get_ref()));
    Ok((m, out))
}

pub fn join_or_dash(v: &[String]) -> String {
    if v.is_empty() {
        "-".into()
    } else {
        v.join(",")
    }
}

/// the same case line with the transport outcomes as they actually happened
fn model_line(f: &[&str], s: Option<&Script>) -> String {
    let mut g: Vec<String> = f.iter().map(|x| x.to_string()).collect();
    if g.len() > 8 {
        g[8] = g[8].trim_end_matches("@sc").to_string();
    }
    if let Some(s) = s {
        g[12] = join_or_dash(&s.actual_rds);
        g[13] = join_or_dash(&s.actual_wrs);
        g[14] = join_or_dash(&s.actual_fls);
    }
    g.join(" ")
}

// ---------------------------------------------------------------------------------------------
// E1 pure cases

fn run_closecode(f: &[&str]) -> String {
    let c: u16 = f[2].parse().unwrap();
    let cc = CloseCode::from(c);
    let name = format!("{cc:?}");
    let name = name.split('(').next().unwrap().to_string();
    // every public conversion: by value, by reference, Display
    format!(
        "{}:{}:{}:{}:{}",
        name,
        u16::from(cc),
        if cc.is_allowed() { 1 } else { 0 },
        u16::from(&cc),
        cc
    )
}

fn run_header_parse(f: &[&str]) -> String {
    // optional 4th field: the header starts `off` bytes into the cursor (bytes before it were consumed by an earlier parse);
    // positions are reported relative to that start, so the answer must not depend on `off`
    let off: u64 = if f.len() > 3 { f[3].parse().unwrap() } else { 0 };
    let mut b = vec![0x5au8; off as usize];
    b.extend_from_slice(&unhex(f[2]));
    let mut cur = std::io::Cursor::new(&b);
    cur.set_position(off);
    match FrameHeader::parse(&mut cur) {
        Ok(Some((h, len))) => format!("ok:{}:{}:{}", header_s(&h), len, cur.position() as i64 - off as i64),
        Ok(None) => {
            if cur.position() != off {
                format!("inc-consumed:{}", cur.position() as i64 - off as i64)
            } else {
                "inc".into()
            }
        }
        Err(Error::Protocol(ProtocolError::InvalidOpcode(i))) => format!("err:{i}"),
        Err(e) => format!("err:other:{}", error_s(&e)),
    }
}

fn run_header_format(f: &[&str]) -> Result<String, String> {
    let h = header_of(f[2], f[3], f[4])?;
    let len: u64 = f[5].parse().unwrap();
    let mut v = Vec::new();
    h.format(len, &mut v).map_err(|e| error_s(&e))?;
    Ok(format!("{}:{}", hex(&v), h.len(len)))
}

/// frames written through FrameSocket (format_into_buf) behind a prefix of `prefixlen` bytes already
/// in out_buffer; returns everything the transport accepted
fn write_via_socket(prefixlen: usize, fr: Frame) -> Result<Vec<u8>, String> {
    let blocks: &[&str] = if prefixlen >= 2 { &["e:wb", "e:wb"] } else { &["e:wb"] };
    let script = Script::parse(&[], blocks, &[])?;
    let mut fs = FrameSocket::new(script);
    if prefixlen >= 2 {
        let pf = Frame::message(vec![0xEEu8; prefixlen - 2], OpCode::Data(Data::Binary), true);
        let _ = fs.write(pf);
    }
    let _ = fs.write(fr);
    fs.flush().map_err(|e| error_s(&e))?;
    Ok(fs.get_ref().accepted.clone())
}

struct ShortSink {
    out: Vec<u8>,
    max: usize,
}
impl std::io::Write for ShortSink {
    fn write(&mut self, buf: &[u8]) -> std::io::Result<usize> {
        let n = buf.len().min(self.max);
        self.out.extend_from_slice(&buf[..n]);
        Ok(n)
    }
    fn flush(&mut self) -> std::io::Result<()> {
        Ok(())
    }
}

fn run_frame_format(f: &[&str]) -> Result<String, String> {
    // FF id flags opcode mask payload prefixlen
    let h = header_of(f[2], f[3], f[4])?;
    let payload = unhex(f[5]);
    let prefixlen: usize = f[6].parse().unwrap();
    let fr = Frame::from_payload(h, Bytes::from(payload));
    let len = fr.len();
    let mut v = Vec::new();
    fr.clone().format(&mut v).map_err(|e| error_s(&e))?;
    // the same through writers that take at most n bytes per write() call: Frame::format must still emit every byte
    for n in [1usize, 3, 8] {
        let mut sink = ShortSink { out: Vec::new(), max: n };
        fr.clone().format(&mut sink).map_err(|e| error_s(&e))?;
        if sink.out != v {
            return Ok(format!("short-write-sink-differs:{}:{}", n, hex(&sink.out)));
        }
    }
    let all = write_via_socket(prefixlen, fr)?;
    let mut into = vec![0xEEu8; prefixlen];
    into.extend_from_slice(&all[prefixlen.min(all.len())..]);
    Ok(format!("{}:{}:{}", hex(&v), len, hex(&into)))
}

fn run_utf8(f: &[&str]) -> String {
    match std::str::from_utf8(&unhex(f[2])) {
        Ok(_) => "ok".into(),
        Err(e) => format!(
            "err:{}:{}",
            e.valid_up_to(),
            match e.error_len() {
                Some(l) => l.to_string(),
                None => "-".into(),
            }
        ),
    }
}

fn run_mask(f: &[&str]) -> Result<String, String> {
    // MK id route p key payload ; route = fmt | wr<k> | rd<k>
    let route = f[2];
    let key = unhex(f[4]);
    let key = [key[0], key[1], key[2], key[3]];
    let payload = unhex(f[5]);
    let mut h = FrameHeader::default();
    h.opcode = OpCode::Data(Data::Binary);
    h.mask = Some(key);
    let hl = h.len(payload.len() as u64);
    if route == "fmt" {
        let fr = Frame::from_payload(h, Bytes::from(payload));
        let mut v = Vec::new();
        fr.format(&mut v).map_err(|e| error_s(&e))?;
        Ok(hex(&v[hl..]))
    } else if let Some(k) = route.strip_prefix("wr") {
        // wr<k>[o<off>]: the payload handed to the library is a slice starting `off` bytes into its allocation
        let (k, off): (usize, usize) = match k.split_once('o') {
            Some((a, b)) => (a.parse().unwrap(), b.parse().unwrap()),
            None => (k.parse().unwrap(), 0),
        };
        let payload = if off > 0 {
            let mut v = vec![0x77u8; off];
            v.extend_from_slice(&payload);
            Bytes::from(v).slice(off..)
        } else {
            Bytes::from(payload)
        };
        let fr = Frame::from_payload(h, payload);
        let all = write_via_socket(k, fr)?;
        Ok(hex(&all[k + hl..]))
    } else if let Some(k) = route.strip_prefix("rd") {
        // server read path: k bytes of unmasked frame consumed before, then the masked frame whose
        // wire payload is `payload`; the message returned is payload XOR key
        // rd<k>[c<cut>]: optionally the transport delivers the masked frame in two reads, cut `cut` bytes into it
        // rd<k>w<cut>: the same with a WouldBlock between the two reads (the call returns and is repeated)
        let partial = k.ends_with('p');
        let k = k.trim_end_matches('p');
        // rd<k>t<c1>_<c2>: three reads (cuts c1 < c2 into the masked frame), WouldBlock between them
        let (k, cut2): (&str, Option<usize>) = match k.split_once('_') {
            Some((a, b)) => (a, Some(b.parse().unwrap())),
            None => (k, None),
        };
        let k_owned = k.replace('t', "w");
        let k = k_owned.as_str();
        let (k, cut, blocked): (usize, Option<usize>, bool) = match (k.split_once('c'), k.split_once('w')) {
            (Some((a, b)), _) => (a.parse().unwrap(), Some(b.parse().unwrap()), false),
            (_, Some((a, b))) => (a.parse().unwrap(), Some(b.parse().unwrap()), true),
            _ => (k.parse().unwrap(), None, false),
        };
        let mut wire = Vec::new();
        if k >= 2 {
            Frame::message(vec![0x11u8; k - 2], OpCode::Data(Data::Binary), true)
                .format(&mut wire)
                .unwrap();
        }
        h.format(payload.len() as u64, &mut wire).unwrap();
        wire.extend_from_slice(&payload);
        let chunks: Vec<String> = match cut {
            Some(c) if k + c > 0 && k + c < wire.len() && blocked && cut2.map_or(false, |c2| c2 > c && k + c2 < wire.len()) => {
                let c2 = cut2.unwrap();
                vec![
                    format!("d:{}", hex(&wire[..k + c])),
                    "e:wb".to_string(),
                    format!("d:{}", hex(&wire[k + c..k + c2])),
                    "e:wb".to_string(),
                    format!("d:{}", hex(&wire[k + c2..])),
                ]
            }
            Some(c) if k + c > 0 && k + c < wire.len() && blocked => {
                vec![format!("d:{}", hex(&wire[..k + c])), "e:wb".to_string(), format!("d:{}", hex(&wire[k + c..]))]
            }
            Some(c) if k + c > 0 && k + c < wire.len() => vec![format!("d:{}", hex(&wire[..k + c])), format!("d:{}", hex(&wire[k + c..]))],
            _ => vec![format!("d:{}", hex(&wire))],
        };
        let chunk_refs: Vec<&str> = chunks.iter().map(|s| s.as_str()).collect();
        let cfg = WebSocketConfig::default().accept_unmasked_frames(true);
        // rd<k>p: the whole wire is handed over at construction (from_partially_read) instead of coming from the transport
        let mut ws = if partial {
            WebSocket::from_partially_read(Script::parse(&[], &[], &[])?, wire.clone(), Role::Server, Some(cfg))
        } else {
            WebSocket::from_raw_socket(Script::parse(&chunk_refs, &[], &[])?, Role::Server, Some(cfg))
        };
        if k >= 2 {
            ws.read().map_err(|e| error_s(&e))?;
        }
        let mut r = ws.read();
        if blocked {
            for _ in 0..2 {
                if let Err(Error::Io(ref e)) = r {
                    if e.kind() == std::io::ErrorKind::WouldBlock {
                        r = ws.read();
                    }
                }
            }
        }
        match r {
            Ok(Message::Binary(b)) => Ok(hex(&b)),
            Ok(m) => Err(message_s(&m)),
            Err(e) => Err(error_s(&e)),
        }
    } else {
        Err("route".into())
    }
}

/// MA id kind ... : Message / Frame accessor API.
///   T <hex> | B <hex> | PI <hex> | PO <hex> | C <code|-> <hex> | F <flags> <opc> <mask> <hex>
/// prints flags:len:empty:data:into_text:to_text:display:bytes_from:ctor
fn run_message_api(f: &[&str]) -> Result<String, String> {
    use bytes::BytesMut;
    let mut ctor = true;
    let m: Message = match f[2] {
        "T" => {
            let raw = unhex(f[3]);
            let s = String::from_utf8(raw.clone()).map_err(|_| "text not utf8")?;
            let m = Message::text(s.clone());
            ctor &= m == Message::from(s.clone());
            ctor &= m == Message::from(s.as_str());
            ctor &= m == Message::Text(Utf8Bytes::from(s.clone()));
            ctor &= m == Message::Text(Utf8Bytes::from(&s));
            ctor &= m == Message::Text(Utf8Bytes::from(s.as_str()));
            ctor &= Utf8Bytes::try_from(raw.clone()).map(Message::Text).ok() == Some(m.clone());
            ctor &= Utf8Bytes::try_from(Bytes::from(raw.clone())).map(Message::Text).ok() == Some(m.clone());
            ctor &= Utf8Bytes::try_from(BytesMut::from(&raw[..])).map(Message::Text).ok() == Some(m.clone());
            if let Message::Text(u) = &m {
                ctor &= u.as_str() == s.as_str() && Bytes::from(u.clone()) == Bytes::from(raw.clone());
                ctor &= format!("{u}") == s && *u == s.as_str();
            }
            m
        }
        "B" => {
            let raw = unhex(f[3]);
            let m = Message::binary(raw.clone());
            ctor &= m == Message::from(&raw[..]);
            ctor &= m == Message::from(raw.clone());
            ctor &= m == Message::from(Bytes::from(raw.clone()));
            ctor &= m == Message::Binary(Bytes::from(raw.clone()));
            // invalid UTF-8 must be refused by every Utf8Bytes conversion, valid accepted unchanged
            let valid = std::str::from_utf8(&raw).is_ok();
            ctor &= Utf8Bytes::try_from(raw.clone()).is_ok() == valid;
            ctor &= Utf8Bytes::try_from(Bytes::from(raw.clone())).is_ok() == valid;
            ctor &= Utf8Bytes::try_from(BytesMut::from(&raw[..])).is_ok() == valid;
            m
        }
        "PI" => Message::Ping(Bytes::from(unhex(f[3]))),
        "PO" => Message::Pong(Bytes::from(unhex(f[3]))),
        "C" => Message::Close(close_of(f[3], f[4])?),
        "F" => {
            let h = header_of(f[3], f[4], f[5])?;
            let fr = Frame::from_payload(h, Bytes::from(unhex(f[6])));
            // Frame accessors agree with the Message::Frame ones
            ctor &= fr.payload() == &unhex(f[6])[..];
            ctor &= fr.clone().into_payload() == Bytes::from(unhex(f[6]));
            ctor &= fr.to_text().ok().map(|s| s.as_bytes().to_vec()) == fr.clone().into_text().ok().map(|u| u.as_bytes().to_vec());
            ctor &= !fr.is_empty();
            Message::Frame(fr)
        }
        _ => return Err("kind".into()),
    };
    let flags = format!(
        "{}{}{}{}{}",
        m.is_text() as u8,
        m.is_binary() as u8,
        m.is_ping() as u8,
        m.is_pong() as u8,
        m.is_close() as u8
    );
    let it = match m.clone().into_text() {
        Ok(u) => format!("ok={}", hex(u.as_bytes())),
        Err(_) => "err".into(),
    };
    let tt = match m.to_text() {
        Ok(u) => format!("ok={}", hex(u.as_bytes())),
        Err(_) => "err".into(),
    };
    Ok(format!(
        "{}:{}:{}:{}:{}:{}:{}:{}:{}",
        flags,
        m.len(),
        m.is_empty() as u8,
        hex(&m.clone().into_data()),
        it,
        tt,
        hex(format!("{m}").as_bytes()),
        hex(&Bytes::from(m.clone())),
        ctor as u8
    ))
}

/// RB id chunk_size part ops rds : tungstenite::buffer::ReadBuffer<CHUNK>  (ops: rf | ad:<n> | ch | rm; into_vec at the end)
fn run_readbuf_n<const C: usize>(f: &[&str]) -> Result<String, String> {
    use bytes::Buf;
    use tungstenite::buffer::ReadBuffer;
    let part = unhex(f[3]);
    let mut script = Script::parse(&list(f[5]), &[], &[])?;
    let mut rb: ReadBuffer<C> = if part.is_empty() { ReadBuffer::new() } else { ReadBuffer::from_partially_read(part) };
    let mut out: Vec<String> = Vec::new();
    for o in list(f[4]) {
        let p: Vec<&str> = o.split(':').collect();
        let r = catch_unwind(AssertUnwindSafe(|| -> String {
            match p.as_slice() {
                ["rf"] => match rb.read_from(&mut script) {
                    Ok(n) => format!("ok:{n}"),
                    Err(e) => format!("err:io:{}", io_kind_s(e.kind())),
                },
                ["ad", n] => {
                    let n: usize = n.parse().unwrap();
                    rb.advance(n);
                    format!("ok:{n}")
                }
                ["ch"] => format!("b:{}", hex(rb.chunk())),
                ["rm"] => format!("ok:{}", rb.remaining()),
                _ => "bad-op".into(),
            }
        }));
        match r {
            Ok(t) => out.push(t),
            Err(_) => {
                out.push("panic".into());
                return Ok(out.join(" | "));
            }
        }
    }
    out.push(format!("iv:{}", hex(&rb.into_vec())));
    Ok(out.join(" | "))
}

fn run_readbuf(f: &[&str]) -> Result<String, String> {
    match f[2] {
        "1" => run_readbuf_n::<1>(f),
        "4" => run_readbuf_n::<4>(f),
        "8" => run_readbuf_n::<8>(f),
        "4096" => run_readbuf_n::<4096>(f),
        _ => Err("chunk size".into()),
    }
}

/// FS id pre ops rds wrs fls : FrameSocket API (read / write / send / flush on raw frames)
fn run_framesocket(f: &[&str]) -> Result<(String, String), String> {
    let pre = unhex(f[2]);
    let script = Script::parse(&list(f[4]), &list(f[5]), &list(f[6]))?;
    let mut fs = if pre.is_empty() { FrameSocket::new(script) } else { FrameSocket::from_partially_read(script, pre) };
    let mut out = String::new();
    let mut upto = 0usize;
    for (i, o) in list(f[3]).into_iter().enumerate() {
        let p: Vec<&str> = o.split(':').collect();
        let r = catch_unwind(AssertUnwindSafe(|| -> Result<String, String> {
            Ok(match p.as_slice() {
                ["r", m] => match fs.read(opt_usize(m)) {
                    Ok(Some(fr)) => format!("ok:F:{}", frame_s(&fr)),
                    Ok(None) => "ok:none".into(),
                    Err(e) => error_s(&e),
                },
                ["f"] => match fs.flush() {
                    Ok(()) => "ok".into(),
                    Err(e) => error_s(&e),
                },
                ["w", fl, opc, m, h] => {
                    match fs.write(Frame::from_payload(header_of(fl, opc, m)?, Bytes::from(unhex(h)))) {
                        Ok(()) => "ok".into(),
                        Err(e) => error_s(&e),
                    }
                }
                ["s", fl, opc, m, h] => {
                    match fs.send(Frame::from_payload(header_of(fl, opc, m)?, Bytes::from(unhex(h)))) {
                        Ok(()) => "ok".into(),
                        Err(e) => error_s(&e),
                    }
                }
                _ => return Err(format!("bad fs op {o}")),
            })
        }));
        if i > 0 {
            out.push_str(" | ");
        }
        let panicked = r.is_err();
        match r {
            Ok(Ok(s)) => out.push_str(&s),
            Ok(Err(e)) => return Err(e),
            Err(_) => out.push_str("panic:rust"),
        }
        let log = &fs.get_ref().log;
        for ev in &log[upto..] {
            out.push(' ');
            out.push_str(ev);
        }
        upto = log.len();
        if panicked {
            break;
        }
    }
    let mut g: Vec<String> = f.iter().map(|x| x.to_string()).collect();
    let s = fs.get_ref();
    g[4] = join_or_dash(&s.actual_rds);
    g[5] = join_or_dash(&s.actual_wrs);
    g[6] = join_or_dash(&s.actual_fls);
    Ok((g.join(" "), out))
}

/// EP id : configuration plumbing. Builder setters must set the field they name, and every constructor / handshake
/// entry point that takes a config must hand exactly that config to the socket (impl-only case; monitor wants all "ok").
fn run_entry_points(_f: &[&str]) -> String {
    let mut out: Vec<String> = vec![];
    let mut ck = |name: &str, ok: bool| out.push(format!("{}={}", name, if ok { "ok" } else { "BAD" }));
    let c = WebSocketConfig::default()
        .read_buffer_size(1111)
        .write_buffer_size(2222)
        .max_write_buffer_size(3333)
        .max_message_size(Some(4444))
        .max_frame_size(Some(5555))
        .accept_unmasked_frames(true);
    ck("setters", c.read_buffer_size == 1111 && c.write_buffer_size == 2222 && c.max_write_buffer_size == 3333
        && c.max_message_size == Some(4444) && c.max_frame_size == Some(5555) && c.accept_unmasked_frames);
    let same = |a: &WebSocketConfig| {
        a.read_buffer_size == 1111 && a.write_buffer_size == 2222 && a.max_write_buffer_size == 3333
            && a.max_message_size == Some(4444) && a.max_frame_size == Some(5555) && a.accept_unmasked_frames
    };
    let d = WebSocketConfig::default();
    let is_default = |a: &WebSocketConfig| {
        a.read_buffer_size == d.read_buffer_size && a.write_buffer_size == d.write_buffer_size
            && a.max_write_buffer_size == d.max_write_buffer_size && a.max_message_size == d.max_message_size
            && a.max_frame_size == d.max_frame_size && a.accept_unmasked_frames == d.accept_unmasked_frames
    };
    let mk = || Script::parse(&[], &[], &[]).unwrap();
    ck("from_raw_socket", same(WebSocket::from_raw_socket(mk(), Role::Server, Some(c)).get_config()));
    ck("from_raw_socket_none", is_default(WebSocket::from_raw_socket(mk(), Role::Client, None).get_config()));
    ck("from_partially_read", same(WebSocket::from_partially_read(mk(), vec![1, 2], Role::Client, Some(c)).get_config()));
    {
        let mut ws = WebSocket::from_raw_socket(mk(), Role::Server, None);
        ws.set_config(|x| *x = c);
        ck("set_config", same(ws.get_config()));
    }
    let req = b"GET / HTTP/1.1\r\nHost: h\r\nConnection: Upgrade\r\nUpgrade: websocket\r\nSec-WebSocket-Version: 13\r\nSec-WebSocket-Key: dGhlIHNhbXBsZSBub25jZQ==\r\n\r\n";
    let srv = |cfgd: bool, hdr: bool| -> Option<WebSocketConfig> {
        let s = Script::parse(&[&format!("d:{}", hex(req))], &[], &[]).unwrap();
        let r = match (cfgd, hdr) {
            (true, false) => tungstenite::accept_with_config(s, Some(c)).ok(),
            (false, false) => tungstenite::accept(s).ok(),
            (true, true) => tungstenite::accept_hdr_with_config(s, |_: &tungstenite::handshake::server::Request, r: tungstenite::handshake::server::Response| Ok(r), Some(c)).ok(),
            (false, true) => tungstenite::accept_hdr(s, |_: &tungstenite::handshake::server::Request, r: tungstenite::handshake::server::Response| Ok(r)).ok(),
        };
        r.map(|ws| *ws.get_config())
    };
    ck("accept_with_config", srv(true, false).map(|x| same(&x)).unwrap_or(false));
    ck("accept", srv(false, false).map(|x| is_default(&x)).unwrap_or(false));
    ck("accept_hdr_with_config", srv(true, true).map(|x| same(&x)).unwrap_or(false));
    ck("accept_hdr", srv(false, true).map(|x| is_default(&x)).unwrap_or(false));
    out.join(" ")
}

/// KS id role n : write n small binary messages on a fresh socket with an accepting transport and report statistics of
/// the mask keys found on the wire (meaningful only in the build WITHOUT the deterministic-mask hook)
fn run_key_stats(f: &[&str]) -> String {
    let role = if f[2] == "s" { Role::Server } else { Role::Client };
    let n: usize = f[3].parse().unwrap();
    let script = Script::parse(&[], &[], &[]).unwrap();
    let mut ws = WebSocket::from_raw_socket(script, role, None);
    for i in 0..n {
        if ws.send(Message::Binary(Bytes::from(vec![(i & 255) as u8, 7]))).is_err() {
            return "error".into();
        }
    }
    let wire = &ws.get_ref().accepted;
    let mut keys: Vec<[u8; 4]> = vec![];
    let mut i = 0;
    let mut unmasked = 0usize;
    while i + 2 <= wire.len() {
        let masked = wire[i + 1] & 0x80 != 0;
        let len = (wire[i + 1] & 0x7f) as usize;
        if masked {
            keys.push([wire[i + 2], wire[i + 3], wire[i + 4], wire[i + 5]]);
            i += 6 + len;
        } else {
            unmasked += 1;
            i += 2 + len;
        }
    }
    let mut sorted = keys.clone();
    sorted.sort();
    sorted.dedup();
    let mut per = [0usize; 4];
    for (p, cnt) in per.iter_mut().enumerate() {
        let mut seen = [false; 256];
        for k in &keys {
            seen[k[p] as usize] = true;
        }
        *cnt = seen.iter().filter(|x| **x).count();
    }
    format!(
        "hook={} frames={} masked={} unmasked={} distinct={} bytevals={},{},{},{}",
        cfg!(tungstenite_verif),
        n,
        keys.len(),
        unmasked,
        sorted.len(),
        per[0],
        per[1],
        per[2],
        per[3]
    )
}

fn main() {
    std::panic::set_hook(Box::new(|_| {}));
    let args: Vec<String> = std::env::args().collect();
    let input: Box<dyn BufRead> = if args.len() > 1 {
        Box::new(std::io::BufReader::new(std::fs::File::open(&args[1]).expect("open input")))
    } else {
        Box::new(std::io::BufReader::new(std::io::stdin()))
    };
    let stdout = std::io::stdout();
    let mut out = BufWriter::new(stdout.lock());
    for line in input.lines() {
        let line = line.unwrap();
        if line.is_empty() {
            continue;
        }
        let f: Vec<&str> = line.split(' ').collect();
        let id = f[1];
        if f[0] == "PR" {
            // a pair run: its own trace, plus each endpoint's run re-executed as an ordinary S case
            let parts = pair::run_pair(&f);
            for (l, t) in parts {
                if l.starts_with("S ") {
                    let g: Vec<&str> = l.split(' ').collect();
                    match run_socket(&g) {
                        Ok((m, t2)) => {
                            writeln!(out, "M {m}").unwrap();
                            writeln!(out, "T {} {}", g[1], t2).unwrap();
                        }
                        Err(e) => {
                            writeln!(out, "T {} bad-case:{}", g[1], e).unwrap();
                        }
                    }
                } else {
                    writeln!(out, "T {id} {t}").unwrap();
                }
            }
            continue;
        }
        let r = catch_unwind(AssertUnwindSafe(|| -> (String, String) {
            match f[0] {
                // SI: same as S but uses ops the model does not have (set_config of the inbound limits): implementation only
                // SN: same as S, run on the implementation only (inputs too long for the list-based model to be worth evaluating)
                "S" | "SI" | "SN" => match run_socket(&f) {
                    Ok((m, t)) => (m, t),
                    Err(e) => (line.clone(), format!("bad-case:{e}")),
                },
                "CC" => (line.clone(), run_closecode(&f)),
                "HP" => (line.clone(), run_header_parse(&f)),
                "HF" => (line.clone(), run_header_format(&f).unwrap_or_else(|e| format!("bad-case:{e}"))),
                "FF" => (line.clone(), run_frame_format(&f).unwrap_or_else(|e| format!("bad-case:{e}"))),
                "U8" => (line.clone(), run_utf8(&f)),
                "MK" => (line.clone(), run_mask(&f).unwrap_or_else(|e| format!("bad-case:{e}"))),
                "MA" => (line.clone(), run_message_api(&f).unwrap_or_else(|e| format!("bad-case:{e}"))),
                "RB" => (line.clone(), run_readbuf(&f).unwrap_or_else(|e| format!("bad-case:{e}"))),
                "KS" => (line.clone(), run_key_stats(&f)),
                "EP" => (line.clone(), run_entry_points(&f)),
                "FS" => match run_framesocket(&f) {
                    Ok((m, t)) => (m, t),
                    Err(e) => (line.clone(), format!("bad-case:{e}")),
                },
                "KR" => (line.clone(), hs::run_request_key_stats(&f)),
                k => match hs::run(k, &f) {
                    Some((m, t)) => (m, t),
                    None => (line.clone(), "unknown-kind".into()),
                },
            }
        }));
        let (m, t) = match r {
            Ok(x) => x,
            Err(_) => (line.clone(), "panic:rust".into()),
        };
        writeln!(out, "M {m}").unwrap();
        writeln!(out, "T {id} {t}").unwrap();
    }
}
