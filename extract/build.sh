#!/bin/sh
# build the extracted model + driver (native). usage: build.sh  (run in /verif/extract)
set -e
cd "$(dirname "$0")"
coqc -Q ../coq TungModel Extract.v >/dev/null
mkdir -p _build && cp model.ml model.mli dutil.ml driver_hs.ml driver.ml _build/
cd _build && ocamlfind ocamlopt -O3 -unboxed-types 2>/dev/null -package str model.mli model.ml dutil.ml driver_hs.ml driver.ml -o driver 2>/dev/null || \
  ocamlfind ocamlopt -w -a model.mli model.ml dutil.ml driver_hs.ml driver.ml -o driver
