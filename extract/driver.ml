(* driver.ml — main loop of the model driver: dispatches case lines to handlers (see dutil.ml, driver_hs.ml) *)
open Model
type string = Stdlib.String.t
open Dutil

(* ---------- pure (E1) cases ---------- *)
let run_closecode (f : string array) : string =
  let c = n_of_string f.(2) in
  let cc = close_of_u16 c in
  close_code_name cc ^ ":" ^ string_of_n (close_to_u16 cc) ^ ":" ^ (if close_allowed cc then "1" else "0")
  ^ ":" ^ string_of_n (close_to_u16 cc) ^ ":" ^ string_of_n (close_to_u16 cc)

let run_header_parse (f : string array) : string =
  match header_parse (bytes_of_hex f.(2)) with
  | POk (h, len, k) -> "ok:" ^ header_s h ^ ":" ^ string_of_n len ^ ":" ^ string_of_n k
  | PIncomplete -> "inc"
  | PErr i -> "err:" ^ string_of_n i
  | PPanic -> "panic"

let run_header_format (f : string array) : string =
  (* HF id flags opcode mask len *)
  let h = header_of_fields f.(2) f.(3) f.(4) in
  let len = n_of_string f.(5) in
  hex_of_bytes (header_format h len) ^ ":" ^ string_of_n (header_len h len)

let run_frame_format (f : string array) : string =
  (* FF id flags opcode mask payload prefixlen : Frame::format, Frame::len, format_into_buf after a prefix *)
  let fr = { f_hdr = header_of_fields f.(2) f.(3) f.(4); f_payload = bytes_of_hex f.(5) } in
  let pre = List.init (int_of_string f.(6)) (fun _ -> n_of_int 0xEE) in
  let into = frame_format_into_buf pre fr in
  hex_of_bytes (frame_format fr) ^ ":" ^ string_of_n (frame_len fr) ^ ":" ^ hex_of_bytes into

let run_utf8 (f : string array) : string =
  match from_utf8 (bytes_of_hex f.(2)) with
  | UOk -> "ok"
  | UErr (v, None) -> "err:" ^ string_of_n v ^ ":-"
  | UErr (v, Some l) -> "err:" ^ string_of_n v ^ ":" ^ string_of_n l

let run_mask (f : string array) : string =
  (* MK id route p key payload *)
  let p = n_of_string f.(3) in
  let k = match bytes_of_hex f.(4) with [a;b;c;d] -> (((a,b),c),d) | _ -> failwith "key" in
  hex_of_bytes (mask_fast32 p k (bytes_of_hex f.(5)))

(* MA id kind ... : Message / Frame accessor API (MessageApi.v) *)
let run_message_api (f : string array) : string =
  let m = match f.(2) with
    | "T" -> MText (bytes_of_hex f.(3))
    | "B" -> MBinary (bytes_of_hex f.(3))
    | "PI" -> MPing (bytes_of_hex f.(3))
    | "PO" -> MPong (bytes_of_hex f.(3))
    | "C" -> MClose (close_of_fields f.(3) f.(4))
    | "F" -> MFrame { f_hdr = header_of_fields f.(3) f.(4) f.(5); f_payload = bytes_of_hex f.(6) }
    | _ -> failwith "kind" in
  let b x = if x then "1" else "0" in
  let t = match msg_into_text m with Some s -> "ok=" ^ hex_of_bytes s | None -> "err" in
  b (msg_is_text m) ^ b (msg_is_binary m) ^ b (msg_is_ping m) ^ b (msg_is_pong m) ^ b (msg_is_close m)
  ^ ":" ^ string_of_n (msg_len m) ^ ":" ^ b (msg_is_empty m) ^ ":" ^ hex_of_bytes (msg_into_data m)
  ^ ":" ^ t ^ ":" ^ t ^ ":" ^ hex_of_bytes (msg_display m) ^ ":" ^ hex_of_bytes (msg_into_data m) ^ ":1"

(* RB id chunk_size part ops rds : ReadBuf.rb_run *)
let run_readbuf (f : string array) : string =
  let cs = n_of_string f.(2) in
  let part = bytes_of_hex f.(3) in
  let ops = List.map (fun o -> match split ':' o with
      | ["rf"] -> RbRead | ["ad"; n] -> RbAdvance (n_of_string n) | ["ch"] -> RbChunk | ["rm"] -> RbRemaining
      | _ -> failwith "rb op") (list_of_field f.(4)) in
  let rds = List.map rd_of_string (list_of_field f.(5)) in
  let (outs, fin) = rb_run cs (rb_from_partially_read part) ops rds in
  let toks = List.map (function
      | RbN r -> res_s (fun n -> "ok:" ^ string_of_n n) r
      | RbBytes b -> "b:" ^ hex_of_bytes b
      | RbPanic -> "panic") outs in
  let toks = match fin with Some rb -> toks @ ["iv:" ^ hex_of_bytes (rb_into_vec rb)] | None -> toks in
  String.concat " | " toks

(* FS id pre ops rds wrs fls : FrameSocket ops  r:<max|none> | w:<flags>:<opc>:<mask>:<hex> | s:<flags>:<opc>:<mask>:<hex> | f *)
let fs_op_of (s : string) : fs_op =
  match split ':' s with
  | ["r"; m] -> FsRead (opt_n m)
  | ["f"] -> FsFlush
  | ["w"; fl; o; m; h] -> FsWrite { f_hdr = header_of_fields fl o m; f_payload = bytes_of_hex h }
  | ["s"; fl; o; m; h] -> FsSend { f_hdr = header_of_fields fl o m; f_payload = bytes_of_hex h }
  | _ -> failwith ("bad fs op " ^ s)

let run_framesocket (f : string array) : string =
  let pre = bytes_of_hex f.(2) in
  let ops = List.map fs_op_of (list_of_field f.(3)) in
  let w = { w_rds = List.map rd_of_string (list_of_field f.(4)); w_wrs = List.map wr_of_string (list_of_field f.(5));
            w_fls = List.map fl_of_string (list_of_field f.(6)); w_keys = []; w_log = [] } in
  let ((results, _c), w') = fs_run_ops (codec_new pre) ops w in
  let buf = Buffer.create 256 in
  let pos = ref 0 and rest = ref w'.w_log in
  List.iteri (fun i (r, upto) ->
      let upto = int_of_n upto in
      let evs = take_list (upto - !pos) !rest in
      rest := drop_list (upto - !pos) !rest; pos := upto;
      if i > 0 then Buffer.add_string buf " | ";
      Buffer.add_string buf (match r with
          | FsFrame r -> res_s (function Some fr -> "ok:F:" ^ frame_s fr | None -> "ok:none") r
          | FsUnit r -> res_s (fun _ -> "ok") r);
      List.iter (fun e -> match event_s e with Some s -> Buffer.add_char buf ' '; Buffer.add_string buf s | None -> ()) evs)
    results;
  Buffer.contents buf

(* SDG: same fields as S; prints the model-side digest of the whole run (kernel cross-check) *)
let run_socket_digest (f : string array) : string =
  let role = if f.(2) = "s" then Server else Client in
  let wbs = n_of_string f.(3) in
  let max = if f.(4) = "inf" then u64_max else n_of_string f.(4) in
  let cfg = { cfg_write_buffer_size = wbs; cfg_max_write_buffer_size = max;
              cfg_max_message_size = opt_n f.(5); cfg_max_frame_size = opt_n f.(6);
              cfg_accept_unmasked = (f.(7) = "1") } in
  let seed = int_of_string f.(9) in
  let pre = bytes_of_hex f.(10) in
  let ops = List.map op_of_string (list_of_field f.(11)) in
  let w = { w_rds = List.map rd_of_string (list_of_field f.(12)); w_wrs = List.map wr_of_string (list_of_field f.(13));
            w_fls = List.map fl_of_string (list_of_field f.(14)); w_keys = keys_of_seed seed (2 * List.length ops + 4); w_log = [] } in
  string_of_n (run_digest role pre cfg ops w)

let () =
  let handlers : (string * (string array -> string)) list ref = ref [
    ("S", run_socket); ("SI", run_socket_x); ("SDG", run_socket_digest); ("FS", run_framesocket); ("CC", run_closecode); ("HP", run_header_parse); ("HF", run_header_format);
    ("FF", run_frame_format); ("U8", run_utf8); ("MK", run_mask); ("MA", run_message_api); ("RB", run_readbuf) ] in
  handlers := !handlers @ Driver_hs.handlers;
  try
    while true do
      let line = input_line stdin in
      if String.length line > 0 then begin
        let f = Array.of_list (split ' ' line) in
        let out =
          try (List.assoc f.(0) !handlers) f
          with Not_found -> "unknown-kind" | Failure m -> "driver-failure:" ^ m
             | Stack_overflow -> "driver-stack-overflow"
             | Invalid_argument m -> "driver-bad-line:" ^ m in
        print_string f.(1); print_char ' '; print_string out; print_newline ()
      end
    done
  with End_of_file -> ()
