(* Extract.v — extraction of the executable model to OCaml. ExtrOcamlBasic only: N, positive, nat
   stay Coq datatypes. *)
From TungModel Require Import Base Coding Mask Header Frame Utf8 World Message Codec Protocol Sha1 Handshake Digest Client FrameSocket MessageApi ProtocolCfg ReadBuf.
Require Extraction.
Require Import ExtrOcamlBasic.
Extraction Language OCaml.
Extraction "model.ml"
  close_of_u16 close_to_u16 close_allowed opcode_of_u8 opcode_to_u8
  header_parse header_format header_len frame_len frame_format frame_format_into_buf frame_close
  mask_fast32 xor_cyc from_utf8 collector_extend collector_into_string collector_new
  ctx_new run_ops mkWorld mkConfig wire queued
  sha1 base64 derive_accept_key create_parts write_response generate_request into_client_request
  server_handshake client_handshake attack_check verify_response run_digest builder_request builder_request_bytes fs_run_ops
  msg_is_text msg_is_binary msg_is_ping msg_is_pong msg_is_close msg_len msg_is_empty msg_into_data msg_into_text msg_display run_xops rb_run rb_from_partially_read rb_into_vec.
