(* handshake-engine handlers are registered here (E3); filled in by Driver_hs when the handshake model exists *)
let register (_ : (string * (string array -> string)) list ref) = ()
