(* driver_hs.ml — handshake engine (E3) and handshake-related pure cases on the extracted model *)
open Model
type string = Stdlib.String.t
open Dutil

(* headers: "name=value;name=value" with hex fields, "-" for none *)
let headers_of (s : string) : headers =
  if s = "-" || s = "" then [] else
    List.map (fun nv -> match split '=' nv with
        | [n; v] -> (bytes_of_hex n, bytes_of_hex v)
        | _ -> failwith ("bad header " ^ nv)) (split ';' s)
let headers_s (hs : headers) : string =
  match hs with [] -> "-" | _ ->
    Stdlib.String.concat ";" (List.map (fun (n, v) -> hex_of_bytes n ^ "=" ^ hex_of_bytes v) hs)

let hs_proto_s = function
  | WrongHttpMethod -> "WrongHttpMethod" | WrongHttpVersion -> "WrongHttpVersion"
  | MissingConnectionUpgradeHeader -> "MissingConnectionUpgradeHeader"
  | MissingUpgradeWebSocketHeader -> "MissingUpgradeWebSocketHeader"
  | MissingSecWebSocketVersionHeader -> "MissingSecWebSocketVersionHeader"
  | MissingSecWebSocketKey -> "MissingSecWebSocketKey"
  | SecWebSocketAcceptKeyMismatch -> "SecWebSocketAcceptKeyMismatch"
  | SubNoSubProtocol -> "SubProtocol:NoSubProtocol"
  | SubServerSentNoneRequested -> "SubProtocol:ServerSentSubProtocolNoneRequested"
  | SubInvalidSubProtocol -> "SubProtocol:InvalidSubProtocol"
  | JunkAfterRequest -> "JunkAfterRequest" | CustomResponseSuccessful -> "CustomResponseSuccessful"
  | InvalidHeader n -> "InvalidHeader:" ^ hex_of_bytes n
  | HandshakeIncomplete -> "HandshakeIncomplete"
let hs_error_s = function
  | HEProto p -> "err:proto:" ^ hs_proto_s p
  | HEHttparse -> "err:proto:HttparseError" | HETooManyHeaders -> "err:cap:headers"
  | HEHttpFormat -> "err:httpformat" | HEAttack -> "err:attack"
  | HEIo k -> "err:io:" ^ io_kind_s k
  | HEHttp (s, b) -> "err:http:" ^ string_of_n s ^ ":" ^ (match b with None -> "none" | Some b -> hex_of_bytes b)
  | HEUtf8 -> "err:utf8" | HEUrlNoPath -> "err:url:NoPathOrQuery" | HEUrlScheme -> "err:url:UnsupportedUrlScheme"
  | HEUrlNoHost -> "err:url:NoHostName" | HEUrlEmptyHost -> "err:url:EmptyHostName"

(* oracle table: "len=outcome,len=outcome"; outcome P | E | M | C:n:method:version:path:fmtok:hdrs (request)
   or C:n:version:code:fmtok:hdrs (response) *)
let table_of (s : string) : (int * string list) list =
  if s = "-" || s = "" then [] else
    List.map (fun e -> match split '=' e with
        | l :: rest -> (int_of_string l, split ':' (Stdlib.String.concat "=" rest))
        | _ -> failwith "table") (split ',' s)
let rec list_len = function [] -> 0 | _ :: r -> 1 + list_len r
let oracle_req_of tbl (buf : bytes) : raw_req oracle_out =
  match List.assoc_opt (list_len buf) tbl with
  | None | Some ["P"] -> OPartial
  | Some ["E"] -> OErrHttparse
  | Some ["M"] -> OErrTooMany
  | Some ["C"; n; m; v; p; f; hs] ->
    OComplete (n_of_string n, { rq_method = bytes_of_hex m; rq_version = n_of_string v; rq_path = bytes_of_hex p;
                                rq_fmt_ok = (f = "1"); rq_headers = headers_of hs })
  | _ -> failwith "oracle_req"
let oracle_resp_of tbl (buf : bytes) : raw_resp oracle_out =
  match List.assoc_opt (list_len buf) tbl with
  | None | Some ["P"] -> OPartial
  | Some ["E"] -> OErrHttparse
  | Some ["M"] -> OErrTooMany
  | Some ["C"; n; v; c; f; hs] ->
    OComplete (n_of_string n, { rs_version = n_of_string v; rs_code = n_of_string c; rs_fmt_ok = (f = "1");
                                rs_headers = headers_of hs })
  | _ -> failwith "oracle_resp"

(* http::HeaderMap iterates name by name (first insertion order), all values of a name together: the callback's
   appended headers reach the model in that order (the map's order is an oracle, see DESIGN) *)
let group_headers (hs : (bytes * bytes) list) : (bytes * bytes) list =
  let names = List.fold_left (fun acc (n, _) -> if List.mem n acc then acc else acc @ [n]) [] hs in
  List.concat_map (fun n -> List.filter (fun (n', _) -> n' = n) hs) names

let callback_of (s : string) : callback =
  match split ':' s with
  | ["none"] -> CbNone
  | ["add"; hs] -> CbAdd (group_headers (headers_of hs))
  | ["rej"; st; body; hs] -> CbReject (n_of_string st, group_headers (headers_of hs), (if body = "none" then None else Some (bytes_of_hex body)))
  | _ -> failwith "callback"

let hs_event_s = function
  | HsInterrupted -> Some "I"
  | HsEv e -> event_s e

let config_of f i =
  { cfg_write_buffer_size = n_of_string f.(i); cfg_max_write_buffer_size = (if f.(i+1) = "inf" then u64_max else n_of_string f.(i+1));
    cfg_max_message_size = opt_n f.(i+2); cfg_max_frame_size = opt_n f.(i+3); cfg_accept_unmasked = (f.(i+4) = "1") }

(* after the handshake: run socket ops on the resulting context *)
let finish (res, w, hlog) cfg seed ops : string =
  let buf = Buffer.create 256 in
  let outcome = match res with
    | HsDone _ -> "ok" | HsFail e -> hs_error_s e | HsPanic s -> "panic:" ^ string_of_n s
    | HsBlocked -> "blocked" | HsOutOfFuel -> "outoffuel" in
  Buffer.add_string buf outcome;
  List.iter (fun e -> match hs_event_s e with Some s -> Buffer.add_char buf ' '; Buffer.add_string buf s | None -> ()) hlog;
  (match res with
   | HsDone (role, tail) ->
     (match ctx_new role tail cfg with
      | None -> Buffer.add_string buf " | panic:config"
      | Some x ->
        let keys = keys_of_seed seed (2 * List.length ops + 4) in
        let w0 = { w_rds = w.w_rds; w_wrs = w.w_wrs; w_fls = w.w_fls; w_keys = keys; w_log = [] } in
        let ((results, _), w') = run_ops x ops w0 in
        let pos = ref 0 and rest = ref w'.w_log in
        List.iter (fun (r, upto) ->
            let upto = int_of_n upto in
            let evs = take_list (upto - !pos) !rest in
            rest := drop_list (upto - !pos) !rest; pos := upto;
            Buffer.add_string buf " | ";
            Buffer.add_string buf (op_result_s r);
            List.iter (fun e -> match event_s e with Some s -> Buffer.add_char buf ' '; Buffer.add_string buf s | None -> ()) evs)
          results)
   | _ -> ());
  Buffer.contents buf

let world_of rds wrs fls : world =
  { w_rds = List.map rd_of_string (list_of_field rds); w_wrs = List.map wr_of_string (list_of_field wrs);
    w_fls = List.map fl_of_string (list_of_field fls); w_keys = []; w_log = [] }

(* HS id cb wbs max mms mfs au rbs seed ops rds wrs fls table *)
let run_hs_server (f : string array) : string =
  let cb = callback_of f.(2) in
  let cfg = config_of f 3 in
  let seed = int_of_string f.(9) in
  let ops = List.map op_of_string (list_of_field f.(10)) in
  let w = world_of f.(11) f.(12) f.(13) in
  let tbl = table_of f.(14) in
  let ((res, w'), hlog) = server_handshake (oracle_req_of tbl) (oracle_resp_of []) cb w in
  finish (res, w', hlog) cfg seed ops

(* HCM id scheme:path hdrs wbs max mms mfs au rbs seed ops rds wrs fls table *)
let run_hs_client (f : string array) : string =
  let (scheme_ok, pth) = match split ':' f.(2) with [s; p] -> (s = "1", p) | _ -> failwith "scheme:path" in
  let path = if pth = "none" then None else Some (bytes_of_hex pth) in
  let hs = headers_of f.(3) in
  let cfg = config_of f 4 in
  let seed = int_of_string f.(10) in
  let ops = List.map op_of_string (list_of_field f.(11)) in
  let w = world_of f.(12) f.(13) f.(14) in
  let tbl = table_of f.(15) in
  let ((res, w'), hlog) = client_handshake (oracle_req_of []) (oracle_resp_of tbl) scheme_ok path hs w in
  finish (res, w', hlog) cfg seed ops

let hres_s okf = function HOk a -> okf a | HErr e -> hs_error_s e

(* AK id keyhex *)
let run_accept_key f = hex_of_bytes (derive_accept_key (bytes_of_hex f.(2)))
(* URI id authority|none path key *)
let run_uri f =
  let auth = if f.(2) = "none" then None else Some (bytes_of_hex f.(2)) in
  hres_s (fun hs -> "ok:" ^ f.(3) ^ ":" ^ headers_s hs) (into_client_request auth (bytes_of_hex f.(4)))
(* SD id method_is_get version_ge_11 hdrs *)
let run_server_decide f =
  hres_s (fun hs -> "ok:101:" ^ headers_s hs) (create_parts (f.(2) = "1") (f.(3) = "1") (headers_of f.(4)))
(* GR id path|none hdrs *)
let run_generate_request f =
  let path = if f.(2) = "none" then None else Some (bytes_of_hex f.(2)) in
  hres_s (fun (req, key) -> "ok:" ^ hex_of_bytes req ^ ":" ^ hex_of_bytes key) (generate_request path (headers_of f.(3)))
(* AC id sizes(comma separated): how many reads pass the attack check *)
let run_attack f =
  let sizes = List.map int_of_string (list_of_field f.(2)) in
  let rec go p b i = function
    | [] -> "pass:" ^ string_of_int i
    | s :: r -> (match attack_check p b (n_of_int s) with
        | None -> "attack:" ^ string_of_int i
        | Some (p', b') -> go p' b' (i + 1) r) in
  go N0 N0 0 sizes

(* CB id authority|none path|none key extra subprotocols(hex,hex|-) : ClientRequestBuilder -> request bytes *)
let run_builder f =
  let auth = if f.(2) = "none" then None else Some (bytes_of_hex f.(2)) in
  let path = if f.(3) = "none" then None else Some (bytes_of_hex f.(3)) in
  let subs = List.map bytes_of_hex (list_of_field f.(6)) in
  hres_s (fun (req, key) -> "ok:" ^ hex_of_bytes req ^ ":" ^ hex_of_bytes key)
    (builder_request_bytes auth path (bytes_of_hex f.(4)) (headers_of f.(5)) subs)

let handlers : (string * (string array -> string)) list = [
  ("HS", run_hs_server); ("HCM", run_hs_client); ("AK", run_accept_key); ("URI", run_uri);
  ("SD", run_server_decide); ("CB", run_builder); ("GR", run_generate_request); ("AC", run_attack) ]
