(* dutil.ml — helpers shared by the driver modules; part of: runs the extracted Coq model on case lines (same line protocol as the Rust harness).
   Reads case lines on stdin, writes one result line per case on stdout. Hand-written glue:
   parsing, printing and int <-> N conversion only; every decision is made by Model.*. *)
open Model
type string = Stdlib.String.t

(* ---------- int <-> Coq numbers ---------- *)
let rec pos_of_int (i : int) : positive =
  if i = 1 then XH else if i land 1 = 0 then XO (pos_of_int (i lsr 1)) else XI (pos_of_int (i lsr 1))
let n_of_int (i : int) : n = if i = 0 then N0 else Npos (pos_of_int i)
let rec int_of_pos = function XH -> 1 | XO p -> 2 * int_of_pos p | XI p -> 2 * int_of_pos p + 1
let int_of_n = function N0 -> 0 | Npos p -> int_of_pos p
(* decimal strings up to 2^64-1 do not fit OCaml's 63-bit int: go through a digit loop on N *)
let n_ten = n_of_int 10
let n_of_string (s : string) : n =
  let acc = ref N0 in
  String.iter (fun ch -> acc := N.add (N.mul !acc n_ten) (n_of_int (Char.code ch - 48))) s; !acc
let rec string_of_n (x : n) : string =
  match x with
  | N0 -> "0"
  | _ ->
    let q = N.div x n_ten and r = N.modulo x n_ten in
    (match q with N0 -> "" | _ -> string_of_n q) ^ string_of_int (int_of_n r)
let rec nat_of_int i = if i = 0 then O else S (nat_of_int (i - 1))

(* ---------- hex ---------- *)
let hexval c = match c with
  | '0'..'9' -> Char.code c - 48 | 'a'..'f' -> Char.code c - 87 | 'A'..'F' -> Char.code c - 55
  | _ -> failwith "hex"
let bytes_of_hex (s : string) : bytes =
  if s = "-" then [] else begin
    let n = String.length s / 2 in
    let r = ref [] in
    for i = n - 1 downto 0 do
      r := n_of_int (hexval s.[2*i] * 16 + hexval s.[2*i+1]) :: !r
    done; !r end
let hexdig = "0123456789abcdef"
let hex_of_bytes (b : bytes) : string =
  match b with [] -> "-" | _ ->
  let buf = Buffer.create 64 in
  List.iter (fun x -> let v = int_of_n x in
              Buffer.add_char buf hexdig.[(v lsr 4) land 15]; Buffer.add_char buf hexdig.[v land 15]) b;
  Buffer.contents buf

let split c s = String.split_on_char c s
let list_of_field s = if s = "-" || s = "" then [] else split ',' s

(* ---------- printing ---------- *)
let io_kind_s = function WouldBlock -> "wb" | ConnReset -> "reset" | Interrupted -> "intr" | IoOther -> "other"
let io_kind_of = function "wb" -> WouldBlock | "reset" -> ConnReset | "intr" -> Interrupted | _ -> IoOther

let key_s = function
  | None -> "-"
  | Some k -> hex_of_bytes (key_bytes k)
let b01 b = if b then "1" else "0"
let header_s (h : header) =
  b01 h.h_fin ^ b01 h.h_rsv1 ^ b01 h.h_rsv2 ^ b01 h.h_rsv3 ^ ":" ^ string_of_n (opcode_to_u8 h.h_opcode)
  ^ ":" ^ key_s h.h_mask
let frame_s (f : frame) = header_s f.f_hdr ^ ":" ^ hex_of_bytes f.f_payload

let close_code_name = function
  | CNormal -> "Normal" | CAway -> "Away" | CProtocol -> "Protocol" | CUnsupported -> "Unsupported"
  | CStatus -> "Status" | CAbnormal -> "Abnormal" | CInvalid -> "Invalid" | CPolicy -> "Policy"
  | CSize -> "Size" | CExtension -> "Extension" | CError -> "Error" | CRestart -> "Restart"
  | CAgain -> "Again" | CTls -> "Tls" | CReservedC _ -> "Reserved" | CIana _ -> "Iana"
  | CLibrary _ -> "Library" | CBad _ -> "Bad"

let close_s = function
  | None -> "-"
  | Some (code, reason) -> string_of_n (close_to_u16 code) ^ ":" ^ hex_of_bytes reason

let data_op_s = function Continue -> "0" | Text -> "1" | Binary -> "2" | DReserved i -> string_of_n i
let proto_s = function
  | ResetWithoutClosingHandshake -> "ResetWithoutClosingHandshake"
  | SendAfterClosing -> "SendAfterClosing" | ReceivedAfterClosing -> "ReceivedAfterClosing"
  | NonZeroReservedBits -> "NonZeroReservedBits" | UnmaskedFrameFromClient -> "UnmaskedFrameFromClient"
  | MaskedFrameFromServer -> "MaskedFrameFromServer" | FragmentedControlFrame -> "FragmentedControlFrame"
  | ControlFrameTooBig -> "ControlFrameTooBig"
  | UnknownControlFrameType i -> "UnknownControlFrameType:" ^ string_of_n i
  | UnknownDataFrameType i -> "UnknownDataFrameType:" ^ string_of_n i
  | UnexpectedContinueFrame -> "UnexpectedContinueFrame"
  | ExpectedFragment d -> "ExpectedFragment:" ^ data_op_s d
  | InvalidCloseSequence -> "InvalidCloseSequence"
  | InvalidOpcode i -> "InvalidOpcode:" ^ string_of_n i
let error_s = function
  | EConnectionClosed -> "err:closed" | EAlreadyClosed -> "err:already"
  | EIo k -> "err:io:" ^ io_kind_s k
  | ECapacity (s, m) -> "err:cap:" ^ string_of_n s ^ ":" ^ string_of_n m
  | EProtocol p -> "err:proto:" ^ proto_s p
  | EWriteBufferFull f -> "err:full:" ^ frame_s f
  | EUtf8 -> "err:utf8"
let message_s = function
  | MText b -> "ok:T:" ^ hex_of_bytes b | MBinary b -> "ok:B:" ^ hex_of_bytes b
  | MPing b -> "ok:PI:" ^ hex_of_bytes b | MPong b -> "ok:PO:" ^ hex_of_bytes b
  | MClose c -> "ok:C:" ^ close_s c | MFrame f -> "ok:F:" ^ frame_s f
let res_s okf = function
  | ROk a -> okf a | RErr e -> error_s e | RPanic s -> "panic:" ^ string_of_n s | ROutOfFuel -> "outoffuel"
let op_result_s = function
  | ResMsg r -> res_s message_s r | ResUnit r -> res_s (fun _ -> "ok") r | ResBool b -> if b then "true" else "false"

let event_s = function
  | EvRead (RdData b) -> Some ("R:" ^ hex_of_bytes b)
  | EvRead RdEof -> Some "R:eof"
  | EvRead (RdErr k) -> Some ("R:e:" ^ io_kind_s k)
  | EvWrite (off, acc) -> Some ("W:" ^ string_of_n off ^ ":" ^ hex_of_bytes acc)
  | EvWriteErr (off, k) -> Some ("W:" ^ string_of_n off ^ ":e:" ^ io_kind_s k)
  | EvFlush FlOk -> Some "F:ok"
  | EvFlush (FlErr k) -> Some ("F:e:" ^ io_kind_s k)
  | EvQueue _ -> None
  | EvReserve _ -> None

(* ---------- parsing of E2 cases ---------- *)
let close_of_fields code hex : close_frame option =
  if code = "-" then None else Some (close_of_u16 (n_of_string code), bytes_of_hex hex)

let header_of_fields flags opc mask : header =
  { h_fin = flags.[0] = '1'; h_rsv1 = flags.[1] = '1'; h_rsv2 = flags.[2] = '1'; h_rsv3 = flags.[3] = '1';
    h_opcode = (match opcode_of_u8 (n_of_string opc) with Some o -> o | None -> failwith "opcode");
    h_mask = (if mask = "-" then None else
                match bytes_of_hex mask with [a;b;c;d] -> Some (((a,b),c),d) | _ -> failwith "mask") }

let op_of_string (s : string) : op =
  match split ':' s with
  | ["r"] -> OpRead
  | ["f"] -> OpFlush
  | ["cr"] -> OpCanRead
  | ["cw"] -> OpCanWrite
  | ["wt"; h] -> OpWrite (MText (bytes_of_hex h))
  | ["wb"; h] -> OpWrite (MBinary (bytes_of_hex h))
  | ["wpi"; h] -> OpWrite (MPing (bytes_of_hex h))
  | ["wpo"; h] -> OpWrite (MPong (bytes_of_hex h))
  | ["wc"; "-"] -> OpWrite (MClose None)
  | ["wc"; code; h] -> OpWrite (MClose (close_of_fields code h))
  | ["wf"; flags; opc; mask; h] -> OpWrite (MFrame { f_hdr = header_of_fields flags opc mask; f_payload = bytes_of_hex h })
  | ["c"; "-"] -> OpClose None
  | ["c"; code; h] -> OpClose (close_of_fields code h)
  | ["sb"; a; b] | ["sb"; a; b; _] | ["sn"; a; b; _] -> OpSetBuf (n_of_string a, (if b = "inf" then u64_max else n_of_string b))
  | _ -> failwith ("bad op " ^ s)

let rd_of_string s = match split ':' s with
  | ["eof"] -> RdEof
  | ["e"; k] -> RdErr (io_kind_of k)
  | ["d"; h] -> RdData (bytes_of_hex h)
  | _ -> failwith ("bad rd " ^ s)
let wr_of_string s = match split ':' s with
  | ["a"; n] -> WrAccept (n_of_string n)
  | ["e"; k] -> WrErr (io_kind_of k)
  | _ -> failwith ("bad wr " ^ s)
let fl_of_string s = match split ':' s with
  | ["ok"] -> FlOk
  | ["e"; k] -> FlErr (io_kind_of k)
  | _ -> failwith ("bad fl " ^ s)

let opt_n s = if s = "none" then None else Some (n_of_string s)

(* the hook's key sequence: key_i = be_bytes((seed + i * 0x9E3779B1) mod 2^32) *)
let keys_of_seed (seed : int) (count : int) : key list =
  let rec go i acc =
    if i < 0 then acc else
      let v = (seed + i * 0x9E3779B1) land 0xFFFFFFFF in
      let b k = n_of_int ((v lsr k) land 255) in
      go (i - 1) ((((b 24, b 16), b 8), b 0) :: acc) in
  go (count - 1) []

let rec drop_list n l = if n = 0 then l else match l with [] -> [] | _ :: r -> drop_list (n - 1) r
let rec take_list n l = if n = 0 then [] else match l with [] -> [] | x :: r -> x :: take_list (n - 1) r

let run_socket (f : string array) : string =
  (* S id role wbs max mms mfs au rbs seed pre ops rds wrs fls *)
  let role = if f.(2) = "s" then Server else Client in
  let wbs = n_of_string f.(3) in
  let max = if f.(4) = "inf" then u64_max else n_of_string f.(4) in
  let cfg = { cfg_write_buffer_size = wbs; cfg_max_write_buffer_size = max;
              cfg_max_message_size = opt_n f.(5); cfg_max_frame_size = opt_n f.(6);
              cfg_accept_unmasked = (f.(7) = "1") } in
  let seed = int_of_string f.(9) in
  let pre = bytes_of_hex f.(10) in
  let ops = List.map op_of_string (list_of_field f.(11)) in
  let rds = List.map rd_of_string (list_of_field f.(12)) in
  let wrs = List.map wr_of_string (list_of_field f.(13)) in
  let fls = List.map fl_of_string (list_of_field f.(14)) in
  let keys = keys_of_seed seed (2 * List.length ops + 4) in
  match ctx_new role pre cfg with
  | None -> "panic:config"
  | Some x ->
    let w = { w_rds = rds; w_wrs = wrs; w_fls = fls; w_keys = keys; w_log = [] } in
    let ((results, _x'), w') = run_ops x ops w in
    let log = w'.w_log in
    let buf = Buffer.create 256 in
    let pos = ref 0 in
    let rest = ref log in
    List.iteri (fun i (r, upto) ->
        let upto = int_of_n upto in
        let evs = take_list (upto - !pos) !rest in
        rest := drop_list (upto - !pos) !rest; pos := upto;
        if i > 0 then Buffer.add_string buf " | ";
        Buffer.add_string buf (op_result_s r);
        List.iter (fun e -> match event_s e with Some s -> Buffer.add_char buf ' '; Buffer.add_string buf s | None -> ()) evs)
      results;
    Buffer.contents buf


(* SI: the same line format as S; ops may also be  sl:<mms|none>:<mfs|none>:<au>  (set_config of the inbound limits,
   ProtocolCfg.XSetLimits); run with ProtocolCfg.run_xops *)
let xop_of_string (s : string) : xop =
  match split ':' s with
  | ["sl"; a; b; c] -> XSetLimits (opt_n a, opt_n b, (c = "1"))
  | _ -> XOp (op_of_string s)

let run_socket_x (f : string array) : string =
  let role = if f.(2) = "s" then Server else Client in
  let wbs = n_of_string f.(3) in
  let max = if f.(4) = "inf" then u64_max else n_of_string f.(4) in
  let cfg = { cfg_write_buffer_size = wbs; cfg_max_write_buffer_size = max;
              cfg_max_message_size = opt_n f.(5); cfg_max_frame_size = opt_n f.(6);
              cfg_accept_unmasked = (f.(7) = "1") } in
  let seed = int_of_string f.(9) in
  let pre = bytes_of_hex f.(10) in
  let ops = List.map xop_of_string (list_of_field f.(11)) in
  let rds = List.map rd_of_string (list_of_field f.(12)) in
  let wrs = List.map wr_of_string (list_of_field f.(13)) in
  let fls = List.map fl_of_string (list_of_field f.(14)) in
  let keys = keys_of_seed seed (2 * List.length ops + 4) in
  match ctx_new role pre cfg with
  | None -> "panic:config"
  | Some x ->
    let w = { w_rds = rds; w_wrs = wrs; w_fls = fls; w_keys = keys; w_log = [] } in
    let ((results, _x'), w') = run_xops x ops w in
    let log = w'.w_log in
    let buf = Buffer.create 256 in
    let pos = ref 0 in
    let rest = ref log in
    List.iteri (fun i ((r, upto), _cfg) ->
        let upto = int_of_n upto in
        let evs = take_list (upto - !pos) !rest in
        rest := drop_list (upto - !pos) !rest; pos := upto;
        if i > 0 then Buffer.add_string buf " | ";
        Buffer.add_string buf (op_result_s r);
        List.iter (fun e -> match event_s e with Some s -> Buffer.add_char buf ' '; Buffer.add_string buf s | None -> ()) evs)
      results;
    Buffer.contents buf
