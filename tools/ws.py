"""Independent (from-scratch) RFC 6455 helpers used by generators and monitors. Nothing here is
derived from the Coq model: it is the second opinion the failing-input search relies on."""
import struct

def hx(b):
    return b.hex() if b else '-'

def unhx(s):
    return b'' if s == '-' else bytes.fromhex(s)

def xor_mask(payload, key):
    return bytes(b ^ key[i & 3] for i, b in enumerate(payload))

def encode_frame(opcode, payload, fin=True, mask=None, rsv=0, lenform=None):
    """lenform: None = shortest; 16 or 64 forces an extended form (non-minimal encodings for read tests)"""
    b0 = (0x80 if fin else 0) | (rsv << 4) | opcode
    n = len(payload)
    m = 0x80 if mask is not None else 0
    if lenform is None:
        lenform = 7 if n < 126 else (16 if n < 65536 else 64)
    if lenform == 7:
        hdr = bytes([b0, m | n])
    elif lenform == 16:
        hdr = bytes([b0, m | 126]) + struct.pack('>H', n)
    else:
        hdr = bytes([b0, m | 127]) + struct.pack('>Q', n)
    if mask is not None:
        return hdr + bytes(mask) + xor_mask(payload, mask)
    return hdr + payload

def mask_key(seed, i):
    v = (seed + i * 0x9E3779B1) & 0xFFFFFFFF
    return struct.pack('>I', v)

class Frame:
    __slots__ = ('fin', 'rsv', 'opcode', 'masked', 'key', 'length', 'payload', 'hdr_len', 'minimal', 'complete', 'raw_payload')
    def __repr__(self):
        return 'Frame(op=%d fin=%d len=%d masked=%s complete=%s)' % (self.opcode, self.fin, self.length, self.masked, self.complete)

def parse_frames(data):
    """parse a byte string into frames; the last one may be incomplete (complete=False).
    returns (frames, leftover_bytes_that_do_not_even_form_a_header)"""
    frames = []
    i = 0
    while i < len(data):
        if len(data) - i < 2:
            return frames, data[i:]
        b0, b1 = data[i], data[i + 1]
        f = Frame()
        f.fin = bool(b0 & 0x80); f.rsv = (b0 >> 4) & 7; f.opcode = b0 & 15
        f.masked = bool(b1 & 0x80)
        l7 = b1 & 0x7F
        j = i + 2
        if l7 == 126:
            if len(data) - j < 2: return frames, data[i:]
            f.length = struct.unpack('>H', data[j:j + 2])[0]; j += 2
            f.minimal = f.length >= 126
        elif l7 == 127:
            if len(data) - j < 8: return frames, data[i:]
            f.length = struct.unpack('>Q', data[j:j + 8])[0]; j += 8
            f.minimal = f.length >= 65536
        else:
            f.length = l7; f.minimal = True
        if f.masked:
            if len(data) - j < 4: return frames, data[i:]
            f.key = data[j:j + 4]; j += 4
        else:
            f.key = None
        f.hdr_len = j - i
        raw = data[j:j + f.length]
        f.complete = len(raw) == f.length
        f.raw_payload = raw
        f.payload = xor_mask(raw, f.key) if f.masked else raw
        frames.append(f)
        if not f.complete:
            return frames, b''
        i = j + f.length
    return frames, b''

def close_allowed(c):
    return 1000 <= c <= 1003 or 1007 <= c <= 1013 or 3000 <= c <= 4999

def is_utf8(b):
    try:
        b.decode('utf-8')
        return True
    except UnicodeDecodeError:
        return False

# ---------------------------------------------------------------------------------------------
# case / trace parsing for engine E2

class SCase:
    """S id role wbs max mms mfs au rbs seed pre ops rds wrs fls"""
    def __init__(self, line):
        f = line.split(' ')
        self.fields = f
        self.id = f[1]; self.role = f[2]
        self.wbs = int(f[3]); self.max = None if f[4] == 'inf' else int(f[4])
        self.mms = None if f[5] == 'none' else int(f[5])
        self.mfs = None if f[6] == 'none' else int(f[6])
        self.au = f[7] == '1'; self.rbs = int(f[8].replace('@sc', '')); self.seed = int(f[9])
        self.pre = unhx(f[10])
        self.ops = [] if f[11] in ('-', '') else f[11].split(',')
        self.rds = [] if f[12] in ('-', '') else f[12].split(',')
        self.wrs = [] if f[13] in ('-', '') else f[13].split(',')
        self.fls = [] if f[14] in ('-', '') else f[14].split(',')

def scase_line(cid, role, ops, rds=(), wrs=(), fls=(), wbs=0, max_=None, mms=None, mfs=None, au=False, rbs=4096, seed=7, pre=b''):
    j = lambda l: ','.join(l) if l else '-'
    return 'S %s %s %d %s %s %s %d %d %d %s %s %s %s %s' % (
        cid, role, wbs, 'inf' if max_ is None else str(max_), 'none' if mms is None else str(mms),
        'none' if mfs is None else str(mfs), 1 if au else 0, rbs, seed, hx(pre), j(ops), j(rds), j(wrs), j(fls))

class OpTrace:
    __slots__ = ('res', 'events')
    def __init__(self, res, events):
        self.res = res; self.events = events

def parse_trace(trace):
    """'res ev ev | res ev' -> [OpTrace]"""
    out = []
    if not trace:
        return out
    trace = trace.split(' ## ')[0]
    for part in trace.split(' | '):
        toks = part.split(' ')
        out.append(OpTrace(toks[0], toks[1:]))
    return out

def wire_of(optraces):
    """bytes accepted by the transport, in order; also per-op cumulative lengths"""
    buf = bytearray(); cum = []
    for ot in optraces:
        for e in ot.events:
            if e.startswith('W:'):
                p = e.split(':')
                if p[2] != 'e' and p[2] != '-':
                    buf += bytes.fromhex(p[2])
        cum.append(len(buf))
    return bytes(buf), cum

def transport_ended(optraces, upto=None):
    """EOF / reset seen on read, or a zero-length write, or a hard write/flush error"""
    for ot in (optraces if upto is None else optraces[:upto + 1]):
        for e in ot.events:
            if e == 'R:eof' or e.startswith('R:e:reset') or e.startswith('R:e:other'):
                return True
            if e.startswith('W:'):
                p = e.split(':')
                if p[2] == '-' or (p[2] == 'e' and p[3] in ('reset', 'other')):
                    return True
            if e.startswith('F:e:') and e[4:] in ('reset', 'other'):
                return True
    return False

def inbound_of(case, optraces):
    """bytes delivered to the endpoint: pre-read part + all read data events"""
    buf = bytearray(case.pre)
    for ot in optraces:
        for e in ot.events:
            if e.startswith('R:') and e not in ('R:eof', 'R:EMPTYBUF', 'R:BUDGET', 'R:-') and not e.startswith('R:e:'):
                buf += bytes.fromhex(e[2:])
    return bytes(buf)


def alloc_stats(trace):
    """(largest single allocation request, peak live bytes) inside read calls, from the ' ## A:x:y' suffix of an S trace"""
    if ' ## A:' not in trace:
        return None
    p = trace.split(' ## A:')[1].split(':')
    return int(p[0]), int(p[1])
