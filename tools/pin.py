"""Pin the property theorem files: names + sha256 of the comment-stripped props/<id>.v text.
Run by hand after reviewing a props file:  python3 -m tools.pin [Cxx ...]   (no argument = all present)."""
import sys, os, json, re, hashlib
from . import build
from .props import REGISTRY

PINS = os.path.join(build.ROOT, 'tools', 'pins.json')

def load():
    return json.load(open(PINS)) if os.path.exists(PINS) else {}

def current(pf):
    text = build.strip_comments(open(os.path.join(build.COQ, 'props', pf + '.v')).read())
    return {'theorems': re.findall(r'^\s*Theorem\s+(\w+)', text, re.M), 'sha256': hashlib.sha256(text.encode()).hexdigest()}

def main(argv):
    pins = load()
    ids = argv or sorted(REGISTRY)
    for pid in ids:
        for pf in getattr(REGISTRY[pid], 'props_files', [pid]):
            if os.path.exists(os.path.join(build.COQ, 'props', pf + '.v')):
                pins[pf] = current(pf)
                print('pinned', pf, len(pins[pf]['theorems']), 'theorems')
    json.dump(pins, open(PINS, 'w'), indent=1, sort_keys=True)

if __name__ == '__main__':
    main(sys.argv[1:])
