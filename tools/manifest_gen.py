"""Regenerates MANIFEST.json from the registry (run by hand after adding a property: python3 -m tools.manifest_gen)."""
import json, os
from .props import REGISTRY
from . import build
from .levels import LEVELS, TIE

ALL = ['C%02d' % i for i in range(1, 21)]

def main():
    hook_commits = ['5bddae4 verif hook: deterministic frame mask under --cfg tungstenite_verif']
    fix_commits = ['8930ef2', 'd51c045', '59a4389', 'b6dc9e9', '163f938', '6a77aa2', '50d46f1']
    checks = []
    for pid in ALL:
        if pid not in REGISTRY or not all(os.path.exists(os.path.join(build.COQ, 'props', x + '.v')) for x in getattr(REGISTRY[pid], 'props_files', [pid])):
            continue
        p = REGISTRY[pid]
        checks.append({
            'property_id': pid,
            'quick_cmd': './check %s --tier quick' % pid,
            'thorough_cmd': './check %s --tier thorough' % pid,
            'evidence_file': '/verif/evidence/%s.json' % pid,
            'replay_cmd_template': './check replay {path}',
            'engine': p.engine_desc,
            'level_claimed': {'category': 'proof', 'text': LEVELS[pid][0] + ' ' + TIE, 'design_ref': 'DESIGN.md §6 ' + pid + ', §11'},
            'level_note': LEVELS[pid][1] + ' Trusted base: Coq 8.16.1 kernel (no axioms: every theorem prints Closed under the global context), the hand-written model, extraction (ExtrOcamlBasic) + driver, harness, generators.',
            'technique': p.technique,
        })
    na = [{'property_id': pid, 'reason': 'not yet claimed: model/theorems for this property are not finished in this revision (see DESIGN.md §11 status)'}
          for pid in ALL if pid not in [c['property_id'] for c in checks]]
    m = {
        'version': 1,
        'setup_cmd': './check setup',
        'hooks': {
            'guard': 'tungstenite_verif',
            'enable': 'RUSTFLAGS="--cfg tungstenite_verif" (set in /verif/harness/.cargo/config.toml; the harness crate depends on /repo by path)',
            'baseline_off_cmd': 'cd /repo && cargo test --workspace --no-fail-fast --offline',
            'source_commits': hook_commits,
            'add_only': True,
        },
        'engines': [
            {'name': 'coq-model', 'path': '/verif/coq', 'serves_properties': sorted(REGISTRY), 'kind_free_text': 'Gallina model + theorems (Coq 8.16.1), full .vo build'},
            {'name': 'extracted-driver', 'path': '/verif/extract', 'serves_properties': sorted(REGISTRY), 'kind_free_text': 'OCaml extraction of the model + line-protocol driver'},
            {'name': 'rust-harness', 'path': '/verif/harness', 'serves_properties': sorted(REGISTRY), 'kind_free_text': 'runs the same cases on the real crate built from /repo working tree with the hook on'},
        ],
        'checks': checks,
        'not_applicable': na,
        'notes': 'fix: commits in /repo (genuine defects found by the checks, see known_findings.json): ' + ', '.join(fix_commits) + '. Technique: machine-checked proof in Coq about a hand-written executable model; the tie to /repo is a differential correspondence check run on every invocation. See DESIGN.md.',
    }
    with open(os.path.join(build.ROOT, 'MANIFEST.json'), 'w') as f:
        json.dump(m, f, indent=1)
    print('wrote MANIFEST.json with', len(checks), 'checks')

if __name__ == '__main__':
    main()
