"""check driver: proof obligations + correspondence + monitors + evidence + VIOLATION reporting."""
import os, sys, json, time, random, hashlib, traceback
from . import build, runner
from .props import REGISTRY

ROOT = build.ROOT
TRUSTED_BASE_COMMON = [
    'Coq 8.16.1 kernel (coqc; vm_compute used for finite sweeps/examples; no native_compute)',
    'hand-written Gallina model in /verif/coq (tied to /repo only by the correspondence check below)',
    'correspondence check: Rust harness (/verif/harness, scripted transport) vs extracted model '
    '(Extraction with ExtrOcamlBasic only: bool,option,unit,list,prod,sumbool,sumor mapped to OCaml, andb/orb inlined) '
    '+ extract/driver.ml glue + tools/*.py generators/diff',
    'rustc/cargo, OCaml 4.13.1 ocamlopt',
    'hook --cfg tungstenite_verif: deterministic mask sequence only',
]

def load_known():
    p = os.path.join(ROOT, 'known_findings.json')
    if os.path.exists(p):
        return json.load(open(p))
    return {'findings': [], 'fixed': []}

def write_replay(pid, payload):
    d = os.path.join(ROOT, 'replays')
    os.makedirs(d, exist_ok=True)
    h = hashlib.sha256(json.dumps(payload, sort_keys=True).encode()).hexdigest()[:12]
    path = os.path.join(d, '%s-%s.json' % (pid, h))
    with open(path, 'w') as f:
        json.dump(payload, f, indent=1)
    return path

def write_evidence(pid, ev):
    d = os.path.join(ROOT, 'evidence')
    os.makedirs(d, exist_ok=True)
    with open(os.path.join(d, pid + '.json'), 'w') as f:
        json.dump(ev, f, indent=1)

def perturb_noop_config(cases, rng, prob=0.15):
    """socket histories: with probability `prob` insert one `sn:<wbs>:<max>:<rbs>` operation - set_config re-applying the
    write-buffer sizes the connection already has and changing only read_buffer_size (which merely sizes an allocation).
    It must change nothing: the model runs it as OpSetBuf with unchanged values, the monitors do not see it at all."""
    out = []
    for c in cases:
        if (c.startswith('S ') or c.startswith('SI ')) and rng.random() < prob:
            f = c.split(' ')
            ops = [] if f[11] in ('-', '') else f[11].split(',')
            valid = f[4] == 'inf' or int(f[3]) < int(f[4])
            if ops and valid and not any(o.startswith('sb:') or o.startswith('sn:') for o in ops):
                ops.insert(rng.randint(0, len(ops)), 'sn:%s:%s:%d' % (f[3], f[4], rng.choice([0, 1, 7, 64, 4096, 131072])))
                f[11] = ','.join(ops)
                c = ' '.join(f)
        if (c.startswith('S ') or c.startswith('SI ')) and rng.random() < 0.08:
            # the first chunk the transport would deliver is handed over at construction instead (WebSocket::from_partially_read):
            # the same bytes reach the connection, only through the other constructor
            f = c.split(' ')
            rds = [] if f[12] in ('-', '') else f[12].split(',')
            if f[10] == '-' and rds and rds[0].startswith('d:') and len(rds[0]) > 2 and '@' not in f[8]:
                f[10] = rds[0][2:]
                f[12] = ','.join(rds[1:]) if len(rds) > 1 else '-'
                c = ' '.join(f)
        out.append(c)
    return out

def safe_monitor(prop, line, trace, mline):
    """a monitor that cannot even parse the implementation's trace has met behaviour it was not written for: that is reported, not crashed on"""
    try:
        return prop.monitor(line, trace, mline)
    except Exception as e:          # noqa
        return 'unparseable-trace: the monitor could not interpret the implementation trace (%s: %s): %s' % (type(e).__name__, str(e)[:80], (trace or '')[:120])

def check_property(pid, tier, seed):
    t0 = time.time()
    prop = REGISTRY[pid]
    violations = []      # list of (description, replay payload, concrete: bool)
    ev = {'property_id': pid, 'tier': tier, 'seed': seed, 'level': 'proof',
          'coverage': {}, 'assumptions': [], 'wall_s': 0.0, 'violations': 0}
    cov = ev['coverage']
    # ---- 1. proof side -------------------------------------------------------------------
    obligations, discharged, proof_problem = 0, 0, None
    try:
        harness_bin = build.ensure_all('release')
    except build.BuildError as e:
        print('BUILD FAILURE: %s\n%s' % (e.what, e.output))
        # a tree that does not compile cannot be checked; report as violation without input
        path = write_replay(pid, {'property': pid, 'kind': 'build-failure', 'what': e.what, 'output': e.output[-3000:]})
        print('VIOLATION property=%s replay=%s no-failing-input-found' % (pid, path))
        ev['violations'] = 1; ev['wall_s'] = time.time() - t0
        cov.update({'obligations': 1, 'discharged': 0, 'checker_cmd': 'make -C coq', 'trusted_base': TRUSTED_BASE_COMMON,
                    'explanation': 'build failed: ' + e.what})
        write_evidence(pid, ev)
        return 1
    hits = build.scan_forbidden()
    try:
        theorems, printed, blocks, stmt_hash = [], [], [], ''
        with build.lock():
            for pf in getattr(prop, 'props_files', [pid]):
                t_, p_, b_, h_ = build.props_compile(pf)
                theorems += t_; printed += p_; blocks += b_; stmt_hash += h_[:16]
        obligations = len(theorems)
        axioms = sorted({a for b in blocks for a in b})
        allowed = set(prop.allowed_axioms)
        bad_axioms = [a for a in axioms if a.split(' ')[0] not in allowed]
        missing_print = [t for t in theorems if t not in printed]
        from . import pin
        pins = pin.load()
        pin_problem = None
        for pf in getattr(prop, 'props_files', [pid]):
            if pf not in pins:
                pin_problem = 'props/%s.v is not pinned (run python3 -m tools.pin after review)' % pf
            else:
                cur = pin.current(pf)
                if cur['sha256'] != pins[pf]['sha256']:
                    pin_problem = 'props/%s.v differs from its pinned statement text (theorems now: %s)' % (pf, ','.join(cur['theorems']))
        if hits:
            proof_problem = 'forbidden keyword in development: ' + '; '.join(hits[:5])
        elif pin_problem:
            proof_problem = pin_problem
        elif bad_axioms:
            proof_problem = 'assumptions outside allow-list: ' + '; '.join(bad_axioms[:5])
        elif missing_print or len(blocks) != len(printed):
            proof_problem = 'Print Assumptions missing for: ' + ','.join(missing_print)
        elif set(prop.required_theorems) - set(theorems):
            proof_problem = 'pinned theorem(s) missing: ' + ','.join(sorted(set(prop.required_theorems) - set(theorems)))
        else:
            discharged = obligations
        cov['theorems'] = theorems
        cov['axioms_reported'] = axioms
        cov['props_file_sha256'] = stmt_hash
    except build.BuildError as e:
        proof_problem = e.what + ': ' + e.output[-1500:]
        obligations = max(1, len(prop.required_theorems))
    cov['obligations'] = obligations
    cov['discharged'] = discharged
    cov['checker_cmd'] = 'make -C /verif/coq (full .vo build) && coqc -Q . TungModel props/%s.v (Print Assumptions) && forbidden-keyword scan' % pid
    cov['trusted_base'] = TRUSTED_BASE_COMMON + list(prop.trusted_extra)
    if tier == 'thorough' and proof_problem is None:
        rc, out = build.sh('timeout 1500 coqchk -o -silent -Q . TungModel ' + ' '.join('TungModel.props.%s' % x for x in getattr(prop, 'props_files', [pid])), cwd=build.COQ, timeout=1600)
        cov['coqchk'] = out.strip().split('\n')[-12:]
        if rc != 0:
            proof_problem = 'coqchk failed: ' + out[-800:]
        elif 'Axioms: <none>' not in out:
            proof_problem = 'coqchk reports axioms: ' + ' '.join(out.strip().split('\n')[-12:])[:600]
    # ---- 2. correspondence + monitors -----------------------------------------------------
    rng = random.Random(seed)
    cases = prop.generate(tier, rng)          # list of case lines; ids must be unique
    cases = perturb_noop_config(cases, random.Random(seed * 7919 + 13))
    dist = prop.distribution(cases)
    workdir = os.path.join(build.WORK, pid)
    mismatches, monitor_hits, known_hits = [], [], []
    try:
        mlines, impl = runner.run_impl(harness_bin, cases, workdir)
        model = runner.run_model(mlines)
        if (tier == 'thorough' and prop.debug_build_too) or getattr(prop, 'debug_in_quick', False):
            with build.lock():
                dbg = build.harness_build('debug')
            # the debug build (overflow checks, debug_assert!) gets its own full correspondence run: traces of the two
            # builds are not compared with each other (client handshake keys are random per run)
            mlines_dbg, impl_dbg = runner.run_impl(dbg, cases, workdir, 'cases_dbg')
            model_dbg = runner.run_model(mlines_dbg)
            for line in cases:
                cid = line.split(' ')[1]
                kind = line.split(' ')[0]
                if kind in getattr(prop, 'model_only_kinds', ()):
                    continue
                itd = impl_dbg.get(cid)
                if kind in getattr(prop, 'impl_only_kinds', ()):
                    vd = safe_monitor(prop, line, itd or '', line)
                    if vd:
                        monitor_hits.append((cid, vd + ' [debug build]', itd))
                    continue
                if itd is None or itd.startswith('bad-case'):
                    continue
                itd_c = itd.split(' ## ')[0]
                mtd = model_dbg.get(cid)
                if mtd is None or prop.project(line, itd_c) != prop.project(line, mtd):
                    mismatches.append((cid, 'correspondence (debug build)', itd_c, mtd))
                vd = safe_monitor(prop, line, itd, line)
                if vd:
                    monitor_hits.append((cid, vd + ' [debug build]', itd_c))
            cov['debug_build_cases'] = len(impl_dbg)
    except build.BuildError as e:
        print('RUN FAILURE: %s\n%s' % (e.what, e.output))
        culprit = getattr(e, 'case', None)
        if culprit:
            # a concrete input on which a library call took the whole process down (abort / stack overflow cannot be caught)
            path = write_replay(pid, {'property': pid, 'kind': 'monitor', 'violated_clause': 'process-abort: ' + e.what + ': ' + e.output[-300:],
                                      'case': culprit[:200000], 'impl_trace': None, 'model_trace': None})
            print('VIOLATION property=%s replay=%s' % (pid, path))
        else:
            path = write_replay(pid, {'property': pid, 'kind': 'run-failure', 'what': e.what, 'output': e.output})
            print('VIOLATION property=%s replay=%s no-failing-input-found' % (pid, path))
        ev['violations'] = 1; ev['wall_s'] = time.time() - t0
        write_evidence(pid, ev)
        return 1
    # cross-check of the extraction: a sample of socket cases re-evaluated inside Coq (vm_compute)
    try:
        from . import kernel_xcheck
        with build.lock():
            n_x, bad_x = kernel_xcheck.xcheck(mlines, workdir, 40 if tier == 'quick' else 400, rng)
        cov['kernel_crosscheck'] = {'cases_evaluated_in_coq': n_x, 'disagreements_with_extracted_driver': len(bad_x)}
        for cid, kv, ev_ in bad_x:
            mismatches.append((cid, 'extraction-vs-kernel', 'kernel digest %s' % kv, 'extracted digest %s' % ev_))
        with build.lock():
            n_p, bad_p = kernel_xcheck.xcheck_pure(cases, model, workdir, 40 if tier == 'quick' else 400, rng)
        cov['kernel_crosscheck']['pure_cases_evaluated_in_coq'] = n_p
        cov['kernel_crosscheck']['pure_disagreements_with_extracted_driver'] = len(bad_p)
        for cid, kv, ev_ in bad_p:
            mismatches.append((cid, 'extraction-vs-kernel', 'kernel value %s' % kv, 'extracted value %s' % ev_))
    except build.BuildError as e:
        cov['kernel_crosscheck'] = {'error': e.what}
        mismatches.append(('-', 'extraction-vs-kernel: ' + e.what, None, e.output[-500:]))
    # supporting runtime tests on the build WITHOUT the hook (real random masks / keys)
    if hasattr(prop, 'nohook_cases'):
        try:
            with build.lock():
                nh = build.harness_build_nohook()
            nh_cases = prop.nohook_cases(tier)
            _, nh_tr = runner.run_impl(nh, nh_cases, workdir, 'cases_nohook')
            cov['support_tests_hook_off'] = {c.split(' ')[1]: nh_tr.get(c.split(' ')[1]) for c in nh_cases}
            for c in nh_cases:
                v = prop.nohook_monitor(c, nh_tr.get(c.split(' ')[1], ''))
                if v:
                    monitor_hits.append((c.split(' ')[1], v, nh_tr.get(c.split(' ')[1], '')))
                    cases.append(c)
        except build.BuildError as e:
            mismatches.append(('-', 'hook-off build: ' + e.what, None, e.output[-500:]))
    case_by_id = {}
    for line in cases:
        f = line.split(' ')
        case_by_id[f[1]] = line
    mline_by_id = {m.split(' ')[1]: m for m in mlines}
    nontrivial = set()
    fidelity = []
    known = load_known()
    for cid, line in case_by_id.items():
        it = impl.get(cid); mt = model.get(cid)
        kind = line.split(' ')[0]
        if kind in ('KS', 'KR'):
            continue          # hook-off support cases: already judged above
        if kind in getattr(prop, 'impl_only_kinds', ()):
            v = safe_monitor(prop, line, it or '', mline_by_id.get(cid, line))
            if v: monitor_hits.append((cid, v, it))
            nontrivial.add(hash(line))
            continue
        if kind in getattr(prop, 'model_only_kinds', ()):
            v = prop.model_monitor(line, mt or '')
            if v: mismatches.append((cid, 'model-vs-independent-spec: ' + v, it, mt))
            nontrivial.add(hash(line))
            continue
        if it is not None and it.startswith('bad-case'):
            continue        # the generator produced a case the API cannot even be called with
        if it is None or mt is None:
            mismatches.append((cid, 'missing-trace', it, mt)); continue
        it_full = it
        it = it.split(' ## ')[0]          # harness-only measurements (allocator) follow ' ## '
        pi, pm = prop.project(line, it), prop.project(line, mt)
        if pi != pm:
            mismatches.append((cid, 'correspondence', it, mt))
        elif it != mt:
            fidelity.append(cid)
        v = safe_monitor(prop, line, it_full, mline_by_id.get(cid, line))
        if v:
            sig = prop.signature(line, it, v)
            kf = [k for k in known.get('findings', []) if k['property'] == pid and k['signature'] == sig]
            if kf:
                known_hits.append((kf[0], cid))
            else:
                monitor_hits.append((cid, v, it))
        key = prop.nontrivial_key(line, it)
        if key is not None:
            nontrivial.add(key)
    # derived cases (e.g. the two endpoints of a pair run, emitted by the harness as S cases): exact comparison
    derived = 0
    for cid, mt in model.items():
        if cid not in case_by_id:
            derived += 1
            it = impl.get(cid)
            if it is not None:
                it = it.split(' ## ')[0]
            if it is not None and it != mt and not it.startswith('bad-case'):
                mismatches.append((cid, 'correspondence', it, mt))
                case_by_id.setdefault(cid, mline_by_id.get(cid, ''))
    cov['derived_endpoint_cases'] = derived
    if hasattr(prop, 'group_monitor'):
        gv = prop.group_monitor(case_by_id, impl)
        if gv:
            monitor_hits.append((gv[1], gv[0], impl.get(gv[1], '')))
    cov['evaluations'] = len(cases)
    cov['distinct_nontrivial'] = len(nontrivial)
    cov['rule'] = prop.rule
    cov['exhaustive'] = bool(prop.exhaustive(tier))
    cov['input_distribution'] = dist
    cov['samples'] = [{'case': case_by_id[c][:400], 'impl_trace': impl.get(c, '')[:400]} for c in list(case_by_id)[:: max(1, len(case_by_id) // 4)][:5]]
    cov['model_fidelity_warnings'] = len(fidelity)
    cov['traces_validated_against_impl'] = len(cases) - len(mismatches)
    cov['partial'] = prop.partial
    # ---- 3. verdict -------------------------------------------------------------------------
    rc = 0
    seen_known = set()
    for kf, cid in known_hits:
        if kf['signature'] not in seen_known:
            seen_known.add(kf['signature'])
            print('KNOWN-FINDING: property=%s %s' % (pid, kf['what']))
    if monitor_hits:
        cid, v, it = monitor_hits[0]
        path = write_replay(pid, {'property': pid, 'kind': 'monitor', 'violated_clause': v, 'case': case_by_id[cid],
                                  'impl_trace': it, 'model_trace': model.get(cid), 'others': len(monitor_hits) - 1})
        print('VIOLATION property=%s replay=%s' % (pid, path))
        print('  %s' % v)
        rc = 1
    elif mismatches:
        # correspondence broken: model no longer describes the code; search for a failing input on the model side too
        cid, kind, it, mt = mismatches[0]
        mv = None
        for c2, k2, i2, m2 in mismatches[:200]:
            if m2 is not None:
                mv = prop.monitor(case_by_id[c2], m2, mline_by_id.get(c2, case_by_id[c2]))
                if mv: break
        path = write_replay(pid, {'property': pid, 'kind': kind, 'no_longer_checks': 'correspondence of ' + prop.engine_desc,
                                  'case': case_by_id.get(cid), 'impl_trace': it, 'model_trace': mt,
                                  'mismatching_cases': len(mismatches),
                                  'model_side_monitor': mv,
                                  'note': 'implementation and model disagree on a compared observable; the monitors found no input on which the implementation itself contradicts the property statement'})
        print('VIOLATION property=%s replay=%s no-failing-input-found' % (pid, path))
        rc = 1
    elif proof_problem:
        path = write_replay(pid, {'property': pid, 'kind': 'proof', 'no_longer_checks': proof_problem})
        print('VIOLATION property=%s replay=%s no-failing-input-found' % (pid, path))
        rc = 1
    ev['violations'] = len(monitor_hits) + (1 if (mismatches or proof_problem) and not monitor_hits else 0)
    from .levels import LEVELS
    ev['assumptions'] = list(prop.assumptions) + ([LEVELS[pid][1]] if pid in LEVELS else []) + [
        'the hand-written model describes the code: checked by the differential correspondence of this run (see coverage), not proved',
        'transport behaviour is any behaviour allowed by the Read/Write contracts (the oracle lists); a transport returning more bytes than the buffer holds is excluded']
    ev['wall_s'] = round(time.time() - t0, 2)
    cov['correspondence_mismatches'] = len(mismatches)
    cov['known_findings_seen'] = sorted(seen_known)
    write_evidence(pid, ev)
    if tier == 'thorough':
        # thorough case files can be hundreds of MB: keep the disk clean (replay files hold what is needed)
        for fn in os.listdir(workdir):
            if fn.startswith('cases') and fn.endswith('.txt'):
                try:
                    os.remove(os.path.join(workdir, fn))
                except OSError:
                    pass
    print('%s %s: theorems %d/%d, cases %d, distinct non-trivial %d, mismatches %d, monitor hits %d, %.1fs' %
          (pid, tier, discharged, obligations, len(cases), len(nontrivial), len(mismatches), len(monitor_hits), ev['wall_s']))
    return rc

def replay(path):
    payload = json.load(open(path))
    pid = payload['property']
    prop = REGISTRY[pid]
    if 'case' not in payload or not payload['case']:
        print('replay file names a proof/correspondence obligation, not an input:', payload.get('no_longer_checks'))
        return 1
    harness_bin = build.ensure_all('release')
    mlines, impl = runner.run_impl(harness_bin, [payload['case']], os.path.join(build.WORK, 'replay'))
    model = runner.run_model(mlines)
    cid = payload['case'].split(' ')[1]
    print('case :', payload['case'][:2000])
    print('impl :', impl.get(cid, '')[:2000])
    print('model:', model.get(cid, '')[:2000])
    v = prop.monitor(payload['case'], impl.get(cid, ''), mlines[0] if mlines else payload['case'])
    print('monitor:', v)
    return 1 if v or impl.get(cid) != model.get(cid) else 0

def main(argv):
    if not argv:
        print(__doc__); return 2
    if argv[0] == 'setup':
        build.ensure_all('release')
        with build.lock():
            build.harness_build_nohook()
            build.harness_build('debug')
        return 0
    if argv[0] == 'replay':
        return replay(argv[1])
    pid = argv[0]
    tier = os.environ.get('VERIF_TIER', 'quick')
    if '--tier' in argv:
        tier = argv[argv.index('--tier') + 1]
    seed = int(os.environ.get('VERIF_SEED', '1'))
    if '--seed' in argv:
        seed = int(argv[argv.index('--seed') + 1])
    if pid not in REGISTRY:
        print('unknown property', pid); return 2
    try:
        return check_property(pid, tier, seed)
    except Exception:
        # the machinery itself failed on this tree: the property is not shown to hold, and no failing input is at hand
        tb = traceback.format_exc()
        sys.stderr.write(tb)
        path = write_replay(pid, {'property': pid, 'kind': 'internal-error',
                                  'no_longer_checks': 'the check could not complete on this tree (tool error while building, running or monitoring)',
                                  'traceback': tb[-4000:]})
        print('VIOLATION property=%s replay=%s no-failing-input-found' % (pid, path))
        return 1
