"""Independent monitors for the handshake properties (C15, C16, C17, C07-handshake). Uses hashlib/base64 and a
simple CRLF/colon head parser written here - never the Coq model."""
import collections
import base64, hashlib, binascii
from . import ws

GUID = b'258EAFA5-E914-47DA-95CA-C5AB0DC85B11'

def split_trace(trace):
    """-> (outcome, hs_events, [OpTrace])"""
    parts = trace.split(' | ')
    toks = parts[0].split(' ')
    ops = [ws.OpTrace(p.split(' ')[0], p.split(' ')[1:]) for p in parts[1:]]
    return toks[0], toks[1:], ops

def ev_inbound(events):
    return b''.join(bytes.fromhex(e[2:]) for e in events if e.startswith('R:') and e != 'R:eof' and not e.startswith('R:e:'))

def ev_chunks(events):
    return [bytes.fromhex(e[2:]) for e in events if e.startswith('R:') and e != 'R:eof' and not e.startswith('R:e:')]

def ev_wire(events):
    out = b''
    for e in events:
        if e.startswith('W:'):
            p = e.split(':')
            if p[2] not in ('e', '-'):
                out += bytes.fromhex(p[2])
    return out

def hard_transport(events):
    """EOF or a non-WouldBlock error or a zero write happened"""
    for e in events:
        if e == 'R:eof' or (e.startswith('R:e:') and e != 'R:e:wb'):
            return True
        if e.startswith('W:'):
            p = e.split(':')
            if p[2] == '-' or (p[2] == 'e' and p[3] != 'wb'):
                return True
        if e.startswith('F:e:') and e != 'F:e:wb':
            return True
    return False

def parse_head(data):
    """simple spec parser -> (first_line, [(name, value)], consumed) or None if no terminator"""
    i = data.find(b'\r\n\r\n')
    if i < 0:
        return None
    lines = data[:i].split(b'\r\n')
    hs = []
    for l in lines[1:]:
        if b':' not in l:
            return ('MALFORMED', [], i + 4)
        n, v = l.split(b':', 1)
        hs.append((n, v.strip(b' \t')))
    return (lines[0], hs, i + 4)

def plain_head(data, consumed):
    """only printable ASCII and CRLF line ends, header names made of letters/digits/'-': the heads for which 'valid => accepted' is claimed"""
    head = data[:consumed]
    rest = head.replace(b'\r\n', b'')
    if b'\n' in rest or b'\r' in rest:
        return False
    lines = head.split(b'\r\n')
    if any(not (0x20 <= b <= 0x7e) for b in lines[0]):
        return False
    decisive = (b'upgrade', b'connection', b'sec-websocket-key', b'sec-websocket-version', b'sec-websocket-protocol', b'host')
    for l in lines[1:]:
        nm = l.split(b':', 1)[0]
        if l and (not nm or b':' not in l or not all(48 <= c <= 57 or 65 <= c <= 90 or 97 <= c <= 122 or c == 0x2d for c in nm)):
            return False
        if l:
            val = l.split(b':', 1)[1]
            # obs-text (bytes >= 0x80) is legal in a field value (RFC 7230 3.2.6; httparse and http::HeaderValue take it):
            # allowed here in the headers the handshake does not interpret
            okb = (lambda b: 0x20 <= b <= 0x7e or b >= 0x80) if nm.lower() not in decisive else (lambda b: 0x20 <= b <= 0x7e)
            if any(not okb(b) for b in val):
                return False
    return True

def values(hs, name):
    return [v for n, v in hs if n.lower() == name.lower()]

def tokens(v):
    return [t for t in v.replace(b',', b' ').split(b' ')]

def accept_for(key):
    return base64.b64encode(hashlib.sha1(key + GUID).digest())

def head_complete_chunk(chunks):
    """index of the chunk in which the head terminator completes, and bytes following the head in the cumulative buffer"""
    cum = b''
    for k, c in enumerate(chunks):
        cum += c
        i = cum.find(b'\r\n\r\n')
        if i >= 0:
            return k, cum[i + 4:]
    return None, b''

def _missing_cb_headers(field, wire_headers):
    """first (name, value) pair of the callback's header list (name=value;... in hex) that is not on the wire"""
    if field in ('-', ''):
        return None
    have = collections.Counter((n.lower(), v) for n, v in wire_headers)
    for item in field.split(';'):
        n, v = item.split('=')
        key = (bytes.fromhex(n).lower(), bytes.fromhex(v) if v not in ('-', '') else b'')
        if have[key] <= 0:
            return key
        have[key] -= 1
    return None

def mon_c15(case_line, trace):
    f = case_line.split(' ')
    cb = f[2]
    outcome, evs, ops = split_trace(trace)
    if outcome.startswith('bad-case'):
        return None
    chunks = ev_chunks(evs)
    inbound = b''.join(chunks)
    wire = ev_wire(evs)
    if outcome == 'err:attack' and attack_sim([len(c) for c in chunks]) is None:
        return 'guard-spurious: AttackAttempt reported although the reads that returned data (%d of them, %d bytes) exceed no limit' % (len(chunks), len(inbound))
    ph = parse_head(inbound)
    if ph is None or ph[0] == 'MALFORMED':
        if outcome == 'ok':
            return 'ok-without-head: handshake succeeded without a complete request head'
        if b'101' in wire.split(b'\r\n')[0] if wire else False:
            return '101-on-invalid: a 101 was written for an incomplete/malformed head'
        return None
    line, hs, consumed = ph
    if outcome == 'blocked':
        return 'head-complete-but-waiting: the complete request head (%d bytes) was delivered, yet the handshake is still waiting for more' % consumed
    k, after = head_complete_chunk(chunks)
    parts = line.split(b' ')
    method_ok = len(parts) == 3 and parts[0] == b'GET'
    version_ok = len(parts) == 3 and parts[2] in (b'HTTP/1.1',)
    up = values(hs, b'Upgrade'); co = values(hs, b'Connection'); ve = values(hs, b'Sec-WebSocket-Version'); ke = values(hs, b'Sec-WebSocket-Key')
    some_valid = (method_ok and version_ok and any(v.lower() == b'websocket' for v in up)
                  and any(any(t.lower() == b'upgrade' for t in tokens(v)) for v in co)
                  and any(v == b'13' for v in ve) and len(ke) > 0 and not after)
    once_valid = (method_ok and version_ok and len(up) == 1 and up[0].lower() == b'websocket'
                  and len(co) == 1 and any(t.lower() == b'upgrade' for t in tokens(co[0]))
                  and len(ve) == 1 and ve[0] == b'13' and len(ke) == 1 and not after and len(hs) <= 124 and plain_head(inbound, consumed))
    wrote_101 = wire.startswith(b'HTTP/1.1 101')
    if outcome == 'ok' and not some_valid and plain_head(inbound, consumed):
        return 'accepted-invalid: server handshake succeeded on a request that is not a valid upgrade: %r' % line[:60]
    if wrote_101 and not some_valid and plain_head(inbound, consumed):
        return '101-on-invalid: a 101 response was written for an invalid request'
    if once_valid and cb.split(':')[0] in ('none', 'add') and not hard_transport(evs):
        if outcome not in ('ok', 'blocked'):
            return 'rejected-valid: a request carrying each required header once with valid values was refused: %s' % outcome
    if outcome == 'ok' or (once_valid and wire and cb.split(':')[0] in ('none', 'add')):
        # response content
        exp_accept = accept_for(values(hs, b'Sec-WebSocket-Key')[0]) if ke else b''
        rh = parse_head(wire)
        if outcome == 'ok':
            if rh is None:
                return 'response-incomplete: handshake ok but the response head was not fully written'
            rline, rhs, rcons = rh
            if rline != b'HTTP/1.1 101 Switching Protocols':
                return 'response-status: %r' % rline
            if values(rhs, b'Sec-WebSocket-Accept') != [exp_accept]:
                return 'response-accept: Sec-WebSocket-Accept %r, expected %r' % (values(rhs, b'Sec-WebSocket-Accept'), exp_accept)
            if [v.lower() for v in values(rhs, b'Upgrade')] != [b'websocket'] or [v.lower() for v in values(rhs, b'Connection')] != [b'upgrade']:
                return 'response-headers: Upgrade/Connection missing in the 101'
            if rcons != len(wire):
                return 'response-trailing: bytes follow the 101 head'
            if cb.startswith('add:'):
                miss = _missing_cb_headers(cb.split(':')[1], rhs)
                if miss:
                    return 'callback-header-lost: the callback added %r but the 101 on the wire does not carry it' % (miss,)
    if cb.startswith('rej:') and once_valid and not hard_transport(evs):
        st = int(cb.split(':')[1])
        if 200 <= st < 300:
            if outcome != 'err:proto:CustomResponseSuccessful' or wire:
                return 'successful-rejection: expected CustomResponseSuccessful with nothing written, got %s' % outcome
        elif outcome != 'blocked':
            body = cb.split(':')[2]
            if not outcome.startswith('err:http:%d:' % st):
                return 'callback-reject-result: expected Http(%d), got %s' % (st, outcome)
            rh = parse_head(wire)
            if rh is None or not rh[0].startswith(b'HTTP/1.1 %d' % st):
                return 'callback-reject-not-written: rejection response not written in full'
            miss = _missing_cb_headers(cb.split(':')[3], rh[1])
            if miss:
                return 'callback-header-lost: the rejection response of the callback has %r but the wire does not carry it' % (miss,)
            exp_body = b'' if body == 'none' else bytes.fromhex(body)
            if wire[rh[2]:] != exp_body:
                return 'callback-reject-body: body on the wire differs'
    return None

def attack_sim(sizes):
    """index (0-based) of the read at which the guard trips, or None"""
    p = b = 0
    for i, s in enumerate(sizes):
        p += 1; b += s
        if b > 65536 or p > 512 or (p > 64 and p * 128 > b):
            return i
    return None

def mon_c17(case_line, trace):
    outcome, evs, ops = split_trace(trace)
    if outcome.startswith('bad-case'):
        return None
    f = case_line.split(' ')
    # reads of the reading stage: for a client they come after the request was flushed
    chunks = ev_chunks(evs)
    sizes = [len(c) for c in chunks]
    if sizes and max(sizes) > 4096:
        return 'read-too-large: one handshake read took %d bytes (the documented chunk is 4096)' % max(sizes)
    if 'R:BUDGET' in evs or any('R:BUDGET' in o.events for o in ops):
        return 'unbounded-work: the handshake kept reading past the transport-call budget'
    if len(sizes) > 513:
        return 'too-many-reads: %d data reads in one handshake' % len(sizes)
    if sum(sizes) > 65536 + 4096:
        return 'too-many-bytes: %d bytes consumed by one handshake' % sum(sizes)
    if outcome == 'blocked' and parse_head(b''.join(chunks)) not in (None,) and attack_sim(sizes) is None:
        return 'head-complete-but-waiting: a complete head was delivered over %d reads, yet the handshake is still waiting (outcome depends on the segmentation)' % len(sizes)
    trip = attack_sim(sizes)
    if trip is not None and trip < len(sizes) - 1:
        return 'guard-not-enforced: read %d should have tripped the small-packet/size guard but %d more reads followed' % (trip, len(sizes) - 1 - trip)
    if trip is not None and trip == len(sizes) - 1 and outcome != 'err:attack':
        # the head may legitimately complete? No: the check runs before parsing.
        return 'guard-not-reported: guard condition reached at read %d but outcome is %s' % (trip, outcome)
    if outcome == 'err:attack' and trip is None:
        return 'guard-spurious: AttackAttempt reported although no limit was exceeded (reads=%d bytes=%d)' % (len(sizes), sum(sizes))
    # Interrupted is handed to the caller only when the transport reported WouldBlock: with a transport that never blocks the
    # blocking entry points (accept, client) must run to completion however few bytes each write takes
    for i, e in enumerate(evs):
        if e == 'I':
            prev = evs[i - 1] if i > 0 else ''
            blocked = prev in ('R:e:wb', 'F:e:wb') or (prev.startswith('W:') and prev.endswith(':e:wb'))
            if not blocked:
                return 'spurious-interrupt: the handshake returned Interrupted after %r, although the transport did not report WouldBlock' % prev[:40]
    # the handshake bytes are flushed: a handshake that reports success wrote something and its last flush attempt succeeded
    if outcome == 'ok':
        fl = [e for e in evs if e.startswith('F:')]
        if any(e.startswith('W:') for e in evs) and (not fl or fl[-1] != 'F:ok'):
            return 'flush-dropped: handshake reported success but its last transport flush was %s' % (fl[-1] if fl else 'never attempted')
    # writes: bytes accepted are exactly the offered stream once, in order: offered length decreases by accepted
    rest = None
    for e in evs:
        if e.startswith('W:'):
            p = e.split(':')
            off = int(p[1])
            if rest is not None and off != rest:
                return 'write-resume: offered %d bytes but %d were outstanding (lost or repeated bytes)' % (off, rest)
            if p[2] == 'e':
                rest = off
            else:
                acc = 0 if p[2] == '-' else len(p[2]) // 2
                rest = off - acc
    return None

def mon_c16(case_line, trace, mline):
    f = case_line.split(' ')
    outcome, evs, ops = split_trace(trace)
    if outcome.startswith('bad-case') or outcome.startswith('err:url'):
        return None
    uri = bytes.fromhex(f[2])
    subprotos = [] if f[3] == '-' else [bytes.fromhex(x) for x in f[3].split(',')]
    wire = ev_wire(evs)
    rh = parse_head(wire)
    transport_bad = hard_transport(evs)
    if rh is None:
        if outcome == 'ok':
            return 'ok-without-request: client handshake ok but no complete request was written'
        return None
    line, hs, cons = rh
    if cons != len(wire):
        return 'request-trailing: bytes follow the request head'
    parts = line.split(b' ')
    if len(parts) != 3 or parts[0] != b'GET' or parts[2] != b'HTTP/1.1':
        return 'request-line: %r' % line
    # authority from the URI text
    rest = uri.split(b'://', 1)[1] if b'://' in uri else uri
    authority = rest.split(b'/', 1)[0].split(b'?', 1)[0]
    host = authority.rsplit(b'@', 1)[-1]
    for name in (b'Host', b'Connection', b'Upgrade', b'Sec-WebSocket-Version', b'Sec-WebSocket-Key'):
        if len(values(hs, name)) != 1:
            return 'required-header-count: %s appears %d times' % (name.decode(), len(values(hs, name)))
    if values(hs, b'Host')[0] != host:
        return 'host-with-credentials: Host header %r, URL authority without credentials is %r' % (values(hs, b'Host')[0], host)
    if values(hs, b'Connection')[0].lower() != b'upgrade' or values(hs, b'Upgrade')[0].lower() != b'websocket' or values(hs, b'Sec-WebSocket-Version')[0] != b'13':
        return 'required-header-values'
    key = values(hs, b'Sec-WebSocket-Key')[0]
    try:
        raw = base64.b64decode(key, validate=True)
    except (binascii.Error, ValueError):
        return 'key-not-base64: %r' % key
    if len(raw) != 16:
        return 'key-length: key decodes to %d bytes' % len(raw)
    # response side
    chunks = ev_chunks(evs)
    inbound = b''.join(chunks)
    ph = parse_head(inbound)
    if ph is None or ph[0] == 'MALFORMED':
        if outcome == 'ok':
            return 'ok-without-response: client handshake ok without a complete response head'
        return None
    rline, rhs, rcons = ph
    if outcome == 'blocked':
        return 'head-complete-but-waiting: the complete response head (%d bytes) was delivered, yet the client handshake is still waiting for more' % rcons
    rp = rline.split(b' ', 2)
    status_ok = len(rp) >= 2 and rp[1] == b'101' and rp[0] in (b'HTTP/1.1',)
    up = values(rhs, b'Upgrade'); co = values(rhs, b'Connection'); ac = values(rhs, b'Sec-WebSocket-Accept'); sp = values(rhs, b'Sec-WebSocket-Protocol')
    offered = [s.strip() for s in b', '.join(subprotos).split(b',')] if subprotos else []
    some_valid = (status_ok and any(v.lower() == b'websocket' for v in up) and any(v.lower() == b'upgrade' for v in co)
                  and any(v == accept_for(key) for v in ac) and ((len(sp) > 0) == (len(offered) > 0)) and all(True for _ in sp)
                  and (not sp or any(v in offered for v in sp)))
    once_valid = (status_ok and len(up) == 1 and up[0].lower() == b'websocket' and len(co) == 1 and co[0].lower() == b'upgrade'
                  and ac == [accept_for(key)] and ((len(sp) == 1 and sp[0] in offered) if offered else len(sp) == 0) and len(rhs) <= 124 and plain_head(inbound, rcons))
    if outcome == 'ok' and not some_valid and plain_head(inbound, rcons):
        # (for heads with bare CR/LF or other oddities the line structure is the parser's business - an oracle of the model)
        return 'accepted-bad-response: client handshake succeeded on response %r with accept %r (expected %r)' % (rline[:40], ac, accept_for(key))
    if once_valid and not transport_bad and outcome not in ('ok', 'blocked'):
        return 'rejected-good-response: %s' % outcome
    if outcome == 'ok':
        # frames that arrived with / after the head are the first thing read
        tail = inbound[rcons:]
        later = b''.join(bytes.fromhex(e[2:]) for o in ops for e in o.events if e.startswith('R:') and e != 'R:eof' and not e.startswith('R:e:'))
        frames, _ = ws.parse_frames(tail + later)
        reads = [o for o in ops if o.res != 'err:io:wb' and (o.res.startswith('ok:') and o.res[3] in 'TBP' or o.res.startswith('err:') or o.res.startswith('panic'))]
        tailframes, _ = ws.parse_frames(tail)
        if tailframes and tailframes[0].complete and tailframes[0].opcode in (1, 2) and tailframes[0].fin and not tailframes[0].masked and ops and ops[0].res == 'err:io:wb':
            return 'tail-lost: a complete frame arrived in the same read as the end of the response head, yet the first read() answered WouldBlock'
        k = 0
        for fr in frames:
            if not fr.complete or fr.opcode not in (1, 2) or not fr.fin or fr.masked:
                break
            if k >= len(reads):
                break
            kind = 'T' if fr.opcode == 1 else 'B'
            exp = 'ok:%s:%s' % (kind, ws.hx(fr.payload))
            if reads[k].res != exp:
                return 'tail-lost: frame bytes after the response head: expected first reads %s, got %s' % (exp[:40], reads[k].res[:40])
            k += 1
    return None

def mon_no_panic(trace):
    if 'panic' in trace:
        return 'panic: a call panicked: %s' % trace[:80]
    if 'outoffuel' in trace:
        return 'outoffuel'
    return None


def mon_readbuf(case_line, trace):
    """ReadBuffer against a plain FIFO written here: every read appends what the transport handed over (at most CHUNK bytes of the
    chunk on offer, the rest stays on offer), advance drops from the front (panics past the end), chunk/remaining/into_vec show
    exactly the unconsumed bytes"""
    f = case_line.split(' ')
    cs = int(f[2]); fifo = bytearray(ws.unhx(f[3]))
    ops = [] if f[4] in ('-', '') else f[4].split(',')
    offer = [] if f[5] in ('-', '') else f[5].split(',')
    got = trace.split(' | ') if trace else []
    exp = []
    dead = False
    for o in ops:
        if o == 'rf':
            if not offer:
                exp.append('err:io:wb')
            else:
                r = offer.pop(0)
                if r.startswith('d:'):
                    d = ws.unhx(r[2:]); take = d[:cs]
                    if d[cs:]: offer.insert(0, 'd:' + ws.hx(d[cs:]))
                    fifo += take; exp.append('ok:%d' % len(take))
                elif r == 'eof': exp.append('ok:0')
                else: exp.append('err:io:' + r[2:])
        elif o.startswith('ad:'):
            n = int(o[3:])
            if n > len(fifo):
                exp.append('panic'); dead = True; break
            del fifo[:n]; exp.append('ok:%d' % n)
        elif o == 'ch': exp.append('b:' + ws.hx(bytes(fifo)))
        elif o == 'rm': exp.append('ok:%d' % len(fifo))
    if not dead:
        exp.append('iv:' + ws.hx(bytes(fifo)))
    if got != exp:
        i = next((j for j in range(min(len(got), len(exp))) if got[j] != exp[j]), min(len(got), len(exp)))
        return 'readbuffer-not-fifo: step %d: ReadBuffer answered %s, a FIFO of the same bytes answers %s' % (i, (got[i] if i < len(got) else 'nothing')[:40], (exp[i] if i < len(exp) else 'nothing')[:40])
    return None
