"""Run case lines on the implementation (Rust harness) and on the extracted model, return both traces."""
import os, subprocess, tempfile
from concurrent.futures import ThreadPoolExecutor
from . import build

def run_impl(harness_bin, lines, workdir, tag='cases'):
    os.makedirs(workdir, exist_ok=True)
    cases = os.path.join(workdir, tag + '.txt')
    with open(cases, 'w') as f:
        f.write('\n'.join(lines) + '\n')
    p = subprocess.run([harness_bin, cases], stdout=subprocess.PIPE, stderr=subprocess.PIPE, timeout=3600)
    if p.returncode != 0:
        # the process died (abort, stack overflow, ...): the case it was running is the first one without a trace line
        done = set()
        for line in p.stdout.decode('utf-8', 'replace').split('\n'):
            if line.startswith('T '):
                done.add(line[2:line.index(' ', 2)] if ' ' in line[2:] else line[2:])
        culprit = next((l for l in lines if l.split(' ')[0] != 'PR' and len(l.split(' ')) > 1 and l.split(' ')[1] not in done), None)
        e = build.BuildError('harness process died (rc=%d) while running a case' % p.returncode, p.stderr.decode('utf-8', 'replace')[-2000:])
        e.case = culprit
        raise e
    mlines, traces = [], {}
    for line in p.stdout.decode().split('\n'):
        if line.startswith('M '):
            mlines.append(line[2:])
        elif line.startswith('T '):
            i = line.index(' ', 2)
            traces[line[2:i]] = line[i + 1:]
    return mlines, traces

def _run_driver(chunk):
    p = subprocess.run('ulimit -s unlimited 2>/dev/null; exec ' + build.DRIVER, shell=True, input=('\n'.join(chunk) + '\n').encode(),
                       stdout=subprocess.PIPE, stderr=subprocess.PIPE, timeout=3600)
    if p.returncode != 0:
        raise build.BuildError('model driver crashed (rc=%d)' % p.returncode, p.stderr.decode('utf-8', 'replace')[-2000:])
    out = {}
    for line in p.stdout.decode().split('\n'):
        if line:
            i = line.index(' ')
            out[line[:i]] = line[i + 1:]
    return out

def run_model(mlines, shards=16):
    if not mlines:
        return {}
    n = max(1, min(shards, len(mlines) // 50 + 1))
    # balance by line length (cost is roughly proportional to bytes)
    order = sorted(range(len(mlines)), key=lambda i: -len(mlines[i]))
    chunks = [[] for _ in range(n)]
    sizes = [0] * n
    for i in order:
        j = sizes.index(min(sizes))
        chunks[j].append(mlines[i]); sizes[j] += len(mlines[i]) + 200
    out = {}
    with ThreadPoolExecutor(max_workers=n) as ex:
        for r in ex.map(_run_driver, chunks):
            out.update(r)
    return out
