"""Grammar-based generator of inbound byte streams (frame sequences) with optional single rule violations."""
from . import ws
from .gen_e2 import peer_frame, close_payload

TEXTS = [b'', b'a', b'hello', 'héllo'.encode(), '€'.encode(), '\U0001F600'.encode(), b'x' * 125, b'y' * 126, b'z' * 300,
         'é€\U0001F600'.encode() * 3]
BINS = [b'', b'\x00', b'\xff\xfe\x00', bytes(range(256)), b'q' * 125, b'q' * 126, b'q' * 127]
BAD_UTF8 = [b'\xc0\x80', b'\xed\xa0\x80', b'\xf4\x90\x80\x80', b'\xff', b'\x80', b'\xe2\x82', b'ab\xc3', b'\xf0\x9f\x98', b'\xc3\x28']

def split_payload(rng, p, k):
    if k <= 1 or len(p) == 0:
        return [p]
    cuts = sorted(rng.randint(0, len(p)) for _ in range(k - 1))
    out, prev = [], 0
    for c in cuts:
        out.append(p[prev:c]); prev = c
    out.append(p[prev:])
    return out

def message_frames(rng, role, kind, payload, nfrag, interleave=True):
    """frames (bytes) of one data message cut into nfrag fragments, with control frames possibly interleaved"""
    opc = 1 if kind == 'T' else 2
    parts = split_payload(rng, payload, nfrag)
    frames = []
    for i, part in enumerate(parts):
        frames.append(peer_frame(role, opc if i == 0 else 0, part, fin=(i == len(parts) - 1),
                                 lenform=rng.choice([None, None, None, 16, 64]) if len(part) < 126 and rng.random() < 0.1 else None))
        if interleave and i < len(parts) - 1 and rng.random() < 0.4:
            frames.append(peer_frame(role, rng.choice([9, 10]), rng.choice([b'', b'p', b'ping-data'])))
    return frames

def valid_sequence(rng, role, nmsgs, max_frag=4):
    frames = []
    for _ in range(nmsgs):
        r = rng.random()
        if r < 0.4:
            frames += message_frames(rng, role, 'T', rng.choice(TEXTS), rng.randint(1, max_frag))
        elif r < 0.7:
            frames += message_frames(rng, role, 'B', rng.choice(BINS), rng.randint(1, max_frag))
        elif r < 0.85:
            frames.append(peer_frame(role, 9, rng.choice([b'', b'abc', b'p' * 125])))
        else:
            frames.append(peer_frame(role, 10, rng.choice([b'', b'abc'])))
    return frames

VIOLATIONS = ['rsv1', 'rsv2', 'rsv3', 'reserved-data', 'reserved-ctl', 'frag-ping', 'frag-close', 'big-ping', 'big-close', 'big-pong',
              'orphan-cont', 'orphan-cont-fin', 'nested-text', 'nested-bin', 'wrong-mask', 'close-1byte', 'close-badutf8', 'bad-text',
              'bad-text-frag', 'trunc-text-final', 'wrong-mask-empty-ping', 'wrong-mask-empty-text', 'wrong-mask-empty-close',
              'wrong-mask-empty-final-cont', 'wrong-mask-pong', 'frag-pong', 'frag-pong-big', 'frag-close-payload', 'close-trunc-utf8-max', 'close-badutf8-badcode']

def violation_frames(rng, role, v):
    pf = lambda op, p, **kw: peer_frame(role, op, p, **kw)
    if v == 'rsv1': return [pf(1, b'x', rsv=4)]
    if v == 'rsv2': return [pf(2, b'x', rsv=2)]
    if v == 'rsv3': return [pf(9, b'', rsv=1)]
    if v == 'reserved-data': return [pf(rng.choice([3, 4, 5, 6, 7]), b'zz')]
    if v == 'reserved-ctl': return [pf(rng.choice([11, 12, 13, 14, 15]), b'')]
    if v == 'frag-ping': return [pf(9, b'x', fin=False)]
    if v == 'frag-close': return [pf(8, b'', fin=False)]
    if v == 'frag-pong': return [pf(10, b'z', fin=False)]
    if v == 'frag-pong-big': return [pf(10, b'z' * 126, fin=False)]
    if v == 'frag-close-payload': return [pf(8, close_payload(1000, b'x'), fin=False)]
    if v == 'big-ping': return [pf(9, b'p' * 126)]
    if v == 'big-pong': return [pf(10, b'p' * 200)]
    if v == 'big-close': return [pf(8, close_payload(1000, b'r' * 124))]
    if v == 'orphan-cont': return [pf(0, b'x', fin=False)]
    if v == 'orphan-cont-fin': return [pf(0, b'x')]
    if v == 'nested-text': return [pf(1, b'a', fin=False), pf(1, b'b')]
    if v == 'nested-bin': return [pf(2, b'a', fin=False), pf(9, b''), pf(2, b'b', fin=False)]
    if v == 'wrong-mask': return [pf(1, b'm', wrong_mask=True)]
    if v == 'wrong-mask-empty-ping': return [pf(9, b'', wrong_mask=True)]
    if v == 'wrong-mask-empty-text': return [pf(1, b'', wrong_mask=True)]
    if v == 'wrong-mask-empty-close': return [pf(8, b'', wrong_mask=True)]
    if v == 'wrong-mask-empty-final-cont': return [pf(2, b'abc', fin=False), pf(0, b'', wrong_mask=True)]
    if v == 'wrong-mask-pong': return [pf(10, b'zz', wrong_mask=True)]
    if v == 'close-1byte': return [pf(8, b'\x03')]
    if v == 'close-badutf8': return [pf(8, close_payload(1000, b'\xff\xfe'))]
    if v == 'close-trunc-utf8-max': return [pf(8, close_payload(1000, b'r' * rng.choice([120, 121, 122]) + rng.choice([b'\xc3', b'\xe2', b'\xf0'])))]
    if v == 'close-badutf8-badcode': return [pf(8, close_payload(rng.choice([1005, 1006, 1015, 999, 2999, 5000]), rng.choice([b'\xff', b'a\xc3', b'\xed\xa0\x80'])))]
    if v == 'bad-text': return [pf(1, rng.choice(BAD_UTF8))]
    if v == 'bad-text-frag':
        b = rng.choice(BAD_UTF8)
        return [pf(1, b'ok' + b[:1], fin=False), pf(0, b[1:] + b'tail')]
    if v == 'trunc-text-final': return [pf(1, b'\xe2\x82', fin=False), pf(0, b'')]
    raise KeyError(v)

def stream_case(rng, quick=True):
    """returns dict(role, au, frames(list of bytes), violation or None)"""
    role = rng.choice('sc')
    au = rng.random() < 0.2          # independent of the role: a client with accept_unmasked_frames must still reject masked frames
    n = rng.randint(0, 5)
    frames = valid_sequence(rng, role, n)
    v = None
    if rng.random() < 0.55:
        v = rng.choice(VIOLATIONS)
        pos = rng.randint(0, len(frames))
        # inject at a message boundary: find boundaries (positions where no message is in progress)
        frames = frames[:pos] + violation_frames(rng, role, v) + valid_sequence(rng, role, rng.randint(0, 2))
    elif rng.random() < 0.5:
        frames.append(peer_frame(role, 8, rng.choice([b'', close_payload(1000, b'bye'), close_payload(1005), close_payload(4999, b'x' * 123)])))
        if rng.random() < 0.3:
            frames += valid_sequence(rng, role, 1)
    return {'role': role, 'au': au, 'frames': frames, 'violation': v}

def segmentations(rng, data, quick=True):
    """list of chunk lists"""
    out = [[data]] if data else [[]]
    if not data:
        return out
    if len(data) <= 600:
        out.append([bytes([b]) for b in data])
    ncuts = 3 if quick else 12
    for _ in range(ncuts):
        k = rng.randint(2, 6)
        cuts = sorted(set(rng.randint(1, max(1, len(data) - 1)) for _ in range(k)))
        prev = 0; ch = []
        for c in cuts:
            if c > prev: ch.append(data[prev:c]); prev = c
        ch.append(data[prev:])
        out.append([c for c in ch if c])
    return out

def reader_case(cid, role, chunks, nreads, au=False, mms=None, mfs=None, rbs=4096, pre=b'', wb_between=False, end='eof', wbs=0):
    rds = []
    for c in chunks:
        rds.append('d:' + ws.hx(c))
        if wb_between:
            rds.append('e:wb')
    if end:
        rds.append(end)
    return ws.scase_line(cid, role, ['r'] * nreads, rds, [], [], wbs=wbs, max_=None, mms=mms, mfs=mfs, au=au, rbs=rbs, pre=pre)


def single_frame_alphabet(role):
    """every opcode 0..15 x FIN x size {0, 1, 125, 126} x rsv {0, 4} x mask right/wrong: one frame"""
    out = []
    for opc in range(16):
        for fin in (True, False):
            for n in (0, 1, 125, 126):
                for rsv in (0, 4):
                    for wrong in (False, True):
                        payload = (b'a' * n) if opc != 8 or n < 2 else close_payload(1000, b'a' * (n - 2))
                        out.append(peer_frame(role, opc, payload, fin=fin, rsv=rsv, wrong_mask=wrong))
    return out
