#!/bin/bash
# usage: [PROPS="10 14"] tools/benign.sh   (default: all 20 checks against every benign patch)
cd /verif
mkdir -p /tmp/evsave_ben && cp /verif/evidence/*.json /tmp/evsave_ben/
for d in /verif/benign/*; do
  [ -f $d/patch.diff ] || continue
  echo "== BENIGN $d"
  git -C /repo apply $d/patch.diff || { echo "apply failed"; continue; }
  for i in ${PROPS:-01 02 03 04 05 06 07 08 09 10 11 12 13 14 15 16 17 18 19 20}; do
    out=$(timeout 1800 ./check C$i --tier quick 2>&1); rc=$?
    echo "C$i rc=$rc $(echo "$out" | grep -m1 '^VIOLATION' | cut -c1-160)"
    if [ $rc -ne 0 ]; then echo "$out" | tail -4 | cut -c1-300; fi
  done
  git -C /repo checkout -- .
done
cp /tmp/evsave_ben/*.json /verif/evidence/; rm -rf /tmp/evsave_ben
git -C /repo status --short
echo BENIGN-DONE
