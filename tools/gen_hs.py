"""Generators for the handshake engine (E3) and handshake-related pure cases."""
import itertools, base64, hashlib
from . import ws

hx = ws.hx
GUID = b'258EAFA5-E914-47DA-95CA-C5AB0DC85B11'

def accept_for(key):
    return base64.b64encode(hashlib.sha1(key + GUID).digest())

def hdrs_field(hs):
    return ';'.join(hx(n) + '=' + hx(v) for n, v in hs) if hs else '-'

DEFAULT_KEY = b'dGhlIHNhbXBsZSBub25jZQ=='
REQUIRED = [(b'Host', b'server.example.com'), (b'Upgrade', b'websocket'), (b'Connection', b'Upgrade'),
            (b'Sec-WebSocket-Key', DEFAULT_KEY), (b'Sec-WebSocket-Version', b'13')]

def request_bytes(headers, method=b'GET', path=b'/chat', version=b'HTTP/1.1', trailing=b''):
    out = method + b' ' + path + b' ' + version + b'\r\n'
    for n, v in headers:
        out += n + b': ' + v + b'\r\n'
    return out + b'\r\n' + trailing

def response_bytes(headers, status=b'101 Switching Protocols', version=b'HTTP/1.1', trailing=b''):
    out = version + b' ' + status + b'\r\n'
    for n, v in headers:
        out += n + b': ' + v + b'\r\n'
    return out + b'\r\n' + trailing

def randcase(rng, b):
    return bytes((c ^ 0x20) if (65 <= c <= 90 or 97 <= c <= 122) and rng.random() < 0.5 else c for c in b)

def segment(rng, data, pieces):
    if pieces <= 1 or len(data) < 2:
        return [data]
    cuts = sorted(rng.sample(range(1, len(data)), min(pieces - 1, len(data) - 1)))
    out, prev = [], 0
    for c in cuts:
        out.append(data[prev:c]); prev = c
    out.append(data[prev:])
    return out

def rds_of(chunks, wb_prob=0.0, rng=None):
    out = []
    for c in chunks:
        if rng is not None and rng.random() < wb_prob:
            out.append('e:wb')
        out.append('d:' + hx(c))
    return out

def hs_case(cid, cb='none', ops=(), rds=(), wrs=(), fls=(), seed=7, rbs=4096):
    j = lambda l: ','.join(l) if l else '-'
    return 'HS %s %s 0 inf none none 0 %d %d %s %s %s %s' % (cid, cb, rbs, seed, j(ops), j(rds), j(wrs), j(fls))

def hc_case(cid, uri, subprotos=(), extra=(), ops=(), rds=(), wrs=(), fls=(), seed=7, rbs=4096):
    j = lambda l: ','.join(l) if l else '-'
    return 'HC %s %s %s %s 0 inf none none 0 %d %d %s %s %s %s' % (
        cid, hx(uri), j([hx(s) for s in subprotos]), hdrs_field(extra), rbs, seed, j(ops), j(rds), j(wrs), j(fls))

# ---- server-side request variants -----------------------------------------------------------------
NEAR_MISS = {
    b'Upgrade': [b'websocket ', b'websocket2', b'web socket', b'', b'WebSocket', b'WEBSOCKET', b'h2c, websocket'],
    b'Connection': [b'upgrade', b'keep-alive, Upgrade', b'keep-alive,upgrade', b'Upgrade,keep-alive', b'upgrade2', b'close',
                    b'keep-alive Upgrade', b'', b'UPGRADE', b'Upgrade;q=1'],
    b'Sec-WebSocket-Version': [b'13', b'13 ', b'12', b'8, 13', b'013', b''],
    b'Sec-WebSocket-Key': [DEFAULT_KEY, b'', b'x', b'AAAAAAAAAAAAAAAAAAAAAA==', b'not base64 !!', b'a' * 40,
                           b'dGhlIHNhbXBsZSBub25jZQ\xbd=', b'\x80\xff\xfe', b'k\xe9y', b'tab\there'],
}

def server_request_variants(rng, n):
    """(headers list, method, version) tuples: subsets/orderings/casings/near-miss/extra"""
    out = []
    base = [h for h in REQUIRED]
    # every subset of the four decisive headers, in original order
    dec = [b'Upgrade', b'Connection', b'Sec-WebSocket-Key', b'Sec-WebSocket-Version']
    for k in range(len(dec) + 1):
        for sub in itertools.combinations(dec, k):
            hs = [h for h in base if h[0] == b'Host' or h[0] in sub]
            out.append((hs, b'GET', b'HTTP/1.1'))
    # all orderings of the 5 headers
    for perm in itertools.permutations(base):
        out.append((list(perm), b'GET', b'HTTP/1.1'))
    # near-miss values, one header at a time
    for name, vals in NEAR_MISS.items():
        for v in vals:
            hs = [(n_, v if n_ == name else v_) for n_, v_ in base]
            out.append((hs, b'GET', b'HTTP/1.1'))
    # method / version
    for m in (b'POST', b'get', b'HEAD', b'GET'):
        for ver in (b'HTTP/1.0', b'HTTP/1.1'):
            out.append((list(base), m, ver))
    # random: casing, extras, duplicates
    for _ in range(n):
        hs = [(randcase(rng, n_), randcase(rng, v_) if n_ in (b'Upgrade', b'Connection') else v_) for n_, v_ in base]
        rng.shuffle(hs)
        for _ in range(rng.choice([0, 0, 1, 3, 10, 60, 118])):
            hs.insert(rng.randint(0, len(hs)), (b'X-Extra-%d' % rng.randint(0, 999), b'v%d' % rng.randint(0, 9)))
        if rng.random() < 0.2:
            # a header the handshake does not interpret, with a Latin-1 / opaque value (obs-text): still a valid request
            hs.insert(rng.randint(0, len(hs)), rng.choice([(b'X-User', b'Ren\xe9'), (b'Cookie', b'id=\xff\xfe\x80; a=b'), (b'X-Note', b'caf\xc3\xa9'), (b'User-Agent', b'\xa9 2020')]))
        if rng.random() < 0.15:
            name = rng.choice(dec)
            hs.insert(rng.randint(0, len(hs)), (name, rng.choice(NEAR_MISS[name])))   # duplicate with another value
        if rng.random() < 0.1:
            hs = [h for h in hs if h[0].lower() != rng.choice(dec).lower()]
        out.append((hs, b'GET', b'HTTP/1.1'))
    return out

CALLBACKS = ['none', 'add:' + hdrs_field([(b'x-added', b'1'), (b'sec-websocket-protocol', b'chat')]),
             'rej:403:' + hx(b'Forbidden by callback') + ':' + hdrs_field([(b'x-why', b'no')]),
             'rej:404:none:-', 'rej:200:' + hx(b'ok?') + ':-', 'rej:500:' + hx(b'e' * 300) + ':-',
             'rej:301:' + hx(b'moved') + ':' + hdrs_field([(b'location', b'http://elsewhere/')]), 'rej:302:none:-', 'rej:100:none:-', 'rej:304:none:-', 'rej:204:none:-',
             # header names that carry several values (HeaderMap::append): every value must reach the wire
             'add:' + hdrs_field([(b'set-cookie', b'a=1'), (b'x-one', b'1'), (b'set-cookie', b'b=2'), (b'set-cookie', b'c=3')]),
             'add:' + hdrs_field([(b'sec-websocket-extensions', b'x'), (b'x-a', b'1'), (b'sec-websocket-extensions', b'y')]),
             'rej:403:' + hx(b'who?') + ':' + hdrs_field([(b'www-authenticate', b'Basic realm=a'), (b'www-authenticate', b'Bearer'), (b'x-z', b'1')]),
             'rej:400:none:' + hdrs_field([(b'retry-after', b'1'), (b'retry-after', b'2')])]

WPATS = [[], ['a:1'] * 5, ['e:wb', 'a:7', 'e:wb'], ['a:2', 'e:wb', 'e:wb', 'a:50'], ['e:intr'], ['e:other'], ['a:0'], ['e:wb', 'a:0'],
         ['a:20', 'e:wb', 'a:3', 'e:wb', 'e:wb'], ['a:60', 'e:wb'], ['a:1', 'e:wb'] * 4, ['a:10', 'e:intr', 'a:10', 'e:wb']]
FPATS = [[], ['e:wb'], ['e:wb', 'e:wb', 'ok'], ['e:other'], ['e:intr']]

# ---- client side ------------------------------------------------------------------------------------
URIS = [b'ws://example.com/', b'ws://example.com:8080/chat?x=1&y=2', b'ws://user@example.com/a', b'ws://user:pw@example.com:9/x',
        b'ws://user:p@ss@example.com:9/x', b'ws://a@b@c@host.example/', b'ws://[::1]:9001/ws', b'ws://127.0.0.1/', b'wss://example.com/secure',
        b'ws://EXAMPLE.com/CasePath', b'ws://example.com', b'ws://@example.com/', b'ws://user@/x', b'http://example.com/',
        b'ws://example.com/very/long/' + b'p' * 300, b'/relative/only', b'ws://x.y:1/?q',
        b'ws://example.com:80/', b'ws://example.com:443/', b'wss://example.com:443/a', b'wss://example.com:80/a', b'ws://example.com:0/', b'ws://example.com:65535/']

ACCEPT_MARK = b'ACCEPT99x' + b'=' * 19

def accept_marker(pos=99, ch=b'x'):
    return b'ACCEPT%02d' % pos + ch + b'=' * 19

def server_response_variants(rng, n, subprotos=()):
    base = [(b'Upgrade', b'websocket'), (b'Connection', b'Upgrade'), (b'Sec-WebSocket-Accept', ACCEPT_MARK)]
    if subprotos:
        base.append((b'Sec-WebSocket-Protocol', subprotos[0]))
    out = [(list(base), b'101 Switching Protocols', b'HTTP/1.1')]
    for k in range(len(base)):
        out.append(([h for i, h in enumerate(base) if i != k], b'101 Switching Protocols', b'HTTP/1.1'))
    for st in (b'200 OK', b'400 Bad Request', b'101 Whatever', b'301 Moved', b'099 X', b'1010 Y', b'100 Continue', b'102 Processing', b'103 Early Hints', b'199 X', b'201 Created'):
        out.append((list(base), st, b'HTTP/1.1'))
    out.append((list(base), b'101 Switching Protocols', b'HTTP/1.0'))
    for v in (b'WebSocket', b'websocket2', b'', b'web socket'):
        out.append(([(n_, v if n_ == b'Upgrade' else v_) for n_, v_ in base], b'101 Switching Protocols', b'HTTP/1.1'))
    for v in (b'upgrade', b'UPGRADE', b'keep-alive, Upgrade', b'close', b''):
        out.append(([(n_, v if n_ == b'Connection' else v_) for n_, v_ in base], b'101 Switching Protocols', b'HTTP/1.1'))
    for sp in (b'chat', b'other', b' chat', b'CHAT', b'superchat', b'', b'evil, chat', b'chat, evil', b'chat,chat', b'chat;q=1'):
        out.append((list(base[:3]) + [(b'Sec-WebSocket-Protocol', sp)], b'101 Switching Protocols', b'HTTP/1.1'))
    # every single-character change of the accept value (28 positions x 4 letters)
    for pos in range(28):
        for ch in (b'A', b'z', b'0', b'/', b'^'):
            out.append(([(n_, accept_marker(pos, ch) if n_ == b'Sec-WebSocket-Accept' else v_) for n_, v_ in base],
                        b'101 Switching Protocols', b'HTTP/1.1'))
    # length-changing changes of the accept value (append, truncate, empty, doubled, trailing space, leading char)
    for code in (90, 91, 92, 93, 94, 95):
        out.append(([(n_, accept_marker(code, b'x') if n_ == b'Sec-WebSocket-Accept' else v_) for n_, v_ in base], b'101 Switching Protocols', b'HTTP/1.1'))
    for _ in range(n):
        hs = [(randcase(rng, n_), randcase(rng, v_) if n_ in (b'Upgrade', b'Connection') else v_) for n_, v_ in base]
        rng.shuffle(hs)
        for _ in range(rng.choice([0, 1, 5, 50])):
            hs.insert(rng.randint(0, len(hs)), (b'X-R-%d' % rng.randint(0, 99), b'v'))
        out.append((hs, b'101 Switching Protocols', b'HTTP/1.1'))
    return out

def endless_heads():
    """(name, list of chunks) that never complete or trip the guards"""
    out = []
    line = b'GET /chat HTTP/1.1\r\n'
    big = line + b''.join(b'X-H%d: %s\r\n' % (i, b'v' * 100) for i in range(2000))
    out.append(('drip1', [bytes([b]) for b in big[:80]]))
    out.append(('drip127', [big[i:i + 127] for i in range(0, 127 * 70, 127)]))
    out.append(('drip128', [big[i:i + 128] for i in range(0, 128 * 520, 128)]))
    out.append(('big4096', [big[i:i + 4096] for i in range(0, 4096 * 18, 4096)]))
    out.append(('drip200', [big[i:i + 200] for i in range(0, 200 * 400, 200)]))
    many = line + b''.join(b'H%d: v\r\n' % i for i in range(130)) + b'\r\n'
    out.append(('125headers', [many]))
    out.append(('noterm', [line + b'Host: x\r\n' + b'A' * 3000]))
    # a head that stays Partial for ever (one endless header value): only the guard can stop it
    long_ = line + b'X-Long: ' + b'a' * 200000
    out.append(('long4096', [long_[i:i + 4096] for i in range(0, 4096 * 18, 4096)]))
    out.append(('longslow128', [long_[i * 128:(i + 1) * 128] for i in range(64)] + [long_[8192 + i * 4096: 8192 + (i + 1) * 4096] for i in range(20)]))
    out.append(('longslow200', [long_[i * 200:(i + 1) * 200] for i in range(70)] + [long_[14000 + i * 4096: 14000 + (i + 1) * 4096] for i in range(18)]))
    out.append(('long1024', [long_[i * 1024:(i + 1) * 1024] for i in range(72)]))
    out.append(('long128', [long_[i * 128:(i + 1) * 128] for i in range(520)]))
    out.append(('slow128', [big[i * 128:(i + 1) * 128] for i in range(64)] + [big[8192 + i * 4096: 8192 + (i + 1) * 4096] for i in range(20)]))
    out.append(('slow200', [big[i * 200:(i + 1) * 200] for i in range(70)] + [big[14000 + i * 4096: 14000 + (i + 1) * 4096] for i in range(18)]))
    out.append(('k1024', [big[i * 1024:(i + 1) * 1024] for i in range(72)]))
    out.append(('drip1b', [bytes([b]) for b in big[:200]]))
    out.append(('drip100', [big[i:i + 100] for i in range(0, 100 * 90, 100)]))
    return out


def mutate_head(rng, head):
    """one byte of a header VALUE or NAME replaced by an obs-text / control / separator byte"""
    lines = head.split(b'\r\n')
    idx = rng.randrange(1, max(2, len(lines) - 2))
    l = bytearray(lines[idx])
    if l:
        pos = rng.randrange(len(l))
        l[pos] = rng.choice([0x80, 0xff, 0xe9, 0x00, 0x09, 0x7f, 0x0b, 0x3a, 0x20, 0x0d, 0x0a, 0xc3])
    lines[idx] = bytes(l)
    return b'\r\n'.join(lines)

def big_valid_request(total):
    """a valid upgrade request padded with cookie-like headers to exactly `total` bytes"""
    base = request_bytes(REQUIRED)
    pad = total - len(base)
    if pad < 12:
        return base
    hs = []
    i = 0
    while pad > 0:
        name = b'X-C%d' % i
        room = min(pad, 700)
        vlen = room - len(name) - 4
        if vlen < 1:
            break
        hs.append((name, b'c' * vlen)); pad -= len(name) + 4 + vlen; i += 1
    return request_bytes(hs + REQUIRED)
