"""Regenerates the seeded-change table in DESIGN.md (between the SEEDED-TABLE markers) from seeded/*/meta.json."""
import json, glob, os, re
ROOT = os.path.dirname(os.path.dirname(os.path.abspath(__file__)))
rows = []
for m in sorted(glob.glob(os.path.join(ROOT, 'seeded', '*', 'meta.json'))):
    d = json.load(open(m))
    res = []
    for p, r in sorted(d.get('checks_run_against_it', {}).items()):
        if r['exit'] == 0:
            res.append('%s: **missed**' % p if p == d.get('property') else '%s: silent (not this property)' % p)
        elif 'no-failing-input-found' in r['line']:
            res.append('%s: caught (correspondence/proof side only)' % p)
        else:
            res.append('%s: caught with failing input' % p)
    v = d.get('verified', {})
    ok = v.get('demo_passes_without_change') and v.get('demo_fails_with_change')
    rows.append('| `%s` | %s | %s | %s | %s |' % (d['id'], d.get('property'), (d.get('what') or '').replace('|', '/')[:160],
                                              'yes' if ok else ('red-team, not re-run' if str(d.get('origin','')).startswith('red-team') else 'NO'), '; '.join(res)))
table = ('| seeded change | property | what it does | demo verified | checks (quick tier) |\n|---|---|---|---|---|\n' + '\n'.join(rows))
p = os.path.join(ROOT, 'DESIGN.md')
s = open(p).read()
block = '<!-- SEEDED-TABLE-BEGIN -->\n' + table + '\n<!-- SEEDED-TABLE-END -->'
if '<!-- SEEDED-TABLE-BEGIN -->' in s:
    s = re.sub(r'<!-- SEEDED-TABLE-BEGIN -->.*?<!-- SEEDED-TABLE-END -->', lambda _: block, s, flags=re.S)
else:
    s += '\n### 11.6 Seeded changes: which check catches which\n\n' \
         'Each change was written by an independent sub-agent that saw only the property text and its own scratch worktree; it compiles, the existing suite passes with it, and its demonstration test fails with / passes without it (re-verified by `tools/seedtest.sh`). ' \
         '"caught with failing input" = the check printed `VIOLATION ... replay=<file>` whose replay holds a concrete case on which an independent monitor sees the implementation contradict the property; ' \
         '"correspondence only" = model and implementation disagree on a compared observable but no monitor clause fired (`no-failing-input-found`).\n\n' + block + '\n'
open(p, 'w').write(s)
print(table)
