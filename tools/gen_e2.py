"""Generators of socket histories (engine E2): user ops x peer frames x transport behaviour."""
import itertools
from . import ws

PEER_KEY = bytes([0x11, 0x22, 0x33, 0x44])

def peer_frame(role, opcode, payload, fin=True, rsv=0, wrong_mask=False, lenform=None, key=PEER_KEY):
    """a frame as the peer of an endpoint with role `role` sends it (client peers mask)"""
    masked = (role == 's') != wrong_mask
    return ws.encode_frame(opcode, payload, fin=fin, mask=key if masked else None, rsv=rsv, lenform=lenform)

def close_payload(code, reason=b''):
    return bytes([code >> 8, code & 255]) + reason

# peer tokens: name -> function(role) -> list of rd entries
def tok(role, name):
    pf = lambda op, p, **kw: peer_frame(role, op, p, **kw)
    d = lambda b: ['d:' + ws.hx(b)]
    if name == 'T': return d(pf(1, b'yo'))
    if name == 'B': return d(pf(2, b'\x00\x01\x02'))
    if name == 'PI0': return d(pf(9, b''))
    if name == 'PI': return d(pf(9, b'ab'))
    if name == 'PI3': return d(pf(9, b'abc'))
    if name == 'PI124': return d(pf(9, b'q' * 124))
    if name == 'PI125': return d(pf(9, b'r' * 125))
    if name == 'PI2': return d(pf(9, b'ab') + pf(9, b'cd'))
    if name == 'PIT': return d(pf(9, b'pq') + pf(1, b'yo'))
    if name == 'PO': return d(pf(10, b'z'))
    if name == 'C1000': return d(pf(8, close_payload(1000, b'bye')))
    if name == 'CE': return d(pf(8, b''))
    if name == 'C1005': return d(pf(8, close_payload(1005)))
    if name == 'C3000': return d(pf(8, close_payload(3000, b'x')))
    if name == 'PIC': return d(pf(9, b'ab') + pf(8, close_payload(1000)))
    if name == 'CG': return d(pf(8, close_payload(1000)) + pf(1, b'late'))
    if name == 'F1': return d(pf(1, b'a', fin=False))
    if name == 'F2': return d(pf(0, b'b'))
    if name == 'RSV': return d(pf(1, b'x', rsv=4))
    if name == 'EOF': return ['eof']
    if name == 'RST': return ['e:reset']
    if name == 'WB': return ['e:wb']
    if name == 'INTR': return ['e:intr']
    if name == 'UEOF': return ['e:ueof']
    if name == 'ABRT': return ['e:aborted']
    if name == 'TMO': return ['e:timedout']
    raise KeyError(name)

PEER_TOKENS = ['T', 'B', 'PI0', 'PI', 'PI3', 'PI124', 'PI125', 'UEOF', 'ABRT', 'TMO', 'PI2', 'PIT', 'PO', 'C1000', 'CE', 'C1005', 'C3000', 'PIC', 'CG', 'F1', 'F2', 'RSV',
               'EOF', 'RST', 'WB', 'INTR']
PEER_CORE = ['T', 'PI', 'C1000', 'CE', 'C1005', 'CG', 'EOF', 'RST', 'WB']

USER_OPS = ['r', 'wt:6869', 'wb:00112233445566778899aabbccddeeff', 'wpi:70', 'wpo:71', 'f', 'c:-', 'c:1000:6279', 'cr', 'cw',
            'wc:1001:-', 'wf:1000:1:-:7261', 'wf:1000:9:-:72', 'sb:5:4000', 'sb:0:inf']
USER_CORE = ['r', 'wt:6869', 'wpi:70', 'wpo:71', 'f', 'c:-', 'cr', 'cw']

def frame_size(role, payload_len):
    n = payload_len
    return 2 + (0 if n < 126 else 2 if n < 65536 else 8) + (4 if role == 'c' else 0) + n

def op_frame_size(role, op):
    p = op.split(':')
    if p[0] in ('wt', 'wb', 'wpi', 'wpo'):
        return frame_size(role, len(ws.unhx(p[1])))
    if p[0] in ('c', 'wc'):
        return frame_size(role, 0 if p[1] == '-' else 2 + len(ws.unhx(p[2])))
    return 0

WRITE_PATTERNS = {
    'accept': [],
    'wb1': ['e:wb'], 'wb2': ['e:wb'] * 2, 'wb3': ['e:wb'] * 3, 'wb4': ['e:wb'] * 4, 'wb8': ['e:wb'] * 8,
    'one': ['a:1'] * 6, 'onewb': ['a:1', 'e:wb', 'a:2', 'e:wb'],
    'zero': ['a:0'], 'wbzero': ['e:wb', 'a:0'],
    'intr': ['e:intr'], 'reset': ['e:reset'], 'other': ['e:other'],
    'wb_then_other': ['e:wb', 'e:other'],
    'ueof': ['e:ueof'], 'aborted': ['a:2', 'e:aborted'], 'wzero': ['e:wzero'],
}
FLUSH_PATTERNS = {'ok': [], 'fwb1': ['e:wb'], 'fwb2': ['e:wb', 'e:wb'], 'fother': ['e:other'], 'fintr': ['e:intr'], 'ftimedout': ['e:timedout'],
                  'fintr_then_ok': ['e:intr', 'ok'], 'freset': ['e:reset']}

def history(cid, role, ops, peer, wpat='accept', fpat='ok', wbs=0, max_=None, tail=0, seed=7, rbs=4096,
            mms=None, mfs=None, au=False, pre=b'', tail_op='f'):
    """peer: list of token names, one per read op (extra tokens are appended to the queue)"""
    rds = []
    for t in peer:
        rds += tok(role, t)
    if tail:
        tail = len(WRITE_PATTERNS[wpat]) + len(FLUSH_PATTERNS[fpat]) + 3
    ops = list(ops) + [tail_op] * tail
    return ws.scase_line(cid, role, ops, rds, WRITE_PATTERNS[wpat], FLUSH_PATTERNS[fpat], wbs=wbs, max_=max_,
                         mms=mms, mfs=mfs, au=au, rbs=rbs, seed=seed, pre=pre)

def random_history(rng, cid, long=False, core=False, tight_prob=0.4):
    role = rng.choice('sc')
    n = rng.randint(1, 60 if long else 7)
    uops = USER_CORE if core else USER_OPS
    # bias towards read so that peer frames get consumed
    ops = [rng.choice(uops) if rng.random() < 0.6 else 'r' for _ in range(n)]
    nreads = sum(1 for o in ops if o == 'r')
    ptoks = PEER_CORE if core else PEER_TOKENS
    peer = [rng.choice(ptoks) for _ in range(nreads)]
    # transport endings are final in reality: cut the peer list after the first EOF/RST (later reads see WouldBlock)
    for i, t in enumerate(peer):
        if t in ('EOF', 'RST', 'UEOF', 'ABRT', 'TMO'):
            peer = peer[:i + 1]
            break
    wpat = rng.choice(list(WRITE_PATTERNS)) if rng.random() < 0.7 else 'accept'
    fpat = rng.choice(list(FLUSH_PATTERNS)) if rng.random() < 0.3 else 'ok'
    wbs = rng.choice([0, 0, 0, 1, 10, 600])
    largest = max([op_frame_size(role, o) for o in ops] + [frame_size(role, 20)])  # 20 = the 1002 'Protocol violation' reply
    if any(t in ('PI124', 'PI125') for t in peer):
        largest = max(largest, frame_size(role, 125))      # the automatic pong is a frame of the history too
    max_ = None
    if rng.random() < tight_prob:
        max_ = max(largest + rng.choice([0, 0, 1, 5, 20]), wbs + 1)
    tail = rng.choice([0, 3, 6])
    line = history(cid, role, ops, peer, wpat, fpat, wbs, max_, tail, seed=rng.randint(0, 2**32 - 1),
                   rbs=rng.choice([0, 1, 2, 5, 14, 64, 4096]), tail_op=rng.choice(['f', 'f', 'r', 'c:-']))
    if rng.random() < 0.25:
        f = line.split(' '); f[8] += '@sc'; line = ' '.join(f)     # configuration installed with set_config at time zero
    return line

def exhaustive_histories(prefix, length, roles='sc', uops=None, ptoks=None, wpats=('accept', 'wb2'), tight=(False, True), tail=4, tail_ops=('f', 'r')):
    """all op sequences of exactly `length` over uops; each read op gets every peer token (cross product)"""
    uops = uops or USER_CORE
    ptoks = ptoks or PEER_CORE
    out = []
    k = 0
    for role in roles:
        for ops in itertools.product(uops, repeat=length):
            nreads = sum(1 for o in ops if o == 'r')
            for peer in itertools.product(ptoks, repeat=nreads):
                # EOF/RST are terminal
                bad = False
                for i, t in enumerate(peer[:-1]):
                    if t in ('EOF', 'RST'):
                        bad = True
                if bad:
                    continue
                for wpat in wpats:
                    for tg in tight:
                        largest = max([op_frame_size(role, o) for o in ops] + [frame_size(role, 20)])
                        for top in tail_ops:
                            out.append(history('%s%d' % (prefix, k), role, ops, peer, wpat, 'ok', 0, largest if tg else None, tail, tail_op=top))
                            k += 1
    return out
