from .e2common import E2Prop
from .c03 import C03
from .. import gen_e2, monitors, ws

class C13(C03):
    id = 'C13'
    required_theorems = []
    def monitor(self, case_line, trace, mline):
        case, ots = self.parse(case_line, trace)
        # tail = number of trailing flush ops
        tail = 0
        for o in reversed(case.ops):
            if o == case.ops[-1] and o in ('f', 'r', 'c:-'): tail += 1
            else: break
        return monitors.mon_c13(case, ots, tail if tail >= 3 else 0)
