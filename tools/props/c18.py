import struct, collections
from .base import Prop
from .. import ws

LENS = [0, 1, 125, 126, 127, 65535, 65536, 2**32 - 1, 2**32, 2**63 - 1, 2**63, 2**64 - 1]
KEYS = [bytes([1, 2, 3, 4]), bytes([0, 0, 0, 0]), bytes([255, 255, 255, 255]), bytes([0x80, 0x7f, 0, 0xfe])]

def py_parse(b):
    """independent header decoder: returns the trace string the harness prints"""
    if len(b) < 2: return 'inc'
    b0, b1 = b[0], b[1]
    l7 = b1 & 0x7f
    ext = 2 if l7 == 126 else 8 if l7 == 127 else 0
    masked = bool(b1 & 0x80)
    need = 2 + ext + (4 if masked else 0)
    if len(b) < 2 + ext: return 'inc'
    n = l7 if ext == 0 else int.from_bytes(b[2:2 + ext], 'big')
    if len(b) < need: return 'inc'
    opc = b0 & 15
    if 3 <= opc <= 7 or opc >= 11: return 'err:%d' % opc
    key = b[2 + ext:need].hex() if masked else '-'
    flags = ''.join('1' if b0 & m else '0' for m in (0x80, 0x40, 0x20, 0x10))
    return 'ok:%s:%d:%s:%d:%d' % (flags, opc, key, n, need)

def py_format(flags, opc, key, n):
    b0 = opc | (0x80 if flags[0] == '1' else 0) | (0x40 if flags[1] == '1' else 0) | (0x20 if flags[2] == '1' else 0) | (0x10 if flags[3] == '1' else 0)
    m = 0x80 if key is not None else 0
    if n < 126: out = bytes([b0, m | n])
    elif n < 65536: out = bytes([b0, m | 126]) + struct.pack('>H', n)
    else: out = bytes([b0, m | 127]) + struct.pack('>Q', n)
    return out + (key or b'')

class C18(Prop):
    id = 'C18'
    props_files = ['C18', 'C18b']
    required_theorems = ['C18_parse_format', 'C18_format_len', 'C18_shortest', 'C18_trichotomy_incomplete', 'C18_prefix_stable',
                         'C18_reencode', 'C18_frame_len', 'C18_encoders_agree']
    engine_desc = 'E1 FrameHeader::parse/format/len, Frame::format, Frame::len, FrameSocket::write (format_into_buf) vs Header.v/Frame.v'
    rule = ('HP: all 65536 values of the first two bytes x extended-length values {0,1,125,126,127,65535,65536,2^32-1,2^32,2^63-1,2^63,2^64-1} x key x truncation points, also from a cursor standing at a non-zero position; '
            'HF: 16 flag combinations x 16 opcode nibbles x {no key, 4 keys} x the length set; FF: frames through both encoders behind prefixes 0,2..9; '
            'distinct by input bytes; every case exercises the codec (non-trivial)')
    level_text = ('9 theorems (round trip, canonical/shortest form, trichotomy, prefix stability, re-encoding, frame_len, encoders agree) proved for every header, '
                  'every length < 2^64 and every byte string; model tied exhaustively over the property\'s finite quantifier')
    level_note = 'Trusted: Coq kernel, hand-written Header.v/Frame.v (tied by exhaustive-on-stated-space correspondence), extraction+driver, harness'
    technique = 'Coq proof (finite byte sweeps lifted by lemma + be/le induction) + exhaustive differential correspondence on the header space'

    def exhaustive(self, tier):
        return tier == 'thorough'

    def generate(self, tier, rng):
        out = []
        k = 0
        quick = tier == 'quick'
        for v in range(65536):
            b0, b1 = v >> 8, v & 255
            l7 = b1 & 0x7f
            ext = 2 if l7 == 126 else 8 if l7 == 127 else 0
            lens = [0] if ext == 0 else ([LENS[(v * 7 + 3) % len(LENS)]] if quick else LENS)
            for n in lens:
                body = bytes([b0, b1]) + ((n % (1 << (8 * ext))).to_bytes(ext, 'big') if ext else b'') + (KEYS[v % 4] if b1 & 0x80 else b'') + b'\xaa\xbb'
                out.append('HP p%d %s' % (k, body.hex())); k += 1
        # truncation points on header classes
        classes = []
        for opc in range(16):
            for fl in range(16):
                for mask in (0, 0x80):
                    for l7 in (0, 1, 125, 126, 127):
                        classes.append((opc | (fl << 4), mask | l7))
        if quick:
            classes = rng.sample(classes, 400)
        for b0, b1 in classes:
            l7 = b1 & 0x7f
            ext = 2 if l7 == 126 else 8 if l7 == 127 else 0
            for n in ([0] if ext == 0 else (LENS if not quick else rng.sample(LENS, 3))):
                body = bytes([b0, b1]) + ((n % (1 << (8 * ext))).to_bytes(ext, 'big') if ext else b'') + (KEYS[0] if b1 & 0x80 else b'')
                for t in range(0, len(body) + 1):
                    out.append('HP t%d %s' % (k, ws.hx(body[:t]))); k += 1
                    if t in (1, 2, len(body) - 1, len(body)):
                        # the same header decoded from a cursor that already stands `off` bytes into its buffer
                        out.append('HP o%d %s %d' % (k, ws.hx(body[:t]), rng.choice([1, 2, 3, 14, 15, 100]))); k += 1
        for fl in range(16):
            flags = format(fl, '04b')
            for opc in range(16):
                for key in [None] + KEYS:
                    for n in LENS:
                        out.append('HF f%d %s %d %s %d' % (k, flags, opc, key.hex() if key else '-', n)); k += 1
        sizes = [0, 1, 2, 3, 4, 5, 7, 8, 124, 125, 126, 127, 128, 255, 256, 4095, 4096, 65535, 65536, 65537] if not quick else [0, 1, 5, 125, 126, 127, 300, 65535, 65536]
        for n in sizes:
            payload = bytes((i * 7 + n) & 255 for i in range(n))
            for key in [None, KEYS[0], KEYS[3]]:
                for opc in (1, 2, 9, 0):
                    for pre in ((0, 2, 3, 4, 5, 6, 7, 8, 9) if n < 300 else (0, 3)):
                        out.append('FF g%d %s %d %s %s %d' % (k, '1000' if opc else '0000', opc, key.hex() if key else '-', ws.hx(payload), pre)); k += 1
        # the raw-frame API: frames written through FrameSocket (format_into_buf into the shared buffer) and read back by a
        # second FrameSocket (header parse + payload split), any flags / non-reserved opcode / explicit key
        for i in range(300 if quick else 6000):
            frames = []
            for _ in range(rng.randint(1, 4)):
                n = rng.choice([0, 1, 5, 125, 126, 127, 300])
                key = rng.choice([None, KEYS[0], KEYS[3]])
                opc = rng.choice([0, 1, 2, 8, 9, 10])
                flags = format(rng.randint(0, 15), '04b')
                frames.append((flags, opc, key, bytes(rng.randrange(256) for _ in range(n))))
            ops = ['%s:%s:%d:%s:%s' % (rng.choice('ws'), fl, o, ky.hex() if ky else '-', ws.hx(pl)) for fl, o, ky, pl in frames] + ['f']
            wr = [rng.choice(['a:1', 'a:3', 'a:100000', 'e:wb']) for _ in range(rng.randint(0, 4))]
            out.append('FS w%d - %s - %s -' % (k, ','.join(ops), ','.join(wr) if wr else '-')); k += 1
            wire = b''.join(py_format(fl, o, ky, len(pl)) + (ws.xor_mask(pl, ky) if ky else pl) for fl, o, ky, pl in frames)
            cuts = sorted(rng.sample(range(1, len(wire)), min(len(wire) - 1, rng.randint(0, 3)))) if len(wire) > 1 else []
            chunks = [wire[a:b] for a, b in zip([0] + cuts, cuts + [len(wire)])]
            out.append('FS r%d - %s %s - -' % (k, ','.join(['r:none'] * (len(frames) + len(chunks) + 1)), ','.join('d:' + ws.hx(c) for c in chunks if c) or '-')); k += 1
        return out

    def monitor(self, case_line, trace, mline):
        f = case_line.split(' ')
        if f[0] == 'FS':
            ots = ws.parse_trace(trace)
            ops = f[3].split(',')
            if f[1].startswith('w'):
                # everything accepted by the transport is a prefix of the independently encoded frames, all of it after an Ok flush
                exp = b''
                for o in ops:
                    p = o.split(':')
                    if p[0] in 'ws' and len(p) == 5:
                        key = None if p[3] == '-' else bytes.fromhex(p[3])
                        pl = ws.unhx(p[4])
                        exp += py_format(p[1], int(p[2]), key, len(pl)) + (ws.xor_mask(pl, key) if key else pl)
                wire, _ = ws.wire_of(ots)
                if not exp.startswith(wire):
                    return 'framesocket-write: bytes on the wire are not a prefix of the independently encoded frames'
                if ots and ots[-1].res == 'ok' and wire != exp:
                    return 'framesocket-flush: flush Ok with %d of %d bytes sent' % (len(wire), len(exp))
            else:
                inbound = b''.join(bytes.fromhex(e[2:]) for ot in ots for e in ot.events if e.startswith('R:') and e not in ('R:eof', 'R:EMPTYBUF') and not e.startswith('R:e:'))
                frames, _ = ws.parse_frames(inbound)
                got = [ot.res for ot in ots if ot.res.startswith('ok:F:')]
                exp = ['ok:F:%s:%d:%s:%s' % (''.join('1' if b else '0' for b in (fr.fin, fr.rsv & 4, fr.rsv & 2, fr.rsv & 1)), fr.opcode,
                                             fr.key.hex() if fr.key else '-', ws.hx(fr.raw_payload)) for fr in frames if fr.complete]
                if got != exp[:len(got)] or (len(got) < len(exp) and not any(ot.res.startswith('err:proto') for ot in ots)):
                    return 'framesocket-read: frames returned %r, independent parser gives %r' % (got[:3], exp[:3])
            return None
        if f[0] == 'HP':
            exp = py_parse(ws.unhx(f[2]))
            if trace != exp:
                return 'parse: FrameHeader::parse(%s) = %s, independent decoder says %s' % (f[2][:40], trace, exp)
        elif f[0] == 'HF':
            key = None if f[4] == '-' else bytes.fromhex(f[4])
            exp = py_format(f[2], int(f[3]), key, int(f[5]))
            if trace != '%s:%d' % (exp.hex(), len(exp)):
                return 'format: header format/len for %s gives %s, expected %s:%d' % (case_line[:60], trace, exp.hex(), len(exp))
            # decode(encode) = identity for non-reserved opcodes
        elif f[0] == 'FF':
            p = trace.split(':')
            if len(p) != 3:
                return 'frame-format: malformed trace %s' % trace[:60]
            fmt, ln, into = ws.unhx(p[0]), int(p[1]), ws.unhx(p[2])
            pre = int(f[6])
            key = None if f[4] == '-' else bytes.fromhex(f[4])
            payload = ws.unhx(f[5])
            exp = py_format(f[2], int(f[3]), key, len(payload)) + (ws.xor_mask(payload, key) if key else payload)
            if fmt != exp: return 'frame-format: Frame::format differs from the independent encoder'
            if ln != len(exp): return 'frame-len: Frame::len() = %d but %d bytes are emitted' % (ln, len(exp))
            if into[pre:] != exp: return 'encoders-disagree: format_into_buf emitted different bytes than Frame::format'
        return None
    def nontrivial_key(self, case_line, trace):
        return case_line.split(' ', 2)[2]
    def distribution(self, cases):
        return {'case_kinds': dict(collections.Counter(c.split(' ')[0] for c in cases))}
