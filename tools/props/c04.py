"""C04: two endpoints joined by a reliable ordered transport (engine E4)."""
import collections, itertools
from .base import Prop
from .. import ws

def action(side, op, chunks=None, wb=0):
    a = '%s;%s' % (side, op)
    if chunks: a += ';d' + '+'.join(str(c) for c in chunks)
    if wb: a += ';w%d' % wb
    return a

def pr_case(cid, actions, wbs=0, max_=None, rbs=4096, seed=7, tail=6):
    return 'PR %s %d %s %d %d %d %s' % (cid, wbs, 'inf' if max_ is None else max_, rbs, seed, tail, ','.join(actions) if actions else '-')

R123 = '61' * 123; R122 = '62' * 122; P125 = '70' * 125; P124 = '71' * 124    # the largest legal control payloads
USER = ['wt:6869', 'wb:000102', 'wpi:70', 'f', 'r', 'c:-', 'c:1000:6279', 'wt:6869', 'f', 'r', 'c:-', 'c:1000:' + R123, 'c:3000:' + R122, 'wpi:' + P125, 'wpi:' + P124, 'wpo:' + P125]

def parse_pair_trace(t):
    out = []
    for a in t.split(' '):
        if not a: continue
        p = a.split(';')
        out.append((p[0], p[1], p[2] if len(p) > 2 else ''))
    return out

class C04(Prop):
    id = 'C04'
    props_files = ['C04', 'C04b']
    engine_desc = ('E4 two real WebSockets (client, server) joined by in-memory reliable ordered byte channels under a deterministic scheduler with a reactive fair tail; '
                   'each endpoint run is replayed on the model as an E2 case (Protocol.run_ops)')
    rule = ('schedules: exhaustive interleavings of {write text, write binary, ping, flush, read, close} on both sides up to a bounded length with byte-granular deliveries (1, 2, all) and write WouldBlock windows, '
            'simultaneous close, close with data/pings in flight, Close reasons of 122/123 bytes and pings of 124/125 bytes (the largest legal control frames), plus randomised long schedules, also with a finite max_write_buffer_size (32..200) and Ping+Close back to back into a blocked writer; each followed by a fair tail (both flush+read everything, drop when told closed); distinct by pair trace')
    level_text = ('two-party close-handshake theorems on Pair.v (the Protocol model composed with reliable FIFO byte channels): safety for all schedules; liveness for the fair-rounds form; '
                  'endpoints tied to the code by E4/E2 correspondence, the channel is the stated assumption (reliable ordered transport)')
    level_note = 'Trusted: Coq kernel, Protocol.v + Pair.v, correspondence; liveness proved for canonical fair rounds (see props file for the exact statement)'
    debug_build_too = False
    impl_only_kinds = ('PR',)

    def generate(self, tier, rng):
        out = []; k = 0
        quick = tier == 'quick'
        deliveries = [None, [1], [2, 3], [1000]]
        # explicit seeds
        seeds = [
            ['c;c:-', 's;c:-'],                                            # simultaneous close
            ['c;wpi:70', 's;r;d1000', 's;c:-'],                            # close with ping outstanding
            ['c;wt:6869', 'c;c:-', 's;wt:6869;w2', 's;c:-'],               # close while a write is blocked
            ['c;wt:6869', 'c;f', 'c;c:1000:6279', 's;wb:000102', 's;f'],
            ['s;wpi:70', 'c;r;d1000', 'c;c:-', 's;r;d1'],
            ['c;c:1000:' + R123], ['s;c:1000:' + R123], ['c;c:3000:' + R122], ['s;c:4999:' + R122],      # Close frames of 124/125 payload bytes
            ['c;c:1000:' + R123, 's;c:1000:' + R122],
            ['c;wpi:' + P125, 's;r;d1000', 's;c:4999:' + R122], ['s;wpi:' + P124, 'c;c:-'], ['s;wpi:' + P125, 'c;r;d1000', 'c;c:-'],
            ['c;wpi:' + P124, 'c;c:-'], ['c;wpo:' + P125, 's;c:-'],
        ]
        for a in seeds:
            for wbs in (0, 600):
                out.append(pr_case('e%d' % k, a, wbs=wbs)); k += 1
        # exhaustive short schedules: sequences of (side, op) of length L
        acts = [(sd, op) for sd in 'cs' for op in ('wt:6869', 'wpi:70', 'f', 'r', 'c:-')]
        for L in ((1, 2, 3) if quick else (1, 2, 3, 4)):
            allseq = list(itertools.product(acts, repeat=L))
            if quick and len(allseq) > 600: allseq = rng.sample(allseq, 600)
            elif len(allseq) > 40000: allseq = rng.sample(allseq, 40000)
            for seq in allseq:
                if not any(op.startswith('c:') for _, op in seq): continue
                d = rng.choice(deliveries)
                out.append(pr_case('x%d' % k, [action(sd, op, d if op == 'r' else None) for sd, op in seq], wbs=rng.choice([0, 0, 600]))); k += 1
        for i in range(300 if quick else 20000):
            n = rng.randint(2, 25)
            a = []
            for _ in range(n):
                sd = rng.choice('cs'); op = rng.choice(USER)
                a.append(action(sd, op, rng.choice(deliveries) if op == 'r' else None, rng.choice([0, 0, 0, 1, 3]) if op != 'r' else 0))
            if not any(';c:' in x for x in a):
                a.append(action(rng.choice('cs'), 'c:-'))
            out.append(pr_case('r%d' % k, a, wbs=rng.choice([0, 1, 600]), rbs=rng.choice([0, 1, 64, 4096]), seed=rng.randint(0, 2**32 - 1), tail=8)); k += 1
        # finite max_write_buffer_size (large enough for the largest single frame of the schedule, as the property requires) with
        # write-side WouldBlock windows: replies parked behind a full buffer when the peer's Ping is followed at once by its Close
        small = ['wt:6869', 'wb:000102', 'wpi:70', 'f', 'r', 'c:-', 'c:1000:6279', 'wb:' + '00' * 20, 'wt:6869', 'r']
        for i in range(300 if quick else 20000):
            n = rng.randint(3, 20)
            a = []
            for _ in range(n):
                sd = rng.choice('cs'); op = rng.choice(small)
                a.append(action(sd, op, rng.choice(deliveries) if op == 'r' else None, rng.choice([0, 0, 1, 2, 4]) if op != 'r' else 0))
            if rng.random() < 0.6:
                # one side sends Ping then Close back to back; the other reads both in one go while its own writes are blocked
                sd = rng.choice('cs'); other = 's' if sd == 'c' else 'c'
                pos = rng.randint(0, len(a))
                a[pos:pos] = [action(other, 'wb:' + '11' * 20, None, 3), action(sd, 'wpi:7071'), action(sd, 'c:-'), action(other, 'r', [1000], 0), action(other, 'r', [1000], 0)]
            if not any(';c:' in x for x in a):
                a.append(action(rng.choice('cs'), 'c:-'))
            out.append(pr_case('m%d' % k, a, wbs=rng.choice([0, 0, 1, 16]), max_=rng.choice([32, 40, 64, 200]), rbs=rng.choice([0, 64, 4096]), seed=rng.randint(0, 2**32 - 1), tail=8)); k += 1
        # simultaneous close: one side's own Close is still parked (its buffer is exactly full behind a blocked transport) when it
        # reads the peer's Close
        for X in 'cs':
            Y = 's' if X == 'c' else 'c'
            fsz = (6 if X == 'c' else 2) + 20
            for blockn in (3, 5, 8):
                for yfirst in (True, False):
                    a = [action(X, 'wb:' + '33' * 20, None, blockn), action(X, 'c:-', None, blockn)]
                    a += [action(Y, 'c:-'), action(Y, 'f')] if yfirst else [action(Y, 'c:1000:6279')]
                    a += [action(X, 'r', [1000], blockn), action(X, 'r', [1000], 0), action(X, 'f')]
                    for mx in (fsz, fsz + 1, fsz + 3):
                        out.append(pr_case('sc%d' % k, a, wbs=0, max_=mx, rbs=4096, seed=7 + k, tail=8)); k += 1
        # the echoed Close (long reason) fits the bound on its own but not beside data stuck behind a blocked transport
        R100 = '61' * 100
        for i in range(60 if quick else 2000):
            closer = rng.choice('cs'); other = 's' if closer == 'c' else 'c'
            a = [action(other, 'wb:' + '22' * rng.choice([20, 40, 60]), None, rng.choice([2, 3, 5])),
                 action(closer, 'c:1000:' + R100), action(other, 'r', [1000], 0), action(other, 'r', [1000], 0)]
            for _ in range(rng.randint(0, 4)):
                sd = rng.choice('cs'); op = rng.choice(['r', 'f', 'wt:6869', 'r'])
                a.insert(rng.randint(0, len(a)), action(sd, op, rng.choice(deliveries) if op == 'r' else None, rng.choice([0, 0, 2]) if op != 'r' else 0))
            out.append(pr_case('lr%d' % k, a, wbs=rng.choice([0, 16]), max_=rng.choice([112, 120, 140, 170]), rbs=rng.choice([64, 4096]), seed=rng.randint(0, 2**32 - 1), tail=8)); k += 1
        return out

    def monitor(self, case_line, trace, mline):
        if not case_line.startswith('PR '):
            return None
        steps = parse_pair_trace(trace)
        told = {}
        dropped = {}
        closed_called = {'c': False, 's': False}
        written = {'c': [], 's': []}     # data messages accepted before the side's Close
        got = {'c': [], 's': []}
        saw_close = {'c': False, 's': False}
        for i, (sd, op, res) in enumerate(steps):
            other = 's' if sd == 'c' else 'c'
            if op == 'drop':
                dropped.setdefault(sd, i); continue
            if res.startswith('err:proto:') and res != 'err:proto:SendAfterClosing':
                # a reset is legitimate only if the peer dropped the transport without this side having been told closed? the
                # property: peers drop only after being told closed, so neither side ever sees a protocol error
                return 'protocol-error: side %s op %s -> %s' % (sd, op, res)
            if 'panic' in res:
                return 'panic: %s' % res
            if res == 'err:closed' and sd not in told:
                told[sd] = i
                if sd == 'c' and 's' not in dropped:
                    return 'client-closed-before-transport-end: client told ConnectionClosed at step %d before the server dropped the transport' % i
            if op.startswith('c:') or op.startswith('wc:'):
                closed_called[sd] = True
            if (op.startswith('wt:') or op.startswith('wb:')) and not closed_called[sd] and (res == 'ok' or res.startswith('err:io')):
                written[sd].append(op.split(':')[0][1].upper() + ':' + op.split(':')[1])
            if op == 'r' and (res.startswith('ok:T:') or res.startswith('ok:B:')):
                if saw_close[sd]:
                    return 'message-after-close: side %s read %s after a Close' % (sd, res[:30])
                got[sd].append(res[3:])
            if op == 'r' and res.startswith('ok:C'):
                saw_close[sd] = True
        f = case_line.split(' ')
        tail = int(f[6])
        any_close = any(closed_called.values())
        if tail >= 6 and any_close:
            for sd in 'cs':
                if sd not in told:
                    return 'not-closed: side %s was never told ConnectionClosed after %d fair rounds (trace tail: %s)' % (sd, tail, ' '.join(';'.join(x) for x in steps[-6:]))
            if told['s'] > told['c']:
                return 'order: client told closed before the server'
        for sd in 'cs':
            other = 's' if sd == 'c' else 'c'
            if got[sd] != written[other][:len(got[sd])]:
                return 'delivery-order: side %s read %r, peer wrote %r' % (sd, got[sd][:5], written[other][:5])
            if saw_close[sd] and tail >= 6 and got[sd] != written[other]:
                # everything written (and flushed by the tail) before the sender's close is delivered before the Close
                return 'lost-before-close: side %s saw Close after %d of %d messages' % (sd, len(got[sd]), len(written[other]))
        return None

    def nontrivial_key(self, case_line, trace):
        return hash(trace)
    def distribution(self, cases):
        lens = collections.Counter(min(len(c.split(' ')[7].split(',')) // 5 * 5, 30) for c in cases)
        return {'schedules': len(cases), 'schedule_len_buckets': {str(k): v for k, v in sorted(lens.items())}}
