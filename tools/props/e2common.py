"""Shared pieces of the socket-history properties."""
import collections
from .base import Prop
from .. import ws, gen_e2

class E2Prop(Prop):
    engine_desc = 'E2 WebSocket::{read,write,flush,close,can_read,can_write,set_config} vs Protocol.run_ops'
    debug_build_too = True
    quick_random = 3000
    thorough_random = 150000

    def corpus(self):
        import os
        from .. import build
        p = os.path.join(build.ROOT, 'corpus', 'e2.txt')
        out = []
        if os.path.exists(p):
            for line in open(p):
                line = line.strip()
                if line and not line.startswith('#'):
                    out.append(line)
        return out

    def parse(self, case_line, trace):
        case, ots = ws.SCase(case_line), ws.parse_trace(trace)
        if any(o.startswith('sn:') for o in case.ops):
            # no-op set_config calls (see main.perturb_noop_config) are invisible to the monitors; that they answer `ok`
            # without touching the transport is checked by the correspondence with the model
            keep = [i for i, o in enumerate(case.ops) if not o.startswith('sn:')]
            if len(ots) == len(case.ops):
                ots = [ots[i] for i in keep]
            case.ops = [case.ops[i] for i in keep]
        return case, ots

    def nontrivial_key(self, case_line, trace):
        # distinct by the canonical trace; non-trivial = at least one transport event and one non-WouldBlock result
        if ' R:' not in trace and ' W:' not in trace:
            return None
        return hash(trace)

    def distribution(self, cases):
        d = collections.Counter(); roles = collections.Counter(); nops = collections.Counter(); tight = 0
        opk = collections.Counter()
        for c in cases:
            f = c.split(' ')
            if f[0] != 'S':
                d[f[0]] += 1; continue
            roles[f[2]] += 1
            ops = f[11].split(',') if f[11] != '-' else []
            nops[min(len(ops) // 5 * 5, 60)] += 1
            for o in ops:
                opk[o.split(':')[0]] += 1
            if f[4] != 'inf': tight += 1
        return {'roles': dict(roles), 'ops_len_buckets': {str(k): v for k, v in sorted(nops.items())},
                'op_kinds': dict(opk), 'tight_max_write_buffer': tight, 'other_kinds': dict(d)}
