"""Base class of a property check definition."""
import collections

class Prop:
    id = None
    required_theorems = []        # pinned theorem names that must exist in props/<id>.v
    allowed_axioms = []           # names allowed in Print Assumptions output (empty: must be closed)
    trusted_extra = []
    assumptions = []
    partial = ''                  # what the theorems cannot carry (runtime facts), stated in evidence
    rule = ''
    engine_desc = ''
    debug_build_too = False
    level_text = ''
    level_note = ''
    technique = 'Coq proof over a Gallina model + differential correspondence with the Rust implementation'

    def generate(self, tier, rng):
        raise NotImplementedError
    def exhaustive(self, tier):
        return False
    proto_class_only = False      # compare Protocol errors by class, not by variant (the property does not name the variant)

    def project(self, case_line, trace):
        """observables the property's theorems depend on; default: everything"""
        if self.proto_class_only:
            import re
            return re.sub(r'err:proto:[A-Za-z]+(:[0-9a-f]+)?', 'err:proto', trace)
        return trace
    def monitor(self, case_line, impl_trace, mline):
        """independent oracle on the implementation's trace: None or a description of the violated clause"""
        return None
    def signature(self, case_line, impl_trace, violation):
        return violation.split(':')[0]
    def nontrivial_key(self, case_line, trace):
        return case_line.split(' ', 2)[2] if ' ' in case_line else None
    def distribution(self, cases):
        kinds = collections.Counter(c.split(' ')[0] for c in cases)
        return {'case_kinds': dict(kinds)}
