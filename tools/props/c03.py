from .e2common import E2Prop
from .. import gen_e2, monitors, ws

class C03(E2Prop):
    id = 'C03'
    required_theorems = []
    rule = ('socket histories: corpus first, then bounded-exhaustive op sequences (quick: all of length 2 + a sample of length 3; thorough: ALL of length <= 4 over {read, write text, write ping, write pong, flush, close, can_read, can_write} x 7 peer tokens per read x 3 write patterns x tight/unlimited buffer x flush/read tails x both roles) (user ops x peer token per read x write pattern x tight/unlimited buffer) '
            'and seeded random histories up to 60 ops; distinct by canonical trace, non-trivial = at least one transport event')
    level_text = 'close-handshake safety invariants proved over the Protocol model for all op lists and all transport oracles; model tied by differential histories'
    level_note = 'Trusted: Coq kernel, hand-written Protocol.v/Codec.v, correspondence generators; monitors are an independent second opinion'

    def generate(self, tier, rng):
        cases = list(self.corpus())
        ex = gen_e2.exhaustive_histories('x', 2) + (gen_e2.exhaustive_histories('y', 3) if tier == 'thorough' else [])
        if tier == 'thorough':
            ex4 = gen_e2.exhaustive_histories('z', 4, wpats=('accept', 'wb2', 'wb4'), ptoks=['T', 'PI', 'C1000', 'C1005', 'CG', 'EOF', 'WB'])
            ex += ex4          # complete: every op sequence of length 4 x every peer token per read x write pattern x buffer bound
        if tier == 'quick':
            ex3 = gen_e2.exhaustive_histories('y', 3)
            ex += rng.sample(ex3, min(len(ex3), 4000))
        cases += ex
        n = self.quick_random if tier == 'quick' else self.thorough_random
        for i in range(n):
            cases.append(gen_e2.random_history(rng, 'r%d' % i, long=(i % 3 == 0), core=(i % 2 == 0)))
        # a pong still parked (momentarily full buffer on a blocked transport) when the peer's Close arrives, then the transport recovers
        k = 0
        for role in 'sc':
            for code, reason in ((1000, b''), (1005, b''), (3000, b'bye')):
                data = bytes(range(16))
                fsz = gen_e2.frame_size(role, 16)
                fr = gen_e2.peer_frame(role, 8, gen_e2.close_payload(code, reason))
                ping = gen_e2.peer_frame(role, 9, b'pp')
                reply = (2 + len(reason)) if ws.close_allowed(code) else 20
                for together in (True, False):
                    rds = ['d:' + ws.hx(ping + fr)] if together else ['d:' + ws.hx(ping), 'd:' + ws.hx(fr)]
                    for mx in (fsz, fsz + 3, fsz + 30):
                        for tail_op in ('f', 'r'):
                            cases.append(ws.scase_line('pp%d' % k, role, ['wb:' + ws.hx(data), 'r', 'r'] + [tail_op] * 5, rds, ['e:wb', 'e:wb', 'e:wb'], [],
                                                       max_=max(mx, gen_e2.frame_size(role, reply)))); k += 1
        for role in 'sc':
            data = bytes(range(16)); fsz = gen_e2.frame_size(role, 16)
            for tok in ('PI', 'PI125', 'PI0'):
                psz = gen_e2.frame_size(role, {'PI': 2, 'PI125': 125, 'PI0': 0}[tok])
                for mx in (max(fsz, psz), fsz + 1, fsz + psz - 1):
                    if mx < psz: continue
                    cases.append(gen_e2.history('pq%d' % k, role, ['wb:' + ws.hx(data), 'r', 'r'], [tok, 'WB'], 'wb3', 'ok', 0, mx, tail=1)); k += 1
        # re-id uniquely
        out = []
        for k, c in enumerate(cases):
            f = c.split(' '); f[1] = 'k%d' % k; out.append(' '.join(f))
        return out

    def monitor(self, case_line, trace, mline):
        case, ots = self.parse(case_line, trace)
        return monitors.mon_c03(case, ots)
