import collections
from .base import Prop
from .. import ws

class C19(Prop):
    id = 'C19'
    required_theorems = ['C19_fast_is_spec', 'C19_pointwise', 'C19_involution', 'C19_in_place', 'C19_in_place_read']
    engine_desc = 'E1 apply_mask via Frame::format, FrameSocket::write (format_into_buf in the shared out_buffer) and the server read path vs Mask.mask_fast32 / xor_cyc'
    rule = ('lengths 0..=67 x 8 start alignments (prefix 0,2..9 bytes in out_buffer / consumed bytes in in_buffer) x keys (v,v+1,v+2,v+3) for all 256 v plus one-hot keys x three routes (the read route also with the frame cut at every position of its header and key); '
            'model evaluated with every p in 0..3; distinct by (route, key, payload); non-trivial when length > 0')
    level_text = ('mask_fast32 p key buf = xor_cyc key buf proved for EVERY p, key and buffer (bytes < 256), pointwise/involution/in-place corollaries; '
                  'correspondence exhaustive over the property\'s finite quantifier in the thorough tier')
    level_note = 'Trusted: Coq kernel, Mask.v, extraction, harness. Memory safety of the unsafe align_to_mut and "no byte outside the slice" are runtime facts: supported by neighbour comparison in the harness only (partial).'
    partial = 'memory safety of the unsafe block / bytes outside the slice in machine memory; big-endian branch is dead on this target and not exercised'
    technique = 'Coq proof (bit-level word/byte lemmas) + differential correspondence over lengths x alignments x keys x routes'
    def exhaustive(self, tier):
        return tier == 'thorough'
    def generate(self, tier, rng):
        out = []; k = 0
        quick = tier == 'quick'
        keys = [bytes([(v + i) & 255 for i in range(4)]) for v in range(256)]
        for pos in range(4):
            for v in (1, 2, 4, 8, 16, 32, 64, 128, 255):
                kk = [0, 0, 0, 0]; kk[pos] = v; keys.append(bytes(kk))
        routes = ['fmt'] + ['wr%d' % a for a in (0, 2, 3, 4, 5, 6, 7, 8, 9)] + ['rd%d' % a for a in (0, 2, 3, 4, 5, 6, 7, 8, 9)] + \
                 ['rd%dc%d' % (a, c) for a in (0, 3) for c in (1, 2, 3, 4, 5, 6, 7, 9)] + \
                 ['wr%do%d' % (a, o) for a in (0, 2, 3, 5) for o in (1, 2, 3, 5)] + \
                 ['rd%dp' % a for a in (0, 2, 3, 5)] + \
                 ['rd%dt%d_%d' % (a, c1, c2) for a in (0, 3) for (c1, c2) in ((7, 8), (7, 9), (8, 9), (9, 11), (7, 10), (10, 13), (9, 12), (11, 30), (6, 7), (3, 9))] + \
                 ['rd%dw%d' % (a, c) for a in (0, 3) for c in (1, 2, 3, 4, 5, 6, 7, 8, 9, 12, 20, 40)]      # wr<k>o<off>: the source payload is a Bytes slice starting off bytes into its allocation; t: three reads with WouldBlock in between; p: the bytes are handed over at construction (from_partially_read); the frame arrives in two reads (c: back to back, w: WouldBlock in between), cut inside its header / key / payload
        lens = list(range(0, 68)) + [68, 69, 70, 71, 72, 127, 128, 129, 130, 131, 255, 256, 257, 1023, 1024, 1025, 4095, 4096, 4097] + ([65535, 65536, 65537] if not quick else [65537])
        for n in lens:
            payload = bytes((i * 37 + n * 11 + 5) & 255 for i in range(n))
            for r in routes:
                ks = (keys if n < 68 else rng.sample(keys, 6)) if not quick else rng.sample(keys, 3 if n < 68 else 1)
                for key in ks:
                    out.append('MK m%d %s %d %s %s' % (k, r, k % 4, key.hex(), ws.hx(payload))); k += 1
        return out
    def monitor(self, case_line, trace, mline):
        f = case_line.split(' ')
        key = bytes.fromhex(f[4]); payload = ws.unhx(f[5])
        exp = ws.hx(ws.xor_mask(payload, key))
        if trace != exp:
            return 'xor: route %s key %s len %d: got %s expected %s' % (f[2], f[4], len(payload), trace[:40], exp[:40])
        return None
    def nontrivial_key(self, case_line, trace):
        f = case_line.split(' ')
        return None if f[5] == '-' else (f[2], f[4], f[5])
    def distribution(self, cases):
        return {'routes': dict(collections.Counter(c.split(' ')[2] for c in cases)), 'lengths': '0..=67 exhaustively, plus 68-72, 127-131, 255-257, 1023-1025, 4095-4097, 65535-65537'}
